// appended to air/tests/test_module/negative_tests/uncatchable_trace_related.rs in a scratch copy;
// run: cargo test -p aquavm-air --features air-test-utils/test_with_native_code --offline --test test_module verif_f
#[tokio::test]
async fn verif_f1_slider_overflow_replay() {
    let vm_peer_id_1 = "vm_peer_id_1";
    let arg = json!([42, 43]);
    let mut peer_vm_1 = create_avm(set_variable_call_service(arg), vm_peer_id_1).await;
    let script = format!(
        r#"
        (par
            (call "vm_peer_id_1" ("" "") [] $s)
            (fold $s i
                (call "vm_peer_id_2" ("" "") [] a)
                (next i)
            )
        )
    "#
    );
    let mut cid_state = ExecutionCidState::new();
    let trace = vec![
        executed_state::par(1, 2),
        stream_tracked!(json!([42, 43]), 0, cid_state, peer = vm_peer_id_1),
        executed_state::fold(vec![executed_state::subtrace_lore(
            1,
            subtrace_desc(4294967295u32, 1),
            subtrace_desc(4, 0),
        )]),
        request_sent_by("vm_peer_id_1"),
    ];
    let wrong_data = raw_data_from_trace(trace, cid_state);
    let result = call_vm!(peer_vm_1, <_>::default(), script, wrong_data, "");
    println!("ret_code = {}", result.ret_code);
}


#[tokio::test]
async fn verif_f3_generation_overflow_replay() {
    let vm_peer_id_1 = "vm_peer_id_1";
    let arg = json!([42, 43]);
    let mut peer_vm_1 = create_avm(set_variable_call_service(arg), vm_peer_id_1).await;
    let script = r#"(call "vm_peer_id_1" ("" "") [] $s)"#.to_string();
    let mut cid_state = ExecutionCidState::new();
    let trace = vec![
        stream_tracked!(json!([42, 43]), 4294967295u32, cid_state, peer = vm_peer_id_1),
    ];
    let wrong_data = raw_data_from_trace(trace, cid_state);
    let result = call_vm!(peer_vm_1, <_>::default(), script, wrong_data, "");
    println!("ret_code = {}", result.ret_code);
}


#[tokio::test]
async fn verif_f2_slider_underflow_replay() {
    let vm_peer_id_1 = "vm_peer_id_1";
    let arg = json!([42, 43]);
    let mut peer_vm_1 = create_avm(set_variable_call_service(arg), vm_peer_id_1).await;
    let script = format!(
        r#"
        (par
            (call "vm_peer_id_1" ("" "") [] $s)
            (fold $s i
                (par
                    (call "vm_peer_id_2" ("" "") [] a)
                    (next i)
                )
            )
        )
    "#
    );
    let mut cid_state = ExecutionCidState::new();
    let trace = vec![
        executed_state::par(1, 1),
        stream_tracked!(json!([42, 43]), 0, cid_state, peer = vm_peer_id_1),
        executed_state::fold(vec![executed_state::subtrace_lore(
            1,
            subtrace_desc(4294967295u32, 0),
            subtrace_desc(4294967295u32, 0),
        )]),
    ];
    let wrong_data = raw_data_from_trace(trace, cid_state);
    let result = call_vm!(peer_vm_1, <_>::default(), script, wrong_data, "");
    println!("ret_code = {} {}", result.ret_code, result.error_message);
}
