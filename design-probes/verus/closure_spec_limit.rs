use vstd::prelude::*;
verus! {
fn f(a: u32, b: u32, c: u32) -> (r: Option<u32>)
    ensures r matches Some(x) ==> x == a + b + c,
            r is None ==> a + b + c > u32::MAX,
{
    a.checked_add(b).and_then(|v| v.checked_add(c))
}
fn g(a: u32, b: u32, c: u32) -> (r: Option<u32>)
    ensures r matches Some(x) ==> x == a + b + c,
{
    a.checked_add(b).and_then(|v: u32| -> (o: Option<u32>) ensures o == v.checked_add(c) { v.checked_add(c) })
}
}
fn main() {}
