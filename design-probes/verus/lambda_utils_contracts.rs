use vstd::prelude::*;
verus! {

use std::rc::Rc;
pub struct Number { pub n: u64, pub is_u64: bool }
impl Number {
    pub fn as_u64(&self) -> (r: Option<u64>) ensures r == (if self.is_u64 { Some(self.n) } else { None::<u64> })
    { if self.is_u64 { Some(self.n) } else { None } }
}
impl Clone for Number { fn clone(&self) -> (r: Self) ensures r == *self { Number { n: self.n, is_u64: self.is_u64 } } }



#[verifier::external_body]
pub struct RcSliceJ { x: u8 }
#[verifier::external_body]
pub struct JMap { x: u8 }

pub enum JValue { Null, Bool(bool), Number(Number), String(Rc<str>), Array(RcSliceJ), Object(Rc<JMap>) }
impl JValue {
    #[verifier::external_body] pub fn clone(&self) -> (r: Self) ensures r == *self { unimplemented!() }
}
pub uninterp spec fn arr_view(a: &RcSliceJ) -> Seq<JValue>;
pub uninterp spec fn map_view(m: &JMap) -> Map<Seq<char>, JValue>;
impl RcSliceJ {
    #[verifier::external_body]
    pub fn get(&self, i: usize) -> (r: Option<&JValue>)
        ensures r == (if i < arr_view(self).len() { Some(&arr_view(self)[i as int]) } else { None::<&JValue> })
    { unimplemented!() }
}
impl JMap {
    #[verifier::external_body]
    pub fn get(&self, k: &str) -> (r: Option<&JValue>)
        ensures r == (if map_view(self).dom().contains(k@) { Some(&map_view(self)[k@]) } else { None::<&JValue> })
    { unimplemented!() }
}
pub enum LambdaError {
    ValueNotContainSuchArrayIdx { value: JValue, idx: u32 },
    ArrayAccessorNotMatchValue { value: JValue, idx: u32 },
    ValueNotContainSuchField { value: JValue, field_name: String },
    FieldAccessorNotMatchValue { value: JValue, field_name: String },
    IndexAccessNotU32 { accessor: Number },
}
type LambdaResult<T> = Result<T, LambdaError>;
pub mod serde_json { pub use super::Number; }
#[verifier::external_body] pub fn str_to_string(s: &str) -> String { unimplemented!() }
pub open spec fn step_idx(v: JValue, i: u32) -> Option<JValue> {
    match v { JValue::Array(a) => if (i as int) < arr_view(&a).len() { Some(arr_view(&a)[i as int]) } else { None }, _ => None }
}
pub open spec fn step_field(v: JValue, k: Seq<char>) -> Option<JValue> {
    match v { JValue::Object(m) => if map_view(&*m).dom().contains(k) { Some(map_view(&*m)[k]) } else { None }, _ => None }
}
pub fn try_jvalue_with_idx(jvalue: &JValue, idx: u32) -> (r: LambdaResult<&JValue>)
    ensures (r matches Ok(v) ==> step_idx(*jvalue, idx) == Some(*v)),
            (r is Err ==> step_idx(*jvalue, idx) is None),
{
    match jvalue {
        JValue::Array(values) => values
            .get(idx as usize)
            .ok_or_else(|| LambdaError::ValueNotContainSuchArrayIdx {
                value: jvalue.clone(),
                idx,
            }),
        _ => Err(LambdaError::ArrayAccessorNotMatchValue {
            value: jvalue.clone(),
            idx,
        }),
    }
}

pub fn try_jvalue_with_field_name<'value>(
    jvalue: &'value JValue,
    field_name: &str,
) -> (r: LambdaResult<&'value JValue>)
    ensures (r matches Ok(v) ==> step_field(*jvalue, field_name@) == Some(*v)),
            (r is Err ==> step_field(*jvalue, field_name@) is None),
{
    match jvalue {
        JValue::Object(values_map) => values_map
            .get(field_name)
            .ok_or_else(|| LambdaError::ValueNotContainSuchField {
                value: jvalue.clone(),
                field_name: str_to_string(field_name),
            }),
        _ => Err(LambdaError::FieldAccessorNotMatchValue {
            value: jvalue.clone(),
            field_name: str_to_string(field_name),
        }),
    }
}

fn try_number_to_u32(accessor: &serde_json::Number) -> (r: LambdaResult<u32>)
    ensures (r matches Ok(v) ==> accessor.is_u64 && accessor.n == v),
            (r is Err ==> !(accessor.is_u64 && accessor.n <= u32::MAX)),
{
    accessor
        .as_u64()
        .and_then(|v| u32::try_from(v).ok())
        .ok_or(LambdaError::IndexAccessNotU32 {
            accessor: accessor.clone(),
        })
}

}
fn main() {}
