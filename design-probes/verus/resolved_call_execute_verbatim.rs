use vstd::prelude::*;
verus! {

use std::rc::Rc;
pub type CidRef = str;
pub struct SecurityTetraplet { pub peer_pk: String }
pub type RcSecurityTetraplet = Rc<SecurityTetraplet>;
pub struct Call<'i> { pub x: &'i u8 }
pub struct JValue { pub x: u8 }
pub struct CidV { pub x: u8 }
impl CidV { #[verifier::external_body] pub fn get_inner(&self) -> Rc<CidRef> { unimplemented!() } }
#[verifier::external_body] pub fn value_to_json_cid(v: &Vec<JValue>) -> (r: Result<CidV, u8>) ensures r is Ok { unimplemented!() }
pub struct ExecutionError { pub joinable: bool }
impl ExecutionError { pub fn is_joinable(&self) -> (r: bool) ensures r == self.joinable { self.joinable } }
type ExecutionResult<T> = Result<T, ExecutionError>;
pub enum CheckArgsResult<T> { Ok(T), Joinable(ExecutionError) }
pub enum CallResult { Sent(Rc<String>, u32), Other }
impl CallResult { pub fn sent_peer_id_with_call_id(p: Rc<String>, id: u32) -> (r: CallResult) ensures r == CallResult::Sent(p, id) { CallResult::Sent(p, id) } }
pub struct StateDescriptor { pub should_execute: bool, pub prev_state: Option<CallResult> }
impl StateDescriptor {
    pub fn should_execute(&self) -> (r: bool) ensures r == self.should_execute { self.should_execute }
    #[verifier::external_body] pub fn maybe_set_prev_state(self, t: &mut TraceHandler) ensures final(t).req_log() == old(t).req_log() { unimplemented!() }
}
pub struct CallRequestParams { pub x: u8 }
pub struct CallRequests { pub x: u8 }
impl CallRequests { #[verifier::external_body] pub fn insert(&mut self, id: u32, p: CallRequestParams) { unimplemented!() } }
pub struct RunParams { pub current_peer_id: Rc<String> }
pub struct ExecutionCtx<'i> { pub run_parameters: RunParams, pub call_requests: CallRequests, pub ph: core::marker::PhantomData<&'i u8> }
impl<'i> ExecutionCtx<'i> {
    #[verifier::external_body] pub fn next_call_request_id(&mut self) -> u32 { unimplemented!() }
    #[verifier::external_body] pub fn make_subgraph_incomplete(&mut self) { unimplemented!() }
}
pub struct TraceHandler { pub x: u8 }
impl TraceHandler {
    pub uninterp spec fn req_log(&self) -> int;
    #[verifier::external_body] pub fn meet_call_end(&mut self, c: CallResult) { unimplemented!() }
}
#[verifier::external_body] pub fn handle_remote_call(peer_pk: String, exec_ctx: &mut ExecutionCtx<'_>, trace_ctx: &mut TraceHandler) { unimplemented!() }
pub struct ResolvedCall<'i> { pub tetraplet: RcSecurityTetraplet, pub ph: core::marker::PhantomData<&'i u8> }
impl<'i> ResolvedCall<'i> {
    #[verifier::external_body] fn check_args(&self, exec_ctx: &ExecutionCtx<'i>) -> ExecutionResult<CheckArgsResult<Vec<JValue>>> { unimplemented!() }
    #[verifier::external_body] fn prepare_current_executed_state(&self, raw_call: &Call<'i>, argument_hash: Option<&Rc<str>>, exec_ctx: &mut ExecutionCtx<'i>, trace_ctx: &mut TraceHandler) -> ExecutionResult<StateDescriptor> { unimplemented!() }
    #[verifier::external_body] fn prepare_request_params(&self, exec_ctx: &ExecutionCtx<'_>, tetraplet: &SecurityTetraplet) -> ExecutionResult<CallRequestParams> { unimplemented!() }
}
impl<'i> ResolvedCall<'i> {


    pub fn execute(
        &self,
        raw_call: &Call<'i>,
        exec_ctx: &mut ExecutionCtx<'i>,
        trace_ctx: &mut TraceHandler,
    ) -> ExecutionResult<()> {





        let checked_args = match self.check_args(exec_ctx)? {
            CheckArgsResult::Ok(args) => Some(args),
            CheckArgsResult::Joinable(_) => None,
        };
        let argument_hash: Option<Rc<CidRef>> =
            checked_args.map(|args| value_to_json_cid(&args).expect("serializer shouldnt fail").get_inner());

        let state = self.prepare_current_executed_state(raw_call, argument_hash.as_ref(), exec_ctx, trace_ctx)?;

        if !state.should_execute() {
            state.maybe_set_prev_state(trace_ctx);
            return Ok(());
        }

        let tetraplet = &self.tetraplet;
        if tetraplet.peer_pk.as_str() != exec_ctx.run_parameters.current_peer_id.as_str() {
            handle_remote_call(tetraplet.peer_pk.clone(), exec_ctx, trace_ctx);
            return Ok(());
        }


        let request_params = match self.prepare_request_params(exec_ctx, tetraplet) {
            Ok(params) => params,
            Err(e) if e.is_joinable() => {

                state.maybe_set_prev_state(trace_ctx);
                return Err(e);
            }
            Err(e) => {
                return Err(e);
            }
        };

        let call_id = exec_ctx.next_call_request_id();

        exec_ctx.call_requests.insert(call_id, request_params);

        exec_ctx.make_subgraph_incomplete();
        trace_ctx.meet_call_end(CallResult::sent_peer_id_with_call_id(
            exec_ctx.run_parameters.current_peer_id.clone(),
            call_id,
        ));

        Ok(())
    }

}

}
fn main() {}
