import re
KEEP={'Default','Clone','Copy','PartialEq','Eq'}
def clean(body):
    def der(m):
        items=[x.strip() for x in m.group(2).split(',')]
        keep=[x for x in items if x in KEEP]
        return (m.group(1)+'#[derive('+', '.join(keep)+')]') if keep else ''
    body=re.sub(r'^(\s*)#\[derive\(([^\)]*)\)\]\s*$',der,body,flags=re.M)
    body=re.sub(r'^\s*#\[(?!derive)[^\]]*\]\s*$','',body,flags=re.M)
    body=re.sub(r'^\s*//.*$','',body,flags=re.M)
    body=body.replace('pub(crate) ','pub ').replace('pub(super) ','pub ')
    body=re.sub(r'^\s*debug_assert!\(.*\);\s*$','',body,flags=re.M)
    body=re.sub(r'^\s*assert!\(std::mem::size_of.*\);\s*$','',body,flags=re.M)
    body=re.sub(r'^use .*;$','',body,flags=re.M)
    body=re.sub(r'^mod .*;$','',body,flags=re.M)
    return body
