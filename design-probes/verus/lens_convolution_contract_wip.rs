use vstd::prelude::*;
verus! {

pub type FoldStatesCount = u32;
#[derive(Clone, Copy, PartialEq, Eq)]
pub struct GenerationIdx(pub u32);
impl From<usize> for GenerationIdx { fn from(v: usize) -> GenerationIdx { GenerationIdx(v as u32) } }
#[derive(Clone, Copy)]
pub struct TracePos(pub u32);
#[derive(Clone, Copy)]
pub struct SubTraceDesc { pub begin_pos: TracePos, pub subtrace_len: u32 }
#[derive(Clone)]
pub struct FoldSubTraceLore { pub value_pos: TracePos, pub subtraces_desc: Vec<SubTraceDesc> }
#[derive(Clone)]
pub struct FoldResult { pub lore: Vec<FoldSubTraceLore> }
pub enum FoldResultError {
    SubtraceLenOverflow { fold_result: FoldResult, count: usize },
    FoldIncorrectSubtracesCount(usize),
}
pub enum MergeError { IncorrectFoldResult(FoldResultError), KeeperError }
impl From<FoldResultError> for MergeError { fn from(e: FoldResultError) -> Self { MergeError::IncorrectFoldResult(e) } }
type MergeResult<T> = Result<T, MergeError>;
pub struct MergeCtx { pub x: u8 }
impl MergeCtx {
    #[verifier::external_body]
    pub fn try_get_generation(&self, position: TracePos) -> MergeResult<GenerationIdx> { unimplemented!() }
}

pub open spec fn sum_bl(l: Seq<LoresLen>, lo: int, hi: int) -> int
    decreases hi - lo
{ if lo >= hi { 0 } else { sum_bl(l, lo, hi - 1) + l[hi - 1].before_len as int } }

proof fn lemma_sum_bl_nonneg(l: Seq<LoresLen>, lo: int, hi: int)
    ensures sum_bl(l, lo, hi) >= 0
    decreases hi - lo
{ if lo < hi { lemma_sum_bl_nonneg(l, lo, hi - 1); } }

proof fn lemma_sum_bl_split(l: Seq<LoresLen>, lo: int, mid: int, hi: int)
    requires lo <= mid <= hi
    ensures sum_bl(l, lo, hi) == sum_bl(l, lo, mid) + sum_bl(l, mid, hi)
    decreases hi - mid
{ if mid < hi { lemma_sum_bl_split(l, lo, mid, hi - 1); } }

proof fn lemma_sum_bl_first(l: Seq<LoresLen>, lo: int, hi: int)
    requires lo < hi
    ensures sum_bl(l, lo, hi) == l[lo].before_len as int + sum_bl(l, lo + 1, hi)
    decreases hi - lo
{ if lo + 1 < hi { lemma_sum_bl_first(l, lo, hi - 1); } }

proof fn lemma_sum_bl_ext(a: Seq<LoresLen>, b: Seq<LoresLen>, lo: int, hi: int)
    requires forall|k: int| lo <= k < hi ==> a[k].before_len == b[k].before_len
    ensures sum_bl(a, lo, hi) == sum_bl(b, lo, hi)
    decreases hi - lo
{ if lo < hi { lemma_sum_bl_ext(a, b, lo, hi - 1); } }

fn compute_lens_convolution(fold: &FoldResult, merge_ctx: &MergeCtx) -> MergeResult<(FoldStatesCount, Vec<LoresLen>)> {
    let subtraces_count = fold.lore.len();
    let mut lens = Vec::with_capacity(subtraces_count);
    let mut fold_states_count: FoldStatesCount = 0;
    let mut last_seen_generation = GenerationIdx::from(0);
    let mut last_seen_generation_pos = 0;
    let mut cum_after_len = 0;

    for subtrace_id in 0..subtraces_count {
        let subtrace_lore = &fold.lore[subtrace_id];
        check_subtrace_lore(subtrace_lore)?;

        let current_generation = merge_ctx.try_get_generation(subtrace_lore.value_pos)?;

        if last_seen_generation != current_generation {
            if subtrace_id > 0 {

                compute_before_lens(&mut lens, last_seen_generation_pos, subtrace_id - 1);
            }
            last_seen_generation = current_generation;
            last_seen_generation_pos = subtrace_id;
            cum_after_len = 0;
        }

        let before_len = subtrace_lore.subtraces_desc[0].subtrace_len;
        let after_len = subtrace_lore.subtraces_desc[1].subtrace_len;

        fold_states_count = fold_states_count
            .checked_add(before_len)
            .and_then(|v| v.checked_add(after_len))
            .ok_or_else(|| FoldResultError::SubtraceLenOverflow {
                fold_result: fold.clone(),
                count: subtrace_id,
            })?;

        cum_after_len += after_len;

        let new_lens = LoresLen::new(before_len, cum_after_len);
        lens.push(new_lens);
    }

    if subtraces_count > 0 {
        compute_before_lens(&mut lens, last_seen_generation_pos, subtraces_count - 1);
    }

    Ok((fold_states_count, lens))
}

fn compute_before_lens(lore_lens: &mut [LoresLen], begin_pos: usize, end_pos: usize)
    requires
        begin_pos <= end_pos < old(lore_lens)@.len(),
        sum_bl(old(lore_lens)@, begin_pos as int, end_pos + 1) + old(lore_lens)@[end_pos as int].after_len <= u32::MAX,
    ensures
        final(lore_lens)@.len() == old(lore_lens)@.len(),
        forall|i: int| 0 <= i < old(lore_lens)@.len() && !(begin_pos <= i <= end_pos) ==> final(lore_lens)@[i] == old(lore_lens)@[i],
        forall|i: int| begin_pos <= i <= end_pos ==> final(lore_lens)@[i].after_len == old(lore_lens)@[i].after_len,
{
    let mut cum_before_len = 0;
    let after_len = lore_lens[end_pos].after_len;

    for subtrace_id in iter: (begin_pos..=end_pos).rev()
        invariant
            begin_pos <= end_pos < lore_lens@.len(),
            lore_lens@.len() == old(lore_lens)@.len(),
            after_len == old(lore_lens)@[end_pos as int].after_len,
            sum_bl(old(lore_lens)@, begin_pos as int, end_pos + 1) + after_len <= u32::MAX,
    {
        let before_len = &mut lore_lens[subtrace_id].before_len;

        cum_before_len += *before_len;
        *before_len = cum_before_len + after_len;
    }
}

fn check_subtrace_lore(subtrace_lore: &FoldSubTraceLore) -> MergeResult<()> {


    const SUBTRACE_DESC_COUNT: usize = 2;

    if subtrace_lore.subtraces_desc.len() != SUBTRACE_DESC_COUNT {
        return Err(FoldResultError::FoldIncorrectSubtracesCount(
            subtrace_lore.subtraces_desc.len(),
        ))
        .map_err(Into::into);
    }

    Ok(())
}

#[derive(Clone, Copy)]
pub struct LoresLen {
    pub before_len: u32,
    pub after_len: u32,
}

impl LoresLen {
    fn new(before_len: u32, after_len: u32) -> (r: Self)
        ensures r.before_len == before_len, r.after_len == after_len
    {
        Self { before_len, after_len }
    }
}


}
fn main() {}
