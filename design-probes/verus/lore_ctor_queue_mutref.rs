use vstd::prelude::*;
verus! {

pub struct DataKeeper { pub x: u8 }
#[derive(Clone, Copy)]
pub struct ResolvedSubTraceDescs { pub x: u8 }
pub struct FoldSubTraceLore { pub x: u8 }
pub type FoldLore = Vec<FoldSubTraceLore>;
#[derive(Clone, Copy)]
pub struct SubTraceLoreCtor { pub x: u8 }
impl SubTraceLoreCtor {
    #[verifier::external_body] pub fn finish(&mut self, d: &DataKeeper) { unimplemented!() }
    #[verifier::external_body] pub fn into_subtrace_lore(self) -> FoldSubTraceLore { unimplemented!() }
}



#[derive(Default, Clone)]
pub struct SubTraceLoreCtorQueue {
    queue: Vec<LoreCtorDesc>,
    back_traversal_pos: usize,
    back_traversal_started: bool,
}

impl SubTraceLoreCtorQueue {
    pub fn current(&mut self) -> &mut LoreCtorDesc {
        &mut self.queue[self.back_traversal_pos - 1]
    }

    pub fn add_element(
        &mut self,
        ctor: SubTraceLoreCtor,
        prev_lore: Option<ResolvedSubTraceDescs>,
        current_lore: Option<ResolvedSubTraceDescs>,
    ) {
        let new_element = LoreCtorDesc {
            ctor,
            prev_lore,
            current_lore,
        };
        self.queue.push(new_element);
        self.back_traversal_pos += 1;
    }

    pub fn traverse_back(&mut self) {
        self.back_traversal_pos -= 1;
    }

    pub fn start_back_traverse(&mut self) {
        self.back_traversal_started = true;
    }

    pub fn end_back_traverse(&mut self) {
        self.back_traversal_started = false;
    }

    pub fn back_traversal_started(&self) -> bool {
        self.back_traversal_started
    }

}

#[derive(Clone)]
pub struct LoreCtorDesc {
    pub ctor: SubTraceLoreCtor,
    pub prev_lore: Option<ResolvedSubTraceDescs>,
    pub current_lore: Option<ResolvedSubTraceDescs>,
}

}
fn main() {}
