use vstd::prelude::*;
verus! {

use std::rc::Rc;
pub struct CID { pub id: u64 }
impl Clone for CID { fn clone(&self) -> (r: Self) ensures r == *self { CID { id: self.id } } }
#[derive(Clone)]
pub enum Sender { PeerId(Rc<String>), PeerIdWithCallId { peer_id: Rc<String>, call_id: u32 } }
#[derive(Clone)]
pub enum ValueRef { Scalar(CID), Stream { cid: CID, generation: u32 }, Unused(CID) }
#[derive(Clone)]
pub enum CallResult { RequestSentBy(Sender), Executed(ValueRef), Failed(CID) }
#[derive(Clone, Copy)]
pub struct TracePos(pub u32);
#[derive(Clone, Copy)]
pub enum ValueSource { PreviousData, CurrentData }
pub struct MetCallResult { pub result: CallResult, pub trace_pos: TracePos, pub source: ValueSource }
pub struct SecurityTetraplet { pub peer_pk: String }
pub type RcSecurityTetraplet = Rc<SecurityTetraplet>;
pub struct CallOutputValue<'i> { pub x: &'i u8 }
pub struct JValue { pub x: u8 }
pub struct ServiceResultCidAggregate { pub argument_hash: Rc<str> }
pub struct ResolvedServiceInfo { pub value: JValue, pub tetraplet: RcSecurityTetraplet, pub service_result_aggregate: Rc<ServiceResultCidAggregate> }
pub struct CallServiceFailed { pub ret_code: i32, pub message: Rc<String> }
pub struct CallServiceResult { pub ret_code: i32, pub result: String }
pub enum UncatchableError { A, MalformedCallServiceFailed(u8) }
pub enum CatchableError { LocalServiceError(i32, Rc<String>) }
pub enum ExecutionError { Catchable(CatchableError), Uncatchable(UncatchableError) }
impl From<UncatchableError> for ExecutionError { fn from(e: UncatchableError) -> Self { ExecutionError::Uncatchable(e) } }
impl From<CatchableError> for ExecutionError { fn from(e: CatchableError) -> Self { ExecutionError::Catchable(e) } }
type ExecutionResult<T> = Result<T, ExecutionError>;
pub struct CidState { pub x: u8 }
impl CidState { #[verifier::external_body] pub fn resolve_service_info(&self, c: &CID) -> Result<ResolvedServiceInfo, UncatchableError> { unimplemented!() } }
pub struct RunParams { pub current_peer_id: Rc<String> }
pub struct CallResults { pub x: u8 }
impl CallResults {
    pub uninterp spec fn keys(&self) -> Set<Seq<char>>;
    #[verifier::external_body] pub fn remove(&mut self, k: &String) -> (r: Option<CallServiceResult>)
        ensures r is Some <==> old(self).keys().contains(k@),
                final(self).keys() == old(self).keys().remove(k@)
    { unimplemented!() }
}
pub struct ExecutionCtx<'i> { pub cid_state: CidState, pub run_parameters: RunParams, pub call_results: CallResults, pub ph: core::marker::PhantomData<&'i u8> }
impl<'i> ExecutionCtx<'i> {
    #[verifier::external_body] pub fn make_subgraph_incomplete(&mut self)
        ensures final(self).call_results.keys() == old(self).call_results.keys(), final(self).run_parameters == old(self).run_parameters { unimplemented!() }
    #[verifier::external_body] pub fn record_call_cid(&mut self, p: &String, c: &CID)
        ensures final(self).call_results.keys() == old(self).call_results.keys(), final(self).run_parameters == old(self).run_parameters { unimplemented!() }
}
pub struct TraceHandler { pub x: u8 }
impl TraceHandler {
    pub uninterp spec fn pushed(&self) -> Seq<CallResult>;
    #[verifier::external_body] pub fn meet_call_end(&mut self, c: CallResult)
        ensures final(self).pushed() == old(self).pushed().push(c) { unimplemented!() }
}
#[verifier::external_body] pub fn verify_call_shim(a: &str, b: &SecurityTetraplet, c: &str, d: &SecurityTetraplet) -> Result<(), UncatchableError> { unimplemented!() }
#[verifier::external_body] pub fn populate_context_from_data<'i>(value: ValueRef, argument_hash: &str, tetraplet: RcSecurityTetraplet, trace_pos: TracePos, value_source: ValueSource, output: &CallOutputValue<'i>, exec_ctx: &mut ExecutionCtx<'i>) -> ExecutionResult<()>
    ensures final(exec_ctx).call_results.keys() == old(exec_ctx).call_results.keys(), final(exec_ctx).run_parameters == old(exec_ctx).run_parameters { unimplemented!() }
pub open spec fn own_pending(c: CallResult, me: Seq<char>) -> Option<u32> {
    match c {
        CallResult::RequestSentBy(Sender::PeerIdWithCallId { peer_id, call_id }) => if peer_id@ == me { Some(call_id) } else { None },
        _ => None,
    }
}
pub open spec fn is_result(c: CallResult) -> bool { !(c is RequestSentBy) }
#[verifier::external_body] pub fn update_state_with_service_result<'i>(tetraplet: RcSecurityTetraplet, argument_hash: Rc<str>, output: &CallOutputValue<'i>, service_result: CallServiceResult, exec_ctx: &mut ExecutionCtx<'i>, trace_ctx: &mut TraceHandler) -> (r: ExecutionResult<()>)
    ensures final(exec_ctx).call_results.keys() == old(exec_ctx).call_results.keys(),
            r is Ok ==> exists|c: CallResult| is_result(c) && final(trace_ctx).pushed() == old(trace_ctx).pushed().push(c),
{ unimplemented!() }
pub assume_specification<T>[ <T as core::convert::From<T>>::from ](t: T) -> (r: T) ensures r == t;
pub uninterp spec fn dec(v: u32) -> Seq<char>;
#[verifier::external_body] pub fn u32_to_string(v: u32) -> (r: String) ensures r@ == dec(v) { unimplemented!() }
pub mod serde_json_shim {
    use super::*;
    pub struct V { pub x: u8 }
    #[verifier::external_body] pub fn to_value(v: JValue) -> Result<V, u8> { unimplemented!() }
    #[verifier::external_body] pub fn from_value(v: V) -> Result<CallServiceFailed, u8> { unimplemented!() }
}
pub mod extracted { use super::serde_json_shim as serde_json; use super::*; use std::rc::Rc; pub mod verifier { pub use super::super::verify_call_shim as verify_call; }
#[derive(Clone)]
pub struct StateDescriptor {
    pub should_execute: bool,
    pub prev_state: Option<CallResult>,
}


pub fn handle_prev_state<'i>(
    met_result: MetCallResult,
    tetraplet: &RcSecurityTetraplet,
    argument_hash: Option<&Rc<str>>,
    output: &CallOutputValue<'i>,
    exec_ctx: &mut ExecutionCtx<'i>,
    trace_ctx: &mut TraceHandler,
) -> (r: ExecutionResult<StateDescriptor>)
    requires argument_hash is Some,      // F6: without this the three unwrap/expect obligations fail
    ensures
        // (i)/(ii) pending own request
        own_pending(met_result.result, old(exec_ctx).run_parameters.current_peer_id@) matches Some(call_id) ==> (
            if old(exec_ctx).call_results.keys().contains(dec(call_id)) {
                final(exec_ctx).call_results.keys() == old(exec_ctx).call_results.keys().remove(dec(call_id))
                && (r matches Ok(sd) ==> !sd.should_execute && sd.prev_state is None
                      && exists|c: CallResult| is_result(c) && final(trace_ctx).pushed() == old(trace_ctx).pushed().push(c))
            } else {
                final(exec_ctx).call_results.keys() == old(exec_ctx).call_results.keys()
                && final(trace_ctx).pushed() == old(trace_ctx).pushed()
                && (r matches Ok(sd) && !sd.should_execute && sd.prev_state == Some(met_result.result))
            }),
        // (iii) results in data are never re-requested
        (met_result.result is Executed) ==> (
            final(exec_ctx).call_results.keys() == old(exec_ctx).call_results.keys()
            && (r matches Ok(sd) ==> !sd.should_execute && sd.prev_state is None
                  && final(trace_ctx).pushed() == old(trace_ctx).pushed().push(met_result.result))),
        (met_result.result is Failed) ==> r is Err && final(exec_ctx).call_results.keys() == old(exec_ctx).call_results.keys(),
{
    use CallResult::*;

    match met_result.result {


        Failed(ref failed_cid) => {
            let ResolvedServiceInfo {
                value: err_value,
                tetraplet: current_tetraplet,
                service_result_aggregate,
            } = exec_ctx
                .cid_state
                .resolve_service_info(failed_cid)
                .map_err(UncatchableError::from)?;

            verifier::verify_call(
                argument_hash.as_ref().unwrap(),
                tetraplet,
                &service_result_aggregate.argument_hash,
                &current_tetraplet,
            )?;

            let call_service_failed: CallServiceFailed =
                serde_json::from_value(serde_json::to_value(err_value).expect("serde_json serializer shouldn't fail"))
                    .map_err(|e| UncatchableError::MalformedCallServiceFailed(e))?;

            exec_ctx.make_subgraph_incomplete();
            exec_ctx.record_call_cid(&tetraplet.peer_pk, failed_cid);
            trace_ctx.meet_call_end(met_result.result);

            let err_msg = call_service_failed.message;
            Err(CatchableError::LocalServiceError(call_service_failed.ret_code, err_msg).into())
        }
        RequestSentBy(Sender::PeerIdWithCallId { ref peer_id, call_id })
            if peer_id.as_str() == exec_ctx.run_parameters.current_peer_id.as_str() =>
        {


            let call_id = u32_to_string(call_id);
            match exec_ctx.call_results.remove(&call_id) {
                Some(call_result) => {
                    update_state_with_service_result(
                        tetraplet.clone(),
                        argument_hash.expect("Result for joinable error").clone(),
                        output,
                        call_result,
                        exec_ctx,
                        trace_ctx,
                    )?;
                    Ok(StateDescriptor::executed())
                }

                None => {
                    exec_ctx.make_subgraph_incomplete();
                    Ok(StateDescriptor::not_ready(met_result.result))
                }
            }
        }
        RequestSentBy(..) => {

            let is_current_peer = tetraplet.peer_pk.as_str() == exec_ctx.run_parameters.current_peer_id.as_str();
            if is_current_peer {
                return Ok(StateDescriptor::can_execute_now(met_result.result));
            }

            exec_ctx.make_subgraph_incomplete();
            Ok(StateDescriptor::cant_execute_now(met_result.result))
        }

        Executed(value) => {


            populate_context_from_data(
                value.clone(),
                argument_hash.as_ref().unwrap(),
                tetraplet.clone(),
                met_result.trace_pos,
                met_result.source,
                output,
                exec_ctx,
            )?;

            match &value {
                ValueRef::Scalar(ref cid) | ValueRef::Stream { ref cid, .. } => {
                    exec_ctx.record_call_cid(&tetraplet.peer_pk, cid);
                }
                ValueRef::Unused(_) => {}
            }

            let call_result = CallResult::Executed(value);
            trace_ctx.meet_call_end(call_result);

            Ok(StateDescriptor::executed())
        }
    }
}

impl StateDescriptor {
    pub fn executed() -> Self {
        Self {
            should_execute: false,
            prev_state: None,
        }
    }

    pub fn not_ready(prev_state: CallResult) -> Self {
        Self {
            should_execute: false,
            prev_state: Some(prev_state),
        }
    }

    pub fn can_execute_now(prev_state: CallResult) -> Self {
        Self {
            should_execute: true,
            prev_state: Some(prev_state),
        }
    }

    pub fn cant_execute_now(prev_state: CallResult) -> Self {
        Self {
            should_execute: false,
            prev_state: Some(prev_state),
        }
    }

    pub fn no_previous_state() -> Self {
        Self {
            should_execute: true,
            prev_state: None,
        }
    }

    pub fn should_execute(&self) -> bool {
        self.should_execute
    }

    pub fn maybe_set_prev_state(self, trace_ctx: &mut TraceHandler) {
        if let Some(call_result) = self.prev_state {
            trace_ctx.meet_call_end(call_result);
        }
    }
}

}

}
fn main() {}
