use vstd::prelude::*;
verus! {

use std::rc::Rc;
pub struct CID { pub id: u64 }
impl PartialEq for CID { fn eq(&self, o: &Self) -> bool { self.id == o.id } }
impl vstd::std_specs::cmp::PartialEqSpecImpl<CID> for CID {
    open spec fn obeys_eq_spec() -> bool { true }
    open spec fn eq_spec(&self, o: &CID) -> bool { self.id == o.id }
}
pub enum CanonResult { RequestSentBy(Rc<String>), Executed(CID) }
pub enum CanonResultError { IncompatibleState { prev_canon_result: CanonResult, current_canon_result: CanonResult } }
impl CanonResultError {
    pub fn incompatible_state(prev_canon_result: CanonResult, current_canon_result: CanonResult) -> Self {
        Self::IncompatibleState { prev_canon_result, current_canon_result }
    }
}
fn merge_canon_results(
    prev_canon_result: CanonResult,
    current_canon_result: CanonResult,
) -> (r: Result<CanonResult, CanonResultError>)
    ensures
        r matches Ok(m) ==> (m == prev_canon_result || m == current_canon_result),
        r matches Ok(m) ==> (prev_canon_result is Executed ==> m == prev_canon_result),
        r matches Ok(m) ==> (prev_canon_result is RequestSentBy && current_canon_result is Executed ==> m == current_canon_result),
        r matches Ok(m) ==> (prev_canon_result is RequestSentBy && current_canon_result is RequestSentBy ==> m == prev_canon_result),
        r is Err <==> (prev_canon_result is Executed && current_canon_result is Executed
                        && prev_canon_result->Executed_0.id != current_canon_result->Executed_0.id),
{
    use CanonResult::*;

    match (&prev_canon_result, &current_canon_result) {
        (Executed(prev), Executed(cur)) if prev != cur => Err(CanonResultError::incompatible_state(
            prev_canon_result,
            current_canon_result,
        )),
        (RequestSentBy(_), Executed(_)) => Ok(current_canon_result),

        (RequestSentBy(_), RequestSentBy(_)) | (Executed(_), RequestSentBy(_)) | (Executed(_), Executed(_)) => {
            Ok(prev_canon_result)
        }
    }
}

}
fn main() {}
