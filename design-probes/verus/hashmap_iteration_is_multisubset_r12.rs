use vstd::prelude::*;
use std::collections::HashMap;
verus! {
broadcast use vstd::std_specs::hash::group_hash_axioms;
fn is_multisubset(larger_count_set: HashMap<u64, usize>, smaller_count_set: HashMap<u64, usize>) -> (r: bool)
    ensures r <==> forall|k: u64| smaller_count_set@.dom().contains(k) ==>
        (if larger_count_set@.dom().contains(k) { larger_count_set@[k] } else { 0usize }) >= smaller_count_set@[k]
{
    for (cid, smaller_count_ref) in &smaller_count_set {
        let smaller_count = *smaller_count_ref;
        let larger_count = larger_count_set.get(cid).cloned().unwrap_or_default();
        if larger_count < smaller_count {
            return false;
        }
    }
    true
}
}
fn main() {}
