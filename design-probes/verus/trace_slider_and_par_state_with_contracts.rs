use vstd::prelude::*;
verus! {
#[derive(Copy, Clone, Default)]
pub struct TracePos(pub u32);
impl core::ops::AddAssign<u32> for TracePos { fn add_assign(&mut self, rhs: u32) { self.0 = self.0 + rhs; } }
impl From<u32> for TracePos { fn from(v: u32) -> TracePos { TracePos(v) } }
impl PartialEq for TracePos { fn eq(&self, o: &Self) -> bool { self.0 == o.0 } }
impl PartialOrd for TracePos { fn partial_cmp(&self, o: &Self) -> Option<core::cmp::Ordering> { self.0.partial_cmp(&o.0) } }
impl vstd::std_specs::ops::AddAssignSpecImpl<u32> for TracePos {
    open spec fn obeys_add_assign_spec() -> bool { true }
    open spec fn add_assign_req(&self, rhs: u32) -> bool { self.0 + rhs <= u32::MAX }
    open spec fn add_assign_spec(&self, rhs: u32) -> TracePos { TracePos((self.0 + rhs) as u32) }
}
impl vstd::std_specs::convert::FromSpecImpl<u32> for TracePos {
    open spec fn obeys_from_spec() -> bool { true }
    open spec fn from_spec(v: u32) -> TracePos { TracePos(v) }
}
impl vstd::std_specs::cmp::PartialOrdSpecImpl<TracePos> for TracePos {
    open spec fn obeys_partial_cmp_spec() -> bool { true }
    open spec fn partial_cmp_spec(&self, o: &TracePos) -> Option<core::cmp::Ordering> { if self.0 < o.0 { Some(core::cmp::Ordering::Less) } else if self.0 == o.0 { Some(core::cmp::Ordering::Equal) } else { Some(core::cmp::Ordering::Greater) } }
}
impl vstd::std_specs::cmp::PartialEqSpecImpl<TracePos> for TracePos {
    open spec fn obeys_eq_spec() -> bool { true }
    open spec fn eq_spec(&self, o: &TracePos) -> bool { self.0 == o.0 }
}

impl vstd::std_specs::ops::AddSpecImpl<u32> for TracePos {
    open spec fn obeys_add_spec() -> bool { true }
    open spec fn add_req(self, rhs: u32) -> bool { self.0 + rhs <= u32::MAX }
    open spec fn add_spec(self, rhs: u32) -> TracePos { TracePos((self.0 + rhs) as u32) }
}
impl core::ops::Add<u32> for TracePos { type Output = TracePos; fn add(self, rhs: u32) -> TracePos { TracePos(self.0 + rhs) } }
impl vstd::std_specs::ops::SubSpecImpl<TracePos> for TracePos {
    open spec fn obeys_sub_spec() -> bool { true }
    open spec fn sub_req(self, rhs: TracePos) -> bool { self.0 >= rhs.0 }
    open spec fn sub_spec(self, rhs: TracePos) -> TracePos { TracePos((self.0 - rhs.0) as u32) }
}
impl core::ops::Sub<TracePos> for TracePos { type Output = TracePos; fn sub(self, rhs: TracePos) -> TracePos { TracePos(self.0 - rhs.0) } }
impl vstd::std_specs::convert::FromSpecImpl<TracePos> for u32 {
    open spec fn obeys_from_spec() -> bool { true }
    open spec fn from_spec(v: TracePos) -> u32 { v.0 }
}
impl From<TracePos> for u32 { fn from(v: TracePos) -> u32 { v.0 } }

pub type TraceLen = u32;
#[derive(Clone)]
pub struct ExecutedState { pub tag: u8 }
#[derive(Default)]
pub struct ExecutionTrace(pub Vec<ExecutedState>);
impl ExecutionTrace {
    pub closed spec fn slen(&self) -> nat { self.0@.len() }
    #[verifier::external_body]
    pub fn trace_states_count(&self) -> (r: TraceLen)
        requires self.slen() <= u32::MAX
        ensures r == self.slen()
    { unimplemented!() }
    #[verifier::external_body]
    pub fn get(&self, index: TracePos) -> (r: Option<&ExecutedState>)
        ensures r.is_some() <==> index.0 < self.slen()
    { unimplemented!() }
}
impl ExecutionTrace {
    #[verifier::external_body]
    pub fn at(&self, index: TracePos) -> (r: &ExecutedState)
        requires index.0 < self.slen()
    { unimplemented!() }
}
pub enum KeeperError {
    SetSubtraceLenFailed { requested_subtrace_len: TraceLen, trace_position: TracePos, trace_len: TraceLen },
    SetSubtraceLenAndPosFailed { requested_pos: TracePos, requested_subtrace_len: TraceLen, trace_len: TraceLen },
}
use KeeperError::*;
type KeeperResult<T> = Result<T, KeeperError>;
type SeenElements = u32;


// TODO: check for overflow

#[derive(Default)]
pub struct TraceSlider {

    trace: ExecutionTrace,

    position: TracePos,

    subtrace_len: TraceLen,

    seen_elements: SeenElements,
}

impl TraceSlider {
    pub closed spec fn wf(&self) -> bool { self.trace.slen() <= u32::MAX && self.seen_elements <= self.subtrace_len }
    pub closed spec fn pos(&self) -> nat { self.position.0 as nat }
    pub closed spec fn slen(&self) -> nat { self.subtrace_len as nat }
    pub closed spec fn seen(&self) -> nat { self.seen_elements as nat }
    pub closed spec fn tlen(&self) -> nat { self.trace.slen() }

    pub fn new(trace: impl Into<ExecutionTrace>) -> (r: Self)
    {
        let trace = trace.into();
        let subtrace_len = trace.trace_states_count();

        Self {
            trace,
            subtrace_len,
            ..<_>::default()
        }
    }



    pub fn next_state(&mut self) -> (r: Option<ExecutedState>)
        requires old(self).wf()
        ensures final(self).wf(), final(self).tlen() == old(self).tlen(),
            r is Some ==> old(self).seen() < old(self).slen() && old(self).pos() < old(self).tlen()
                && final(self).pos() == old(self).pos() + 1 && final(self).seen() == old(self).seen() + 1 && final(self).slen() == old(self).slen(),
            r is None ==> final(self).pos() == old(self).pos() && final(self).seen() == old(self).seen() && final(self).slen() == old(self).slen(),
    {
        if self.seen_elements >= self.subtrace_len || self.position >= self.trace.trace_states_count().into() {
            return None;
        }

        let result = self.trace.at(self.position).clone();
        self.position += 1;
        self.seen_elements += 1;
        Some(result)
    }

    pub fn set_position_and_len(&mut self, position: TracePos, subtrace_len: TraceLen) -> (r: KeeperResult<()>)
        requires old(self).wf()
        ensures final(self).wf(), final(self).tlen() == old(self).tlen(),
            r is Ok <==> (subtrace_len == 0 || position.0 + subtrace_len <= old(self).tlen()),
            r is Ok ==> final(self).pos() == position.0 && final(self).slen() == subtrace_len && final(self).seen() == 0,
            r is Err ==> final(self).pos() == old(self).pos() && final(self).slen() == old(self).slen() && final(self).seen() == old(self).seen(),
    {
        // it's possible to set empty subtrace_len and inconsistent position
        if subtrace_len != 0 && position + subtrace_len > self.trace.trace_states_count().into() {
            return Err(SetSubtraceLenAndPosFailed {
                requested_pos: position,
                requested_subtrace_len: subtrace_len,
                trace_len: self.trace.trace_states_count(),
            });
        }

        self.position = position;
        self.subtrace_len = subtrace_len;
        self.seen_elements = 0;

        Ok(())
    }

    pub fn set_subtrace_len(&mut self, subtrace_len: TraceLen) -> (r: KeeperResult<()>)
        requires old(self).wf()
        ensures final(self).wf(), final(self).tlen() == old(self).tlen(), final(self).pos() == old(self).pos(),
            r is Ok <==> old(self).pos() + subtrace_len <= old(self).tlen(),
            r is Ok ==> final(self).slen() == subtrace_len && final(self).seen() == 0,
    {
        let trace_remainder: TraceLen = (TracePos::from(self.trace_len()) - self.position).into();
        if trace_remainder < subtrace_len {
            return Err(SetSubtraceLenFailed {
                requested_subtrace_len: subtrace_len,
                trace_position: self.position,
                trace_len: self.trace.trace_states_count(),
            });
        }

        self.seen_elements = 0;
        self.subtrace_len = subtrace_len;

        Ok(())
    }

    pub fn position(&self) -> (r: TracePos)
        ensures r.0 == self.pos()
    {
        self.position
    }

    pub fn subtrace_len(&self) -> (r: TraceLen)
        requires self.wf()
        ensures r == self.slen() - self.seen()
    {

        self.subtrace_len - self.seen_elements
    }

    pub fn state_at_position(&self, position: TracePos) -> Option<&ExecutedState> {
        // it would be nice to have the `impl SliceIndex for TracePos`, but it is unstable
        self.trace.get(position)
    }

    pub fn trace_len(&self) -> (r: TraceLen)
        requires self.wf()
        ensures r == self.tlen()
    {
        self.trace.trace_states_count()
    }
}

impl TracePos {
    pub fn checked_add(&self, other: &TracePos) -> (r: Option<TracePos>)
        ensures r == (if self.0 + other.0 <= u32::MAX { Some(TracePos((self.0 + other.0) as u32)) } else { None })
    { match self.0.checked_add(other.0) { Some(v) => Some(TracePos(v)), None => None } }
}
#[derive(Clone, Copy, Default)]
pub struct ParResult { pub left_size: u32, pub right_size: u32 }
impl ParResult {
    pub fn size(&self) -> (r: Option<u32>)
        ensures r == (if self.left_size + self.right_size <= u32::MAX { Some((self.left_size + self.right_size) as u32) } else { None })
    { self.left_size.checked_add(self.right_size) }
}
#[derive(Clone, Copy)]
pub enum SubgraphType { Left, Right }
#[derive(Clone, Copy)]
pub enum MergeCtxType { Current, Previous }
pub enum StateFSMError {
    ParLenOverflow(ParResult),
    ParPosOverflow(ParResult, TracePos, MergeCtxType),
    ParLenUnderflow(ParResult, TraceLen, MergeCtxType),
    KeeperError(KeeperError),
}
impl From<KeeperError> for StateFSMError { fn from(e: KeeperError) -> Self { StateFSMError::KeeperError(e) } }
type FSMResult<T> = Result<T, StateFSMError>;
pub struct MergeCtx { pub slider: TraceSlider }
pub struct DataKeeper { pub prev_ctx: MergeCtx, pub current_ctx: MergeCtx }
impl DataKeeper {
    pub fn prev_slider(&self) -> &TraceSlider { &self.prev_ctx.slider }
    pub fn current_slider(&self) -> &TraceSlider { &self.current_ctx.slider }
}

pub struct CtxState {
    pub pos: TracePos,
    pub subtrace_len: TraceLen,
}

pub struct CtxStatesPair {
    pub prev_state: CtxState,
    pub current_state: CtxState,
}

impl CtxState {
    pub fn new(pos: TracePos, subtrace_len: TraceLen) -> Self {
        Self { pos, subtrace_len }
    }

    pub fn update_ctx_state(self, ctx: &mut MergeCtx) -> FSMResult<()> {
        ctx.slider
            .set_position_and_len(self.pos, self.subtrace_len)
            .map_err(Into::into)
    }
}

impl CtxStatesPair {
    pub fn new(prev_state: CtxState, current_state: CtxState) -> Self {
        Self {
            prev_state,
            current_state,
        }
    }
}

pub fn update_ctx_states(state_pair: CtxStatesPair, data_keeper: &mut DataKeeper) {
    // these calls shouldn't produce a error, because sizes become less and
    // they have been already checked in a state updater ctor. It's important
    // to make it in a such way, because this function could be called from
    // error_exit that shouldn't fail.
    let _ = state_pair.prev_state.update_ctx_state(&mut data_keeper.prev_ctx);
    let _ = state_pair.current_state.update_ctx_state(&mut data_keeper.current_ctx);
}
pub fn compute_new_states(
    data_keeper: &DataKeeper,
    prev_par: ParResult,
    current_par: ParResult,
    subgraph_type: SubgraphType,
) -> FSMResult<CtxStatesPair> {
    let prev_state = compute_new_state(prev_par, subgraph_type, data_keeper.prev_slider())?;
    let current_state = compute_new_state(current_par, subgraph_type, data_keeper.current_slider())?;

    let pair = CtxStatesPair::new(prev_state, current_state);
    Ok(pair)
}

fn compute_new_state(par_result: ParResult, subgraph_type: SubgraphType, slider: &TraceSlider) -> FSMResult<CtxState> {
    let par_subgraph_len = match subgraph_type {
        SubgraphType::Left => par_result.left_size,
        SubgraphType::Right => par_result.size().ok_or(StateFSMError::ParLenOverflow(par_result))?,
    };

    let new_position = slider
        .position()
        .checked_add(&TracePos::from(par_subgraph_len))
        .ok_or_else(|| StateFSMError::ParPosOverflow(par_result, slider.position(), MergeCtxType::Previous))?;

    let new_subtrace_len = match subgraph_type {
        SubgraphType::Left => par_subgraph_len,
        SubgraphType::Right => slider
            .subtrace_len()
            .checked_sub(par_subgraph_len)
            .ok_or_else(|| StateFSMError::ParLenUnderflow(par_result, slider.subtrace_len(), MergeCtxType::Current))?,
    };

    let new_state = CtxState::new(new_position, new_subtrace_len);
    Ok(new_state)
}

}
fn main() {}
