use vstd::prelude::*;
verus! {

pub assume_specification<T>[ <T as core::convert::From<T>>::from ](t: T) -> (r: T) ensures r == t;
#[verifier::external_body] pub fn opaque_string() -> String { unimplemented!() }
pub struct SoftLimitsTriggering { pub a: bool }
pub trait ToErrorCode { spec fn code(&self) -> i64; fn to_error_code(&self) -> (r: i64) ensures r == self.code(); }
pub struct CallRequests { pub x: u8 }
impl CallRequests { #[verifier::external_body] pub fn new() -> (r: Self) ensures is_empty_map(r) { unimplemented!() } }
pub uninterp spec fn is_empty_map(c: CallRequests) -> bool;
pub uninterp spec fn ser(c: CallRequests) -> Seq<u8>;
pub struct SerializedCallRequests { pub v: Vec<u8> }
pub struct CallRequestsRepr;
impl CallRequestsRepr {
    #[verifier::external_body] pub fn serialize(&self, c: &CallRequests) -> (r: Result<SerializedCallRequests, u8>)
        ensures r matches Ok(s) ==> s.v@ == ser(*c) { unimplemented!() }
}
pub struct InterpreterOutcome { pub ret_code: i64, pub error_message: String, pub data: Vec<u8>, pub next_peer_pks: Vec<String>, pub call_requests: SerializedCallRequests, pub soft: SoftLimitsTriggering }
impl InterpreterOutcome {
    pub fn new(ret_code: i64, error_message: String, data: Vec<u8>, next_peer_pks: Vec<String>, call_requests: SerializedCallRequests, soft: SoftLimitsTriggering) -> (r: Self)
        ensures r.ret_code == ret_code, r.data == data, r.next_peer_pks == next_peer_pks, r.call_requests == call_requests
    { InterpreterOutcome { ret_code, error_message, data, next_peer_pks, call_requests, soft } }
}
pub fn from_uncatchable_error(
    data: impl Into<Vec<u8>>,
    error: impl ToErrorCode + ToString,
    soft_limits_triggering: SoftLimitsTriggering,
) -> (o: InterpreterOutcome)
    ensures o.next_peer_pks@.len() == 0, o.ret_code == error.code(),
            exists|c: CallRequests| is_empty_map(c) && o.call_requests.v@ == ser(c),
{
    let ret_code = error.to_error_code();
    let data = data.into();
    let call_requests = CallRequestsRepr
        .serialize(&CallRequests::new())
        .expect("default serializer shouldnt fail");

    InterpreterOutcome::new(
        ret_code,
        opaque_string(),
        data,
        vec![],
        call_requests,
        soft_limits_triggering,
    )
}


}
fn main() {}
