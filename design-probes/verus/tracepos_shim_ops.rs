use vstd::prelude::*;
verus! {
#[derive(Copy, Clone)]
pub struct TracePos(pub u32);
impl core::ops::AddAssign<u32> for TracePos { fn add_assign(&mut self, rhs: u32) { self.0 = self.0 + rhs; } }
impl From<u32> for TracePos { fn from(v: u32) -> TracePos { TracePos(v) } }
impl PartialEq for TracePos { fn eq(&self, o: &Self) -> bool { self.0 == o.0 } }
impl PartialOrd for TracePos { fn partial_cmp(&self, o: &Self) -> Option<core::cmp::Ordering> { self.0.partial_cmp(&o.0) } }
impl vstd::std_specs::ops::AddAssignSpecImpl<u32> for TracePos {
    open spec fn obeys_add_assign_spec() -> bool { true }
    open spec fn add_assign_req(self, rhs: u32) -> bool { self.0 + rhs <= u32::MAX }
    open spec fn add_assign_spec(self, rhs: u32) -> TracePos { TracePos((self.0 + rhs) as u32) }
}
impl vstd::std_specs::convert::FromSpecImpl<u32> for TracePos {
    open spec fn obeys_from_spec() -> bool { true }
    open spec fn from_spec(v: u32) -> TracePos { TracePos(v) }
}
impl vstd::std_specs::cmp::PartialOrdSpecImpl<TracePos> for TracePos {
    open spec fn obeys_partial_cmp_spec() -> bool { true }
    open spec fn partial_cmp_spec(&self, o: &TracePos) -> Option<core::cmp::Ordering> { if self.0 < o.0 { Some(core::cmp::Ordering::Less) } else if self.0 == o.0 { Some(core::cmp::Ordering::Equal) } else { Some(core::cmp::Ordering::Greater) } }
}
impl vstd::std_specs::cmp::PartialEqSpecImpl<TracePos> for TracePos {
    open spec fn obeys_eq_spec() -> bool { true }
    open spec fn eq_spec(&self, o: &TracePos) -> bool { self.0 == o.0 }
}
fn f(a: TracePos, b: u32, n: u32) -> (r: bool)
    ensures r == (a.0 >= n)
{
    let mut p = a;
    let q: TracePos = n.into();
    p >= n.into()
}
}
fn main() {}
