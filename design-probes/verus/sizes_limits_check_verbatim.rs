use vstd::prelude::*;
verus! {

pub struct RunParameters { pub air_size_limit: u64, pub particle_size_limit: u64, pub call_result_size_limit: u64, pub hard_limit_enabled: bool }
#[derive(Default)]
pub struct SoftLimitsTriggering { pub air_size_limit_exceeded: bool, pub particle_size_limit_exceeded: bool, pub call_result_size_limit_exceeded: bool }
pub enum SizeLimitsExceded { Air(usize, u64), Particle(usize, u64), CallResult(u64) }
pub enum PreparationError { SizeLimitsExceded(SizeLimitsExceded) }
impl PreparationError {
    pub fn air_size_limit(actual_size: usize, limit: u64) -> (r: Self) ensures r == PreparationError::SizeLimitsExceded(SizeLimitsExceded::Air(actual_size, limit))
    { Self::SizeLimitsExceded(SizeLimitsExceded::Air(actual_size, limit)) }
    pub fn particle_size_limit(actual_size: usize, limit: u64) -> (r: Self) ensures r == PreparationError::SizeLimitsExceded(SizeLimitsExceded::Particle(actual_size, limit))
    { Self::SizeLimitsExceded(SizeLimitsExceded::Particle(actual_size, limit)) }
}
type PreparationResult<T> = Result<T, PreparationError>;
pub fn handle_limit_exceeding(
    run_parameters: &RunParameters,
    error: PreparationError,
    soft_limit_flag: &mut bool,
) -> PreparationResult<()> {
    *soft_limit_flag = true;

    if run_parameters.hard_limit_enabled {
        Err(error)
    } else {
        Ok(())
    }
}

pub fn check_against_size_limits(
    run_parameters: &RunParameters,
    air: &str,
    raw_current_data: &[u8],
) -> PreparationResult<SoftLimitsTriggering> {
    let mut soft_limits_triggering = SoftLimitsTriggering::default();

    if air.len() as u64 > run_parameters.air_size_limit {
        let error = PreparationError::air_size_limit(air.len(), run_parameters.air_size_limit);
        handle_limit_exceeding(
            run_parameters,
            error,
            &mut soft_limits_triggering.air_size_limit_exceeded,
        )?;
    }

    if raw_current_data.len() as u64 > run_parameters.particle_size_limit {
        let error = PreparationError::particle_size_limit(raw_current_data.len(), run_parameters.particle_size_limit);
        handle_limit_exceeding(
            run_parameters,
            error,
            &mut soft_limits_triggering.particle_size_limit_exceeded,
        )?;
    }

    Ok(soft_limits_triggering)
}

}
fn main() {}
