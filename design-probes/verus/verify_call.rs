use vstd::prelude::*;
verus! {

#[derive(PartialEq, Eq)]
pub struct SecurityTetraplet { pub peer_pk: String, pub service_id: String, pub function_name: String, pub lens: String }
#[verifier::external_body] pub fn opaque_string() -> String { unimplemented!() }
pub enum UncatchableError { InstructionParametersMismatch { param: &'static str, expected_value: String, stored_value: String } }

pub fn verify_call(
    expected_argument_hash: &str,
    expected_tetraplet: &SecurityTetraplet,
    stored_argument_hash: &str,
    stored_tetraplet: &SecurityTetraplet,
) -> (r: Result<(), UncatchableError>)
    ensures r is Ok <==> (expected_argument_hash@ == stored_argument_hash@ && expected_tetraplet == stored_tetraplet)
{
    if expected_argument_hash != stored_argument_hash {
        return Err(UncatchableError::InstructionParametersMismatch {
            param: "call argument_hash",
            expected_value: expected_argument_hash.to_owned(),
            stored_value: stored_argument_hash.to_owned(),
        });
    }
    if expected_tetraplet != stored_tetraplet {
        return Err(UncatchableError::InstructionParametersMismatch {
            param: "call tetraplet",
            expected_value: opaque_string(),
            stored_value: opaque_string(),
        });
    }
    Ok(())
}

}
fn main() {}
