use vstd::prelude::*;
verus! {

pub struct ExecutionError { pub catchable: bool }
impl ExecutionError { pub fn is_catchable(&self) -> (r: bool) ensures r == self.catchable { self.catchable } }
type ExecutionResult<T> = Result<T, ExecutionError>;
pub struct LastErrorDescriptor { pub x: u8 }
impl LastErrorDescriptor { #[verifier::external_body] pub fn meet_xor_right_branch(&mut self) { unimplemented!() } }
pub struct ErrorDescriptor { pub x: u8 }
impl ErrorDescriptor {
    #[verifier::external_body] pub fn set_original_execution_error(&mut self, e: &ExecutionError) { unimplemented!() }
    #[verifier::external_body] pub fn enable_error_setting(&mut self) { unimplemented!() }
    #[verifier::external_body] pub fn clear_error_object_if_needed(&mut self) { unimplemented!() }
}
pub struct ExecutionCtx<'i> { pub last_error_descriptor: LastErrorDescriptor, pub error_descriptor: ErrorDescriptor, pub ph: core::marker::PhantomData<&'i u8>, pub log: Ghost<Seq<int>> }
impl<'i> ExecutionCtx<'i> { #[verifier::external_body] pub fn flush_subgraph_completeness(&mut self) ensures final(self).log@ == old(self).log@ { unimplemented!() } }
pub struct TraceHandler { pub x: u8 }
pub struct Instruction<'i> { pub id: int_id, pub ph: core::marker::PhantomData<&'i u8> }
pub type int_id = u64;
pub trait ExecutableInstruction<'i> {
    spec fn ident(&self) -> int;
    fn execute(&self, exec_ctx: &mut ExecutionCtx<'i>, trace_ctx: &mut TraceHandler) -> (r: ExecutionResult<()>)
        ensures final(exec_ctx).log@.len() >= old(exec_ctx).log@.len(),
                final(exec_ctx).log@.subrange(0, old(exec_ctx).log@.len() as int) == old(exec_ctx).log@,
                final(exec_ctx).log@.len() > old(exec_ctx).log@.len(),
                final(exec_ctx).log@[old(exec_ctx).log@.len() as int] == self.ident();
}
impl<'i> ExecutableInstruction<'i> for Instruction<'i> {
    open spec fn ident(&self) -> int { self.id as int }
    #[verifier::external_body]
    fn execute(&self, exec_ctx: &mut ExecutionCtx<'i>, trace_ctx: &mut TraceHandler) -> ExecutionResult<()> { unimplemented!() }
}
pub struct Xor<'i>(pub Box<Instruction<'i>>, pub Box<Instruction<'i>>);
pub open spec fn xor_id() -> int { -1 }
#[verifier::external_body] fn print_xor_log(e: &ExecutionError) { unimplemented!() }
impl<'i> ExecutableInstruction<'i> for Xor<'i> {
    fn execute(&self, exec_ctx: &mut ExecutionCtx<'i>, trace_ctx: &mut TraceHandler) -> ExecutionResult<()> {

        exec_ctx.flush_subgraph_completeness();
        match self.0.execute(exec_ctx, trace_ctx) {
            Err(e) if e.is_catchable() => {
                print_xor_log(&e);

                exec_ctx.flush_subgraph_completeness();
                exec_ctx.last_error_descriptor.meet_xor_right_branch();

                exec_ctx.error_descriptor.set_original_execution_error(&e);
                exec_ctx.error_descriptor.enable_error_setting();

                let right_subgraph_result = self.1.execute(exec_ctx, trace_ctx);



                exec_ctx.error_descriptor.clear_error_object_if_needed();

                if right_subgraph_result.is_ok() {
                    exec_ctx.error_descriptor.enable_error_setting();
                }

                right_subgraph_result
            }
            res => res,
        }
    }
}


}
fn main() {}
