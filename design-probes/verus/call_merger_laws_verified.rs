use vstd::prelude::*;
verus! {

use std::rc::Rc;
pub struct ServiceResultCidAggregate { pub x: u8 }
pub struct JValue { pub x: u8 }
pub struct CID<T> { pub id: u64, pub ph: core::marker::PhantomData<T> }
impl<T> Clone for CID<T> {
    fn clone(&self) -> (r: Self) ensures r == *self { CID { id: self.id, ph: core::marker::PhantomData } }
}
impl<T> PartialEq for CID<T> { fn eq(&self, o: &Self) -> bool { self.id == o.id } }
impl<T> vstd::std_specs::cmp::PartialEqSpecImpl<CID<T>> for CID<T> {
    open spec fn obeys_eq_spec() -> bool { true }
    open spec fn eq_spec(&self, o: &CID<T>) -> bool { self.id == o.id }
}
#[derive(Clone, Copy, PartialEq, Eq)]
pub struct GenerationIdx(pub u32);
#[derive(Clone)]
pub enum Sender { PeerId(u64), PeerIdWithCallId { peer_id: u64, call_id: u32 } }
#[derive(Clone)]
pub enum ValueRef {
    Scalar(CID<ServiceResultCidAggregate>),
    Stream { cid: CID<ServiceResultCidAggregate>, generation: GenerationIdx },
    Unused(CID<JValue>),
}
#[derive(Clone)]
pub enum CallResult { RequestSentBy(Sender), Executed(ValueRef), Failed(CID<ServiceResultCidAggregate>) }

impl PartialEq for Sender {
    fn eq(&self, o: &Self) -> (r: bool) ensures r == (*self == *o) {
        match (self, o) {
            (Sender::PeerId(a), Sender::PeerId(b)) => *a == *b,
            (Sender::PeerIdWithCallId { peer_id: a, call_id: c }, Sender::PeerIdWithCallId { peer_id: b, call_id: d }) => *a == *b && *c == *d,
            _ => false,
        }
    }
}
impl vstd::std_specs::cmp::PartialEqSpecImpl<Sender> for Sender {
    open spec fn obeys_eq_spec() -> bool { true }
    open spec fn eq_spec(&self, o: &Sender) -> bool { *self == *o }
}
impl PartialEq for ValueRef {
    fn eq(&self, o: &Self) -> (r: bool) ensures r == (*self == *o) {
        match (self, o) {
            (ValueRef::Scalar(a), ValueRef::Scalar(b)) => a.id == b.id,
            (ValueRef::Unused(a), ValueRef::Unused(b)) => a.id == b.id,
            (ValueRef::Stream { cid: a, generation: g }, ValueRef::Stream { cid: b, generation: h }) => a.id == b.id && g.0 == h.0,
            _ => false,
        }
    }
}
impl vstd::std_specs::cmp::PartialEqSpecImpl<ValueRef> for ValueRef {
    open spec fn obeys_eq_spec() -> bool { true }
    open spec fn eq_spec(&self, o: &ValueRef) -> bool { *self == *o }
}
impl PartialEq for CallResult {
    fn eq(&self, o: &Self) -> (r: bool) ensures r == (*self == *o) {
        match (self, o) {
            (CallResult::RequestSentBy(a), CallResult::RequestSentBy(b)) => *a == *b,
            (CallResult::Executed(a), CallResult::Executed(b)) => *a == *b,
            (CallResult::Failed(a), CallResult::Failed(b)) => a.id == b.id,
            _ => false,
        }
    }
}
impl vstd::std_specs::cmp::PartialEqSpecImpl<CallResult> for CallResult {
    open spec fn obeys_eq_spec() -> bool { true }
    open spec fn eq_spec(&self, o: &CallResult) -> bool { *self == *o }
}
#[derive(Clone, Copy)]
pub enum PreparationScheme { Previous, Current, Both }
pub enum CallResultError {
    ValuesNotEqual { prev_value: ValueRef, current_value: ValueRef },
    IncompatibleCallResults { prev_call: CallResult, current_call: CallResult },
}
pub enum MergeError { IncorrectCallResult(CallResultError) }
type MergeResult<T> = Result<T, MergeError>;
impl CallResultError {
    pub fn not_equal_values(prev_value: ValueRef, current_value: ValueRef) -> MergeError {
        MergeError::IncorrectCallResult(CallResultError::ValuesNotEqual { prev_value, current_value })
    }
    pub fn incompatible_calls(prev_call: CallResult, current_call: CallResult) -> MergeError {
        MergeError::IncorrectCallResult(CallResultError::IncompatibleCallResults { prev_call, current_call })
    }
}
pub open spec fn is_sent(c: CallResult) -> bool { c is RequestSentBy }
pub open spec fn call_eqv(a: CallResult, b: CallResult) -> bool {
    match (a, b) {
        (CallResult::RequestSentBy(_), CallResult::RequestSentBy(_)) => true,
        (CallResult::Failed(x), CallResult::Failed(y)) => x.id == y.id,
        (CallResult::Executed(ValueRef::Scalar(x)), CallResult::Executed(ValueRef::Scalar(y))) => x.id == y.id,
        (CallResult::Executed(ValueRef::Unused(x)), CallResult::Executed(ValueRef::Unused(y))) => x.id == y.id,
        (CallResult::Executed(ValueRef::Stream{cid: x, ..}), CallResult::Executed(ValueRef::Stream{cid: y, ..})) => x.id == y.id,
        _ => false,
    }
}
fn merge_call_results(prev_call: CallResult, current_call: CallResult) -> (r: MergeResult<(CallResult, PreparationScheme)>)
    ensures
        r matches Ok((m, _)) ==> (m == prev_call || m == current_call),
        r matches Ok((m, _)) ==> (!is_sent(prev_call) ==> m == prev_call),
        r matches Ok((m, _)) ==> (is_sent(prev_call) && !is_sent(current_call) ==> m == current_call),
        r matches Ok((m, _)) ==> (is_sent(prev_call) && is_sent(current_call) ==> m == prev_call),
        r is Err ==> !is_sent(prev_call) && !is_sent(current_call) && !call_eqv(prev_call, current_call),
        call_eqv(prev_call, current_call) ==> r is Ok,
{
    use CallResult::*;
    use PreparationScheme::*;

    let (merged_state, scheme) = match (prev_call, current_call) {
        (prev @ Failed(..), current @ Failed(..)) => {
            check_equal(&prev, &current)?;
            (prev, Previous)
        }
        (RequestSentBy(_), current @ Failed(..)) => (current, Current),
        (prev @ Failed(..), RequestSentBy(_)) => (prev, Previous),


        (previous @ RequestSentBy(_), RequestSentBy(_)) => (previous, Previous),
        (RequestSentBy(_), current @ Executed(_)) => (current, Current),
        (previous @ Executed(..), RequestSentBy(_)) => (previous, Previous),
        (Executed(prev_value), Executed(current_value)) => (merge_executed(prev_value, current_value)?, Both),
        (prev_call, current_call) => return Err(CallResultError::incompatible_calls(prev_call, current_call)),
    };

    Ok((merged_state, scheme))
}

pub open spec fn vref_eqv(a: ValueRef, b: ValueRef) -> bool {
    match (a, b) {
        (ValueRef::Scalar(x), ValueRef::Scalar(y)) => x.id == y.id,
        (ValueRef::Unused(x), ValueRef::Unused(y)) => x.id == y.id,
        (ValueRef::Stream{cid: x, ..}, ValueRef::Stream{cid: y, ..}) => x.id == y.id,
        _ => false,
    }
}
pub fn merge_executed(prev_value: ValueRef, current_value: ValueRef) -> (r: MergeResult<CallResult>)
    ensures r is Ok <==> vref_eqv(prev_value, current_value),
            r matches Ok(c) ==> c == CallResult::Executed(prev_value),
{
    match (&prev_value, &current_value) {
        (ValueRef::Scalar(_), ValueRef::Scalar(_)) => {
            are_scalars_equal(&prev_value, &current_value)?;
            Ok(CallResult::Executed(prev_value))
        }
        (ValueRef::Stream { cid: pr, .. }, ValueRef::Stream { cid: cr, .. }) => {
            are_streams_equal(pr, cr, &prev_value, &current_value)?;
            Ok(CallResult::Executed(prev_value))
        }
        (ValueRef::Unused(_), ValueRef::Unused(_)) => {
            are_scalars_equal(&prev_value, &current_value)?;
            Ok(CallResult::Executed(prev_value))
        }
        _ => Err(CallResultError::not_equal_values(prev_value, current_value)),
    }
}

fn are_scalars_equal(prev_value: &ValueRef, current_value: &ValueRef) -> (r: MergeResult<()>)
    ensures r is Ok <==> *prev_value == *current_value
{
    if prev_value == current_value {
        return Ok(());
    }

    Err(CallResultError::not_equal_values(
        prev_value.clone(),
        current_value.clone(),
    ))
}

fn are_streams_equal(
    prev_result_value: &CID<ServiceResultCidAggregate>,
    current_result_value: &CID<ServiceResultCidAggregate>,
    prev_value: &ValueRef,
    current_value: &ValueRef,
) -> (r: MergeResult<()>)
    ensures r is Ok <==> prev_result_value.id == current_result_value.id
{
    if prev_result_value == current_result_value {
        return Ok(());
    }

    Err(CallResultError::not_equal_values(
        prev_value.clone(),
        current_value.clone(),
    ))
}

pub fn check_equal(prev_call: &CallResult, current_call: &CallResult) -> (r: MergeResult<()>)
    ensures r is Ok <==> *prev_call == *current_call
{
    if prev_call != current_call {
        Err(CallResultError::incompatible_calls(
            prev_call.clone(),
            current_call.clone(),
        ))
    } else {
        Ok(())
    }
}

}
fn main() {}
