use vstd::prelude::*;
verus! {

#[derive(Clone, Copy)]
pub struct GenerationIdx(pub u32);
impl GenerationIdx {
    pub fn checked_add(self, other: Self) -> (r: Option<Self>)
        ensures r == (if self.0 + other.0 <= u32::MAX { Some(GenerationIdx((self.0 + other.0) as u32)) } else { None::<GenerationIdx> })
    { match self.0.checked_add(other.0) { Some(v) => Some(GenerationIdx(v)), None => None } }
}
impl vstd::std_specs::convert::FromSpecImpl<i32> for GenerationIdx {
    open spec fn obeys_from_spec() -> bool { true }
    open spec fn from_spec(v: i32) -> GenerationIdx { GenerationIdx(v as u32) }
}
impl From<i32> for GenerationIdx { fn from(v: i32) -> (r: GenerationIdx) { GenerationIdx(v as u32) } }
pub struct ExecutionError { pub x: u8 }
type ExecutionResult<T> = Result<T, ExecutionError>;
pub struct TraceHandler { pub log: Ghost<Seq<(int, int)>> }   // (matrix id, start index)
pub struct SliceIter { pub matrix: Ghost<int>, pub skip: Ghost<int> }
#[verifier::external_body]
#[verifier::reject_recursive_types(T)]
pub struct ValuesMatrix<T> { x: core::marker::PhantomData<T> }
impl<T> ValuesMatrix<T> {
    pub uninterp spec fn id(&self) -> int;
    pub uninterp spec fn gens(&self) -> nat;      // number of generations
    pub uninterp spec fn compact(&self) -> bool;  // no empty generations
    #[verifier::external_body] pub fn remove_empty_generations(&mut self)
        ensures final(self).compact(), final(self).id() == old(self).id() { unimplemented!() }
    #[verifier::external_body] pub fn generations_count(&self) -> (r: GenerationIdx) ensures r.0 == self.gens() { unimplemented!() }
    #[verifier::external_body] pub fn slice_iter(&self, skip: GenerationIdx) -> (r: SliceIter)
        ensures r.matrix@ == self.id(), r.skip@ == skip.0 { unimplemented!() }
}
#[verifier::reject_recursive_types(T)]
pub struct Stream<T> { pub previous_values: ValuesMatrix<T>, pub current_values: ValuesMatrix<T>, pub new_values: ValuesMatrix<T> }
impl<T> Stream<T> {
    #[verifier::external_body]
    fn update_generations(values: SliceIter, start_idx: GenerationIdx, trace_ctx: &mut TraceHandler) -> (r: ExecutionResult<()>)
        ensures r is Ok ==> final(trace_ctx).log@ == old(trace_ctx).log@.push((values.matrix@, start_idx.0 as int)),
    { unimplemented!() }
}
impl<T> Stream<T> {

    pub fn compactify(&mut self, trace_ctx: &mut TraceHandler) -> ExecutionResult<()> {
        self.previous_values.remove_empty_generations();
        self.current_values.remove_empty_generations();
        self.new_values.remove_empty_generations();

        let start_idx = 0.into();
        Self::update_generations(self.previous_values.slice_iter(0.into()), start_idx, trace_ctx)?;

        let start_idx = self.previous_values.generations_count();
        Self::update_generations(self.current_values.slice_iter(0.into()), start_idx, trace_ctx)?;

        let start_idx = start_idx.checked_add(self.current_values.generations_count()).unwrap();
        Self::update_generations(self.new_values.slice_iter(0.into()), start_idx, trace_ctx)?;

        Ok(())
    }

}

}
fn main() {}
