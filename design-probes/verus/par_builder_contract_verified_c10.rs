use vstd::prelude::*;
verus! {
#[derive(Copy, Clone, Default, PartialEq, Eq)]
pub struct TracePos(pub u32);
impl vstd::std_specs::ops::SubSpecImpl<TracePos> for TracePos {
    open spec fn obeys_sub_spec() -> bool { true }
    open spec fn sub_req(self, rhs: TracePos) -> bool { self.0 >= rhs.0 }
    open spec fn sub_spec(self, rhs: TracePos) -> TracePos { TracePos((self.0 - rhs.0) as u32) }
}
impl core::ops::Sub<TracePos> for TracePos { type Output = TracePos; fn sub(self, rhs: TracePos) -> TracePos { TracePos(self.0 - rhs.0) } }
impl vstd::std_specs::convert::FromSpecImpl<TracePos> for usize {
    open spec fn obeys_from_spec() -> bool { true }
    open spec fn from_spec(v: TracePos) -> usize { v.0 as usize }
}
impl From<TracePos> for usize { fn from(v: TracePos) -> usize { v.0 as usize } }
impl vstd::std_specs::convert::FromSpecImpl<u32> for TracePos {
    open spec fn obeys_from_spec() -> bool { true }
    open spec fn from_spec(v: u32) -> TracePos { TracePos(v) }
}
impl From<u32> for TracePos { fn from(v: u32) -> TracePos { TracePos(v) } }
#[derive(Clone, Copy)]
pub struct SubTraceDesc { pub begin_pos: TracePos, pub subtrace_len: u32 }
pub struct FoldSubTraceLore { pub value_pos: TracePos, pub subtraces_desc: Vec<SubTraceDesc> }
#[derive(Clone, Copy)]
pub enum SubgraphType { Left, Right }
pub enum ExecutedState { Par(u32, u32), Other }
impl ExecutedState {
    pub fn par(left_subgraph_size: usize, right_subgraph_size: usize) -> (r: Self)
        ensures r == ExecutedState::Par(left_subgraph_size as u32, right_subgraph_size as u32)
    { ExecutedState::Par(left_subgraph_size as u32, right_subgraph_size as u32) }
}
pub struct ExecutionTrace(pub Vec<ExecutedState>);
impl ExecutionTrace {
    pub fn len(&self) -> (r: usize) ensures r == self.0@.len() { self.0.len() }
    pub fn push(&mut self, s: ExecutedState) ensures final(self).0@ == old(self).0@.push(s) { self.0.push(s) }
    pub fn set_at(&mut self, p: TracePos, s: ExecutedState)
        requires p.0 < old(self).0@.len()
        ensures final(self).0@ == old(self).0@.update(p.0 as int, s)
    { self.0.set(p.0 as usize, s) }
}
pub struct DataKeeper { pub result_trace: ExecutionTrace }
impl DataKeeper {
    pub fn result_states_count(&self) -> (r: usize) ensures r == self.result_trace.0@.len() { self.result_trace.len() }
    #[verifier::external_body]
    pub fn result_trace_next_pos(&self) -> (r: TracePos)
        requires self.result_trace.0@.len() <= u32::MAX
        ensures r.0 == self.result_trace.0@.len()
    { unimplemented!() }
}







#[derive(Default, Clone)]
pub struct StateInserter {
    position: TracePos,
}

impl StateInserter {
    pub fn from_keeper(data_keeper: &mut DataKeeper) -> Self {
        let position = data_keeper.result_trace_next_pos();

        data_keeper.result_trace.push(ExecutedState::par(0, 0));

        Self { position }
    }

    pub fn insert(self, data_keeper: &mut DataKeeper, state: ExecutedState) {
        data_keeper.result_trace.set_at(self.position, state);
    }
}

#[derive(Default, Clone)]
pub struct ParBuilder {
    pub saved_states_count: usize,
    pub left_subgraph_size: usize,
    pub right_subgraph_size: usize,
}

impl ParBuilder {


    pub fn from_keeper(data_keeper: &DataKeeper, _unused: &StateInserter) -> (r: Self)
        ensures r.saved_states_count == data_keeper.result_trace.0@.len(), r.left_subgraph_size == 0, r.right_subgraph_size == 0
    {
        let saved_states_count = data_keeper.result_states_count();

        Self {
            saved_states_count,
            left_subgraph_size: 0,
            right_subgraph_size: 0,
        }
    }

    pub fn track(&mut self, data_keeper: &DataKeeper, subgraph_type: SubgraphType)
        requires old(self).saved_states_count <= data_keeper.result_trace.0@.len(),   // the result trace only grows
        ensures final(self).saved_states_count == data_keeper.result_trace.0@.len(),
            subgraph_type is Left ==> final(self).left_subgraph_size == data_keeper.result_trace.0@.len() - old(self).saved_states_count
                                      && final(self).right_subgraph_size == old(self).right_subgraph_size,
            subgraph_type is Right ==> final(self).right_subgraph_size == data_keeper.result_trace.0@.len() - old(self).saved_states_count
                                      && final(self).left_subgraph_size == old(self).left_subgraph_size,
    {
        let prev_states_count = self.saved_states_count;
        let states_count = data_keeper.result_states_count();
        let resulted_states_count = states_count - prev_states_count;

        match subgraph_type {
            SubgraphType::Left => self.left_subgraph_size = resulted_states_count,
            SubgraphType::Right => self.right_subgraph_size = resulted_states_count,
        }
        self.saved_states_count = data_keeper.result_trace.len();
    }

    pub fn build(self) -> (r: ExecutedState)
        ensures r == ExecutedState::Par(self.left_subgraph_size as u32, self.right_subgraph_size as u32)
    {

        ExecutedState::par(self.left_subgraph_size, self.right_subgraph_size)
    }
}

fn par_protocol(k0: &DataKeeper, k1: &DataKeeper, k2: &DataKeeper, ins: &StateInserter) -> (r: ExecutedState)
    requires k0.result_trace.0@.len() <= k1.result_trace.0@.len() <= k2.result_trace.0@.len() < 0x1_0000_0000,
    ensures r == ExecutedState::Par((k1.result_trace.0@.len() - k0.result_trace.0@.len()) as u32,
                                    (k2.result_trace.0@.len() - k1.result_trace.0@.len()) as u32)
{
    let mut b = ParBuilder::from_keeper(k0, ins);
    b.track(k1, SubgraphType::Left);
    b.track(k2, SubgraphType::Right);
    b.build()
}

#[derive(Default, PartialEq, Eq, Clone, Copy)]
pub struct SubTraceLoreCtor {
    value_pos: TracePos,
    before_tracker: PositionsTracker,
    after_tracker: PositionsTracker,
    state: CtorState,
}

#[derive(Default, PartialEq, Eq, Clone, Copy)]
struct PositionsTracker {
    start_pos: TracePos,
    end_pos: TracePos,
}

#[derive(PartialEq, Eq, Clone, Copy)]
pub enum CtorState {
    BeforeStarted,
    BeforeCompleted,
    AfterStarted,
    AfterCompleted,
}

impl SubTraceLoreCtor {
    pub fn from_before_start(value_pos: TracePos, data_keeper: &DataKeeper) -> Self {
        let before_tracker = PositionsTracker {
            start_pos: data_keeper.result_trace_next_pos(),
            end_pos: 0.into(),
        };

        Self {
            value_pos,
            before_tracker,
            ..<_>::default()
        }
    }

    pub fn before_end(&mut self, data_keeper: &DataKeeper) {
        self.before_tracker.end_pos = data_keeper.result_trace_next_pos();
        self.state.next();
    }

    pub fn maybe_before_end(&mut self, data_keeper: &DataKeeper) {
        if self.state != CtorState::BeforeStarted {
            return;
        }

        self.before_tracker.end_pos = data_keeper.result_trace_next_pos();
        self.state.next();
    }

    pub fn after_start(&mut self, data_keeper: &DataKeeper) {
        self.after_tracker.start_pos = data_keeper.result_trace_next_pos();
        self.state.next();
    }

    pub fn after_end(&mut self, data_keeper: &DataKeeper) {
        self.after_tracker.end_pos = data_keeper.result_trace_next_pos();
        self.state.next();
    }

    pub fn into_subtrace_lore(self) -> FoldSubTraceLore {
        let before = SubTraceDesc {
            begin_pos: self.before_tracker.start_pos,
            subtrace_len: self.before_tracker.len() as _,
        };

        let after = SubTraceDesc {
            begin_pos: self.after_tracker.start_pos,
            subtrace_len: self.after_tracker.len() as _,
        };

        FoldSubTraceLore {
            value_pos: self.value_pos,
            subtraces_desc: vec![before, after],
        }
    }


    pub fn finish(&mut self, data_keeper: &DataKeeper) {
        use CtorState::*;

        match self.state {
            BeforeStarted => {
                self.before_end(data_keeper);
                self.after_start(data_keeper);
                self.after_end(data_keeper);
            }
            BeforeCompleted => {
                self.after_start(data_keeper);
                self.after_end(data_keeper);
            }
            AfterStarted => {
                self.after_end(data_keeper);
            }
            AfterCompleted => {}
        }
    }
}

impl PositionsTracker {
    fn len(&self) -> usize {
        (self.end_pos - self.start_pos).into()
    }
}

impl Default for CtorState {
    fn default() -> Self {
        Self::BeforeStarted
    }
}

impl CtorState {
    fn next(&mut self) {
        use CtorState::*;

        let next_state = match self {
            BeforeStarted => BeforeCompleted,
            BeforeCompleted => AfterStarted,
            AfterStarted => AfterCompleted,
            AfterCompleted => AfterCompleted,
        };

        *self = next_state;
    }
}

}
fn main() {}
