use vstd::prelude::*;
verus! {

pub struct SoftLimitsTriggering { pub a: bool, pub p: bool, pub c: bool }
impl SoftLimitsTriggering {
    pub fn default() -> Self { SoftLimitsTriggering { a: false, p: false, c: false } }
}
impl Clone for SoftLimitsTriggering { fn clone(&self) -> Self { SoftLimitsTriggering { a: self.a, p: self.p, c: self.c } } }
impl Copy for SoftLimitsTriggering {}
pub struct RunParameters { pub particle_id: String }
pub struct SerializedCallResults { pub x: u8 }
pub enum Origin { UncatchablePrev, Populated }
pub struct InterpreterOutcome { pub ret_code: i64, pub data: Vec<u8>, pub origin: Ghost<Origin> }
pub struct InterpreterData { pub x: u8 }
pub struct ParsedDataPair { pub prev_data: InterpreterData, pub current_data: InterpreterData }
pub struct SignatureStore { pub x: u8 }
pub struct ExecutionCtx { pub peer_cid_tracker: u8, pub signature_store: SignatureStore }
pub struct TraceHandler { pub x: u8 }
pub struct KeyPair { pub x: u8 }
pub struct Instruction { pub x: u8 }
pub struct PreparationDescriptor { pub exec_ctx: ExecutionCtx, pub trace_handler: TraceHandler, pub air: Instruction, pub keypair: KeyPair }
pub struct PreparationError { pub x: u8 }
pub struct ExecutionError { pub catchable: bool }
impl ExecutionError { pub fn is_catchable(&self) -> (r: bool) ensures r == self.catchable { self.catchable } }
pub trait ToErrorCode { }
impl ToErrorCode for PreparationError {}
impl ToErrorCode for ExecutionError {}
#[verifier::external_body] pub fn check_against_size_limits(p: &RunParameters, air: &String, d: &Vec<u8>) -> Result<SoftLimitsTriggering, PreparationError> { unimplemented!() }
#[verifier::external_body] pub fn parse_data(p: &Vec<u8>, c: &Vec<u8>) -> Result<ParsedDataPair, PreparationError> { unimplemented!() }
#[verifier::external_body] pub fn verify(p: &InterpreterData, c: &InterpreterData, salt: &String) -> Result<SignatureStore, PreparationError> { unimplemented!() }
#[verifier::external_body] pub fn prepare(p: InterpreterData, c: InterpreterData, air: &String, cr: &SerializedCallResults, params: RunParameters, s: SignatureStore, soft: &mut SoftLimitsTriggering) -> Result<PreparationDescriptor, PreparationError> { unimplemented!() }
#[verifier::external_body] pub fn sign_produced_cids(t: &mut u8, s: &mut SignatureStore, salt: &String, k: &KeyPair) -> Result<(), ExecutionError> { unimplemented!() }
impl Instruction { #[verifier::external_body] pub fn execute(&self, e: &mut ExecutionCtx, t: &mut TraceHandler) -> Result<(), ExecutionError> { unimplemented!() } }
pub mod farewell {
    use super::*;
    #[verifier::external_body] pub fn from_uncatchable_error<E: ToErrorCode>(data: Vec<u8>, error: E, soft: SoftLimitsTriggering) -> (o: InterpreterOutcome)
        ensures o.data == data, o.origin@ is UncatchablePrev { unimplemented!() }
    #[verifier::external_body] pub fn from_success_result(e: ExecutionCtx, t: TraceHandler, k: &KeyPair, soft: SoftLimitsTriggering) -> (r: Result<InterpreterOutcome, InterpreterOutcome>)
        ensures (r matches Ok(o) ==> o.origin@ is Populated), (r matches Err(o) ==> o.origin@ is Populated) { unimplemented!() }
    #[verifier::external_body] pub fn from_execution_error(e: ExecutionCtx, t: TraceHandler, error: ExecutionError, k: &KeyPair, soft: SoftLimitsTriggering) -> (o: InterpreterOutcome)
        ensures o.origin@ is Populated { unimplemented!() }
}
fn execute_air_impl(
    air: String,
    raw_prev_data: Vec<u8>,
    raw_current_data: Vec<u8>,
    params: RunParameters,
    call_results: SerializedCallResults,
) -> (res: Result<InterpreterOutcome, InterpreterOutcome>)
    ensures
        res matches Err(o) ==> (o.origin@ is UncatchablePrev ==> o.data == raw_prev_data),
        res matches Ok(o) ==> o.origin@ is Populated,
{


    let mut soft_limits_triggering = match check_against_size_limits(&params, &air, &raw_current_data) { Ok(result) => result, Err(error) => { return Err(farewell::from_uncatchable_error(raw_prev_data, error, SoftLimitsTriggering::default())) } };

    match check_against_size_limits(&params, &air, &raw_current_data) { Ok(result) => result, Err(error) => { return Err(farewell::from_uncatchable_error(raw_prev_data, error, soft_limits_triggering)) } };

    let ParsedDataPair {
        prev_data,
        current_data,
    } = match parse_data(&raw_prev_data, &raw_current_data) { Ok(result) => result, Err(error) => { return Err(farewell::from_uncatchable_error(raw_prev_data, error, soft_limits_triggering)) } };


    let salt = params.particle_id.clone();
    let signature_store = match verify(&prev_data, &current_data, &salt) { Ok(result) => result, Err(error) => { return Err(farewell::from_uncatchable_error(raw_prev_data, error, soft_limits_triggering)) } };

    let PreparationDescriptor {
        mut exec_ctx,
        mut trace_handler,
        air,
        keypair,
    } = match prepare(
            prev_data,
            current_data,
            &air,
            &call_results,
            params,
            signature_store,
            &mut soft_limits_triggering
        ) { Ok(result) => result, Err(error) => { return Err(farewell::from_uncatchable_error(raw_prev_data, error, soft_limits_triggering)) } };


    let exec_result = (air.execute(&mut exec_ctx, &mut trace_handler));

    match sign_produced_cids(
            &mut exec_ctx.peer_cid_tracker,
            &mut exec_ctx.signature_store,
            &salt,
            &keypair,
        ) { Ok(result) => result, Err(error) => { return Err(farewell::from_uncatchable_error(raw_prev_data, error, soft_limits_triggering)) } };

    (match exec_result {
            Ok(_) => farewell::from_success_result(exec_ctx, trace_handler, &keypair, soft_limits_triggering),

            Err(error) if error.is_catchable() => {
                Err(farewell::from_execution_error(
                    exec_ctx,
                    trace_handler,
                    error,
                    &keypair,
                    soft_limits_triggering,
                ))
            }

            Err(error) => Err(farewell::from_uncatchable_error(
                raw_prev_data,
                error,
                soft_limits_triggering
            )),
        })
}

}
fn main() {}
