// appended to crates/air-lib/interpreter-sede/src/multiformat.rs in a scratch copy
#[cfg(kani)]
mod verif_kani {
    use super::*;

    struct ByteFmt;
    impl Format<u8> for ByteFmt {
        type SerializationError = ();
        type DeserializationError = ();
        type WriteError = ();
        fn to_vec(&self, val: &u8) -> Result<Vec<u8>, ()> { Ok(vec![*val]) }
        fn from_slice(&self, slice: &[u8]) -> Result<u8, ()> {
            if slice.len() == 1 { Ok(slice[0]) } else { Err(()) }
        }
        fn to_writer<W: std::io::Write>(&self, value: &u8, write: &mut W) -> Result<(), ()> {
            write.write_all(&[*value]).map_err(|_| ())
        }
    }

    #[kani::proof]
    #[kani::unwind(8)]
    fn c27_multiformat_roundtrip() {
        let codec: u32 = kani::any();
        let expected: u32 = kani::any();
        let v: u8 = kani::any();
        let enc = encode_multiformat(&v, codec, &ByteFmt);
        let enc = match enc { Ok(e) => e, Err(_) => { assert!(false); return; } };
        let dec: Result<u8, _> = decode_multiformat(&enc, expected, &ByteFmt);
        match dec {
            Ok(d) => assert!(codec == expected && d == v),
            Err(DecodeError::Codec(c)) => assert!(codec != expected && c == codec),
            Err(_) => assert!(false),
        }
    }

    struct Buf { b: [u8; 8], n: usize }
    impl std::io::Write for Buf {
        fn write(&mut self, data: &[u8]) -> std::io::Result<usize> {
            let mut i = 0;
            while i < data.len() && self.n < 8 { self.b[self.n] = data[i]; self.n += 1; i += 1; }
            Ok(i)
        }
        fn flush(&mut self) -> std::io::Result<()> { Ok(()) }
    }

    #[kani::proof]
    #[kani::unwind(10)]
    fn c27_multiformat_roundtrip_small_writer() {
        let codec: u32 = kani::any();
        let expected: u32 = kani::any();
        let v: u8 = kani::any();
        let mut w = Buf { b: [0; 8], n: 0 };
        let r = write_multiformat(&v, codec, &ByteFmt, &mut w);
        let okw = r.is_ok();
        std::mem::forget(r);
        assert!(okw);
        let dec: Result<u8, _> = decode_multiformat(&w.b[..w.n], expected, &ByteFmt);
        match dec {
            Ok(d) => assert!(codec == expected && d == v),
            Err(DecodeError::Codec(c)) => assert!(codec != expected && c == codec),
            Err(_) => assert!(false),
        }
    }
}
