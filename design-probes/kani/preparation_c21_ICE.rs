// appended to air/src/preparation_step/preparation.rs in a scratch copy
#[cfg(kani)]
mod verif_kani {
    use super::*;
    fn stub_format(_args: std::fmt::Arguments<'_>) -> String { String::new() }

    #[kani::proof]
    #[kani::unwind(12)]
    #[kani::stub(alloc::fmt::format, stub_format)]
    fn c21_version_gate_release_triples() {
        let major: u64 = kani::any();
        let minor: u64 = kani::any();
        let patch: u64 = kani::any();
        let versions = Versions {
            data_version: semver::Version::new(0, 0, 0),
            interpreter_version: semver::Version::new(major, minor, patch),
        };
        let min = crate::preparation_step::min_supported_version();
        kani::assume(min.major == 0 && min.minor == 61 && min.patch == 0 && min.pre.is_empty());
        let r = check_version_compatibility(&versions);
        let below = major == 0 && minor < 61;
        assert!(r.is_err() == below);
        std::mem::forget(r);
    }
}
