// appended to crates/air-lib/interpreter-data/src/interpreter_data/verification.rs in a scratch copy
#[cfg(kani)]
mod verif_kani {
    use super::*;

    fn cid(k: u8) -> Rc<CidRef> { match k { 0 => "a".into(), 1 => "b".into(), _ => "c".into() } }

    fn any_vec(n: usize) -> (Vec<Rc<CidRef>>, [usize; 3]) {
        let mut v = Vec::new();
        let mut cnt = [0usize; 3];
        let mut i = 0;
        while i < n {
            let k: u8 = kani::any();
            kani::assume(k < 3);
            v.push(cid(k));
            cnt[k as usize] += 1;
            i += 1;
        }
        (v, cnt)
    }

    fn stub_random_state() -> std::hash::RandomState { unsafe { std::mem::transmute((0u64, 0u64)) } }

    #[kani::proof]
    #[kani::unwind(5)]
    #[kani::stub(std::hash::RandomState::new, stub_random_state)]
    fn c15_multisubset_exact() {
        let nl: usize = kani::any();
        let ns: usize = kani::any();
        kani::assume(nl <= 2 && ns <= 2);
        let (l, cl) = any_vec(nl);
        let (s, cs) = any_vec(ns);
        let expect = cs[0] <= cl[0] && cs[1] <= cl[1] && cs[2] <= cl[2];
        let r = is_multisubset(to_count_map(&l), to_count_map(&s));
        assert!(r == expect);
    }

    #[kani::proof]
    #[kani::unwind(20)]
    #[kani::solver(kissat)]
    #[kani::stub(std::hash::RandomState::new, stub_random_state)]
    fn c15_multisubset_tiny() {
        let nl: usize = kani::any();
        let ns: usize = kani::any();
        kani::assume(nl <= 1 && ns <= 1);
        let (l, cl) = any_vec(nl);
        let (s, cs) = any_vec(ns);
        let expect = cs[0] <= cl[0] && cs[1] <= cl[1] && cs[2] <= cl[2];
        let r = is_multisubset(to_count_map(&l), to_count_map(&s));
        assert!(r == expect);
    }
}
