// appended to crates/air-lib/trace-handler/src/lib.rs in a scratch copy
#[cfg(kani)]
mod verif_kani {
    use crate::data_keeper::TraceSlider;
    use air_interpreter_data::*;

    fn mk_trace(n: usize) -> Vec<ExecutedState> {
        let mut v = Vec::new();
        let mut i = 0;
        while i < n { v.push(ExecutedState::par(0, 0)); i += 1; }
        v
    }

    #[kani::proof]
    #[kani::unwind(5)]
    fn slider_set_position_and_len_total() {
        let n: usize = kani::any();
        kani::assume(n <= 3);
        let mut slider = TraceSlider::new(mk_trace(n));
        let pos: u32 = kani::any();
        let len: u32 = kani::any();
        let _ = slider.set_position_and_len(pos.into(), len);
    }
}
