// appended to air/src/execution_step/value_types/stream/stream_definition.rs in a scratch copy
#[cfg(kani)]
mod verif_kani {
    use super::*;
    use air_interpreter_data::ApResult;
    use air_interpreter_data::TracePos;

    #[derive(Clone)]
    struct V(TracePos);
    impl TracePosOperate for V {
        fn get_trace_pos(&self) -> TracePos { self.0 }
        fn set_trace_pos(&mut self, pos: TracePos) { self.0 = pos; }
    }
    impl fmt::Display for V {
        fn fmt(&self, _f: &mut fmt::Formatter<'_>) -> fmt::Result { Ok(()) }
    }

    fn gen_of(trace_ctx: &TraceHandler, pos: u32) -> u32 {
        match &trace_ctx.as_result_trace()[TracePos::from(pos)] {
            air_interpreter_data::ExecutedState::Ap(ap) => usize::from(ap.res_generations[0]) as u32,
            _ => u32::MAX,
        }
    }

    // three values, one per source, each put into a symbolic generation 0..2
    fn stub_random_state() -> std::hash::RandomState { unsafe { std::mem::transmute((0u64, 0u64)) } }

    #[kani::proof]
    #[kani::unwind(6)]
    #[kani::stub(std::hash::RandomState::new, stub_random_state)]
    fn c12_compactify_order() {
        let mut trace_ctx = TraceHandler::default();
        trace_ctx.meet_ap_end(ApResult::stub());
        trace_ctx.meet_ap_end(ApResult::stub());
        trace_ctx.meet_ap_end(ApResult::stub());
        let mut stream: Stream<V> = Stream::new();
        let gp: u32 = kani::any();
        let gc: u32 = kani::any();
        kani::assume(gp < 3 && gc < 3);
        stream.add_value(V(0.into()), Generation::Previous((gp as usize).into())).unwrap();
        stream.add_value(V(1.into()), Generation::Current((gc as usize).into())).unwrap();
        stream.add_value(V(2.into()), Generation::New).unwrap();
        stream.compactify(&mut trace_ctx).unwrap();
        let a = gen_of(&trace_ctx, 0);
        let b = gen_of(&trace_ctx, 1);
        let c = gen_of(&trace_ctx, 2);
        assert!(a == 0 && b == 1 && c == 2);
        std::mem::forget(stream);
        std::mem::forget(trace_ctx);
    }
}
