// appended to air/src/execution_step/value_types/stream/stream_definition.rs in a scratch copy
#[cfg(kani)]
mod verif_kani {
    use super::*;
    use air_interpreter_data::ApResult;
    use air_interpreter_data::TracePos;

    #[derive(Clone)]
    struct V(TracePos);
    impl TracePosOperate for V {
        fn get_trace_pos(&self) -> TracePos { self.0 }
        fn set_trace_pos(&mut self, pos: TracePos) { self.0 = pos; }
    }
    impl fmt::Display for V {
        fn fmt(&self, _f: &mut fmt::Formatter<'_>) -> fmt::Result { Ok(()) }
    }

    fn ok<T, E>(r: Result<T, E>) {
        let good = r.is_ok();
        std::mem::forget(r);
        assert!(good);
    }

    fn gen_of(trace_ctx: &TraceHandler, pos: u32) -> u32 {
        match &trace_ctx.as_result_trace()[TracePos::from(pos)] {
            air_interpreter_data::ExecutedState::Ap(ap) => usize::from(ap.res_generations[0]) as u32,
            _ => u32::MAX,
        }
    }

    // three values, one per source, each put into a symbolic generation 0..2
    fn stub_random_state() -> std::hash::RandomState { unsafe { std::mem::transmute((0u64, 0u64)) } }

    #[kani::proof]
    #[kani::unwind(6)]
    #[kani::stub(std::hash::RandomState::new, stub_random_state)]
    fn c12_compactify_order() {
        let mut trace_ctx = TraceHandler::default();
        trace_ctx.meet_ap_end(ApResult::stub());
        trace_ctx.meet_ap_end(ApResult::stub());
        trace_ctx.meet_ap_end(ApResult::stub());
        let mut stream: Stream<V> = Stream::new();
        let gp: u32 = kani::any();
        let gc: u32 = kani::any();
        kani::assume(gp < 3 && gc < 3);
        ok(stream.add_value(V(0.into()), Generation::Previous((gp as usize).into())));
        ok(stream.add_value(V(1.into()), Generation::Current((gc as usize).into())));
        ok(stream.add_value(V(2.into()), Generation::New));
        ok(stream.compactify(&mut trace_ctx));
        let a = gen_of(&trace_ctx, 0);
        let b = gen_of(&trace_ctx, 1);
        let c = gen_of(&trace_ctx, 2);
        assert!(a == 0 && b == 1 && c == 2);
        std::mem::forget(stream);
        std::mem::forget(trace_ctx);
    }

    #[kani::proof]
    #[kani::unwind(5)]
    #[kani::stub(std::hash::RandomState::new, stub_random_state)]
    fn c12_compactify_slim() {
        let mut trace_ctx = TraceHandler::default();
        trace_ctx.meet_ap_end(ApResult::stub());
        trace_ctx.meet_ap_end(ApResult::stub());
        let mut stream: Stream<V> = Stream::new();
        ok(stream.add_value(V(0.into()), Generation::Current(1usize.into())));
        ok(stream.add_value(V(1.into()), Generation::New));
        ok(stream.compactify(&mut trace_ctx));
        assert!(gen_of(&trace_ctx, 0) == 0 && gen_of(&trace_ctx, 1) == 1);
        std::mem::forget(stream);
        std::mem::forget(trace_ctx);
    }

    // profile A: trace handler only
    #[kani::proof]
    #[kani::unwind(5)]
    #[kani::stub(std::hash::RandomState::new, stub_random_state)]
    fn prof_a_trace_handler_only() {
        let mut trace_ctx = TraceHandler::default();
        trace_ctx.meet_ap_end(ApResult::stub());
        trace_ctx.meet_ap_end(ApResult::stub());
        assert!(trace_ctx.update_generation(1.into(), 7usize.into()).is_ok());
        assert!(gen_of(&trace_ctx, 1) == 7);
        std::mem::forget(trace_ctx);
    }

    // profile B: stream only (values matrix ops), no trace handler
    #[kani::proof]
    #[kani::unwind(5)]
    fn prof_b_stream_only() {
        let mut stream: Stream<V> = Stream::new();
        ok(stream.add_value(V(0.into()), Generation::Current(1usize.into())));
        ok(stream.add_value(V(1.into()), Generation::New));
        stream.previous_values.remove_empty_generations();
        stream.current_values.remove_empty_generations();
        stream.new_values.remove_empty_generations();
        let n: usize = stream.current_values.generations_count().into();
        assert!(n == 1);
        let mut it = stream.iter();
        assert!(usize::from(it.next().unwrap().0) == 0);
        assert!(usize::from(it.next().unwrap().0) == 1);
        assert!(it.next().is_none());
        std::mem::forget(it);
        std::mem::forget(stream);
    }

    // profile C: update_generations alone over hand-built slices
    #[kani::proof]
    #[kani::unwind(5)]
    #[kani::stub(std::hash::RandomState::new, stub_random_state)]
    fn prof_c_update_generations_only() {
        let mut trace_ctx = TraceHandler::default();
        trace_ctx.meet_ap_end(ApResult::stub());
        trace_ctx.meet_ap_end(ApResult::stub());
        trace_ctx.meet_ap_end(ApResult::stub());
        let g0 = [V(0.into()), V(2.into())];
        let g1 = [V(1.into())];
        let slices: Vec<&[V]> = vec![&g0[..], &g1[..]];
        let start: u32 = kani::any();
        kani::assume(start < 1000);
        ok(Stream::<V>::update_generations(slices.into_iter(), (start as usize).into(), &mut trace_ctx));
        assert!(gen_of(&trace_ctx, 0) == start && gen_of(&trace_ctx, 2) == start && gen_of(&trace_ctx, 1) == start + 1);
        std::mem::forget(trace_ctx);
    }
}
