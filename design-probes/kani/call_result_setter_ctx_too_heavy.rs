// appended to air/src/execution_step/instructions/call/call_result_setter.rs in a scratch copy
#[cfg(kani)]
mod verif_kani {
    use super::*;
    use crate::execution_step::execution_context::ExecCtxIngredients;
    use air_interpreter_interface::RunParameters;

    fn params(current: &str) -> RunParameters {
        RunParameters {
            init_peer_id: String::from("i"),
            current_peer_id: String::from(current),
            timestamp: 0,
            ttl: 0,
            key_format: 0,
            secret_key_bytes: Vec::new(),
            particle_id: String::from("p"),
            air_size_limit: 0,
            particle_size_limit: 0,
            call_result_size_limit: 0,
            hard_limit_enabled: false,
        }
    }

    #[kani::proof]
    #[kani::unwind(4)]
    fn c06_c19_ctx_smoke() {
        let lcid: u32 = kani::any();
        let other: u32 = kani::any();
        let prev = ExecCtxIngredients { last_call_request_id: lcid, cid_info: <_>::default() };
        let cur = ExecCtxIngredients { last_call_request_id: other, cid_info: <_>::default() };
        let p = params("a");
        let mut ctx = ExecutionCtx::new(prev, cur, <_>::default(), <_>::default(), &p);
        assert!(ctx.last_call_request_id == lcid);
        kani::assume(lcid < u32::MAX);
        let id = ctx.next_call_request_id();
        assert!(id == lcid + 1 && ctx.last_call_request_id == id);

        let mut trace_ctx = TraceHandler::default();
        handle_remote_call(String::from("b"), &mut ctx, &mut trace_ctx);
        assert!(ctx.next_peer_pks.len() == 1);
        assert!(!ctx.is_subgraph_complete());
        assert!(trace_ctx.as_result_trace().len() == 1);
        std::mem::forget(ctx);
        std::mem::forget(trace_ctx);
    }
}
