// appended to air/src/execution_step/instructions/call/verifier.rs in a scratch copy
#[cfg(kani)]
mod verif_kani {
    use super::*;

    fn s(b: bool) -> String { if b { String::from("a") } else { String::from("b") } }
    fn tet() -> SecurityTetraplet {
        SecurityTetraplet { peer_pk: s(kani::any()), service_id: s(kani::any()), function_name: s(kani::any()), lens: s(kani::any()) }
    }

    fn stub_format(_args: std::fmt::Arguments<'_>) -> String { String::new() }

    #[kani::proof]
    #[kani::unwind(4)]
    #[kani::stub(alloc::fmt::format, stub_format)]
    fn c14_verify_call_exact() {
        let eh = s(kani::any());
        let sh = s(kani::any());
        let et = tet();
        let st = tet();
        let same_t = et.peer_pk == st.peer_pk && et.service_id == st.service_id
            && et.function_name == st.function_name && et.lens == st.lens;
        let r = verify_call(&eh, &et, &sh, &st);
        assert!(r.is_ok() == (eh == sh && same_t));
        std::mem::forget(r);
    }
}
