// appended to air/src/preparation_step/sizes_limits_check.rs in a scratch copy
#[cfg(kani)]
mod verif_kani {
    use super::*;

    fn params(air_limit: u64, particle_limit: u64, hard: bool) -> RunParameters {
        RunParameters {
            init_peer_id: String::new(),
            current_peer_id: String::new(),
            timestamp: 0,
            ttl: 0,
            key_format: 0,
            secret_key_bytes: Vec::new(),
            particle_id: String::new(),
            air_size_limit: air_limit,
            particle_size_limit: particle_limit,
            call_result_size_limit: 0,
            hard_limit_enabled: hard,
        }
    }

    #[kani::proof]
    #[kani::unwind(6)]
    fn c22_size_limits_exact() {
        let air_limit: u64 = kani::any();
        let particle_limit: u64 = kani::any();
        let hard: bool = kani::any();
        let air_len: usize = kani::any();
        let data_len: usize = kani::any();
        kani::assume(air_len <= 3 && data_len <= 3);
        let air_s = &"abc"[..air_len];
        let data = [0u8; 3];
        let p = params(air_limit, particle_limit, hard);
        let r = check_against_size_limits(&p, air_s, &data[..data_len]);
        let air_over = air_len as u64 > air_limit;
        let data_over = data_len as u64 > particle_limit;
        match r {
            Ok(flags) => {
                assert!(!hard || (!air_over && !data_over));
                assert!(flags.air_size_limit_exceeded == air_over);
                assert!(flags.particle_size_limit_exceeded == data_over);
                assert!(!flags.call_result_size_limit_exceeded);
            }
            Err(_) => {
                assert!(hard && (air_over || data_over));
            }
        }
    }
}
