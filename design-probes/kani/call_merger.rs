// appended to crates/air-lib/trace-handler/src/merger/call_merger.rs in a scratch copy
#[cfg(kani)]
mod verif_kani {
    use super::*;
    use air_interpreter_cid::CID;
    use std::rc::Rc;

    fn cid<T>(sel: bool) -> CID<T> {
        if sel { CID::new("a") } else { CID::new("b") }
    }

    fn any_call() -> CallResult {
        let k: u8 = kani::any();
        kani::assume(k < 6);
        match k {
            0 => CallResult::sent_peer_id(Rc::new(String::from("p"))),
            1 => CallResult::sent_peer_id_with_call_id(Rc::new(String::from("q")), kani::any()),
            2 => CallResult::executed_scalar(cid(kani::any())),
            3 => CallResult::Executed(ValueRef::Stream { cid: cid(kani::any()), generation: GenerationIdx::from(kani::any::<u32>() as usize) }),
            4 => CallResult::executed_unused(cid(kani::any())),
            _ => CallResult::failed(cid(kani::any())),
        }
    }

    fn is_sent(c: &CallResult) -> bool { matches!(c, CallResult::RequestSentBy(_)) }

    #[kani::proof]
    #[kani::unwind(4)]
    fn merge_call_results_laws() {
        let prev = any_call();
        let cur = any_call();
        let r = merge_call_results(prev.clone(), cur.clone());
        match r {
            Ok((m, scheme)) => {
                // result is one of the inputs
                assert!(m == prev || m == cur);
                // never forgets a result
                if !is_sent(&prev) || !is_sent(&cur) { assert!(!is_sent(&m)); }
                if !is_sent(&prev) { assert!(m == prev); }
                if is_sent(&prev) && !is_sent(&cur) { assert!(m == cur); }
                if is_sent(&prev) && is_sent(&cur) { assert!(m == prev); }
                let _ = scheme;
            }
            Err(_) => {
                assert!(!is_sent(&prev) && !is_sent(&cur));
            }
        }
    }
}
