//@ unit lore_ctor
//@ verus-flags --no-erasure-check
// (--no-erasure-check: see slider.rs -- the TracePos shim's AddAssignSpecImpl trips Verus' erasure pass after verification)
// SubTraceLoreCtor / PositionsTracker / CtorState (state_automata/fold_fsm/lore_ctor.rs) and
// SubTraceLoreCtorQueue (state_automata/fold_fsm/lore_ctor_queue.rs)  --  C10.V3, C01.V10.
//
// Trusted part of this file: the TracePos shim (verbatim from slider.rs, plus `From<TracePos> for usize`
// mirroring trace_pos.rs `value.0 as Self`); DataKeeper reduced to a ghost-visible result-trace length with
// `result_trace_next_pos` as a stub carrying the contract proved in par_builder.rs; `Default for SubTraceLoreCtor`
// (the real one is `#[derive(Default)]`, i.e. field-wise defaults, which Verus gives no spec for); `PartialEq` of the
// field-less CtorState (derived in the source) as structural equality.
// Not covered: SubTraceLoreCtorQueue::transform_to_lore (`drain(..).map(..).collect()`: `Vec::drain` has no Verus
// specification) -- it is not lifted and has no stub here, nothing in this unit calls it.
use vstd::prelude::*;
use vstd::std_specs::iter::IteratorSpec;     // `remaining()` of the ghost iterator in the `iter_mut()` loop invariant
verus! {

// ---------------------------------------------------------------- shim: TracePos (trusted, verbatim from slider.rs)
#[derive(Copy, Clone, Default)]
pub struct TracePos(pub u32);
impl core::ops::AddAssign<u32> for TracePos { fn add_assign(&mut self, rhs: u32) { self.0 = self.0 + rhs; } }
impl From<u32> for TracePos { fn from(v: u32) -> TracePos { TracePos(v) } }
impl PartialEq for TracePos { fn eq(&self, o: &Self) -> bool { self.0 == o.0 } }
impl PartialOrd for TracePos { fn partial_cmp(&self, o: &Self) -> Option<core::cmp::Ordering> { self.0.partial_cmp(&o.0) } }
impl vstd::std_specs::ops::AddAssignSpecImpl<u32> for TracePos {
    open spec fn obeys_add_assign_spec() -> bool { true }
    open spec fn add_assign_req(&self, rhs: u32) -> bool { self.0 + rhs <= u32::MAX }
    open spec fn add_assign_spec(&self, rhs: u32) -> TracePos { TracePos((self.0 + rhs) as u32) }
}
impl vstd::std_specs::convert::FromSpecImpl<u32> for TracePos {
    open spec fn obeys_from_spec() -> bool { true }
    open spec fn from_spec(v: u32) -> TracePos { TracePos(v) }
}
impl vstd::std_specs::cmp::PartialOrdSpecImpl<TracePos> for TracePos {
    open spec fn obeys_partial_cmp_spec() -> bool { true }
    open spec fn partial_cmp_spec(&self, o: &TracePos) -> Option<core::cmp::Ordering> { if self.0 < o.0 { Some(core::cmp::Ordering::Less) } else if self.0 == o.0 { Some(core::cmp::Ordering::Equal) } else { Some(core::cmp::Ordering::Greater) } }
}
impl vstd::std_specs::cmp::PartialEqSpecImpl<TracePos> for TracePos {
    open spec fn obeys_eq_spec() -> bool { true }
    open spec fn eq_spec(&self, o: &TracePos) -> bool { self.0 == o.0 }
}
impl vstd::std_specs::ops::AddSpecImpl<u32> for TracePos {
    open spec fn obeys_add_spec() -> bool { true }
    open spec fn add_req(self, rhs: u32) -> bool { self.0 + rhs <= u32::MAX }
    open spec fn add_spec(self, rhs: u32) -> TracePos { TracePos((self.0 + rhs) as u32) }
}
impl core::ops::Add<u32> for TracePos { type Output = TracePos; fn add(self, rhs: u32) -> TracePos { TracePos(self.0 + rhs) } }
impl vstd::std_specs::ops::SubSpecImpl<TracePos> for TracePos {
    open spec fn obeys_sub_spec() -> bool { true }
    open spec fn sub_req(self, rhs: TracePos) -> bool { self.0 >= rhs.0 }
    open spec fn sub_spec(self, rhs: TracePos) -> TracePos { TracePos((self.0 - rhs.0) as u32) }
}
impl core::ops::Sub<TracePos> for TracePos { type Output = TracePos; fn sub(self, rhs: TracePos) -> TracePos { TracePos(self.0 - rhs.0) } }
impl vstd::std_specs::convert::FromSpecImpl<TracePos> for u32 {
    open spec fn obeys_from_spec() -> bool { true }
    open spec fn from_spec(v: TracePos) -> u32 { v.0 }
}
impl From<TracePos> for u32 { fn from(v: TracePos) -> u32 { v.0 } }
impl TracePos {
    // auto_checked_add![TracePos]: `self.0.checked_add(other.0).map(Self)`
    pub fn checked_add(&self, other: &TracePos) -> (r: Option<TracePos>)
        ensures r == (if self.0 + other.0 <= u32::MAX { Some(TracePos((self.0 + other.0) as u32)) } else { None })
    { match self.0.checked_add(other.0) { Some(v) => Some(TracePos(v)), None => None } }
    pub fn checked_sub(&self, other: &TracePos) -> (r: Option<TracePos>)
        ensures r == (if self.0 >= other.0 { Some(TracePos((self.0 - other.0) as u32)) } else { None })
    { match self.0.checked_sub(other.0) { Some(v) => Some(TracePos(v)), None => None } }
}

impl vstd::std_specs::convert::FromSpecImpl<TracePos> for usize {
    open spec fn obeys_from_spec() -> bool { true }
    open spec fn from_spec(v: TracePos) -> usize { v.0 as usize }
}
impl From<TracePos> for usize { fn from(v: TracePos) -> usize { v.0 as usize } }

// ---------------------------------------------------------------- shim: data keeper, lore types (trusted)
pub struct DataKeeper { pub result_len: Ghost<nat> }
impl DataKeeper {
    pub open spec fn rlen(&self) -> nat { self.result_len@ }
//@ stub par_builder :: DataKeeper::result_trace_next_pos
}

//@ lift crates/air-lib/interpreter-data/src/executed_state.rs :: struct SubTraceDesc
//@ derive Clone Copy
//@ end
//@ lift crates/air-lib/interpreter-data/src/executed_state.rs :: struct FoldSubTraceLore
//@ derive
//@ end
//@ lift crates/air-lib/interpreter-data/src/executed_state.rs :: type FoldLore
//@ end
//@ lift crates/air-lib/trace-handler/src/merger/fold_merger/fold_lore_resolver.rs :: struct ResolvedSubTraceDescs
//@ derive Clone
//@ end

// ---------------------------------------------------------------- lore_ctor.rs
//@ lift crates/air-lib/trace-handler/src/state_automata/fold_fsm/lore_ctor.rs :: enum CtorState
//@ derive PartialEq Eq Clone Copy
//@ end
//@ lift crates/air-lib/trace-handler/src/state_automata/fold_fsm/lore_ctor.rs :: struct PositionsTracker
//@ derive Default PartialEq Clone Copy
//@ end
//@ lift crates/air-lib/trace-handler/src/state_automata/fold_fsm/lore_ctor.rs :: struct SubTraceLoreCtor
//@ derive PartialEq Clone Copy
//@ end
// shim (trusted): what `#[derive(PartialEq)]` generates for a field-less enum
impl vstd::std_specs::cmp::PartialEqSpecImpl<CtorState> for CtorState {
    open spec fn obeys_eq_spec() -> bool { true }
    open spec fn eq_spec(&self, o: &CtorState) -> bool { *self == *o }
}

pub open spec fn next_state(s: CtorState) -> CtorState {
    match s {
        CtorState::BeforeStarted => CtorState::BeforeCompleted,
        CtorState::BeforeCompleted => CtorState::AfterStarted,
        CtorState::AfterStarted => CtorState::AfterCompleted,
        CtorState::AfterCompleted => CtorState::AfterCompleted,
    }
}

impl Default for CtorState {
//@ lift crates/air-lib/trace-handler/src/state_automata/fold_fsm/lore_ctor.rs :: impl Default for CtorState :: fn default
//@ props C10 C01 C08
//@ ret r
//@ no-canary
//@ spec
        ensures r == CtorState::BeforeStarted
//@ end
}

// shim (trusted): what `#[derive(Default)]` generates for SubTraceLoreCtor (field-wise `Default::default()`);
// its only fact used below -- the initial state is CtorState's default -- is checked against the lifted impl above
impl Default for SubTraceLoreCtor {
    fn default() -> (r: Self)
        ensures r.st() == CtorState::BeforeStarted
    {
        SubTraceLoreCtor { value_pos: Default::default(), before_tracker: Default::default(), after_tracker: Default::default(), state: Default::default() }
    }
}

impl CtorState {
//@ lift crates/air-lib/trace-handler/src/state_automata/fold_fsm/lore_ctor.rs :: impl CtorState :: fn next
//@ props C10 C01 C08
//@ spec
        ensures *final(self) == next_state(*old(self))
//@ end
}

impl PositionsTracker {
//@ lift crates/air-lib/trace-handler/src/state_automata/fold_fsm/lore_ctor.rs :: impl PositionsTracker :: fn len
//@ props C10 C01 C08
//@ ret r
//@ spec
        requires self.start_pos.0 <= self.end_pos.0       // else `end_pos - start_pos` panics (overflow-checks)
        ensures r == self.end_pos.0 - self.start_pos.0
//@ end
}

impl SubTraceLoreCtor {
    pub closed spec fn st(&self) -> CtorState { self.state }
    pub closed spec fn vpos(&self) -> TracePos { self.value_pos }
    pub closed spec fn sb(&self) -> nat { self.before_tracker.start_pos.0 as nat }
    pub closed spec fn eb(&self) -> nat { self.before_tracker.end_pos.0 as nat }
    pub closed spec fn sa(&self) -> nat { self.after_tracker.start_pos.0 as nat }
    pub closed spec fn ea(&self) -> nat { self.after_tracker.end_pos.0 as nat }

    // typestate invariant: the positions recorded so far are ordered and not beyond the result trace length n
    pub open spec fn inv(&self, n: nat) -> bool {
        match self.st() {
            CtorState::BeforeStarted => self.sb() <= n,
            CtorState::BeforeCompleted => self.sb() <= self.eb() <= n,
            CtorState::AfterStarted => self.sb() <= self.eb() <= self.sa() <= n,
            CtorState::AfterCompleted => self.sb() <= self.eb() <= self.sa() <= self.ea() <= n,
        }
    }
    // everything but the named field is unchanged
    pub open spec fn same_but_eb(&self, o: &Self) -> bool { self.vpos() == o.vpos() && self.sb() == o.sb() && self.sa() == o.sa() && self.ea() == o.ea() }
    pub open spec fn same_but_sa(&self, o: &Self) -> bool { self.vpos() == o.vpos() && self.sb() == o.sb() && self.eb() == o.eb() && self.ea() == o.ea() }
    pub open spec fn same_but_ea(&self, o: &Self) -> bool { self.vpos() == o.vpos() && self.sb() == o.sb() && self.eb() == o.eb() && self.sa() == o.sa() }

    // what finish() must do to a ctor `self` (giving `f`) when the result trace has n states
    pub open spec fn finished_as(&self, f: &Self, n: nat) -> bool {
        // from any state
        &&& f.st() == CtorState::AfterCompleted
        &&& f.vpos() == self.vpos() && f.sb() == self.sb()
        // what was already recorded is kept, what was not is the current end of the trace
        &&& f.eb() == (if self.st() is BeforeStarted { n } else { self.eb() })
        &&& f.sa() == (if self.st() is BeforeStarted || self.st() is BeforeCompleted { n } else { self.sa() })
        &&& f.ea() == (if self.st() is AfterCompleted { self.ea() } else { n })
        // under monotone positions (the invariant w.r.t. the current length): s_b <= e_b <= s_a <= e_a <= n
        &&& self.inv(n) ==> f.inv(n) && f.sb() <= f.eb() <= f.sa() <= f.ea() <= n
    }

//@ lift crates/air-lib/trace-handler/src/state_automata/fold_fsm/lore_ctor.rs :: impl SubTraceLoreCtor :: fn from_before_start
//@ props C10 C01 C08
//@ ret r
//@ spec
        requires data_keeper.rlen() <= u32::MAX
        ensures r.st() == CtorState::BeforeStarted, r.vpos() == value_pos, r.sb() == data_keeper.rlen(),
            r.inv(data_keeper.rlen()),
//@ end

//@ lift crates/air-lib/trace-handler/src/state_automata/fold_fsm/lore_ctor.rs :: impl SubTraceLoreCtor :: fn before_end
//@ props C10 C01 C08
//@ spec
        requires data_keeper.rlen() <= u32::MAX
        ensures final(self).st() == next_state(old(self).st()), final(self).eb() == data_keeper.rlen(),
            final(self).same_but_eb(old(self)),
            (old(self).st() is BeforeStarted && old(self).inv(data_keeper.rlen())) ==> final(self).inv(data_keeper.rlen()),
//@ end

//@ lift crates/air-lib/trace-handler/src/state_automata/fold_fsm/lore_ctor.rs :: impl SubTraceLoreCtor :: fn maybe_before_end
//@ props C10 C01 C08
//@ spec
        requires data_keeper.rlen() <= u32::MAX
        ensures
            old(self).st() is BeforeStarted ==> final(self).st() == CtorState::BeforeCompleted
                && final(self).eb() == data_keeper.rlen() && final(self).same_but_eb(old(self)),
            !(old(self).st() is BeforeStarted) ==> *final(self) == *old(self),
            old(self).inv(data_keeper.rlen()) ==> final(self).inv(data_keeper.rlen()),
//@ end

//@ lift crates/air-lib/trace-handler/src/state_automata/fold_fsm/lore_ctor.rs :: impl SubTraceLoreCtor :: fn after_start
//@ props C10 C01 C08
//@ spec
        requires data_keeper.rlen() <= u32::MAX
        ensures final(self).st() == next_state(old(self).st()), final(self).sa() == data_keeper.rlen(),
            final(self).same_but_sa(old(self)),
            (old(self).st() is BeforeCompleted && old(self).inv(data_keeper.rlen())) ==> final(self).inv(data_keeper.rlen()),
//@ end

//@ lift crates/air-lib/trace-handler/src/state_automata/fold_fsm/lore_ctor.rs :: impl SubTraceLoreCtor :: fn after_end
//@ props C10 C01 C08
//@ spec
        requires data_keeper.rlen() <= u32::MAX
        ensures final(self).st() == next_state(old(self).st()), final(self).ea() == data_keeper.rlen(),
            final(self).same_but_ea(old(self)),
            (old(self).st() is AfterStarted && old(self).inv(data_keeper.rlen())) ==> final(self).inv(data_keeper.rlen()),
//@ end

//@ lift crates/air-lib/trace-handler/src/state_automata/fold_fsm/lore_ctor.rs :: impl SubTraceLoreCtor :: fn finish
//@ props C10 C01 C08
//@ spec
        requires data_keeper.rlen() <= u32::MAX
        ensures old(self).finished_as(final(self), data_keeper.rlen())
//@ end

//@ lift crates/air-lib/trace-handler/src/state_automata/fold_fsm/lore_ctor.rs :: impl SubTraceLoreCtor :: fn into_subtrace_lore
//@ props C10 C01 C08
//@ ret r
//@ spec
        // established by finish() under monotone positions; without it `end_pos - start_pos` panics
        requires self.sb() <= self.eb(), self.sa() <= self.ea()
        ensures r.value_pos == self.vpos(), r.subtraces_desc@.len() == 2,
            r.subtraces_desc@[0].begin_pos.0 == self.sb(), r.subtraces_desc@[0].subtrace_len == self.eb() - self.sb(),
            r.subtraces_desc@[1].begin_pos.0 == self.sa(), r.subtraces_desc@[1].subtrace_len == self.ea() - self.sa(),
//@ end
}

// ---------------------------------------------------------------- lore_ctor_queue.rs
//@ lift crates/air-lib/trace-handler/src/state_automata/fold_fsm/lore_ctor_queue.rs :: struct LoreCtorDesc
//@ derive Clone
//@ end
//@ lift crates/air-lib/trace-handler/src/state_automata/fold_fsm/lore_ctor_queue.rs :: struct SubTraceLoreCtorQueue
//@ derive
//@ end

impl SubTraceLoreCtorQueue {
    pub closed spec fn q(&self) -> Seq<LoreCtorDesc> { self.queue@ }
    pub closed spec fn pos(&self) -> nat { self.back_traversal_pos as nat }
    pub closed spec fn started(&self) -> bool { self.back_traversal_started }
    // the back-traversal cursor never runs past the queue
    pub open spec fn wf(&self) -> bool { self.pos() <= self.q().len() }

//@ lift crates/air-lib/trace-handler/src/state_automata/fold_fsm/lore_ctor_queue.rs :: impl SubTraceLoreCtorQueue :: fn current
//@ props C10 C01 C08
//@ ret r
//@ spec
        // TOTAL since the F13 fix (`checked_sub` + `get_mut`): no call-order precondition any more. There is a current
        // element exactly when at least one was added and the back traversal has not run past the first one
        ensures
            r is Some <==> 1 <= old(self).pos() <= old(self).q().len(),
            r matches Some(d) ==> *d == old(self).q()[old(self).pos() - 1]
                && final(self).q() == old(self).q().update(old(self).pos() - 1, *final(d)),
            r is None ==> final(self).q() == old(self).q(),
            final(self).pos() == old(self).pos(), final(self).started() == old(self).started(),
//@ end

//@ lift crates/air-lib/trace-handler/src/state_automata/fold_fsm/lore_ctor_queue.rs :: impl SubTraceLoreCtorQueue :: fn add_element
//@ props C10 C01 C08
//@ after "self.queue.push(new_element);"
        proof { assert(self.queue.len() == self.queue@.len()); }     // a Vec's length is a usize: pos + 1 <= len <= usize::MAX
//@ spec
        requires old(self).wf()
        ensures final(self).wf(),
            final(self).q() == old(self).q().push(LoreCtorDesc { ctor, prev_lore, current_lore }),
            final(self).pos() == old(self).pos() + 1, final(self).started() == old(self).started(),
//@ end

//@ lift crates/air-lib/trace-handler/src/state_automata/fold_fsm/lore_ctor_queue.rs :: impl SubTraceLoreCtorQueue :: fn traverse_back
//@ props C10 C01 C08
//@ spec
        // TOTAL since the F13 fix (`saturating_sub`): stepping back from the front stays at the front
        ensures final(self).pos() == (if old(self).pos() >= 1 { old(self).pos() - 1 } else { 0 }), final(self).q() == old(self).q(),
            final(self).started() == old(self).started(), old(self).wf() ==> final(self).wf(),
//@ end

//@ lift crates/air-lib/trace-handler/src/state_automata/fold_fsm/lore_ctor_queue.rs :: impl SubTraceLoreCtorQueue :: fn start_back_traverse
//@ props C10 C01 C08
//@ spec
        ensures final(self).started(), final(self).pos() == old(self).pos(), final(self).q() == old(self).q(),
//@ end

//@ lift crates/air-lib/trace-handler/src/state_automata/fold_fsm/lore_ctor_queue.rs :: impl SubTraceLoreCtorQueue :: fn end_back_traverse
//@ props C10 C01 C08
//@ spec
        ensures !final(self).started(), final(self).pos() == old(self).pos(), final(self).q() == old(self).q(),
//@ end

//@ lift crates/air-lib/trace-handler/src/state_automata/fold_fsm/lore_ctor_queue.rs :: impl SubTraceLoreCtorQueue :: fn back_traversal_started
//@ props C10 C01 C08
//@ ret r
//@ spec
        ensures r == self.started()
//@ end

// (the rewrite only names the ghost iterator of the `iter_mut()` loop so that the invariant can mention it)
//@ lift crates/air-lib/trace-handler/src/state_automata/fold_fsm/lore_ctor_queue.rs :: impl SubTraceLoreCtorQueue :: fn finish
//@ props C10 C01 C08
//@ rewrite 1 "for ctor in self.queue.iter_mut()" => "for ctor in it: self.queue.iter_mut()"
//@ spec
        requires data_keeper.rlen() <= u32::MAX
        ensures final(self).pos() == 0, final(self).started() == old(self).started(),
            final(self).q().len() == old(self).q().len(),
            // every queued ctor is finished (and nothing else about the element changes)
            forall|i: int| 0 <= i < old(self).q().len() ==> {
                &&& old(self).q()[i].ctor.finished_as(&(#[trigger] final(self).q()[i]).ctor, data_keeper.rlen())
                &&& final(self).q()[i].prev_lore == old(self).q()[i].prev_lore
                &&& final(self).q()[i].current_lore == old(self).q()[i].current_lore
            },
//@ loop 0
            invariant data_keeper.rlen() <= u32::MAX,
                forall|j: int| 0 <= j < it.index@ ==> {
                    &&& (*#[trigger] it.snapshot@.remaining()[j]).ctor.finished_as(&(*final(it.snapshot@.remaining()[j])).ctor, data_keeper.rlen())
                    &&& (*final(it.snapshot@.remaining()[j])).prev_lore == (*it.snapshot@.remaining()[j]).prev_lore
                    &&& (*final(it.snapshot@.remaining()[j])).current_lore == (*it.snapshot@.remaining()[j]).current_lore
                },
//@ end
}

// the typestate invariant is monotone in the trace length: positions only ever grow
//@ lemma inv_monotone props C10
proof fn inv_monotone(c: SubTraceLoreCtor, n: nat, m: nat)
    requires c.inv(n), n <= m
    ensures c.inv(m)
{ }
//@ end

// C10.V3 end to end: finish() then into_subtrace_lore(): the two descriptors are adjacent-ordered ranges
// [s_b, e_b) and [s_a, e_a) with e_b <= s_a, both inside the result trace
//@ lemma finished_lore_ranges props C10
proof fn finished_lore_ranges(c: SubTraceLoreCtor, l: FoldSubTraceLore, n: nat)
    requires c.st() is AfterCompleted, c.inv(n),
        l.subtraces_desc@.len() == 2,
        l.subtraces_desc@[0].begin_pos.0 == c.sb(), l.subtraces_desc@[0].subtrace_len == c.eb() - c.sb(),
        l.subtraces_desc@[1].begin_pos.0 == c.sa(), l.subtraces_desc@[1].subtrace_len == c.ea() - c.sa(),
    ensures
        l.subtraces_desc@[0].begin_pos.0 + l.subtraces_desc@[0].subtrace_len <= l.subtraces_desc@[1].begin_pos.0,
        l.subtraces_desc@[1].begin_pos.0 + l.subtraces_desc@[1].subtrace_len <= n,
{ }
//@ end

} // verus!
fn main() {}
