//@ unit canon_merger
// The per-state join of two canon states (trace-handler/merger/canon_merger.rs), verified on the lifted
// text against a `join` written from the property statements (C07 C08 C09 C11).
//
// Trusted part of this file:
//  * CID<T> shim: the real `CID<T>(Rc<str>, PhantomData)` compares its string; here the string is an
//    abstract id and `==` is id equality.
//  * opaque payload types that only occur inside error values (ExecutedState, KeeperError, ApResult,
//    FoldResult, TracePos) or as type parameters of CID (CanonResultCidAggregate, ServiceResultCidAggregate,
//    JValue).
// The derived `==` of CanonResult is not used by the lifted code (it compares the CIDs), so no meaning is
// given to it here.
use vstd::prelude::*;
verus! {

use std::rc::Rc;

// ---------------------------------------------------------------- shim: CID (trusted)
pub struct CID<T> { pub id: u64, pub ph: core::marker::PhantomData<T> }
impl<T> Clone for CID<T> {
    fn clone(&self) -> (r: Self) ensures r == *self { CID { id: self.id, ph: core::marker::PhantomData } }
}
impl<T> PartialEq for CID<T> { fn eq(&self, o: &Self) -> bool { self.id == o.id } }
impl<T> Eq for CID<T> {}
impl<T> vstd::std_specs::cmp::PartialEqSpecImpl<CID<T>> for CID<T> {
    open spec fn obeys_eq_spec() -> bool { true }
    open spec fn eq_spec(&self, o: &CID<T>) -> bool { self.id == o.id }
}

// ---------------------------------------------------------------- shim: opaque payloads (trusted)
pub struct ServiceResultCidAggregate { pub opaque: u8 }
pub struct JValue { pub opaque: u8 }
pub struct CanonResultCidAggregate { pub opaque: u8 }
pub struct ExecutedState { pub opaque: u8 }
pub struct KeeperError { pub opaque: u8 }
pub struct ApResult { pub opaque: u8 }
pub struct FoldResult { pub opaque: u8 }
pub struct TracePos { pub opaque: u32 }

// ---------------------------------------------------------------- lifted data types
//@ lift crates/air-lib/interpreter-data/src/generation_idx.rs :: type GenerationIdxType
//@ end
//@ lift crates/air-lib/interpreter-data/src/generation_idx.rs :: struct GenerationIdx
//@ derive Copy Clone PartialEq Eq
//@ end
//@ lift crates/air-lib/interpreter-data/src/executed_state.rs :: enum Sender
//@ derive Clone PartialEq Eq
//@ end
//@ lift crates/air-lib/interpreter-data/src/executed_state.rs :: enum ValueRef
//@ derive Clone PartialEq Eq
//@ end
//@ lift crates/air-lib/interpreter-data/src/executed_state.rs :: enum CallResult
//@ derive Clone PartialEq Eq
//@ end
//@ lift crates/air-lib/interpreter-data/src/executed_state.rs :: enum CanonResult
//@ derive Clone PartialEq Eq
//@ end
//@ lift crates/air-lib/trace-handler/src/merger/errors.rs :: enum DataType
//@ derive Copy Clone
//@ end
//@ lift crates/air-lib/trace-handler/src/merger/errors.rs :: enum ApResultError
//@ end
//@ lift crates/air-lib/trace-handler/src/merger/errors.rs :: enum CallResultError
//@ end
//@ lift crates/air-lib/trace-handler/src/merger/errors.rs :: enum CanonResultError
//@ end
//@ lift crates/air-lib/trace-handler/src/merger/errors.rs :: enum FoldResultError
//@ end
//@ lift crates/air-lib/trace-handler/src/merger/errors.rs :: enum MergeError
//@ end
//@ lift crates/air-lib/trace-handler/src/merger/mod.rs :: type MergeResult
//@ end
//@ lift crates/air-lib/trace-handler/src/merger/canon_merger.rs :: enum MergerCanonResult
//@ derive Clone
//@ end

// ---------------------------------------------------------------- the join, from the property statements
// Information order on canon states: `sent ⊑ executed`. Two executed states are comparable only when they
// are the same canonical value by content id (C11: fixed once, identical everywhere). Who sent a pending
// request may differ (C08).
pub open spec fn is_sent(c: CanonResult) -> bool { c is RequestSentBy }
pub open spec fn is_result(c: CanonResult) -> bool { c is Executed }
pub open spec fn res_eqv(a: CanonResult, b: CanonResult) -> bool {
    match (a, b) {
        (CanonResult::Executed(x), CanonResult::Executed(y)) => x.id == y.id,
        _ => false,
    }
}
// equality of canon states up to what C08 allows to differ: who sent a pending request
pub open spec fn eqv(a: CanonResult, b: CanonResult) -> bool {
    (is_sent(a) && is_sent(b)) || res_eqv(a, b)
}
pub open spec fn opt_eqv(a: Option<CanonResult>, b: Option<CanonResult>) -> bool {
    match (a, b) {
        (Some(x), Some(y)) => eqv(x, y),
        (None, None) => true,
        _ => false,
    }
}
pub open spec fn result_id(c: CanonResult) -> Option<u64> {
    match c {
        CanonResult::RequestSentBy(_) => None,
        CanonResult::Executed(x) => Some(x.id),
    }
}
// least upper bound of the previous (a) and the current (b) state; None = the data are inconsistent.
// Where the two states carry the same information the previous one is kept (C07: nothing changes).
pub open spec fn join(a: CanonResult, b: CanonResult) -> Option<CanonResult> {
    if is_sent(b) {
        Some(a)
    } else if is_sent(a) {
        Some(b)
    } else if res_eqv(a, b) {
        Some(a)
    } else {
        None
    }
}
pub open spec fn join_opt(a: Option<CanonResult>, b: Option<CanonResult>) -> Option<CanonResult> {
    match (a, b) {
        (Some(x), Some(y)) => join(x, y),
        _ => None,
    }
}

// ---------------------------------------------------------------- lifted code
impl CanonResultError {
//@ lift crates/air-lib/trace-handler/src/merger/errors.rs :: impl CanonResultError :: fn incompatible_state
//@ props C07 C08 C09 C11
//@ ret r
//@ spec
        ensures r is IncompatibleState
//@ end
}

//@ lift crates/air-lib/trace-handler/src/merger/canon_merger.rs :: fn merge_canon_results
//@ props C07 C08 C09 C11
//@ ret r
//@ spec
    ensures
        // the code computes the join
        r is Ok <==> join(prev_canon_result, current_canon_result) is Some,
        r matches Ok(m) ==> join(prev_canon_result, current_canon_result) == Some(m),
        // spelled out: the result is one of the inputs; Executed beats RequestSentBy on either side;
        // two pending requests keep the previous one; two executed states merge iff they have the same CID
        r matches Ok(m) ==> (m == prev_canon_result || m == current_canon_result),
        r matches Ok(m) ==> (prev_canon_result is Executed ==> m == prev_canon_result),
        r matches Ok(m) ==> (prev_canon_result is RequestSentBy && current_canon_result is Executed ==> m == current_canon_result),
        r matches Ok(m) ==> (prev_canon_result is RequestSentBy && current_canon_result is RequestSentBy ==> m == prev_canon_result),
        r is Err <==> (prev_canon_result is Executed && current_canon_result is Executed
                        && prev_canon_result->Executed_0.id != current_canon_result->Executed_0.id),
//@ end

//@ lift crates/air-lib/trace-handler/src/merger/canon_merger.rs :: fn prepare_single_canon_result
//@ props C07 C08 C09 C11
//@ ret r
//@ spec
    ensures r matches Ok(MergerCanonResult::CanonResult(m)) && m == canon_result
//@ end

//@ lift crates/air-lib/trace-handler/src/merger/canon_merger.rs :: fn prepare_both_canon_result
//@ props C07 C08 C09 C11
//@ ret r
//@ rewrite 1 ".map_err(MergeError::IncorrectCanonResult)" => ".map_err(|e: CanonResultError| -> (o: MergeError) ensures o == MergeError::IncorrectCanonResult(e) { MergeError::IncorrectCanonResult(e) })"
//@ spec
    ensures
        // what the canon instruction is handed is the join of the two states
        r is Ok <==> join(prev_canon_result, current_canon_result) is Some,
        r matches Ok(res) ==> (res matches MergerCanonResult::CanonResult(m)
            && join(prev_canon_result, current_canon_result) == Some(m)),
        r matches Err(e) ==> e is IncorrectCanonResult,
//@ end

// ---------------------------------------------------------------- laws of the join (no code involved)
//@ lemma join_idempotent props C07
pub proof fn join_idempotent(x: CanonResult)
    ensures join(x, x) == Some(x)
{
}
//@ end

//@ lemma join_absorbs props C07
// re-delivering either input to the merged state changes nothing
pub proof fn join_absorbs(a: CanonResult, b: CanonResult, c: CanonResult)
    requires join(a, b) == Some(c)
    ensures join(c, b) == Some(c), join(c, a) == Some(c), join(c, c) == Some(c)
{
}
//@ end

//@ lemma eqv_is_equivalence props C08
pub proof fn eqv_is_equivalence(a: CanonResult, b: CanonResult, c: CanonResult)
    ensures
        eqv(a, a),
        eqv(a, b) ==> eqv(b, a),
        eqv(a, b) && eqv(b, c) ==> eqv(a, c),
        // eqv never identifies different knowledge
        eqv(a, b) <==> result_id(a) == result_id(b),
{
}
//@ end

//@ lemma join_commutative props C08 C11
// order of arrival: same knowledge, errors symmetric
pub proof fn join_commutative(a: CanonResult, b: CanonResult)
    ensures
        opt_eqv(join(a, b), join(b, a)),
        join(a, b) is None <==> join(b, a) is None,
        // once executed, the canonical value is the same whatever arrives first
        join(a, b) matches Some(m) ==> (join(b, a) matches Some(n) && result_id(m) == result_id(n)),
{
}
//@ end

//@ lemma join_associative props C08 C11
// grouping of arrival: same knowledge, errors at the same inputs
pub proof fn join_associative(a: CanonResult, b: CanonResult, c: CanonResult)
    ensures
        opt_eqv(join_opt(join(a, b), Some(c)), join_opt(Some(a), join(b, c))),
        join_opt(join(a, b), Some(c)) is None <==> join_opt(Some(a), join(b, c)) is None,
{
}
//@ end

//@ lemma join_respects_eqv props C08
pub proof fn join_respects_eqv(a: CanonResult, a2: CanonResult, b: CanonResult, b2: CanonResult)
    requires eqv(a, a2), eqv(b, b2)
    ensures opt_eqv(join(a, b), join(a2, b2))
{
}
//@ end

//@ lemma join_keeps_results props C09 C11
// Executed beats RequestSentBy on either side and keeps its CID; different Executed => error, and only that
pub proof fn join_keeps_results(a: CanonResult, b: CanonResult)
    ensures
        join(a, b) matches Some(m) ==> (is_result(a) || is_result(b) ==> is_result(m)),
        join(a, b) matches Some(m) ==> (is_result(a) ==> m == a),
        join(a, b) matches Some(m) ==> (is_result(b) ==> result_id(m) == result_id(b)),
        join(a, b) matches Some(m) ==> (is_result(b) && is_sent(a) ==> m == b),
        is_result(a) && is_sent(b) ==> join(a, b) == Some(a),
        is_sent(a) && is_result(b) ==> join(a, b) == Some(b),
        join(a, b) is None <==> (is_result(a) && is_result(b) && result_id(a) != result_id(b)),
{
}
//@ end

//@ lemma join_keeps_pending_request props C07
pub proof fn join_keeps_pending_request(s: Rc<String>, t: Rc<String>)
    ensures join(CanonResult::RequestSentBy(s), CanonResult::RequestSentBy(t)) == Some(CanonResult::RequestSentBy(s))
{
}
//@ end

//@ lemma merge_canon_results_is_join props C07 C08 C09 C11
// link: any function with the spelled-out contract of the lifted `merge_canon_results` is the join
pub proof fn merge_canon_results_is_join(p: CanonResult, c: CanonResult, r: Result<CanonResult, CanonResultError>)
    requires
        r matches Ok(m) ==> (m == p || m == c),
        r matches Ok(m) ==> (p is Executed ==> m == p),
        r matches Ok(m) ==> (p is RequestSentBy && c is Executed ==> m == c),
        r matches Ok(m) ==> (p is RequestSentBy && c is RequestSentBy ==> m == p),
        r is Err <==> (p is Executed && c is Executed && p->Executed_0.id != c->Executed_0.id),
    ensures
        r is Ok <==> join(p, c) is Some,
        r matches Ok(m) ==> join(p, c) == Some(m),
{
}
//@ end

} // verus!
fn main() {}
