#![feature(sized_hierarchy)]
#![feature(allocator_api)]
//@ unit cid_state
// air/src/execution_step/execution_context/cid_state.rs: ExecutionCidState -- the five CID trackers of a run.
//   C09 (local): `from_cid_info(prev, cur)` is, store by store, the union of both data's stores (contract of `from_cid_stores` imported
//        from unit cid_store: current wins on a common key, nothing is forgotten); tracking only ever adds entries.
//   C09 / C03 (local) "what is tracked is resolvable": after `track_service_result(..) == Ok(cid)` the aggregate, its value and its tetraplet
//        are all present, i.e. `resolve_service_info(cid)` succeeds on the new state and returns what was tracked; same for
//        `track_canon_value` / `get_canon_value_by_cid`.
//   C01: every lookup by an (untrusted) CID is total: present -> the stored item, absent -> `ValueForCidNotFound(<kind>, <that cid>)`,
//        never a panic. NOTE the one exception that is outside this unit: `RawValue::get_value` (stubbed here, no precondition) still
//        panics on a stored text that is not JSON -- recorded finding F4 (native job C01.raw_value).
//   NOT looked up by anything here: a canon element's provenance target (`get_canon_value_by_cid` copies the provenance without
//        resolving it), and the trace (trace -> store references are outside the CID layer, see unit cid_store's header).
//
// Trusted part of this file:
//  * `CID<T>` shim, key-model axiom, `Rc::clone`, `RawValue`, `SecurityTetraplet`, `Serialize`, `CidCalculationError`: same text as unit cid_store;
//  * the callee contracts `CidTracker::{from_cid_stores, get, track_value, track_raw_value, default}` are `//@ stub`s: copied mechanically
//    from unit cid_store, where they are proved on the lifted bodies; their vocabulary (`m`, `tracked_as`, `json_cid_of`, `raw_cid_of`,
//    `of_tracker`, `as_ref_bytes`, `as_ref_spec`) comes in by `//@ import-spec`; `FromSpecImpl<CidTracker> for CidStore` is repeated
//    by hand (it is checked in cid_store against the lifted `from`);
//  * std facts vstd lacks, used as lemma calls at the three tracking sites: `From<T> for T` is the identity, `From<T> for Rc<T>` wraps (`*r == t`);
//  * `#[derive(Default)]` of ExecutionCidState written out field-wise (Verus gives derived impls no spec);
//  * `RawValue::from_value(v)`: the result's `value_spec()` is `v` (the real one caches `parsed: Some(v)`); `RawValue::get_value` returns
//    `value_spec()` and has NO precondition here (F4 lives in its body, outside this unit);
//  * JValue, TracePos, ValueAggregate: opaque; ValueAggregate's accessors / constructor are uninterpreted functions;
//  * UncatchableError: the two variants this file constructs + `Other`; thiserror's `#[from] CidCalculationError`.
// Rewrites (all local): the five `ok_or_else(|| UncatchableError::ValueForCidNotFound(..))` closures and the `.map(|vm_value| ..)` closure
//    get their annotated form so that the value they build is known to Verus (README: closures need an annotated form).
use vstd::prelude::*;
use vstd::std_specs::convert::{FromSpec, IntoSpec};
verus! {

use std::collections::HashMap;
pub type CidRef = str;
pub type Rc<T> = std::rc::Rc<T>;

pub mod ax {
    use vstd::prelude::*;
    use vstd::std_specs::convert::FromSpec;
    use super::{CID, Rc};
    #[verifier::external_body]
    pub broadcast proof fn axiom_cid_obeys_key_model<T>()
        ensures #[trigger] vstd::std_specs::hash::obeys_key_model::<CID<T>>() {}
    // core: `impl<T> From<T> for T { fn from(t: T) -> T { t } }`
    #[verifier::external_body]
    pub proof fn from_identity<T>(t: T)
        ensures <T as FromSpec<T>>::obeys_from_spec(), <T as FromSpec<T>>::from_spec(t) == t {}
    // alloc: `impl<T> From<T> for Rc<T> { fn from(t: T) -> Rc<T> { Rc::new(t) } }`
    #[verifier::external_body]
    pub proof fn rc_from<T>(t: T)
        ensures <Rc<T> as FromSpec<T>>::obeys_from_spec(), *(<Rc<T> as FromSpec<T>>::from_spec(t)) == t {}
}
broadcast use {vstd::std_specs::hash::group_hash_axioms, ax::axiom_cid_obeys_key_model};

pub assume_specification<T: ?Sized, A: std::alloc::Allocator + Clone>[ <std::rc::Rc<T, A> as Clone>::clone ](a: &std::rc::Rc<T, A>) -> (r: std::rc::Rc<T, A>)
    ensures r == *a;

//@ import-spec cid_verify :: as_ref_spec as_ref_bytes
#[verifier::external_trait_specification]
pub trait ExAsRef<T: core::marker::PointeeSized>: core::marker::PointeeSized {
    type ExternalTraitSpecificationFor: core::convert::AsRef<T>;
    fn as_ref(&self) -> (r: &T) ensures r == as_ref_spec::<Self, T>(self);
}
pub mod serde_json { pub struct Error; }
pub trait Serialize {}

// ---------------------------------------------------------------- shim: CID<T> (same text as unit cid_store)
#[verifier::accept_recursive_types(T)]
pub struct CID<T: ?Sized>(pub Rc<CidRef>, pub core::marker::PhantomData<*const T>);
impl<T: ?Sized> CID<T> {
    pub open spec fn text(&self) -> Seq<char> { self.0@ }
    #[verifier::external_body]
    pub fn get_inner(&self) -> (r: Rc<CidRef>) ensures r == self.0 { self.0.clone() }
}
impl<T: ?Sized> Clone for CID<T> {
    #[verifier::external_body]
    fn clone(&self) -> (r: Self) ensures r == *self { Self(self.0.clone(), self.1) }
}
impl<Val> PartialEq for CID<Val> {
    #[verifier::external_body]
    fn eq(&self, other: &Self) -> bool { self.0 == other.0 }
}
impl<Val> Eq for CID<Val> {}
impl<Val> std::hash::Hash for CID<Val> {
    #[verifier::external_body]
    fn hash<H: std::hash::Hasher>(&self, state: &mut H) { self.0.hash(state); }
}

pub struct CidCalculationError { pub e: serde_json::Error }
//@ import-spec cid_store :: json_cid_of raw_cid_of tracked_as

// ---------------------------------------------------------------- shim: values (trusted, opaque)
pub struct JValue { pub x: u8 }
impl Clone for JValue {
    #[verifier::external_body]
    fn clone(&self) -> (r: Self) ensures r == *self { unimplemented!() }
}
#[derive(Clone, Copy)]
pub struct TracePos(pub u32);
impl TracePos {
    pub fn default() -> (r: TracePos) ensures r == TracePos(0) { TracePos(0) }
}
pub struct RawValue { pub x: u8 }
impl RawValue {
    pub uninterp spec fn raw_str(&self) -> &str;      // the stored text
    pub uninterp spec fn value_spec(&self) -> JValue; // what `get_value` returns
    // real: `Self { raw: value.to_string().into(), parsed: Some(value).into() }`
    #[verifier::external_body]
    pub fn from_value(value: JValue) -> (r: RawValue) ensures r.value_spec() == value { unimplemented!() }
    // real: parses `raw` on first use with `.expect("TODO handle error")` -- F4, not in this unit
    #[verifier::external_body]
    pub fn get_value(&self) -> (r: JValue) ensures r == self.value_spec() { unimplemented!() }
}
// real fields (marine-call-parameters 0.14.0), so that code which rebuilds a tetraplet from its parts is within reach (seed3-C11)
pub struct SecurityTetraplet { pub peer_pk: String, pub service_id: String, pub function_name: String, pub lens: String }
impl SecurityTetraplet {
    #[verifier::external_body]
    pub fn new(peer_pk: &str, service_id: &str, function_name: &str, lens: &str) -> (r: Self)
        ensures r.peer_pk@ == peer_pk@, r.service_id@ == service_id@, r.function_name@ == function_name@, r.lens@ == lens@
    { unimplemented!() }
}
pub type RcSecurityTetraplet = Rc<SecurityTetraplet>;
impl Serialize for SecurityTetraplet {}

//@ lift crates/air-lib/interpreter-data/src/executed_state.rs :: struct ServiceResultCidAggregate
//@ derive
//@ end
//@ lift crates/air-lib/interpreter-data/src/executed_state.rs :: struct CanonResultCidAggregate
//@ derive
//@ end
//@ lift crates/air-lib/interpreter-data/src/executed_state.rs :: struct CanonCidAggregate
//@ derive
//@ end
//@ lift crates/air-lib/interpreter-data/src/executed_state.rs :: enum Provenance
//@ derive
//@ end
impl Serialize for ServiceResultCidAggregate {}
impl Serialize for CanonResultCidAggregate {}
impl Serialize for CanonCidAggregate {}
impl Clone for Provenance {
    #[verifier::external_body]
    fn clone(&self) -> (r: Self) ensures r == *self { unimplemented!() }
}
impl ServiceResultCidAggregate {
//@ lift crates/air-lib/interpreter-data/src/executed_state/impls.rs :: impl ServiceResultCidAggregate :: fn new
//@ props C09
//@ ret r
//@ spec
        ensures r.value_cid == value_cid, r.argument_hash == argument_hash, r.tetraplet_cid == tetraplet_cid
//@ end
}
impl CanonCidAggregate {
//@ lift crates/air-lib/interpreter-data/src/executed_state/impls.rs :: impl CanonCidAggregate :: fn new
//@ props C09
//@ ret r
//@ spec
        ensures r.value == value, r.tetraplet == tetraplet, r.provenance == provenance
//@ end
}

// air/src/execution_step/value_types/scalar.rs: an enum over literal / service / canon aggregates; opaque here
pub struct ValueAggregate { pub x: u8 }
impl ValueAggregate {
    pub uninterp spec fn result_spec(&self) -> JValue;
    pub uninterp spec fn tetraplet_spec(&self) -> RcSecurityTetraplet;
    pub uninterp spec fn provenance_spec(&self) -> Provenance;
    pub uninterp spec fn made(result: JValue, tetraplet: RcSecurityTetraplet, trace_pos: TracePos, provenance: Provenance) -> ValueAggregate;
    #[verifier::external_body]
    pub fn new(result: JValue, tetraplet: RcSecurityTetraplet, trace_pos: TracePos, provenance: Provenance) -> (r: Self)
        ensures r == Self::made(result, tetraplet, trace_pos, provenance) { unimplemented!() }
    #[verifier::external_body]
    pub fn get_result(&self) -> (r: &JValue) ensures *r == self.result_spec() { unimplemented!() }
    #[verifier::external_body]
    pub fn get_tetraplet(&self) -> (r: RcSecurityTetraplet) ensures r == self.tetraplet_spec() { unimplemented!() }
    #[verifier::external_body]
    pub fn get_provenance(&self) -> (r: Provenance) ensures r == self.provenance_spec() { unimplemented!() }
}

// ---------------------------------------------------------------- errors
pub enum UncatchableError {
    CidError(CidCalculationError),
    ValueForCidNotFound(&'static str, Rc<CidRef>),
    Other(u8),
}
// real: generated by thiserror's #[from]
impl From<CidCalculationError> for UncatchableError { fn from(e: CidCalculationError) -> Self { UncatchableError::CidError(e) } }
impl vstd::std_specs::convert::FromSpecImpl<CidCalculationError> for UncatchableError {
    open spec fn obeys_from_spec() -> bool { true }
    open spec fn from_spec(e: CidCalculationError) -> Self { UncatchableError::CidError(e) }
}
// the error of a failed lookup: names the kind of store and the CID that was asked for
pub open spec fn not_found<T>(kind: &'static str, cid: CID<T>) -> UncatchableError {
    UncatchableError::ValueForCidNotFound(kind, cid.0)
}

// ---------------------------------------------------------------- the store layer (contracts proved in unit cid_store)
//@ lift crates/air-lib/interpreter-data/src/cid_store.rs :: struct CidStore
//@ derive
//@ end
//@ lift crates/air-lib/interpreter-data/src/cid_store.rs :: struct CidTracker
//@ derive
//@ end
//@ lift crates/air-lib/interpreter-data/src/cid_info.rs :: struct CidInfo
//@ derive
//@ end
impl<Val> CidStore<Val> {
//@ import-spec cid_store :: CidStore::m CidStore::of_tracker
}
// checked in unit cid_store against the lifted `From<CidTracker<Val>> for CidStore<Val>`
impl<Val> vstd::std_specs::convert::FromSpecImpl<CidTracker<Val>> for CidStore<Val> {
    open spec fn obeys_from_spec() -> bool { true }
    open spec fn from_spec(value: CidTracker<Val>) -> Self { CidStore::of_tracker(value) }
}
impl<Val> From<CidTracker<Val>> for CidStore<Val> {
    #[verifier::external_body]
    fn from(value: CidTracker<Val>) -> (r: Self) { unimplemented!() }
}
impl<Val> CidTracker<Val> {
//@ import-spec cid_store :: CidTracker::m
//@ stub cid_store :: CidTracker::from_cid_stores
//@ stub cid_store :: CidTracker::get
}
impl<Val: Serialize> CidTracker<Val> {
//@ stub cid_store :: CidTracker::track_value
}
impl CidTracker<RawValue> {
//@ stub cid_store :: CidTracker::track_raw_value
}
impl<Val> Default for CidTracker<Val> {
//@ stub cid_store :: CidTracker::default
}

// ================================================================ cid_state.rs
//@ lift air/src/execution_step/execution_context/cid_state.rs :: struct ExecutionCidState
//@ derive
//@ end
// real: #[derive(Default)]
impl Default for ExecutionCidState {
    fn default() -> (r: Self)
        ensures r.all_empty()
    {
        Self {
            value_tracker: Default::default(),
            tetraplet_tracker: Default::default(),
            canon_element_tracker: Default::default(),
            canon_result_tracker: Default::default(),
            service_result_agg_tracker: Default::default(),
        }
    }
}
//@ lift air/src/execution_step/execution_context/cid_state.rs :: struct ResolvedServiceInfo
//@ derive
//@ end

impl ExecutionCidState {
    // ghost views of the five trackers
    pub open spec fn vs(&self) -> Map<CID<RawValue>, Rc<RawValue>> { self.value_tracker.m() }
    pub open spec fn ts(&self) -> Map<CID<SecurityTetraplet>, Rc<SecurityTetraplet>> { self.tetraplet_tracker.m() }
    pub open spec fn ces(&self) -> Map<CID<CanonCidAggregate>, Rc<CanonCidAggregate>> { self.canon_element_tracker.m() }
    pub open spec fn crs(&self) -> Map<CID<CanonResultCidAggregate>, Rc<CanonResultCidAggregate>> { self.canon_result_tracker.m() }
    pub open spec fn srs(&self) -> Map<CID<ServiceResultCidAggregate>, Rc<ServiceResultCidAggregate>> { self.service_result_agg_tracker.m() }

    pub open spec fn all_empty(&self) -> bool {
        &&& self.vs() == Map::<CID<RawValue>, Rc<RawValue>>::empty()
        &&& self.ts() == Map::<CID<SecurityTetraplet>, Rc<SecurityTetraplet>>::empty()
        &&& self.ces() == Map::<CID<CanonCidAggregate>, Rc<CanonCidAggregate>>::empty()
        &&& self.crs() == Map::<CID<CanonResultCidAggregate>, Rc<CanonResultCidAggregate>>::empty()
        &&& self.srs() == Map::<CID<ServiceResultCidAggregate>, Rc<ServiceResultCidAggregate>>::empty()
    }
    // C09 (local): no key of any tracker disappears
    pub open spec fn grows_from(&self, old: &ExecutionCidState) -> bool {
        &&& old.vs().dom().subset_of(self.vs().dom())
        &&& old.ts().dom().subset_of(self.ts().dom())
        &&& old.ces().dom().subset_of(self.ces().dom())
        &&& old.crs().dom().subset_of(self.crs().dom())
        &&& old.srs().dom().subset_of(self.srs().dom())
    }
    // exactly when `resolve_service_info(cid)` succeeds: the aggregate and both of its references are present
    pub open spec fn service_resolvable(&self, cid: CID<ServiceResultCidAggregate>) -> bool {
        &&& self.srs().contains_key(cid)
        &&& self.vs().contains_key(self.srs()[cid].value_cid)
        &&& self.ts().contains_key(self.srs()[cid].tetraplet_cid)
    }
    // exactly when `get_canon_value_by_cid(cid)` succeeds (the provenance target is NOT looked up)
    pub open spec fn canon_value_resolvable(&self, cid: CID<CanonCidAggregate>) -> bool {
        &&& self.ces().contains_key(cid)
        &&& self.vs().contains_key(self.ces()[cid].value)
        &&& self.ts().contains_key(self.ces()[cid].tetraplet)
    }

//@ lift air/src/execution_step/execution_context/cid_state.rs :: impl ExecutionCidState :: fn new
//@ props C09
//@ ret r
//@ spec
        ensures r.all_empty()
//@ end

//@ lift air/src/execution_step/execution_context/cid_state.rs :: impl ExecutionCidState :: fn from_cid_info
//@ props C09
//@ ret r
//@ spec
        ensures
            // store by store: the union of the previous and the current data's stores, current wins; nothing is forgotten
            r.vs() == prev_cid_info.value_store.m().union_prefer_right(current_cid_info.value_store.m()),
            r.ts() == prev_cid_info.tetraplet_store.m().union_prefer_right(current_cid_info.tetraplet_store.m()),
            r.ces() == prev_cid_info.canon_element_store.m().union_prefer_right(current_cid_info.canon_element_store.m()),
            r.crs() == prev_cid_info.canon_result_store.m().union_prefer_right(current_cid_info.canon_result_store.m()),
            r.srs() == prev_cid_info.service_result_store.m().union_prefer_right(current_cid_info.service_result_store.m()),
//@ end

//@ lift air/src/execution_step/execution_context/cid_state.rs :: impl ExecutionCidState :: fn track_service_result
//@ props C09 C01
//@ ret r
//@ before "let vm_value = RawValue::from_value(value);"
        proof { ax::from_identity::<RcSecurityTetraplet>(tetraplet); }
//@ before "let value_cid = self.value_tracker.track_raw_value(vm_value);"
        proof { ax::rc_from::<RawValue>(vm_value); }
//@ before "self.service_result_agg_tracker"
        proof { ax::rc_from::<ServiceResultCidAggregate>(service_result_agg); }
//@ spec
        ensures
            // what is tracked is resolvable: the aggregate, its value and its tetraplet are all there, and they are the arguments
            r matches Ok(c) ==> {
                &&& final(self).service_resolvable(c)
                &&& final(self).srs()[c].argument_hash == argument_hash
                &&& final(self).vs()[final(self).srs()[c].value_cid].value_spec() == value
                &&& final(self).ts()[final(self).srs()[c].tetraplet_cid] == tetraplet
            },
            // on every outcome: nothing already tracked is dropped, the canon trackers are untouched
            final(self).grows_from(old(self)),
            final(self).ces() == old(self).ces(), final(self).crs() == old(self).crs(),
//@ end

//@ lift air/src/execution_step/execution_context/cid_state.rs :: impl ExecutionCidState :: fn track_canon_value
//@ props C09 C01 C11 C17
//@ ret r
//@ before "let value_cid = self.value_tracker.track_raw_value(vm_value);"
        proof { ax::rc_from::<RawValue>(vm_value); }
//@ before "let tetraplet = self.tetraplet_tracker.track_value(canon_value.get_tetraplet())?;"
        proof { ax::from_identity::<RcSecurityTetraplet>(canon_value.tetraplet_spec()); }
//@ before "self.canon_element_tracker"
        proof { ax::rc_from::<CanonCidAggregate>(canon_value_aggregate); }
//@ spec
        ensures
            r matches Ok(c) ==> {
                &&& final(self).canon_value_resolvable(c)
                &&& final(self).ces()[c].provenance == canon_value.provenance_spec()
                &&& final(self).vs()[final(self).ces()[c].value].value_spec() == canon_value.result_spec()
                &&& final(self).ts()[final(self).ces()[c].tetraplet] == canon_value.tetraplet_spec()
            },
            final(self).grows_from(old(self)),
            final(self).crs() == old(self).crs(), final(self).srs() == old(self).srs(),
//@ end

//@ lift air/src/execution_step/execution_context/cid_state.rs :: impl ExecutionCidState :: fn get_value_by_cid
//@ props C01 C09
//@ ret r
//@ rewrite 1 "|| UncatchableError::ValueForCidNotFound(\"value\", cid.get_inner()))" => "|| -> (o: UncatchableError) ensures o == not_found(\"value\", *cid) { UncatchableError::ValueForCidNotFound(\"value\", cid.get_inner()) })"
//@ rewrite 1 "|vm_value| vm_value.get_value()" => "|vm_value: Rc<RawValue>| -> (o: JValue) ensures o == vm_value.value_spec() { vm_value.get_value() }"
//@ spec
        ensures
            r is Ok <==> self.vs().contains_key(*cid),
            r matches Ok(v) ==> v == self.vs()[*cid].value_spec(),
            r matches Err(e) ==> e == not_found("value", *cid),
//@ end

//@ lift air/src/execution_step/execution_context/cid_state.rs :: impl ExecutionCidState :: fn get_tetraplet_by_cid
//@ props C01 C09
//@ ret r
//@ rewrite 1 "|| UncatchableError::ValueForCidNotFound(\"tetraplet\", cid.get_inner()))" => "|| -> (o: UncatchableError) ensures o == not_found(\"tetraplet\", *cid) { UncatchableError::ValueForCidNotFound(\"tetraplet\", cid.get_inner()) })"
//@ spec
        ensures
            r is Ok <==> self.ts().contains_key(*cid),
            r matches Ok(v) ==> v == self.ts()[*cid],
            r matches Err(e) ==> e == not_found("tetraplet", *cid),
//@ end

//@ lift air/src/execution_step/execution_context/cid_state.rs :: impl ExecutionCidState :: fn get_canon_value_by_cid
//@ props C01 C09 C11 C17
//@ ret r
//@ rewrite 1 "|| UncatchableError::ValueForCidNotFound(\"canon aggregate\", cid.get_inner()))" => "|| -> (o: UncatchableError) ensures o == not_found(\"canon aggregate\", *cid) { UncatchableError::ValueForCidNotFound(\"canon aggregate\", cid.get_inner()) })"
//@ spec
        ensures
            r is Ok <==> self.canon_value_resolvable(*cid),
            r matches Ok(v) ==> v == ValueAggregate::made(self.vs()[self.ces()[*cid].value].value_spec(), self.ts()[self.ces()[*cid].tetraplet],
                TracePos(0), self.ces()[*cid].provenance),
            r matches Err(e) ==> e is ValueForCidNotFound,
            // the missing item is named
            !self.ces().contains_key(*cid) ==> r == Err::<ValueAggregate, UncatchableError>(not_found("canon aggregate", *cid)),
//@ end

//@ lift air/src/execution_step/execution_context/cid_state.rs :: impl ExecutionCidState :: fn get_canon_result_by_cid
//@ props C01 C09
//@ ret r
//@ rewrite 1 "|| UncatchableError::ValueForCidNotFound(\"canon result aggregate\", cid.get_inner()))" => "|| -> (o: UncatchableError) ensures o == not_found(\"canon result aggregate\", *cid) { UncatchableError::ValueForCidNotFound(\"canon result aggregate\", cid.get_inner()) })"
//@ spec
        ensures
            r is Ok <==> self.crs().contains_key(*cid),
            r matches Ok(v) ==> v == self.crs()[*cid],
            r matches Err(e) ==> e == not_found("canon result aggregate", *cid),
//@ end

//@ lift air/src/execution_step/execution_context/cid_state.rs :: impl ExecutionCidState :: fn get_service_result_agg_by_cid
//@ props C01 C09
//@ ret r
//@ rewrite 1 "|| UncatchableError::ValueForCidNotFound(\"service result aggregate\", cid.get_inner()))" => "|| -> (o: UncatchableError) ensures o == not_found(\"service result aggregate\", *cid) { UncatchableError::ValueForCidNotFound(\"service result aggregate\", cid.get_inner()) })"
//@ spec
        ensures
            r is Ok <==> self.srs().contains_key(*cid),
            r matches Ok(v) ==> v == self.srs()[*cid],
            r matches Err(e) ==> e == not_found("service result aggregate", *cid),
//@ end

//@ lift air/src/execution_step/execution_context/cid_state.rs :: impl ExecutionCidState :: fn resolve_service_info
//@ props C01 C09
//@ ret r
//@ spec
        ensures
            r is Ok <==> self.service_resolvable(*service_result_agg_cid),
            r matches Ok(info) ==> {
                let a = self.srs()[*service_result_agg_cid];
                info.service_result_aggregate == a && info.value == self.vs()[a.value_cid].value_spec() && info.tetraplet == self.ts()[a.tetraplet_cid]
            },
            r matches Err(e) ==> e is ValueForCidNotFound,
            !self.srs().contains_key(*service_result_agg_cid) ==>
                r == Err::<ResolvedServiceInfo, UncatchableError>(not_found("service result aggregate", *service_result_agg_cid)),
//@ end
}

// nothing is claimed about the value of this conversion beyond the field-wise contract below
impl vstd::std_specs::convert::FromSpecImpl<ExecutionCidState> for CidInfo {
    open spec fn obeys_from_spec() -> bool { false }
    open spec fn from_spec(value: ExecutionCidState) -> CidInfo { arbitrary() }
}
impl From<ExecutionCidState> for CidInfo {
//@ lift air/src/execution_step/execution_context/cid_state.rs :: impl From<ExecutionCidState> for CidInfo :: fn from
//@ name CidInfo::from<ExecutionCidState>
//@ props C09
//@ no-canary
//@ ret r
//@ spec
        // C09 (local): what the run tracked is what goes into the data, store by store
        ensures
            r.value_store.m() == value.vs(), r.tetraplet_store.m() == value.ts(), r.canon_element_store.m() == value.ces(),
            r.canon_result_store.m() == value.crs(), r.service_result_store.m() == value.srs(),
//@ end
}

} // verus!
fn main() {}
