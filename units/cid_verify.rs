#![feature(sized_hierarchy)]
//@ unit cid_verify
// verify_value / verify_raw_value / verify_json_value (crates/air-lib/interpreter-cid/src/verify.rs), JSON_CODEC and
// `TryFrom<&CID<T>> for cid::Cid` (lib.rs): C25, second sentence -- verification accepts exactly the pairs whose
// id is a JSON-codec id carrying the full SHA2-256 / BLAKE3-256 digest of the value's bytes.
//
// Trusted part of this file (everything is a shim of a library; results are uninterpreted):
//  * cid::Cid::from_str == `parse_cid` (uninterpreted); Cid::codec/hash, Multihash::code/digest are field reads.
//  * multihash_codetable::Code: the two variants the code names + `Other` for the 16 others;
//    `Code::try_from(raw)`: Sha2_256 <=> 0x12, Blake3_256 <=> 0x1e (the `#[mh(code = ..)]` table of multihash-codetable 0.1.1).
//  * digest::Digest (new/update/finalize) with a ghost accumulator of the bytes fed; the hash functions themselves
//    are the uninterpreted `sha2_256` / `blake3_256`. blake3's inherent `update(&mut self, &[u8]) -> &mut Self`
//    is shimmed with result `()` (the result is discarded at the call site).
//  * `Vec<u8>` results of hashing are the newtype `HashVec` because Verus has no spec for `Vec<u8> == &[u8]`
//    (and rejects an assume_specification for it: lifetime-bound mismatch); its `PartialEq<&[u8]>` is full
//    sequence equality, as for `Vec`.
//  * value_json_hash::<D, Val>(v) = D(json_bytes(v)) or the serde_json error (its body threads `&mut hasher`
//    through a BufWriter, outside Verus); `AsRef::as_ref` is a pure function `as_ref_spec`.
// Rewrites: `|_|` -> `|_e|` in the two `map_err` closures (Verus: "only variables are supported here"), the local
//    `use digest::Digest;` / `use std::str::FromStr;` lines are pointed at / dropped for the shim modules.
// Not expressible: the *kind* of the error when the id does not parse (`?` converts cid::Error through `From`,
//    and Verus gives that hidden conversion no spec).
use vstd::prelude::*;
verus! {

// ---------------------------------------------------------------- shim: AsRef, type_name, Rc<str>
pub uninterp spec fn as_ref_spec<A: core::marker::PointeeSized, T: core::marker::PointeeSized>(a: &A) -> &T;
#[verifier::external_trait_specification]
pub trait ExAsRef<T: core::marker::PointeeSized>: core::marker::PointeeSized {
    type ExternalTraitSpecificationFor: core::convert::AsRef<T>;
    fn as_ref(&self) -> (r: &T) ensures r == as_ref_spec::<Self, T>(self);
}
// the bytes a raw value stands for
pub open spec fn as_ref_bytes<A>(a: A) -> Seq<u8> { as_ref_spec::<A, [u8]>(&a)@ }
pub assume_specification<T: ?Sized> [std::any::type_name::<T>] () -> &'static str;

pub type CidRef = str;
pub type Rc<T> = std::rc::Rc<T>;

// ---------------------------------------------------------------- shim: hash bytes
pub struct HashVec(pub Vec<u8>);
impl<'a> PartialEq<&'a [u8]> for HashVec {
    #[verifier::external_body]
    fn eq(&self, o: &&'a [u8]) -> bool { self.0.as_slice() == *o }
}
impl<'a> vstd::std_specs::cmp::PartialEqSpecImpl<&'a [u8]> for HashVec {
    open spec fn obeys_eq_spec() -> bool { true }
    open spec fn eq_spec(&self, o: &&'a [u8]) -> bool { self.0@ == o@ }
}
pub uninterp spec fn sha2_256(bytes: Seq<u8>) -> Seq<u8>;
pub uninterp spec fn blake3_256(bytes: Seq<u8>) -> Seq<u8>;

pub mod digest {
    use vstd::prelude::*;
    use super::*;
    // GenericArray<u8, OutputSize>
    pub struct Output { pub bytes: Vec<u8> }
    impl Output {
        pub fn to_vec(&self) -> (r: HashVec) ensures r.0@ == self.bytes@ { HashVec(self.bytes.clone()) }
    }
    pub trait Digest: Sized {
        spec fn fed(&self) -> Seq<u8>;
        spec fn hash_of(bytes: Seq<u8>) -> Seq<u8>;
        fn new() -> (r: Self) ensures r.fed() == Seq::<u8>::empty();
        fn update<A: AsRef<[u8]>>(&mut self, data: A) ensures final(self).fed() == old(self).fed() + as_ref_bytes(data);
        fn finalize(self) -> (r: Output) ensures r.bytes@ == Self::hash_of(self.fed());
    }
}
pub mod sha2 {
    use vstd::prelude::*;
    use super::*;
    pub struct Sha256 { pub g: Ghost<Seq<u8>> }
    impl digest::Digest for Sha256 {
        open spec fn fed(&self) -> Seq<u8> { self.g@ }
        open spec fn hash_of(bytes: Seq<u8>) -> Seq<u8> { sha2_256(bytes) }
        #[verifier::external_body] fn new() -> (r: Self) { unimplemented!() }
        #[verifier::external_body] fn update<A: AsRef<[u8]>>(&mut self, data: A) { unimplemented!() }
        #[verifier::external_body] fn finalize(self) -> (r: digest::Output) { unimplemented!() }
    }
}
pub mod blake3 {
    use vstd::prelude::*;
    use super::*;
    pub struct Hasher { pub g: Ghost<Seq<u8>> }
    impl Hasher {
        #[verifier::external_body]
        pub fn new() -> (r: Self) ensures r.g@ == Seq::<u8>::empty() { unimplemented!() }
        #[verifier::external_body]
        pub fn update(&mut self, input: &[u8]) ensures final(self).g@ == old(self).g@ + input@ { unimplemented!() }
    }
    impl digest::Digest for Hasher {
        open spec fn fed(&self) -> Seq<u8> { self.g@ }
        open spec fn hash_of(bytes: Seq<u8>) -> Seq<u8> { blake3_256(bytes) }
        #[verifier::external_body] fn new() -> (r: Self) { unimplemented!() }
        #[verifier::external_body] fn update<A: AsRef<[u8]>>(&mut self, data: A) { unimplemented!() }
        #[verifier::external_body] fn finalize(self) -> (r: digest::Output) { unimplemented!() }
    }
}

// ---------------------------------------------------------------- shim: multihash, cid
pub mod multihash_codetable {
    use vstd::prelude::*;
    pub struct Multihash { pub code: u64, pub digest: Vec<u8> }
    impl Multihash {
        pub fn code(&self) -> (r: u64) ensures r == self.code { self.code }
        pub fn digest(&self) -> (r: &[u8]) ensures r@ == self.digest@ { self.digest.as_slice() }
    }
    pub struct Error;
    pub enum Code { Sha2_256, Blake3_256, Other }
    // multihash-codetable 0.1.1: `#[mh(code = 0x12)] Sha2_256`, `#[mh(code = 0x1e)] Blake3_256`
    pub open spec fn code_of(raw: u64) -> Option<Code> {
        if raw == 0x12 { Some(Code::Sha2_256) } else if raw == 0x1e { Some(Code::Blake3_256) } else { other_code_of(raw) }
    }
    // the other 16 table entries (or none)
    pub uninterp spec fn other_known(raw: u64) -> bool;
    pub open spec fn other_code_of(raw: u64) -> Option<Code> { if other_known(raw) { Some(Code::Other) } else { None } }
    impl TryFrom<u64> for Code {
        type Error = Error;
        #[verifier::external_body]
        fn try_from(raw: u64) -> (r: Result<Code, Error>) { unimplemented!() }
    }
    impl vstd::std_specs::convert::TryFromSpecImpl<u64> for Code {
        open spec fn obeys_try_from_spec() -> bool { true }
        open spec fn try_from_spec(raw: u64) -> Result<Code, Error> {
            match code_of(raw) { Some(c) => Ok(c), None => Err(Error) }
        }
    }
}
pub mod cid {
    use vstd::prelude::*;
    use super::multihash_codetable::Multihash;
    pub struct Error;
    pub struct Cid { pub codec: u64, pub hash: Multihash }
    // what `Cid::from_str` makes of a text
    pub uninterp spec fn from_str_spec(text: Seq<char>) -> Result<Cid, Error>;
    pub open spec fn parse_cid(text: Seq<char>) -> Option<Cid> {
        match from_str_spec(text) { Ok(c) => Some(c), Err(_) => None }
    }
    impl Cid {
        #[verifier::external_body]
        pub fn from_str(s: &str) -> (r: Result<Cid, Error>)
            ensures r == from_str_spec(s@)
        { unimplemented!() }
        pub fn codec(&self) -> (r: u64) ensures r == self.codec { self.codec }
        pub fn hash(&self) -> (r: &Multihash) ensures *r == self.hash { &self.hash }
    }
}
pub mod serde_json { pub struct Error; }
pub trait Serialize {}

// ---------------------------------------------------------------- crate::CID, JSON_CODEC, TryFrom<&CID<T>> for cid::Cid
pub struct CID<T: ?Sized>(pub Rc<CidRef>, pub core::marker::PhantomData<*const T>);
impl<T: ?Sized> CID<T> {
    pub open spec fn text(&self) -> Seq<char> { self.0@ }
    #[verifier::external_body]
    pub fn get_inner(&self) -> Rc<CidRef> { self.0.clone() }
}

//@ lift crates/air-lib/interpreter-cid/src/lib.rs :: const JSON_CODEC
//@ end

impl<T: ?Sized> std::convert::TryFrom<&'_ CID<T>> for cid::Cid {
    type Error = cid::Error;
//@ lift crates/air-lib/interpreter-cid/src/lib.rs :: impl <T: ?Sized> std::convert::TryFrom<&'_ CID<T>> for cid::Cid :: fn try_from
//@ props C25
//@ no-canary
//@ rewrite 1 "use std::str::FromStr;" => ""
//@ end
}
impl<T: ?Sized> vstd::std_specs::convert::TryFromSpecImpl<&'_ CID<T>> for cid::Cid {
    open spec fn obeys_try_from_spec() -> bool { true }
    open spec fn try_from_spec(value: &CID<T>) -> Result<cid::Cid, cid::Error> {
        cid::from_str_spec(value.text())
    }
}

//@ lift crates/air-lib/interpreter-cid/src/verify.rs :: enum CidVerificationError
//@ derive
//@ end
impl From<cid::Error> for CidVerificationError { fn from(e: cid::Error) -> Self { CidVerificationError::MalformedCid(e) } }
impl vstd::std_specs::convert::FromSpecImpl<cid::Error> for CidVerificationError {
    open spec fn obeys_from_spec() -> bool { true }
    open spec fn from_spec(e: cid::Error) -> Self { CidVerificationError::MalformedCid(e) }
}
impl From<serde_json::Error> for CidVerificationError { fn from(e: serde_json::Error) -> Self { CidVerificationError::InvalidJson(e) } }
impl vstd::std_specs::convert::FromSpecImpl<serde_json::Error> for CidVerificationError {
    open spec fn obeys_from_spec() -> bool { true }
    open spec fn from_spec(e: serde_json::Error) -> Self { CidVerificationError::InvalidJson(e) }
}

// the canonical JSON bytes of a value (None: serialisation fails)
pub uninterp spec fn json_bytes<Val: ?Sized>(value: &Val) -> Option<Seq<u8>>;
#[verifier::external_body]
pub fn value_json_hash<D: digest::Digest, Val: Serialize + ?Sized>(value: &Val) -> (r: Result<HashVec, serde_json::Error>)
    ensures r is Ok <==> json_bytes(value) is Some,
        r matches Ok(h) ==> h.0@ == D::hash_of(json_bytes(value)->0),
{ unimplemented!() }

// ---------------------------------------------------------------- the contract (from the property statement)
// "the id is a JSON-codec id whose full SHA2-256 or BLAKE3-256 digest matches the bytes"
pub open spec fn mhash_matches(code: u64, digest: Seq<u8>, bytes: Seq<u8>) -> bool {
    (code == 0x12 && digest == sha2_256(bytes)) || (code == 0x1e && digest == blake3_256(bytes))
}
pub open spec fn cid_matches(cid_text: Seq<char>, bytes: Seq<u8>) -> bool {
    cid::parse_cid(cid_text) matches Some(c) && c.codec == 0x0200 && mhash_matches(c.hash.code, c.hash.digest@, bytes)
}

//@ lift crates/air-lib/interpreter-cid/src/verify.rs :: fn verify_raw_value
//@ props C25
//@ ret r
//@ rewrite 1 "use digest::Digest;" => "use crate::digest::Digest;"
//@ rewrite 1 "|_|" => "|_e|"
//@ spec
    ensures
        r is Ok <==> cid_matches(cid.text(), as_ref_bytes(raw_value)),
        (cid::parse_cid(cid.text()) matches Some(c) && c.codec != 0x0200) ==> r matches Err(CidVerificationError::UnsupportedCidCodec(_)),
        // (the kind of the error for an unparsable id -- `?` converting cid::Error -- is not visible to Verus)
        (cid::parse_cid(cid.text()) matches Some(c) && c.codec == 0x0200 && (c.hash.code == 0x12 || c.hash.code == 0x1e)
            && !mhash_matches(c.hash.code, c.hash.digest@, as_ref_bytes(raw_value))) ==> r matches Err(CidVerificationError::ValueMismatch { .. }),
//@ end

//@ lift crates/air-lib/interpreter-cid/src/verify.rs :: fn verify_json_value
//@ props C25
//@ ret r
//@ rewrite 1 "|_|" => "|_e|"
//@ spec
    ensures
        r is Ok <==> (json_bytes(value) matches Some(b) && mhash_matches(mhash.code, mhash.digest@, b)),
//@ end

//@ lift crates/air-lib/interpreter-cid/src/verify.rs :: fn verify_value
//@ props C25
//@ ret r
//@ spec
    ensures
        r is Ok <==> (json_bytes(value) matches Some(b) && cid_matches(cid.text(), b)),
//@ end

} // verus!
fn main() {}
