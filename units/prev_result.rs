//@ unit prev_result
// The call instruction's handling of a state already present in data:
//   air/src/execution_step/instructions/call/prev_result_handler.rs  (handle_prev_state and its helpers, StateDescriptor)
//   air/src/execution_step/instructions/call/call_result_setter.rs   (populate_context_from_data / _from_peer_service_result)
// C05.V2 rows (i)-(iii), C06.V6, C07.V3, C01.V8.
//
// Ghost logs: `call_results` / `call_requests` are the real `HashMap`s (their views are the logs of what is still
// unconsumed / what has been requested), `TraceHandler.pushed` is the sequence of call states appended to the result trace.
//
// Trusted part of this file:
//  * the two axioms in `mod ax` (`String` obeys vstd's hash-table key model; `u32::to_string` is a function of its argument),
//    `From<T> for T` is the identity;
//  * opaque data types (CID, JValue, TracePos, AirPos, GenerationIdx, tetraplet, aggregates) and the error payloads;
//  * the leaf methods of the context's sub-objects, every one `external_body` taking `&mut` of its own field only,
//    so Verus frames the rest of the context: ExecutionCidState::{resolve_service_info, track_service_result},
//    Scalars::set_scalar_value, Streams::add_stream_value, PeerCidTracker::register (none has an `ensures`);
//  * TraceHandler::meet_call_end (appends its argument to `pushed`), TraceHandler::trace_pos (no contract);
//  * serde_json::{from_str, from_value} (no contract), serde_json::to_value (`ensures Ok`: serialising a JValue into a
//    serde_json::Value cannot fail), verifier::verify_call (no contract; property C14), value_to_json_cid (no contract),
//    CallServiceFailed::to_value (no contract), opaque_string (stands for `format!`).
use vstd::prelude::*;
verus! {

use std::rc::Rc;
use std::collections::HashMap;
use core::marker::PhantomData;

pub mod ax {
    use vstd::prelude::*;
    use vstd::string::to_string_from_display_ensures;
    // the decimal rendering of a call id (what `u32::to_string` returns)
    pub uninterp spec fn dec(v: u32) -> String;
    #[verifier::external_body]
    pub broadcast proof fn axiom_u32_to_string(v: u32, s: String)
        ensures #[trigger] to_string_from_display_ensures::<u32>(&v, s) ==> s == dec(v) {}
    #[verifier::external_body]
    pub broadcast proof fn axiom_string_obeys_key_model()
        ensures #[trigger] vstd::std_specs::hash::obeys_key_model::<String>() {}
}
use ax::dec;
broadcast use {vstd::std_specs::hash::group_hash_axioms, ax::axiom_u32_to_string, ax::axiom_string_obeys_key_model};
pub assume_specification<T>[ <T as core::convert::From<T>>::from ](t: T) -> (r: T) ensures r == t;

// ---------------------------------------------------------------- shim: opaque data (trusted)
pub struct CID<T> { pub id: u64, pub ph: PhantomData<T> }
impl<T> Clone for CID<T> { fn clone(&self) -> (r: Self) ensures r == *self { CID { id: self.id, ph: PhantomData } } }
pub struct JValue { pub x: u8 }
impl Clone for JValue { fn clone(&self) -> (r: Self) ensures r == *self { JValue { x: self.x } } }
#[derive(Clone, Copy)]
pub struct TracePos(pub u32);
#[derive(Clone, Copy)]
pub struct AirPos(pub usize);
#[derive(Clone, Copy)]
pub struct GenerationIdx(pub u32);
impl GenerationIdx { pub fn stub() -> Self { GenerationIdx(0xCAFEBABE) } }
pub struct SecurityTetraplet { pub peer_pk: String, pub service_id: String, pub function_name: String, pub lens: String }
pub type RcSecurityTetraplet = Rc<SecurityTetraplet>;
pub struct ServiceResultCidAggregate { pub argument_hash: Rc<str> }
pub struct ServiceResultAggregate { pub result: JValue, pub tetraplet: RcSecurityTetraplet, pub trace_pos: TracePos }
impl ServiceResultAggregate {
    pub fn new(result: JValue, tetraplet: RcSecurityTetraplet, trace_pos: TracePos) -> Self { Self { result, tetraplet, trace_pos } }
}
pub struct ValueAggregate { pub result: ServiceResultAggregate, pub provenance_cid: CID<ServiceResultCidAggregate> }
impl ValueAggregate {
    pub fn from_service_result(service_result: ServiceResultAggregate, service_result_agg_cid: CID<ServiceResultCidAggregate>) -> Self {
        Self { result: service_result, provenance_cid: service_result_agg_cid }
    }
}
pub enum Generation { Previous(GenerationIdx), Current(GenerationIdx), New }
impl Generation {
    pub fn from_data(data_type: ValueSource, generation: GenerationIdx) -> Self {
        match data_type { ValueSource::PreviousData => Generation::Previous(generation), ValueSource::CurrentData => Generation::Current(generation) }
    }
}
pub struct StreamValueDescriptor<'a> { pub value: ValueAggregate, pub name: &'a str, pub generation: Generation, pub position: AirPos }
impl<'a> StreamValueDescriptor<'a> {
    pub fn new(value: ValueAggregate, name: &'a str, generation: Generation, position: AirPos) -> Self { Self { value, name, generation, position } }
}
#[verifier::external_body]
pub fn opaque_string() -> String { unimplemented!() }
pub struct CidCalculationError { pub x: u8 }
#[verifier::external_body]
pub fn value_to_json_cid(value: &JValue) -> Result<CID<JValue>, CidCalculationError> { unimplemented!() }

// ---------------------------------------------------------------- real data types
//@ lift crates/air-lib/interpreter-data/src/executed_state.rs :: enum Sender
//@ derive Clone
//@ end
//@ lift crates/air-lib/interpreter-data/src/executed_state.rs :: enum CallResult
//@ derive Clone
//@ end
//@ lift crates/air-lib/interpreter-data/src/executed_state.rs :: enum ValueRef
//@ derive Clone
//@ end
//@ lift crates/air-lib/interpreter-data/src/executed_state.rs :: struct CallServiceFailed
//@ derive
//@ end
//@ lift crates/air-lib/trace-handler/src/merger/mod.rs :: enum ValueSource
//@ derive Clone Copy
//@ end
//@ lift crates/air-lib/trace-handler/src/merger/call_merger.rs :: struct MetCallResult
//@ derive
//@ end
//@ lift crates/air-lib/interpreter-interface/src/call_service_result.rs :: struct CallServiceResult
//@ derive
//@ end
//@ lift crates/air-lib/interpreter-interface/src/call_service_result.rs :: type CallResults
//@ end
//@ lift crates/air-lib/interpreter-interface/src/call_service_result.rs :: const CALL_SERVICE_SUCCESS
//@ end
//@ lift crates/air-lib/interpreter-interface/src/call_request_parameters.rs :: type CallRequests
//@ end
pub struct CallRequestParams { pub x: u8 }
//@ lift crates/air-lib/air-parser/src/ast/values.rs :: struct Scalar
//@ derive
//@ end
//@ lift crates/air-lib/air-parser/src/ast/values.rs :: struct Stream
//@ derive
//@ end
//@ lift crates/air-lib/air-parser/src/ast/instruction_arguments.rs :: enum CallOutputValue
//@ derive
//@ end

impl CallServiceFailed {
//@ lift crates/air-lib/interpreter-data/src/executed_state.rs :: impl CallServiceFailed :: fn new
//@ props C05
//@ end
    #[verifier::external_body]
    pub fn to_value(&self) -> JValue { unimplemented!() }
}

impl CallResult {
//@ lift crates/air-lib/interpreter-data/src/executed_state/impls.rs :: impl CallResult :: fn executed_service_result
//@ props C05
//@ ret r
//@ spec
        ensures r == CallResult::Executed(value_ref)
//@ end
//@ lift crates/air-lib/interpreter-data/src/executed_state/impls.rs :: impl CallResult :: fn executed_scalar
//@ props C05
//@ ret r
//@ spec
        ensures r == CallResult::Executed(ValueRef::Scalar(service_result_agg_cid))
//@ end
//@ lift crates/air-lib/interpreter-data/src/executed_state/impls.rs :: impl CallResult :: fn executed_stream_stub
//@ props C05
//@ ret r
//@ spec
        ensures r matches CallResult::Executed(ValueRef::Stream { cid: c, .. }) && c == cid
//@ end
//@ lift crates/air-lib/interpreter-data/src/executed_state/impls.rs :: impl CallResult :: fn executed_unused
//@ props C05
//@ ret r
//@ spec
        ensures r == CallResult::Executed(ValueRef::Unused(value_cid))
//@ end
//@ lift crates/air-lib/interpreter-data/src/executed_state/impls.rs :: impl CallResult :: fn failed
//@ props C05
//@ ret r
//@ spec
        ensures r == CallResult::Failed(service_result_agg_cid)
//@ end
}

// ---------------------------------------------------------------- errors
pub struct LambdaError { pub x: u8 }
pub struct ErrorObjectError { pub x: u8 }
pub struct StreamMapError { pub x: u8 }
#[derive(Debug)]
pub struct SerdeError { pub x: u8 }
pub struct IntConversionError { pub x: u8 }
// the variants the lifted code constructs; every other uncatchable error is `Other`
pub enum UncatchableError {
    MalformedCallServiceFailed(SerdeError),
    CallResultNotCorrespondToInstr(ValueRef),
    InstructionParametersMismatch { param: &'static str, expected_value: String, stored_value: String },
    Other(u8),
}
impl From<IntConversionError> for UncatchableError { fn from(e: IntConversionError) -> Self { UncatchableError::Other(0) } }
impl From<CidCalculationError> for UncatchableError { fn from(e: CidCalculationError) -> Self { UncatchableError::Other(1) } }
impl vstd::std_specs::convert::FromSpecImpl<IntConversionError> for UncatchableError {
    open spec fn obeys_from_spec() -> bool { true }
    open spec fn from_spec(e: IntConversionError) -> UncatchableError { UncatchableError::Other(0) }
}
impl vstd::std_specs::convert::FromSpecImpl<CidCalculationError> for UncatchableError {
    open spec fn obeys_from_spec() -> bool { true }
    open spec fn from_spec(e: CidCalculationError) -> UncatchableError { UncatchableError::Other(1) }
}

//@ lift air/src/execution_step/errors/catchable_errors.rs :: enum CatchableError
//@ derive
//@ end
//@ lift air/src/execution_step/errors/execution_errors.rs :: enum ExecutionError
//@ derive
//@ end
pub type ExecutionResult<T> = Result<T, ExecutionError>;

impl From<CatchableError> for ExecutionError {
//@ lift air/src/execution_step/errors/execution_errors.rs :: impl From<CatchableError> for ExecutionError :: fn from
//@ name ExecutionError::from<CatchableError>
//@ props C05
//@ end
}
// real: generated by thiserror's #[from]
impl From<UncatchableError> for ExecutionError { fn from(e: UncatchableError) -> Self { ExecutionError::Uncatchable(e) } }
impl vstd::std_specs::convert::FromSpecImpl<UncatchableError> for ExecutionError {
    open spec fn obeys_from_spec() -> bool { true }
    open spec fn from_spec(e: UncatchableError) -> ExecutionError { ExecutionError::Uncatchable(e) }
}
// nothing is claimed about the value of the (lifted) CatchableError conversion
impl vstd::std_specs::convert::FromSpecImpl<CatchableError> for ExecutionError {
    open spec fn obeys_from_spec() -> bool { false }
    open spec fn from_spec(e: CatchableError) -> ExecutionError { arbitrary() }
}

// ---------------------------------------------------------------- shim: serde_json, verifier (trusted)
pub mod serde_json {
    use super::*;
    pub struct Value { pub x: u8 }
    #[verifier::external_body]
    pub fn from_str(s: &str) -> Result<JValue, SerdeError> { unimplemented!() }
    // JValue -> serde_json::Value: total for every JValue (string keys, finite numbers)
    #[verifier::external_body]
    pub fn to_value(v: JValue) -> (r: Result<Value, SerdeError>) ensures r is Ok { unimplemented!() }
    #[verifier::external_body]
    pub fn from_value(v: Value) -> Result<CallServiceFailed, SerdeError> { unimplemented!() }
}
// real: instructions/call/verifier.rs (property C14). The lifted code calls it as `verifier::verify_call`; a module named
// `verifier` shadows Verus' `#[verifier::..]` tool attributes (and every proof block), hence the path rewrite at the call sites.
#[verifier::external_body]
pub fn verify_call(expected_argument_hash: &str, expected_tetraplet: &SecurityTetraplet,
                   stored_argument_hash: &str, stored_tetraplet: &SecurityTetraplet) -> Result<(), UncatchableError> { unimplemented!() }
// the lifted code names these crates in function-local `use` items
pub mod air_interpreter_interface { pub use super::CALL_SERVICE_SUCCESS; }
pub mod air_interpreter_data { pub use super::ValueRef; }

// ---------------------------------------------------------------- shim: the context's sub-objects (trusted, opaque)
pub struct Scalars<'i> { pub opaque_payload: u64, pub ph: PhantomData<&'i u8> }
impl<'i> Scalars<'i> {
    #[verifier::external_body]
    pub fn set_scalar_value(&mut self, name: &str, value: ValueAggregate) -> ExecutionResult<bool> { unimplemented!() }
}
pub struct Streams { pub x: u8 }
impl Streams {
    #[verifier::external_body]
    pub fn add_stream_value(&mut self, value_descriptor: StreamValueDescriptor<'_>) -> ExecutionResult<()> { unimplemented!() }
}
pub struct StreamMaps { pub x: u8 }
pub struct LastErrorDescriptor { pub x: u8 }
pub struct ErrorDescriptor { pub x: u8 }
pub struct InstructionTracker { pub x: u8 }
pub struct SignatureStore { pub x: u8 }
pub struct PeerCidTracker { pub x: u8 }
impl PeerCidTracker {
    #[verifier::external_body]
    pub fn register<T>(&mut self, peer: &str, cid: &CID<T>) { unimplemented!() }
}
pub struct ResolvedServiceInfo { pub value: JValue, pub tetraplet: RcSecurityTetraplet, pub service_result_aggregate: Rc<ServiceResultCidAggregate> }
pub struct ExecutionCidState { pub x: u8 }
impl ExecutionCidState {
    #[verifier::external_body]
    pub fn resolve_service_info(&self, service_result_agg_cid: &CID<ServiceResultCidAggregate>) -> Result<ResolvedServiceInfo, UncatchableError> { unimplemented!() }
    #[verifier::external_body]
    pub fn track_service_result(&mut self, value: JValue, tetraplet: RcSecurityTetraplet, argument_hash: Rc<str>)
        -> Result<CID<ServiceResultCidAggregate>, UncatchableError> { unimplemented!() }
}

//@ lift air/src/execution_step/execution_context/context.rs :: struct RcRunParameters
//@ derive
//@ end

//@ lift air/src/execution_step/execution_context/context.rs :: struct ExecutionCtx
//@ end

impl<'i> ExecutionCtx<'i> {
    // spec views (the struct has a private field, so Verus treats it as opaque in public contracts)
    pub closed spec fn results(&self) -> Map<String, CallServiceResult> { self.call_results@ }
    pub closed spec fn requests(&self) -> Map<u32, CallRequestParams> { self.call_requests@ }
    pub closed spec fn next_peers(&self) -> Seq<String> { self.next_peer_pks@ }
    pub closed spec fn lcid(&self) -> u32 { self.last_call_request_id }
    pub closed spec fn complete(&self) -> bool { self.subgraph_completeness }
    pub closed spec fn me(&self) -> Seq<char> { self.run_parameters.current_peer_id@ }

//@ lift air/src/execution_step/execution_context/context.rs :: impl <'i> ExecutionCtx<'i> :: fn record_call_cid
//@ name ExecutionCtx::record_call_cid
//@ props C05
//@ spec
        ensures same_but_results(*old(self), *final(self)), final(self).results() == old(self).results(),
            final(self).complete() == old(self).complete(),
//@ end
}

impl ExecutionCtx<'_> {
//@ lift air/src/execution_step/execution_context/context.rs :: impl ExecutionCtx<'_> :: fn make_subgraph_incomplete
//@ props C05
//@ spec
        ensures same_but_results(*old(self), *final(self)), final(self).results() == old(self).results(),
            !final(self).complete(),
//@ end
}

// everything the C05/C06/C07/C19 contracts watch, except the unconsumed results and the completeness flag
pub open spec fn same_but_results(a: ExecutionCtx, b: ExecutionCtx) -> bool {
    &&& a.requests() == b.requests()
    &&& a.next_peers() == b.next_peers()
    &&& a.lcid() == b.lcid()
    &&& a.me() == b.me()
}

// ---------------------------------------------------------------- shim: trace handler (trusted)
pub struct TraceHandler { pub pushed: Ghost<Seq<CallResult>>, pub x: u8 }
impl TraceHandler {
    // real: `self.data_keeper.result_trace.push(ExecutedState::Call(call_result))`
    #[verifier::external_body]
    pub fn meet_call_end(&mut self, call_result: CallResult)
        ensures final(self).pushed@ == old(self).pushed@.push(call_result)
    { unimplemented!() }
    #[verifier::external_body]
    pub fn trace_pos(&self) -> Result<TracePos, IntConversionError> { unimplemented!() }
}

// exactly one state satisfying `p` was appended
pub open spec fn pushed_one(before: Seq<CallResult>, after: Seq<CallResult>, p: spec_fn(CallResult) -> bool) -> bool {
    after.len() == before.len() + 1 && after.drop_last() =~= before && p(after.last())
}
pub open spec fn is_executed(c: CallResult) -> bool { c is Executed }
pub open spec fn is_failed(c: CallResult) -> bool { c is Failed }

// ---------------------------------------------------------------- call_result_setter.rs
//@ lift air/src/execution_step/instructions/call/call_result_setter.rs :: fn populate_context_from_peer_service_result
//@ props C05
//@ ret r
//@ spec
    ensures
        same_but_results(*old(exec_ctx), *final(exec_ctx)), final(exec_ctx).results() == old(exec_ctx).results(),
        final(exec_ctx).complete() == old(exec_ctx).complete(),
        r matches Ok(c) ==> c is Executed,
//@ end

//@ lift air/src/execution_step/instructions/call/call_result_setter.rs :: fn populate_context_from_data
//@ props C05 C07
//@ ret r
//@ rewrite 2 "verifier::verify_call(" => "verify_call("
//@ spec
    ensures
        same_but_results(*old(exec_ctx), *final(exec_ctx)), final(exec_ctx).results() == old(exec_ctx).results(),
        final(exec_ctx).complete() == old(exec_ctx).complete(),
//@ end

// ---------------------------------------------------------------- prev_result_handler.rs
//@ lift air/src/execution_step/instructions/call/prev_result_handler.rs :: struct StateDescriptor
//@ derive
//@ end

impl StateDescriptor {
    // spec views (private fields: opaque in public contracts)
    pub closed spec fn exec(&self) -> bool { self.should_execute }
    pub closed spec fn prev(&self) -> Option<CallResult> { self.prev_state }
    pub open spec fn is(&self, exec: bool, prev: Option<CallResult>) -> bool { self.exec() == exec && self.prev() == prev }
//@ lift air/src/execution_step/instructions/call/prev_result_handler.rs :: impl StateDescriptor :: fn executed
//@ props C05
//@ ret r
//@ spec
        ensures r.is(false, None)
//@ end
//@ lift air/src/execution_step/instructions/call/prev_result_handler.rs :: impl StateDescriptor :: fn not_ready
//@ props C05 C07
//@ ret r
//@ spec
        ensures r.is(false, Some(prev_state))
//@ end
//@ lift air/src/execution_step/instructions/call/prev_result_handler.rs :: impl StateDescriptor :: fn can_execute_now
//@ props C05
//@ ret r
//@ spec
        ensures r.is(true, Some(prev_state))
//@ end
//@ lift air/src/execution_step/instructions/call/prev_result_handler.rs :: impl StateDescriptor :: fn cant_execute_now
//@ props C05 C07
//@ ret r
//@ spec
        ensures r.is(false, Some(prev_state))
//@ end
//@ lift air/src/execution_step/instructions/call/prev_result_handler.rs :: impl StateDescriptor :: fn no_previous_state
//@ props C05
//@ ret r
//@ spec
        ensures r.is(true, None)
//@ end
//@ lift air/src/execution_step/instructions/call/prev_result_handler.rs :: impl StateDescriptor :: fn should_execute
//@ props C05
//@ ret r
//@ spec
        ensures r == self.exec()
//@ end
//@ lift air/src/execution_step/instructions/call/prev_result_handler.rs :: impl StateDescriptor :: fn maybe_set_prev_state
//@ props C05 C07
//@ spec
        // the state found in data is re-emitted unchanged; nothing is emitted if there was none
        ensures final(trace_ctx).pushed@ == (match self.prev() {
            Some(c) => old(trace_ctx).pushed@.push(c),
            None => old(trace_ctx).pushed@,
        })
//@ end
}

//@ lift air/src/execution_step/instructions/call/prev_result_handler.rs :: fn handle_service_error
//@ props C05
//@ ret r
//@ spec
    ensures
        same_but_results(*old(exec_ctx), *final(exec_ctx)), final(exec_ctx).results() == old(exec_ctx).results(),
        final(exec_ctx).complete() == old(exec_ctx).complete(),
        // a successful service result passes through untouched, nothing is recorded yet
        service_result.ret_code == CALL_SERVICE_SUCCESS ==> r == Ok::<CallServiceResult, ExecutionError>(service_result)
            && final(trace_ctx).pushed@ == old(trace_ctx).pushed@,
        // a service error is an error of the call; it is recorded as exactly one Failed state
        // (or nothing, if the CID tracker itself fails; that error is uncatchable, but Verus gives `?` conversions no spec)
        service_result.ret_code != CALL_SERVICE_SUCCESS ==> r is Err
            && (pushed_one(old(trace_ctx).pushed@, final(trace_ctx).pushed@, |c: CallResult| is_failed(c))
                || final(trace_ctx).pushed@ == old(trace_ctx).pushed@),
//@ end

//@ lift air/src/execution_step/instructions/call/prev_result_handler.rs :: fn try_to_service_result
//@ props C05
//@ ret r
//@ rewrite 1 "format!(\n                \"call_service result '{service_result}' can't be serialized or deserialized with an error: {e}\"\n            )" => "opaque_string()"
//@ spec
    ensures
        same_but_results(*old(exec_ctx), *final(exec_ctx)), final(exec_ctx).results() == old(exec_ctx).results(),
        final(exec_ctx).complete() == old(exec_ctx).complete(),
        r is Ok ==> final(trace_ctx).pushed@ == old(trace_ctx).pushed@,
        r is Err ==> (pushed_one(old(trace_ctx).pushed@, final(trace_ctx).pushed@, |c: CallResult| is_failed(c))
            || final(trace_ctx).pushed@ == old(trace_ctx).pushed@),
//@ end

//@ lift air/src/execution_step/instructions/call/prev_result_handler.rs :: fn update_state_with_service_result
//@ props C05
//@ ret r
//@ spec
    ensures
        same_but_results(*old(exec_ctx), *final(exec_ctx)), final(exec_ctx).results() == old(exec_ctx).results(),
        final(exec_ctx).complete() == old(exec_ctx).complete(),
        // the host's result is recorded exactly once: one Executed state on success,
        r is Ok ==> pushed_one(old(trace_ctx).pushed@, final(trace_ctx).pushed@, |c: CallResult| is_executed(c)),
        // at most one Failed state on error
        r is Err ==> (pushed_one(old(trace_ctx).pushed@, final(trace_ctx).pushed@, |c: CallResult| is_failed(c))
            || final(trace_ctx).pushed@ == old(trace_ctx).pushed@),
        service_result.ret_code != CALL_SERVICE_SUCCESS ==> r is Err,
//@ end

// ---- the decision table of handle_prev_state (C05.V2), written from the property statements
// the state is this peer's own pending request `RequestSentBy(PeerIdWithCallId{me, id})`
pub open spec fn own_pending(c: CallResult, me: Seq<char>) -> Option<u32> {
    match c {
        CallResult::RequestSentBy(Sender::PeerIdWithCallId { peer_id, call_id }) => if peer_id@ == me { Some(call_id) } else { None },
        _ => None,
    }
}
// INV-1 of the code's comments ("if a state exists, the arguments have been resolved"): in an honest history a call has a
// result state, or a host result to apply, only after its arguments were resolved once. It is *assumed* for the C05/C06/C07
// table below; that hostile data can break it is finding F6 (obligation handle_prev_state/total).
pub open spec fn hash_needed(c: CallResult, ctx: ExecutionCtx) -> bool {
    ||| c is Executed
    ||| c is Failed
    ||| (own_pending(c, ctx.me()) matches Some(id) && ctx.results().contains_key(dec(id)))
}

pub open spec fn prev_state_table(
    c: CallResult, target: Seq<char>, ctx0: ExecutionCtx, ctx1: ExecutionCtx,
    pushed0: Seq<CallResult>, pushed1: Seq<CallResult>, r: ExecutionResult<StateDescriptor>,
) -> bool {
    match own_pending(c, ctx0.me()) {
        Some(id) => if !ctx0.results().contains_key(dec(id)) {
            // (i) own pending request, the host has not answered yet: nothing consumed, nothing emitted here,
            //     the caller is told not to execute and to re-emit the same state; the subgraph stays incomplete
            &&& ctx1.results() =~= ctx0.results()
            &&& pushed1 == pushed0
            &&& (r matches Ok(sd) && sd.is(false, Some(c)))
            &&& !ctx1.complete()
        } else {
            // (ii) / C06.V6 the answer keyed by *this* state's call id is consumed -- that one and no other --
            //      and recorded once; the caller is told not to execute and has nothing to re-emit
            &&& ctx1.results() =~= ctx0.results().remove(dec(id))
            &&& r matches Ok(sd) ==> sd.is(false, None)
                    && pushed_one(pushed0, pushed1, |x: CallResult| is_executed(x))
            &&& r is Err ==> (pushed_one(pushed0, pushed1, |x: CallResult| is_failed(x)) || pushed1 == pushed0)
        },
        None => {
            &&& ctx1.results() =~= ctx0.results()
            &&& match c {
                // (iii) already executed: the same state is re-emitted, the caller is told not to execute
                CallResult::Executed(_) => {
                    &&& r matches Ok(sd) ==> sd.is(false, None) && pushed1 == pushed0.push(c)
                    &&& r is Err ==> pushed1 == pushed0
                }
                // (iii) already failed: the same state is re-emitted and the failure is raised again, never Ok
                CallResult::Failed(_) => {
                    &&& r is Err
                    &&& (pushed1 == pushed0.push(c) || pushed1 == pushed0)
                    &&& (pushed1 == pushed0.push(c) ==> !ctx1.complete())
                }
                // somebody's (or an own, id-less) request mark: nothing emitted here; execute iff the call is addressed to this peer
                CallResult::RequestSentBy(_) => {
                    &&& pushed1 == pushed0
                    &&& (r matches Ok(sd) && sd.is(target == ctx0.me(), Some(c)))
                    &&& (target != ctx0.me() ==> !ctx1.complete())
                }
            }
        }
    }
}

//@ lift air/src/execution_step/instructions/call/prev_result_handler.rs :: fn try_get_argument_hash
//@ props C01 C05
//@ ret r
//@ rewrite 1 "expected_value: \"arguments of the call aren't resolved yet\".to_owned()," => "expected_value: opaque_string(),"
//@ rewrite 1 "stored_value: \"a result of the call\".to_owned()," => "stored_value: opaque_string(),"
//@ spec
    ensures r is Ok <==> argument_hash is Some,
        r matches Ok(h) ==> argument_hash == Some(h),
//@ end

//@ lift air/src/execution_step/instructions/call/prev_result_handler.rs :: fn handle_prev_state
//@ props C01 C05 C06 C07
//@ ret r
//@ rewrite 1 "verifier::verify_call(" => "verify_call("
//@ rewrite 1 ".map_err(UncatchableError::MalformedCallServiceFailed)" => ".map_err(|e: SerdeError| -> (o: UncatchableError) { UncatchableError::MalformedCallServiceFailed(e) })"
//@ spec
    // C01.V8: no precondition -- every CallResult shape x argument_hash in {None, Some}, hostile data included (F6)
    ensures
        // a result in data for a call whose arguments cannot be resolved here is rejected, never unwrapped
        (argument_hash is None && hash_needed(met_result.result, *old(exec_ctx))) ==> r is Err,
        // whatever the state: no call request, no forwarding, the id counter is untouched
        same_but_results(*old(exec_ctx), *final(exec_ctx)),
        prev_state_table(met_result.result, tetraplet.peer_pk@, *old(exec_ctx), *final(exec_ctx),
            old(trace_ctx).pushed@, final(trace_ctx).pushed@, r),
//@ end

} // verus!
fn main() {}
