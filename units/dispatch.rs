//@ unit dispatch
// air/src/execution_step/instructions/mod.rs  `impl ExecutableInstruction for Instruction :: execute`  (C18)
// "inside the right branch the error object carries the same code and message the same failure reports when not caught":
// the error object (:error:, %last_error%) is written by ExecutionCtx::set_errors, and the only place that calls it for every
// instruction kind but `call` is this dispatch (macro execute!). So: whenever the dispatch returns Err(e), set_errors(e, ..) has been
// called for exactly that e as the LAST write -- for EVERY instruction kind.
// Trusted part: one opaque struct per instruction kind whose `execute` only extends the error log (the kinds' own executes are
// other units' obligations: xor, appends, canon, resolved_call); the ghost log on ExecutionCtx::set_errors.
use vstd::prelude::*;
verus! {

pub struct ExecutionError { pub x: u8 }
impl ExecutionError { pub uninterp spec fn id(&self) -> int; }
pub type ExecutionResult<T> = Result<T, ExecutionError>;
pub struct TraceHandler { pub x: u8 }
pub struct RcSecurityTetraplet { pub x: u8 }
// the error object as ghost state: how many times set_errors ran, and its last arguments (error id, instruction text id, with-peer-id flag)
pub struct ErrLog { pub writes: nat, pub last: (int, int, bool) }
pub struct ExecutionCtx { pub errors: Ghost<ErrLog> }
impl ExecutionCtx {
    pub open spec fn log(&self) -> ErrLog { self.errors@ }
    // real: writes %last_error% (try_to_set_last_error_from_exec_error) and :error: (try_to_set_error_from_exec_error) from `error`
    #[verifier::external_body]
    pub fn set_errors(&mut self, error: &ExecutionError, instruction: &InstrText, tetraplet: Option<RcSecurityTetraplet>, use_tetraplet_and_log_peer_id: bool)
        ensures final(self).log() == (ErrLog { writes: old(self).log().writes + 1, last: (error.id(), instruction.id(), use_tetraplet_and_log_peer_id) })
    { unimplemented!() }
}
pub struct InstrText { pub s: String }
impl InstrText { pub uninterp spec fn id(&self) -> int; }
// children may write the error object too; they never un-write it
pub open spec fn extends(a: ErrLog, b: ErrLog) -> bool { a.writes <= b.writes && (a.writes == b.writes ==> a.last == b.last) }

// one opaque struct per instruction kind: `execute` may record errors of its own children (the log is only extended),
// `to_string` is Display, `log_errors_with_peer_id` is the PeerIDErrorLogable trait (true for the canons only)
macro_rules! kind {
    ($name:ident) => { verus! {
        pub struct $name { pub x: u8 }
        impl $name {
            pub uninterp spec fn text_id(&self) -> int;
            pub uninterp spec fn logs_peer_id(&self) -> bool;
            #[verifier::external_body]
            pub fn execute(&self, exec_ctx: &mut ExecutionCtx, trace_ctx: &mut TraceHandler) -> (r: ExecutionResult<()>)
                ensures extends(old(exec_ctx).log(), final(exec_ctx).log())
            { unimplemented!() }
            #[verifier::external_body]
            pub fn to_string(&self) -> (r: InstrText) ensures r.id() == self.text_id() { unimplemented!() }
            #[verifier::external_body]
            pub fn log_errors_with_peer_id(&self) -> (r: bool) ensures r == self.logs_peer_id() { unimplemented!() }
        }
    } };
}
kind!(Ap); kind!(ApMap); kind!(Canon); kind!(CanonMap); kind!(CanonStreamMapScalar); kind!(Seq); kind!(Par); kind!(Xor);
kind!(Match); kind!(MisMatch); kind!(Fail); kind!(FoldScalar); kind!(FoldStream); kind!(FoldStreamMap); kind!(Never); kind!(New);
kind!(Next); kind!(Null);
// `call` records its errors itself (resolved_call / call.rs: it maps some catchables using the resolved triplet)
pub struct Call { pub x: u8 }
impl Call {
    #[verifier::external_body]
    pub fn execute(&self, exec_ctx: &mut ExecutionCtx, trace_ctx: &mut TraceHandler) -> (r: ExecutionResult<()>)
        ensures extends(old(exec_ctx).log(), final(exec_ctx).log()),
            r matches Err(e) ==> recorded_last(final(exec_ctx).log(), e)
    { unimplemented!() }
}
pub open spec fn recorded_last(log: ErrLog, e: ExecutionError) -> bool { log.writes > 0 && log.last.0 == e.id() }

//@ lift crates/air-lib/air-parser/src/ast/instructions.rs :: enum Instruction
//@ derive
//@ rewrite 17 "<'i>>" => ">"
//@ rewrite 1 "<'i>" => ""
//@ end

pub trait ExecutableInstruction {
    fn execute(&self, exec_ctx: &mut ExecutionCtx, trace_ctx: &mut TraceHandler) -> ExecutionResult<()>;
}

impl Instruction {
//@ lift air/src/execution_step/instructions/mod.rs :: impl<'i> ExecutableInstruction<'i> for Instruction<'i> :: fn execute
//@ props C18
//@ name Instruction::execute
//@ ret r
//@ expand execute air/src/execution_step/instructions/mod.rs
//@ sig 1 "&mut ExecutionCtx<'i>" => "&mut ExecutionCtx"
//@ rewrite 1 "Instruction::Error => unreachable!(\"should not execute if parsing succeeded. QED.\")," => "Instruction::Error => vstd::pervasive::unreached(),"
//@ spec
        requires !(self is Error)      // the parser never returns a tree with error nodes (property C23, not claimed here)
        ensures
            extends(old(exec_ctx).log(), final(exec_ctx).log()),
            // C18: a failure of ANY instruction kind is written to the error object, as the last write, before it propagates
            r matches Err(e) ==> recorded_last(final(exec_ctx).log(), e),
            // ... with the instruction's own text and peer-id policy (call records itself)
            (r is Err && !(self is Call)) ==> final(exec_ctx).log().last.1 == instr_text_id(*self)
                && final(exec_ctx).log().last.2 == instr_logs_peer_id(*self),
//@ end
}
pub open spec fn instr_text_id(i: Instruction) -> int {
    match i {
        Instruction::Call(_) => 0, Instruction::Ap(x) => x.text_id(), Instruction::ApMap(x) => x.text_id(), Instruction::Canon(x) => x.text_id(),
        Instruction::CanonMap(x) => x.text_id(), Instruction::CanonStreamMapScalar(x) => x.text_id(), Instruction::Seq(x) => x.text_id(),
        Instruction::Par(x) => x.text_id(), Instruction::Xor(x) => x.text_id(), Instruction::Match(x) => x.text_id(), Instruction::MisMatch(x) => x.text_id(),
        Instruction::Fail(x) => x.text_id(), Instruction::FoldScalar(x) => x.text_id(), Instruction::FoldStream(x) => x.text_id(),
        Instruction::FoldStreamMap(x) => x.text_id(), Instruction::Never(x) => x.text_id(), Instruction::New(x) => x.text_id(),
        Instruction::Next(x) => x.text_id(), Instruction::Null(x) => x.text_id(), Instruction::Error => 0,
    }
}
pub open spec fn instr_logs_peer_id(i: Instruction) -> bool {
    match i {
        Instruction::Call(_) => false, Instruction::Ap(x) => x.logs_peer_id(), Instruction::ApMap(x) => x.logs_peer_id(), Instruction::Canon(x) => x.logs_peer_id(),
        Instruction::CanonMap(x) => x.logs_peer_id(), Instruction::CanonStreamMapScalar(x) => x.logs_peer_id(), Instruction::Seq(x) => x.logs_peer_id(),
        Instruction::Par(x) => x.logs_peer_id(), Instruction::Xor(x) => x.logs_peer_id(), Instruction::Match(x) => x.logs_peer_id(), Instruction::MisMatch(x) => x.logs_peer_id(),
        Instruction::Fail(x) => x.logs_peer_id(), Instruction::FoldScalar(x) => x.logs_peer_id(), Instruction::FoldStream(x) => x.logs_peer_id(),
        Instruction::FoldStreamMap(x) => x.logs_peer_id(), Instruction::Never(x) => x.logs_peer_id(), Instruction::New(x) => x.logs_peer_id(),
        Instruction::Next(x) => x.logs_peer_id(), Instruction::Null(x) => x.logs_peer_id(), Instruction::Error => false,
    }
}

} // verus!
fn main() {}
