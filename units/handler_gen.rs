//@ unit handler_gen
// crates/air-lib/trace-handler/src/handler.rs: TraceHandler::update_generation (C12.V3: the write-back of compacted
// generation numbers into the result trace) and the three `meet_*_end` appenders; errors.rs GenerationCompactificationError.
// `trace_pos` is arbitrary (no precondition): an out-of-range or wrong-kind position is an error, never a panic.
//
// Trusted part of this file: TracePos as a u32 newtype (with the `+ u32` of slider.rs' shim); the CID<T> shim (verbatim from call_merger.rs); ExecutionTrace as a
// newtype over Vec with the meaning of the real `get_mut` / `push` bodies (interpreter-data/src/trace.rs) stated on its view;
// `Clone for ExecutedState` = the derived clone returns an equal value; opaque MergeCtx / BiHashMap / FSMKeeper (never touched here).
use vstd::prelude::*;
verus! {

use std::rc::Rc;

#[derive(Copy, Clone)]
pub struct TracePos(pub u32);
// NewtypeAdd! { (PosType) pub struct TracePos(PosType); } (verbatim from slider.rs): overflow is a panic. Not used by the
// pinned text; present so that position arithmetic in a changed update_generation is checked, not a compile error.
impl vstd::std_specs::ops::AddSpecImpl<u32> for TracePos {
    open spec fn obeys_add_spec() -> bool { true }
    open spec fn add_req(self, rhs: u32) -> bool { self.0 + rhs <= u32::MAX }
    open spec fn add_spec(self, rhs: u32) -> TracePos { TracePos((self.0 + rhs) as u32) }
}
impl core::ops::Add<u32> for TracePos { type Output = TracePos; fn add(self, rhs: u32) -> TracePos { TracePos(self.0 + rhs) } }

// ---------------------------------------------------------------- shim: CID (trusted, verbatim from call_merger.rs)
pub struct CID<T> { pub id: u64, pub ph: core::marker::PhantomData<T> }
impl<T> Clone for CID<T> {
    fn clone(&self) -> (r: Self) ensures r == *self { CID { id: self.id, ph: core::marker::PhantomData } }
}
pub struct ServiceResultCidAggregate { pub opaque: u8 }
pub struct JValue { pub opaque: u8 }
pub struct CanonResultCidAggregate { pub opaque: u8 }

// ---------------------------------------------------------------- lifted data types (interpreter-data)
//@ lift crates/air-lib/interpreter-data/src/generation_idx.rs :: type GenerationIdxType
//@ end
//@ lift crates/air-lib/interpreter-data/src/generation_idx.rs :: struct GenerationIdx
//@ derive Copy Clone
//@ end
//@ lift crates/air-lib/interpreter-data/src/executed_state.rs :: enum Sender
//@ derive
//@ end
//@ lift crates/air-lib/interpreter-data/src/executed_state.rs :: enum ValueRef
//@ derive
//@ end
//@ lift crates/air-lib/interpreter-data/src/executed_state.rs :: enum CallResult
//@ derive
//@ end
//@ lift crates/air-lib/interpreter-data/src/executed_state.rs :: enum CanonResult
//@ derive
//@ end
//@ lift crates/air-lib/interpreter-data/src/executed_state.rs :: struct ParResult
//@ derive Clone Copy
//@ end
//@ lift crates/air-lib/interpreter-data/src/executed_state.rs :: struct SubTraceDesc
//@ derive Clone Copy
//@ end
//@ lift crates/air-lib/interpreter-data/src/executed_state.rs :: struct FoldSubTraceLore
//@ derive
//@ end
//@ lift crates/air-lib/interpreter-data/src/executed_state.rs :: type FoldLore
//@ end
//@ lift crates/air-lib/interpreter-data/src/executed_state.rs :: struct FoldResult
//@ derive
//@ end
//@ lift crates/air-lib/interpreter-data/src/executed_state.rs :: struct ApResult
//@ derive
//@ end
//@ lift crates/air-lib/interpreter-data/src/executed_state.rs :: enum ExecutedState
//@ derive
//@ end
// real: `#[derive(Clone)]` on ExecutedState and everything below it
impl Clone for ExecutedState { #[verifier::external_body] fn clone(&self) -> (r: Self) ensures r == *self { unimplemented!() } }

// ---------------------------------------------------------------- shim: ExecutionTrace (trusted; bodies as in interpreter-data/src/trace.rs)
pub struct ExecutionTrace(pub Vec<ExecutedState>);
impl ExecutionTrace {
    pub open spec fn tr(&self) -> Seq<ExecutedState> { self.0@ }
    // real: `self.0.get_mut(usize::from(index))`: None out of range (the trace is not touched), else the slot at `index`
    #[verifier::external_body]
    pub fn get_mut(&mut self, index: TracePos) -> (r: Option<&mut ExecutedState>)
        ensures
            index.0 >= old(self).tr().len() ==> r is None && final(self).tr() == old(self).tr(),
            index.0 < old(self).tr().len() ==> r is Some && *r->Some_0 == old(self).tr()[index.0 as int]
                && final(self).tr() == old(self).tr().update(index.0 as int, *final(r->Some_0)),
    { self.0.get_mut(index.0 as usize) }
    // real: `self.0.push(value)`
    pub fn push(&mut self, value: ExecutedState) ensures final(self).tr() == old(self).tr().push(value) { self.0.push(value); }
}

// ---------------------------------------------------------------- keeper, handler
pub struct MergeCtx { pub opaque: u8 }
pub struct FSMKeeper { pub opaque: u8 }
#[verifier::external_body]
#[verifier::reject_recursive_types(K)]
#[verifier::reject_recursive_types(V)]
pub struct BiHashMap<K, V> { k: core::marker::PhantomData<(K, V)> }
//@ lift crates/air-lib/trace-handler/src/data_keeper/keeper.rs :: struct DataKeeper
//@ derive
//@ end
//@ lift crates/air-lib/trace-handler/src/handler.rs :: struct TraceHandler
//@ derive
//@ end
//@ lift crates/air-lib/trace-handler/src/errors.rs :: enum GenerationCompactificationError
//@ derive
//@ end

impl GenerationCompactificationError {
//@ lift crates/air-lib/trace-handler/src/errors.rs :: impl GenerationCompactificationError :: fn points_to_nowhere
//@ props C01 C12
//@ ret r
//@ spec
        ensures r == GenerationCompactificationError::TracePosPointsToNowhere(position)
//@ end
//@ lift crates/air-lib/trace-handler/src/errors.rs :: impl GenerationCompactificationError :: fn points_to_invalid_state
//@ props C01 C12
//@ ret r
//@ spec
        ensures r == (GenerationCompactificationError::TracePosPointsToInvalidState { position, state })
//@ end
}

// the states that record a stream generation: every Ap, and a Call that was executed into a stream
pub open spec fn carries_generation(s: ExecutedState) -> bool {
    s is Ap || s matches ExecutedState::Call(CallResult::Executed(ValueRef::Stream { .. }))
}
// `n` is `o` with its generation replaced by `g` and nothing else changed (an Ap's destination list becomes exactly [g],
// whatever it held before -- it comes from data and may have had 0 or several entries)
pub open spec fn generation_written(o: ExecutedState, n: ExecutedState, g: GenerationIdx) -> bool {
    match o {
        ExecutedState::Ap(_) => n matches ExecutedState::Ap(a) && a.res_generations@.len() == 1 && a.res_generations@[0] == g,
        ExecutedState::Call(CallResult::Executed(ValueRef::Stream { cid, generation: _ })) =>
            n == ExecutedState::Call(CallResult::Executed(ValueRef::Stream { cid, generation: g })),
        _ => false,
    }
}

impl TraceHandler {
    pub closed spec fn rtr(&self) -> Seq<ExecutedState> { self.data_keeper.result_trace.tr() }
    // everything but the result trace
    pub closed spec fn rest_eq(&self, o: &TraceHandler) -> bool {
        self.fsm_keeper == o.fsm_keeper && self.data_keeper.prev_ctx == o.data_keeper.prev_ctx
            && self.data_keeper.current_ctx == o.data_keeper.current_ctx
            && self.data_keeper.new_to_prev_pos == o.data_keeper.new_to_prev_pos
            && self.data_keeper.new_to_current_pos == o.data_keeper.new_to_current_pos
    }

//@ lift crates/air-lib/trace-handler/src/handler.rs :: impl TraceHandler :: fn update_generation
//@ props C01 C12
//@ ret r
//@ rewrite 1 ".ok_or_else(|| GenerationCompactificationError::points_to_nowhere(trace_pos))" => ".ok_or_else(|| -> (o: GenerationCompactificationError) ensures o == GenerationCompactificationError::TracePosPointsToNowhere(trace_pos) { GenerationCompactificationError::points_to_nowhere(trace_pos) })"
//@ spec
        // no precondition: trace_pos and the state it points to are arbitrary
        ensures
            final(self).rest_eq(old(self)),
            // the whole result trace: same length, every other position untouched
            final(self).rtr().len() == old(self).rtr().len(),
            forall|i: int| 0 <= i < old(self).rtr().len() && i != trace_pos.0 ==> final(self).rtr()[i] == old(self).rtr()[i],
            // Ok iff the position exists and its state records a generation; then exactly that generation is rewritten
            r is Ok <==> (trace_pos.0 < old(self).rtr().len() && carries_generation(old(self).rtr()[trace_pos.0 as int])),
            r is Ok ==> generation_written(old(self).rtr()[trace_pos.0 as int], final(self).rtr()[trace_pos.0 as int], generation),
            // on an error nothing is written at all, and the error says why
            r is Err ==> final(self).rtr() == old(self).rtr(),
            trace_pos.0 >= old(self).rtr().len() ==> r == Err::<(), GenerationCompactificationError>(GenerationCompactificationError::TracePosPointsToNowhere(trace_pos)),
            (trace_pos.0 < old(self).rtr().len() && !carries_generation(old(self).rtr()[trace_pos.0 as int])) ==>
                r == Err::<(), GenerationCompactificationError>(GenerationCompactificationError::TracePosPointsToInvalidState {
                    position: trace_pos, state: old(self).rtr()[trace_pos.0 as int] }),
//@ end

//@ lift crates/air-lib/trace-handler/src/handler.rs :: impl TraceHandler :: fn meet_call_end
//@ props C01 C12
//@ spec
        ensures final(self).rest_eq(old(self)), final(self).rtr() == old(self).rtr().push(ExecutedState::Call(call_result))
//@ end
//@ lift crates/air-lib/trace-handler/src/handler.rs :: impl TraceHandler :: fn meet_ap_end
//@ props C01 C12
//@ spec
        ensures final(self).rest_eq(old(self)), final(self).rtr() == old(self).rtr().push(ExecutedState::Ap(ap_result))
//@ end
//@ lift crates/air-lib/trace-handler/src/handler.rs :: impl TraceHandler :: fn meet_canon_end
//@ props C01 C12
//@ spec
        ensures final(self).rest_eq(old(self)), final(self).rtr() == old(self).rtr().push(ExecutedState::Canon(canon_result))
//@ end
}

} // verus!
fn main() {}
