//@ unit resolved_call
// The call instruction after its triplet is resolved:
//   air/src/execution_step/instructions/call/resolved_call.rs      (ResolvedCall::execute, prepare_current_executed_state,
//                                                                   check_args, CheckArgsResult::new)
//   air/src/execution_step/instructions/call/call_result_setter.rs (handle_remote_call)
//   air/src/execution_step/instructions/canon_utils/mod.rs         (handle_unseen_canon, handle_canon_request_sent_by)
// C05.V2 rows (iv),(v) on top of rows (i)-(iii) (unit prev_result), C06 (the request id is the fresh one), C19.V1-V3.
//
// Ghost logs: `call_results` / `call_requests` / `next_peer_pks` are the real collections, `TraceHandler.pushed` is the
// sequence of call states appended to the result trace, `TraceHandler.pushed_canon` the same for canon states.
//
// Trusted part of this file:
//  * `handle_prev_state`: external here, with exactly the contract proved for the real text in unit prev_result (minus its
//    precondition: a violated INV-1 is a panic there, i.e. no return, so "if it returns, the table holds" is what is used);
//  * TraceHandler::{meet_call_start (returns `next_call()`, appends nothing), meet_call_end, meet_canon_end};
//  * ResolvedCall::{collect_args, prepare_request_params} (read-only on the context; no contract),
//    value_to_json_cid (`ensures Ok`: hashing the JSON of already-resolved arguments cannot fail), CID::get_inner;
//  * resolve_peer_id_to_string (read-only; returns `resolved_peer(var, ctx)`), create_canon_stream_for_first_time (no
//    `ensures`; its `requires` is the C19 obligation "canonicalize only where addressed"), CanonResult (constructor);
//  * opaque data types, `String` key model / `From<T> for T` as in prev_result, `&str == String` compares contents; Call::to_string (error message only).
use vstd::prelude::*;

//@ lift air/src/execution_step/errors/execution_errors.rs :: macro_rules trace_to_exec_err
//@ end

//@ lift air/src/execution_step/instructions/mod.rs :: macro_rules joinable
//@ end

verus! {

use std::rc::Rc;
use std::collections::HashMap;
use core::marker::PhantomData;

pub mod ax {
    use vstd::prelude::*;
    pub uninterp spec fn dec(v: u32) -> String;
    #[verifier::external_body]
    pub broadcast proof fn axiom_string_obeys_key_model()
        ensures #[trigger] vstd::std_specs::hash::obeys_key_model::<String>() {}
    // std: `impl PartialEq<String> for &str` compares the contents (vstd specifies only str/str and String/String)
    use vstd::std_specs::cmp::PartialEqSpec;
    #[verifier::external_body]
    pub broadcast proof fn axiom_str_eq_string_obeys()
        ensures #[trigger] <&str as PartialEqSpec<String>>::obeys_eq_spec() {}
    #[verifier::external_body]
    pub broadcast proof fn axiom_str_eq_string(a: &str, b: &String)
        ensures #[trigger] <&str as PartialEqSpec<String>>::eq_spec(&a, b) == (a@ == b@) {}
}
use ax::dec;
broadcast use {vstd::std_specs::hash::group_hash_axioms, ax::axiom_string_obeys_key_model, ax::axiom_str_eq_string_obeys, ax::axiom_str_eq_string};
pub assume_specification<T>[ <T as core::convert::From<T>>::from ](t: T) -> (r: T) ensures r == t;

// ---------------------------------------------------------------- shim: opaque data (trusted)
pub type CidRef = str;
pub struct CID<T> { pub id: u64, pub ph: PhantomData<T> }
impl<T> CID<T> {
    #[verifier::external_body]
    pub fn get_inner(&self) -> Rc<CidRef> { unimplemented!() }
}
pub struct JValue { pub x: u8 }
#[derive(Clone, Copy)]
pub struct TracePos(pub u32);
#[derive(Clone, Copy)]
pub struct GenerationIdx(pub u32);
pub struct SecurityTetraplet { pub peer_pk: String, pub service_id: String, pub function_name: String, pub lens: String }
pub type RcSecurityTetraplet = Rc<SecurityTetraplet>;
pub type RcSecurityTetraplets = Rc<Vec<RcSecurityTetraplet>>;
pub struct ServiceResultCidAggregate { pub x: u8 }
pub struct CallRequestParams { pub x: u8 }
pub struct CallServiceResult { pub ret_code: i32, pub result: String }
#[derive(Debug)]
pub struct CidCalculationError { pub x: u8 }
// real: generic over `Val: Serialize`; used here on the already resolved argument values only
#[verifier::external_body]
pub fn value_to_json_cid(value: &Vec<JValue>) -> (r: Result<CID<Vec<JValue>>, CidCalculationError>)
    ensures r is Ok
{ unimplemented!() }
pub struct ImmutableValue<'i> { pub opaque_payload: u64, pub ph: PhantomData<&'i u8> }
pub struct CallOutputValue<'i> { pub opaque_payload: u64, pub ph: PhantomData<&'i u8> }
pub mod ast { pub use super::{ImmutableValue, CallOutputValue}; }
// the raw instruction: only rendered into an error message
pub struct Call<'i> { pub opaque_payload: u64, pub ph: PhantomData<&'i u8> }
impl<'i> Call<'i> {
    #[verifier::external_body]
    pub fn to_string(&self) -> String { unimplemented!() }
}

// ---------------------------------------------------------------- real data types
//@ lift crates/air-lib/interpreter-data/src/executed_state.rs :: enum Sender
//@ derive Clone
//@ end
//@ lift crates/air-lib/interpreter-data/src/executed_state.rs :: enum CallResult
//@ derive Clone
//@ end
//@ lift crates/air-lib/interpreter-data/src/executed_state.rs :: enum ValueRef
//@ derive Clone
//@ end
//@ lift crates/air-lib/trace-handler/src/merger/mod.rs :: enum ValueSource
//@ derive Clone Copy
//@ end
//@ lift crates/air-lib/trace-handler/src/merger/call_merger.rs :: struct MetCallResult
//@ derive
//@ end
//@ lift crates/air-lib/trace-handler/src/merger/call_merger.rs :: enum MergerCallResult
//@ derive
//@ end
//@ lift crates/air-lib/interpreter-interface/src/call_service_result.rs :: type CallResults
//@ end
//@ lift crates/air-lib/interpreter-interface/src/call_request_parameters.rs :: type CallRequests
//@ end

impl<T> Clone for CID<T> { fn clone(&self) -> (r: Self) ensures r == *self { CID { id: self.id, ph: PhantomData } } }

impl CallResult {
//@ lift crates/air-lib/interpreter-data/src/executed_state/impls.rs :: impl CallResult :: fn sent_peer_id
//@ props C19
//@ ret r
//@ spec
        ensures r == CallResult::RequestSentBy(Sender::PeerId(peer_id))
//@ end
//@ lift crates/air-lib/interpreter-data/src/executed_state/impls.rs :: impl CallResult :: fn sent_peer_id_with_call_id
//@ props C05 C06
//@ ret r
//@ spec
        ensures r == CallResult::RequestSentBy(Sender::PeerIdWithCallId { peer_id, call_id })
//@ end
}

// ---------------------------------------------------------------- errors
pub struct LambdaError { pub x: u8 }
pub struct ErrorObjectError { pub x: u8 }
pub struct StreamMapError { pub x: u8 }
pub struct TraceHandlerError { pub x: u8 }
pub type TraceHandlerResult<T> = Result<T, TraceHandlerError>;
// the variant the lifted code constructs; every other uncatchable error is `Other`
pub enum UncatchableError {
    TraceError { trace_error: TraceHandlerError, instruction: String },
    Other(u8),
}
//@ lift air/src/execution_step/errors/catchable_errors.rs :: enum CatchableError
//@ derive
//@ end
//@ lift air/src/execution_step/errors/execution_errors.rs :: enum ExecutionError
//@ derive
//@ end
pub type ExecutionResult<T> = Result<T, ExecutionError>;
// the paths the two lifted macros and the function-local `use` items name
pub mod execution_step { pub use super::{ExecutionError, UncatchableError, Joinable}; }

//@ lift air/src/execution_step/errors/joinable.rs :: trait Joinable
//@ end

pub open spec fn waiting(e: CatchableError) -> bool { e is VariableNotFound }
pub open spec fn joinable_err(e: ExecutionError) -> bool {
    match e { ExecutionError::Catchable(c) => waiting(*c), ExecutionError::Uncatchable(_) => false }
}
impl CatchableError {
//@ lift air/src/execution_step/errors/catchable_errors.rs :: impl Joinable for CatchableError :: fn is_joinable
//@ props C05
//@ ret r
//@ rewrite 1 "log_join!(\"  waiting for an argument with name '{}'\", var_name);" => ""
//@ spec
        ensures r == waiting(*self)
//@ end
}
impl ExecutionError {
//@ lift air/src/execution_step/errors/execution_errors.rs :: impl Joinable for ExecutionError :: fn is_joinable
//@ props C05
//@ ret r
//@ spec
        ensures r == joinable_err(*self)
//@ end
}

// ---------------------------------------------------------------- shim: the context's sub-objects (trusted, opaque)
pub struct Scalars<'i> { pub opaque_payload: u64, pub ph: PhantomData<&'i u8> }
pub struct Streams { pub x: u8 }
pub struct StreamMaps { pub x: u8 }
pub struct LastErrorDescriptor { pub x: u8 }
pub struct ErrorDescriptor { pub x: u8 }
pub struct InstructionTracker { pub x: u8 }
pub struct SignatureStore { pub x: u8 }
pub struct PeerCidTracker { pub x: u8 }
pub struct ExecutionCidState { pub x: u8 }

//@ lift air/src/execution_step/execution_context/context.rs :: struct RcRunParameters
//@ derive
//@ end

//@ lift air/src/execution_step/execution_context/context.rs :: struct ExecutionCtx
//@ end

impl<'i> ExecutionCtx<'i> {
    pub closed spec fn results(&self) -> Map<String, CallServiceResult> { self.call_results@ }
    pub closed spec fn requests(&self) -> Map<u32, CallRequestParams> { self.call_requests@ }
    pub closed spec fn next_peers(&self) -> Seq<String> { self.next_peer_pks@ }
    pub closed spec fn lcid(&self) -> u32 { self.last_call_request_id }
    pub closed spec fn complete(&self) -> bool { self.subgraph_completeness }
    pub closed spec fn me(&self) -> Seq<char> { self.run_parameters.current_peer_id@ }

//@ lift air/src/execution_step/execution_context/context.rs :: impl <'i> ExecutionCtx<'i> :: fn next_call_request_id
//@ name ExecutionCtx::next_call_request_id
//@ props C06 C01
//@ ret r
//@ spec
        requires old(self).lcid() < u32::MAX
        ensures r == old(self).lcid() + 1, final(self).lcid() == r,
            final(self).requests() == old(self).requests(), final(self).next_peers() == old(self).next_peers(),
            final(self).results() == old(self).results(), final(self).me() == old(self).me(),
            final(self).complete() == old(self).complete(),
//@ end
}

impl ExecutionCtx<'_> {
//@ lift air/src/execution_step/execution_context/context.rs :: impl ExecutionCtx<'_> :: fn make_subgraph_incomplete
//@ props C05 C19
//@ spec
        ensures same_but_results(*old(self), *final(self)), final(self).results() == old(self).results(),
            !final(self).complete(),
//@ end
}

// everything the C05/C06/C07/C19 contracts watch, except the unconsumed results and the completeness flag


// ---------------------------------------------------------------- shim: trace handler (trusted)
pub struct CanonResult { pub sent_by: Option<Rc<String>> }
impl CanonResult {
    // real: `CanonResult::RequestSentBy(peer_id)`
    pub fn request_sent_by(peer_id: Rc<String>) -> (r: Self) ensures r.sent_by == Some(peer_id) { CanonResult { sent_by: Some(peer_id) } }
}
pub struct TraceHandler { pub pushed: Ghost<Seq<CallResult>>, pub pushed_canon: Ghost<Seq<CanonResult>>, pub x: u8 }
impl TraceHandler {
    // what the merger will deliver for the next call instruction: a function of the handler's state
    pub uninterp spec fn next_call(&self) -> TraceHandlerResult<MergerCallResult>;
    #[verifier::external_body]
    pub fn meet_call_start(&mut self) -> (r: TraceHandlerResult<MergerCallResult>)
        ensures r == old(self).next_call(), final(self).pushed@ == old(self).pushed@, final(self).pushed_canon@ == old(self).pushed_canon@
    { unimplemented!() }
    #[verifier::external_body]
    pub fn meet_call_end(&mut self, call_result: CallResult)
        ensures final(self).pushed@ == old(self).pushed@.push(call_result), final(self).pushed_canon@ == old(self).pushed_canon@
    { unimplemented!() }
    #[verifier::external_body]
    pub fn meet_canon_end(&mut self, canon_result: CanonResult)
        ensures final(self).pushed_canon@ == old(self).pushed_canon@.push(canon_result), final(self).pushed@ == old(self).pushed@
    { unimplemented!() }
}





// ---------------------------------------------------------------- prev_result_handler.rs: StateDescriptor real, handle_prev_state external
//@ lift air/src/execution_step/instructions/call/prev_result_handler.rs :: struct StateDescriptor
//@ derive
//@ end

impl StateDescriptor {
    pub closed spec fn exec(&self) -> bool { self.should_execute }
    pub closed spec fn prev(&self) -> Option<CallResult> { self.prev_state }
    pub open spec fn is(&self, exec: bool, prev: Option<CallResult>) -> bool { self.exec() == exec && self.prev() == prev }
//@ lift air/src/execution_step/instructions/call/prev_result_handler.rs :: impl StateDescriptor :: fn no_previous_state
//@ props C05
//@ ret r
//@ spec
        ensures r.is(true, None)
//@ end
//@ lift air/src/execution_step/instructions/call/prev_result_handler.rs :: impl StateDescriptor :: fn should_execute
//@ props C05
//@ ret r
//@ spec
        ensures r == self.exec()
//@ end
//@ lift air/src/execution_step/instructions/call/prev_result_handler.rs :: impl StateDescriptor :: fn maybe_set_prev_state
//@ props C05 C07
//@ spec
        ensures final(trace_ctx).pushed@ == (match self.prev() {
            Some(c) => old(trace_ctx).pushed@.push(c),
            None => old(trace_ctx).pushed@,
        })
//@ end
}

// ---- the decision table of handle_prev_state: identical text to unit prev_result, where it is proved for the real function
//@ import-spec prev_result :: same_but_results pushed_one is_executed is_failed own_pending hash_needed prev_state_table

//@ stub prev_result :: handle_prev_state


// ---------------------------------------------------------------- call_result_setter.rs: handle_remote_call (C19.V1)
// "marked as sent to another peer  =>  that peer is among the next peers", at the only producer of the mark
pub open spec fn forwarded_to(tgt: Seq<char>, c0: ExecutionCtx, c1: ExecutionCtx, p0: Seq<CallResult>, p1: Seq<CallResult>) -> bool {
    &&& c1.next_peers().len() == c0.next_peers().len() + 1
    &&& c1.next_peers().drop_last() =~= c0.next_peers()
    &&& c1.next_peers().last()@ == tgt
    &&& pushed_one(p0, p1, |c: CallResult| c matches CallResult::RequestSentBy(Sender::PeerId(p)) && p@ == c0.me())
    &&& !c1.complete()
    &&& c1.requests() == c0.requests() && c1.lcid() == c0.lcid() && c1.me() == c0.me() && c1.results() == c0.results()
}

//@ lift air/src/execution_step/instructions/call/call_result_setter.rs :: fn handle_remote_call
//@ props C19 C05
//@ spec
    ensures forwarded_to(peer_pk@, *old(exec_ctx), *final(exec_ctx), old(trace_ctx).pushed@, final(trace_ctx).pushed@)
//@ end

// ---------------------------------------------------------------- resolved_call.rs
//@ lift air/src/execution_step/instructions/call/resolved_call.rs :: struct ResolvedCall
//@ derive
//@ end
//@ lift air/src/execution_step/instructions/call/resolved_call.rs :: enum CheckArgsResult
//@ derive
//@ end

impl<T> CheckArgsResult<T> {
//@ lift air/src/execution_step/instructions/call/resolved_call.rs :: impl <T> CheckArgsResult<T> :: fn new
//@ name CheckArgsResult::new
//@ props C05
//@ ret r
//@ spec
        // joinable ("still waiting") argument errors are not errors of the call
        ensures
            result matches Ok(v) ==> r matches Ok(CheckArgsResult::Ok(w)) && w == v,
            result matches Err(e) ==> (if joinable_err(e) { r matches Ok(CheckArgsResult::Joinable(f)) && f == e }
                                       else { r matches Err(f) && f == e }),
//@ end
}

// ---- the decision table of ResolvedCall::execute (C05.V2 (i)-(v), C06, C19.V3), written from the property statements
pub open spec fn is_own_request(c: CallResult, me: Seq<char>, id: u32) -> bool {
    c matches CallResult::RequestSentBy(Sender::PeerIdWithCallId { peer_id, call_id }) && peer_id@ == me && call_id == id
}
// (iv) exactly one request, under the id `next_call_request_id` returned (= old counter + 1: larger than every id issued
// before), and exactly one `RequestSentBy(PeerIdWithCallId{me, that id})` state; nothing is forwarded
pub open spec fn request_issued(c0: ExecutionCtx, c1: ExecutionCtx, p0: Seq<CallResult>, p1: Seq<CallResult>) -> bool {
    &&& c1.lcid() == c0.lcid() + 1
    &&& c1.requests().contains_key(c1.lcid())
    &&& c1.requests() =~= c0.requests().insert(c1.lcid(), c1.requests()[c1.lcid()])
    &&& c1.next_peers() == c0.next_peers() && c1.me() == c0.me() && c1.results() =~= c0.results()
    &&& pushed_one(p0, p1, |c: CallResult| is_own_request(c, c0.me(), c1.lcid()))
    &&& !c1.complete()
}
// the request could not be built: no request, no id consumed; a state found in data is at most re-emitted
pub open spec fn request_failed(prev: Option<CallResult>, c0: ExecutionCtx, c1: ExecutionCtx, p0: Seq<CallResult>, p1: Seq<CallResult>) -> bool {
    &&& same_but_results(c0, c1) && c1.results() =~= c0.results()
    &&& (p1 == p0 || (prev matches Some(c) && p1 == p0.push(c)))
}
// the state found in data is re-emitted unchanged and nothing else happens
pub open spec fn re_emitted(c: CallResult, c0: ExecutionCtx, c1: ExecutionCtx, p0: Seq<CallResult>, p1: Seq<CallResult>) -> bool {
    &&& same_but_results(c0, c1) && c1.results() =~= c0.results()
    &&& p1 == p0.push(c)
}

pub open spec fn execute_table(
    tgt: Seq<char>, met: TraceHandlerResult<MergerCallResult>, c0: ExecutionCtx, c1: ExecutionCtx,
    p0: Seq<CallResult>, p1: Seq<CallResult>, r: ExecutionResult<()>,
) -> bool {
    let me = c0.me();
    // rejected before any state was touched (argument resolution failed for good, or the merger refused): nothing happened
    ||| (r is Err && same_but_results(c0, c1) && c1.results() =~= c0.results() && p1 == p0)
    ||| match met {
        Err(_) => false,
        // no state in data
        Ok(MergerCallResult::NotMet) =>
            if tgt == me { (r is Ok && request_issued(c0, c1, p0, p1)) || (r is Err && request_failed(None, c0, c1, p0, p1)) }
            // (v) not addressed to this peer: no request; forwarded (C19)
            else { r is Ok && forwarded_to(tgt, c0, c1, p0, p1) },
        Ok(MergerCallResult::Met(m)) => match own_pending(m.result, me) {
            Some(id) => if !c0.results().contains_key(dec(id)) {
                // (i) own pending request, no answer yet: no new request, same state re-emitted, results untouched
                r is Ok && re_emitted(m.result, c0, c1, p0, p1) && !c1.complete()
            } else {
                // (ii) the answer under that id is consumed, exactly that one, and recorded once; no request
                &&& same_but_results(c0, c1)
                &&& c1.results() =~= c0.results().remove(dec(id))
                &&& r is Ok ==> pushed_one(p0, p1, |x: CallResult| is_executed(x))
                &&& r is Err ==> (pushed_one(p0, p1, |x: CallResult| is_failed(x)) || p1 == p0)
            },
            None => match m.result {
                // (iii) results already in data: re-emitted, no request, nothing forwarded
                CallResult::Executed(_) => {
                    &&& same_but_results(c0, c1) && c1.results() =~= c0.results()
                    &&& r is Ok ==> p1 == p0.push(m.result)
                    &&& r is Err ==> p1 == p0
                }
                CallResult::Failed(_) => {
                    &&& r is Err
                    &&& same_but_results(c0, c1) && c1.results() =~= c0.results()
                    &&& (p1 == p0.push(m.result) || p1 == p0)
                }
                // somebody else's request mark (or an own one without id)
                CallResult::RequestSentBy(_) =>
                    // (iv) addressed to this peer: requested now, the mark is replaced by the own pending request
                    if tgt == me { (r is Ok && request_issued(c0, c1, p0, p1)) || (r is Err && request_failed(Some(m.result), c0, c1, p0, p1)) }
                    // (v) not addressed to this peer: no request, *not* forwarded again, the mark is re-emitted
                    else { r is Ok && re_emitted(m.result, c0, c1, p0, p1) && !c1.complete() },
            },
        },
    }
}

impl<'i> ResolvedCall<'i> {
    pub closed spec fn target(&self) -> Seq<char> { self.tetraplet.peer_pk@ }

    // real: resolves every argument against scalars/streams (read-only on the context)
    #[verifier::external_body]
    fn collect_args(&self, exec_ctx: &ExecutionCtx<'i>) -> ExecutionResult<(Vec<JValue>, Vec<RcSecurityTetraplets>)> { unimplemented!() }
    // real: resolve_args + two serialisers (read-only on the context)
    #[verifier::external_body]
    fn prepare_request_params(&self, exec_ctx: &ExecutionCtx<'_>, tetraplet: &SecurityTetraplet) -> ExecutionResult<CallRequestParams> { unimplemented!() }

//@ lift air/src/execution_step/instructions/call/resolved_call.rs :: impl <'i> ResolvedCall<'i> :: fn check_args
//@ name ResolvedCall::check_args
//@ props C05
//@ end

//@ lift air/src/execution_step/instructions/call/resolved_call.rs :: impl <'i> ResolvedCall<'i> :: fn prepare_current_executed_state
//@ name ResolvedCall::prepare_current_executed_state
//@ props C05 C06 C07
//@ ret r
//@ spec
        ensures
            same_but_results(*old(exec_ctx), *final(exec_ctx)),
            match old(trace_ctx).next_call() {
                Err(_) => r is Err && final(exec_ctx).results() == old(exec_ctx).results() && final(trace_ctx).pushed@ == old(trace_ctx).pushed@
                    && final(exec_ctx).complete() == old(exec_ctx).complete(),
                Ok(MergerCallResult::NotMet) => (r matches Ok(sd) && sd.is(true, None)) && final(exec_ctx).results() == old(exec_ctx).results()
                    && final(trace_ctx).pushed@ == old(trace_ctx).pushed@ && final(exec_ctx).complete() == old(exec_ctx).complete(),
                Ok(MergerCallResult::Met(m)) => prev_state_table(m.result, self.target(), *old(exec_ctx), *final(exec_ctx),
                    old(trace_ctx).pushed@, final(trace_ctx).pushed@, r),
            },
//@ end

//@ lift air/src/execution_step/instructions/call/resolved_call.rs :: impl <'i> ResolvedCall<'i> :: fn execute
//@ name ResolvedCall::execute
//@ props C05 C06 C07 C19
//@ ret r
//@ spec
        requires old(exec_ctx).lcid() < u32::MAX        // C01.V9: u32 exhaustion of the id counter is a panic (unchecked `+= 1`)
        ensures
            execute_table(self.target(), old(trace_ctx).next_call(), *old(exec_ctx), *final(exec_ctx),
                old(trace_ctx).pushed@, final(trace_ctx).pushed@, r),
            // C19.V3: a call request is inserted only for a call addressed to this peer, the particle is forwarded
            // only for a call addressed to another one -- to that one
            final(exec_ctx).requests() != old(exec_ctx).requests() ==> self.target() == old(exec_ctx).me(),
            final(exec_ctx).next_peers() != old(exec_ctx).next_peers() ==> self.target() != old(exec_ctx).me()
                && final(exec_ctx).next_peers().last()@ == self.target(),
            // C06: the id counter never decreases
            final(exec_ctx).lcid() >= old(exec_ctx).lcid(),
//@ end
}

// ---------------------------------------------------------------- canon_utils/mod.rs (C19.V2)
pub struct ResolvableToPeerIdVariable<'i> { pub opaque_payload: u64, pub ph: PhantomData<&'i u8> }
// real: `dyn Fn(..)` type aliases of canon_utils; the lifted functions only pass them on
pub struct CanonEpilogClosure<'c> { pub opaque_payload: u64, pub ph: PhantomData<&'c u8> }
pub struct CreateCanonStreamClosure<'c> { pub opaque_payload: u64, pub ph: PhantomData<&'c u8> }
// the peer a canon is addressed to: a function of the variable and the (read-only) context
pub uninterp spec fn resolved_peer(peer_id: ResolvableToPeerIdVariable, exec_ctx: ExecutionCtx) -> ExecutionResult<String>;
#[verifier::external_body]
pub fn resolve_peer_id_to_string<'i>(peer_id: &ResolvableToPeerIdVariable<'_>, exec_ctx: &ExecutionCtx<'i>) -> (r: ExecutionResult<String>)
    ensures r == resolved_peer(*peer_id, *exec_ctx)
{ unimplemented!() }
// real: runs the instruction's two closures (build the canon stream, record it). Its precondition is the C19 obligation
// at every call site: a stream is canonicalized only by the peer the canon is addressed to.
#[verifier::external_body]
fn create_canon_stream_for_first_time(
    epilog: &CanonEpilogClosure<'_>,
    create_canon_stream: &CreateCanonStreamClosure<'_>,
    peer_id: String,
    exec_ctx: &mut ExecutionCtx<'_>,
    trace_ctx: &mut TraceHandler,
) -> ExecutionResult<()>
    requires peer_id@ == old(exec_ctx).me()
{ unimplemented!() }

// a canon addressed elsewhere and not yet seen: forwarded there and marked as sent by this peer -- both or neither
pub open spec fn canon_forwarded_to(tgt: Seq<char>, c0: ExecutionCtx, c1: ExecutionCtx, t0: TraceHandler, t1: TraceHandler) -> bool {
    &&& c1.next_peers().len() == c0.next_peers().len() + 1
    &&& c1.next_peers().drop_last() =~= c0.next_peers()
    &&& c1.next_peers().last()@ == tgt
    &&& t1.pushed_canon@.len() == t0.pushed_canon@.len() + 1
    &&& t1.pushed_canon@.drop_last() =~= t0.pushed_canon@
    &&& (t1.pushed_canon@.last().sent_by matches Some(p) && p@ == c0.me())
    &&& t1.pushed@ == t0.pushed@
    &&& !c1.complete()
    &&& c1.requests() == c0.requests() && c1.lcid() == c0.lcid() && c1.me() == c0.me() && c1.results() == c0.results()
}

//@ lift air/src/execution_step/instructions/canon_utils/mod.rs :: fn handle_unseen_canon
//@ props C19
//@ ret r
//@ rewrite 1 "use crate::joinable;" => ""
//@ spec
    ensures
        match resolved_peer(*peer_id, *old(exec_ctx)) {
            // addressed to another peer: forwarded there, marked as sent by this peer
            Ok(p) => p@ != old(exec_ctx).me() ==> r is Ok && canon_forwarded_to(p@, *old(exec_ctx), *final(exec_ctx), *old(trace_ctx), *final(trace_ctx)),
            // the address is not known yet: wait -- nothing forwarded, nothing marked
            Err(e) => joinable_err(e) ==> r is Ok && same_but_results(*old(exec_ctx), *final(exec_ctx)) && !final(exec_ctx).complete()
                && final(trace_ctx).pushed_canon@ == old(trace_ctx).pushed_canon@,
        },
        (resolved_peer(*peer_id, *old(exec_ctx)) matches Err(e) && !joinable_err(e)) ==> r is Err,
//@ end

//@ lift air/src/execution_step/instructions/canon_utils/mod.rs :: fn handle_canon_request_sent_by
//@ props C19 C07
//@ ret r
//@ spec
    ensures
        // a canon already marked as sent and addressed elsewhere: the mark is re-emitted, the particle is *not* forwarded again
        resolved_peer(*peer_id, *old(exec_ctx)) matches Ok(p) && p@ != old(exec_ctx).me() ==> r is Ok
            && same_but_results(*old(exec_ctx), *final(exec_ctx)) && !final(exec_ctx).complete()
            && final(trace_ctx).pushed_canon@ == old(trace_ctx).pushed_canon@.push(canon_result),
        resolved_peer(*peer_id, *old(exec_ctx)) is Err ==> r is Err,
//@ end

} // verus!
fn main() {}
