//@ unit fold_state
//@ verus-flags --no-erasure-check
// (--no-erasure-check: see slider.rs -- the TracePos shim's AddAssignSpecImpl trips Verus' erasure pass after verification)
// Users of the slider-restore machinery:
//   fold  CtxStateHandler::{prepare, set_final_states} + compute_new_state   (state_automata/fold_fsm/state_handler.rs)
//   fold  apply_fold_lore{,_before,_after}                                   (state_automata/fold_fsm/lore_applier.rs)
//   par   CtxStateHandler::{prepare, handle_subgraph_end}                    (state_automata/par_fsm/state_handler.rs)
//   par   ParFSM::prepare_sliders                                            (state_automata/par_fsm.rs)
//   DataKeeper::{prev_slider_mut, current_slider_mut}                        (data_keeper/keeper.rs)
// C01: total on hostile fold lore / par sizes.  C09.V2: the end state computed for a fold (and for the Right end of a
// par) lying inside an in-window slider satisfies the success condition of TraceSlider::set_position_and_len, so the
// restore whose error is swallowed (`let _ =` in update_ctx_states) cannot fail there.
//
// Trusted part of this file: the TracePos shim, the opaque ExecutionTrace and the error enums' KeeperError (verbatim
// from slider.rs); the `wf/pos/slen/seen/tlen/in_window/state_fits` specs (verbatim from slider.rs); the TraceSlider
// methods, `update_ctx_states` and the par `compute_new_states` as external_body stubs carrying exactly the contracts
// proved on the real text in slider.rs; ResolvedFold's lore map as an opaque type (never read here); opaque
// StateInserter / ParBuilder (fields of ParFSM that prepare_sliders never mentions).
use vstd::prelude::*;
verus! {

// ---------------------------------------------------------------- shim: TracePos (trusted, verbatim from slider.rs)
#[derive(Copy, Clone, Default)]
pub struct TracePos(pub u32);
impl core::ops::AddAssign<u32> for TracePos { fn add_assign(&mut self, rhs: u32) { self.0 = self.0 + rhs; } }
impl From<u32> for TracePos { fn from(v: u32) -> TracePos { TracePos(v) } }
impl PartialEq for TracePos { fn eq(&self, o: &Self) -> bool { self.0 == o.0 } }
impl PartialOrd for TracePos { fn partial_cmp(&self, o: &Self) -> Option<core::cmp::Ordering> { self.0.partial_cmp(&o.0) } }
impl vstd::std_specs::ops::AddAssignSpecImpl<u32> for TracePos {
    open spec fn obeys_add_assign_spec() -> bool { true }
    open spec fn add_assign_req(&self, rhs: u32) -> bool { self.0 + rhs <= u32::MAX }
    open spec fn add_assign_spec(&self, rhs: u32) -> TracePos { TracePos((self.0 + rhs) as u32) }
}
impl vstd::std_specs::convert::FromSpecImpl<u32> for TracePos {
    open spec fn obeys_from_spec() -> bool { true }
    open spec fn from_spec(v: u32) -> TracePos { TracePos(v) }
}
impl vstd::std_specs::cmp::PartialOrdSpecImpl<TracePos> for TracePos {
    open spec fn obeys_partial_cmp_spec() -> bool { true }
    open spec fn partial_cmp_spec(&self, o: &TracePos) -> Option<core::cmp::Ordering> { if self.0 < o.0 { Some(core::cmp::Ordering::Less) } else if self.0 == o.0 { Some(core::cmp::Ordering::Equal) } else { Some(core::cmp::Ordering::Greater) } }
}
impl vstd::std_specs::cmp::PartialEqSpecImpl<TracePos> for TracePos {
    open spec fn obeys_eq_spec() -> bool { true }
    open spec fn eq_spec(&self, o: &TracePos) -> bool { self.0 == o.0 }
}
impl vstd::std_specs::ops::AddSpecImpl<u32> for TracePos {
    open spec fn obeys_add_spec() -> bool { true }
    open spec fn add_req(self, rhs: u32) -> bool { self.0 + rhs <= u32::MAX }
    open spec fn add_spec(self, rhs: u32) -> TracePos { TracePos((self.0 + rhs) as u32) }
}
impl core::ops::Add<u32> for TracePos { type Output = TracePos; fn add(self, rhs: u32) -> TracePos { TracePos(self.0 + rhs) } }
impl vstd::std_specs::ops::SubSpecImpl<TracePos> for TracePos {
    open spec fn obeys_sub_spec() -> bool { true }
    open spec fn sub_req(self, rhs: TracePos) -> bool { self.0 >= rhs.0 }
    open spec fn sub_spec(self, rhs: TracePos) -> TracePos { TracePos((self.0 - rhs.0) as u32) }
}
impl core::ops::Sub<TracePos> for TracePos { type Output = TracePos; fn sub(self, rhs: TracePos) -> TracePos { TracePos(self.0 - rhs.0) } }
impl vstd::std_specs::convert::FromSpecImpl<TracePos> for u32 {
    open spec fn obeys_from_spec() -> bool { true }
    open spec fn from_spec(v: TracePos) -> u32 { v.0 }
}
impl From<TracePos> for u32 { fn from(v: TracePos) -> u32 { v.0 } }
impl TracePos {
    // auto_checked_add![TracePos]: `self.0.checked_add(other.0).map(Self)`
    pub fn checked_add(&self, other: &TracePos) -> (r: Option<TracePos>)
        ensures r == (if self.0 + other.0 <= u32::MAX { Some(TracePos((self.0 + other.0) as u32)) } else { None })
    { match self.0.checked_add(other.0) { Some(v) => Some(TracePos(v)), None => None } }
    pub fn checked_sub(&self, other: &TracePos) -> (r: Option<TracePos>)
        ensures r == (if self.0 >= other.0 { Some(TracePos((self.0 - other.0) as u32)) } else { None })
    { match self.0.checked_sub(other.0) { Some(v) => Some(TracePos(v)), None => None } }
}

// ---------------------------------------------------------------- shim: trace, errors (trusted, verbatim from slider.rs)
pub type TraceLen = u32;
#[derive(Clone)]
pub struct ExecutedState { pub tag: u8 }
#[derive(Default)]
pub struct ExecutionTrace(pub Vec<ExecutedState>);
impl ExecutionTrace {
    pub closed spec fn slen(&self) -> nat { self.0@.len() }
}
pub enum KeeperError {
    SetSubtraceLenFailed { requested_subtrace_len: TraceLen, trace_position: TracePos, trace_len: TraceLen },
    SetSubtraceLenAndPosFailed { requested_pos: TracePos, requested_subtrace_len: TraceLen, trace_len: TraceLen },
}
use KeeperError::*;
type KeeperResult<T> = Result<T, KeeperError>;

//@ lift crates/air-lib/trace-handler/src/data_keeper/trace_slider.rs :: type SeenElements
//@ end

//@ lift crates/air-lib/trace-handler/src/data_keeper/trace_slider.rs :: struct TraceSlider
//@ derive Default
//@ end

impl TraceSlider {
//@ import-spec slider :: TraceSlider::wf TraceSlider::pos TraceSlider::slen TraceSlider::seen TraceSlider::tlen TraceSlider::in_window

    // stubs: exactly the contracts proved on the real text in slider.rs
//@ stub slider :: TraceSlider::set_position_and_len
//@ stub slider :: TraceSlider::set_subtrace_len
//@ stub slider :: TraceSlider::position
//@ stub slider :: TraceSlider::subtrace_len
}

// ---------------------------------------------------------------- shim: par / fold results, FSM errors
//@ lift crates/air-lib/interpreter-data/src/executed_state.rs :: struct ParResult
//@ derive Clone Copy Default
//@ end
//@ lift crates/air-lib/interpreter-data/src/executed_state.rs :: struct SubTraceDesc
//@ derive Clone Copy
//@ end
//@ lift crates/air-lib/trace-handler/src/merger/fold_merger/fold_lore_resolver.rs :: struct ResolvedSubTraceDescs
//@ derive Clone
//@ end
//@ lift crates/air-lib/trace-handler/src/merger/fold_merger/fold_lore_resolver.rs :: type FoldStatesCount
//@ end
// the real field is `HashMap<TracePos, ResolvedSubTraceDescs>`; nothing here reads it
#[verifier::external_body]
pub struct LoreMap { m: std::collections::HashMap<u32, ResolvedSubTraceDescs> }
//@ lift crates/air-lib/trace-handler/src/merger/fold_merger/fold_lore_resolver.rs :: struct ResolvedFold
//@ derive
//@ rewrite 1 "HashMap<TracePos, ResolvedSubTraceDescs>" => "LoreMap"
//@ end
impl Clone for ResolvedFold {
    #[verifier::external_body]
    fn clone(&self) -> (r: Self) ensures r == *self { unimplemented!() }
}
//@ lift crates/air-lib/trace-handler/src/state_automata/par_fsm.rs :: enum SubgraphType
//@ derive Clone Copy
//@ end
//@ lift crates/air-lib/trace-handler/src/merger/mod.rs :: enum MergeCtxType
//@ derive Clone Copy
//@ end
//@ lift crates/air-lib/trace-handler/src/state_automata/errors.rs :: enum StateFSMError
//@ derive
//@ end
// `#[from] KeeperError` (thiserror) generates exactly this impl
impl From<KeeperError> for StateFSMError { fn from(e: KeeperError) -> Self { StateFSMError::KeeperError(e) } }
impl vstd::std_specs::convert::FromSpecImpl<KeeperError> for StateFSMError {
    open spec fn obeys_from_spec() -> bool { true }
    open spec fn from_spec(e: KeeperError) -> StateFSMError { StateFSMError::KeeperError(e) }
}
type FSMResult<T> = Result<T, StateFSMError>;

//@ lift crates/air-lib/trace-handler/src/data_keeper/merge_ctx.rs :: struct MergeCtx
//@ derive Default
//@ end
// the real DataKeeper also has the two position maps and the result trace; nothing here touches them
pub struct DataKeeper { pub prev_ctx: MergeCtx, pub current_ctx: MergeCtx }
impl DataKeeper {
    pub open spec fn wf(&self) -> bool { self.prev_ctx.slider.wf() && self.current_ctx.slider.wf() }
    // both traces are never modified
    pub open spec fn same_traces(&self, o: &DataKeeper) -> bool {
        self.prev_ctx.slider.tlen() == o.prev_ctx.slider.tlen() && self.current_ctx.slider.tlen() == o.current_ctx.slider.tlen()
    }
    pub open spec fn slider(&self, t: MergeCtxType) -> TraceSlider {
        match t { MergeCtxType::Previous => self.prev_ctx.slider, MergeCtxType::Current => self.current_ctx.slider }
    }
    pub fn prev_slider(&self) -> (r: &TraceSlider) ensures *r == self.prev_ctx.slider { &self.prev_ctx.slider }
    pub fn current_slider(&self) -> (r: &TraceSlider) ensures *r == self.current_ctx.slider { &self.current_ctx.slider }

//@ lift crates/air-lib/trace-handler/src/data_keeper/keeper.rs :: impl DataKeeper :: fn prev_slider_mut
//@ props C01 C09
//@ ret r
//@ spec
        ensures *r == old(self).prev_ctx.slider, final(self).prev_ctx.slider == *final(r),
            final(self).current_ctx == old(self).current_ctx,
//@ end

//@ lift crates/air-lib/trace-handler/src/data_keeper/keeper.rs :: impl DataKeeper :: fn current_slider_mut
//@ props C01 C09
//@ ret r
//@ spec
        ensures *r == old(self).current_ctx.slider, final(self).current_ctx.slider == *final(r),
            final(self).prev_ctx == old(self).prev_ctx,
//@ end
}

//@ lift crates/air-lib/trace-handler/src/state_automata/utils.rs :: struct CtxState
//@ derive Clone Copy Default
//@ end
//@ lift crates/air-lib/trace-handler/src/state_automata/utils.rs :: struct CtxStatesPair
//@ derive Clone Copy Default
//@ end

impl CtxState {
//@ lift crates/air-lib/trace-handler/src/state_automata/utils.rs :: impl CtxState :: fn new
//@ props C01 C09
//@ ret r
//@ spec
        ensures r.pos == pos, r.subtrace_len == subtrace_len
//@ end
}
impl CtxStatesPair {
//@ lift crates/air-lib/trace-handler/src/state_automata/utils.rs :: impl CtxStatesPair :: fn new
//@ props C01 C09
//@ ret r
//@ spec
        ensures r.prev_state == prev_state, r.current_state == current_state
//@ end
}

// the restore succeeds iff each stored state fits its trace        (verbatim from slider.rs)
pub open spec fn state_fits(s: CtxState, slider: TraceSlider) -> bool {
    s.subtrace_len == 0 || s.pos.0 + s.subtrace_len <= slider.tlen()
}
// slider `a` stands exactly where state `s` says
pub open spec fn restored(a: TraceSlider, s: CtxState) -> bool {
    a.pos() == s.pos.0 && a.slen() == s.subtrace_len && a.seen() == 0
}

// stub: exactly the contract proved on the real text in slider.rs (update_ctx_states)
//@ stub slider :: update_ctx_states

// ================================================================ fold: state_handler.rs
// remaining window of a slider
pub open spec fn window(s: TraceSlider) -> int { s.slen() - s.seen() }
// the fold lies inside the slider's remaining window, and the window inside the trace
pub open spec fn fold_inside(fold: ResolvedFold, s: TraceSlider) -> bool {
    s.in_window() && fold.fold_states_count <= window(s)
}

pub mod fold_sh {
use super::*;

//@ lift crates/air-lib/trace-handler/src/state_automata/fold_fsm/state_handler.rs :: fn compute_new_state
//@ name fold::compute_new_state
//@ props C01 C09
//@ ret r
//@ spec
    requires data_keeper.slider(ctx_type).wf()           // nothing about `fold`: it is resolved from hostile lore
    ensures
        // after the fold the slider continues right behind all of the fold's states, with what is left of the window
        r matches Ok(s) ==> s.pos.0 == data_keeper.slider(ctx_type).pos() + fold.fold_states_count
            && s.subtrace_len == window(data_keeper.slider(ctx_type)) - fold.fold_states_count,
        r is Err <==> (data_keeper.slider(ctx_type).pos() + fold.fold_states_count > u32::MAX
            || fold.fold_states_count > window(data_keeper.slider(ctx_type))),
        // C09.V2: the end state of a fold lying inside an in-window slider always fits
        fold_inside(*fold, data_keeper.slider(ctx_type)) ==> (r matches Ok(s) && state_fits(s, data_keeper.slider(ctx_type))),
//@ end

//@ lift crates/air-lib/trace-handler/src/state_automata/fold_fsm/state_handler.rs :: struct CtxStateHandler
//@ derive Default Clone
//@ end

impl CtxStateHandler {
    pub closed spec fn pair(&self) -> CtxStatesPair { self.state_pair }

//@ lift crates/air-lib/trace-handler/src/state_automata/fold_fsm/state_handler.rs :: impl CtxStateHandler :: fn prepare
//@ name fold::CtxStateHandler::prepare
//@ props C01 C09
//@ ret r
//@ spec
        requires data_keeper.wf()
        ensures
            r matches Ok(h) ==> {
                &&& h.pair().prev_state.pos.0 == data_keeper.prev_ctx.slider.pos() + prev_fold.fold_states_count
                &&& h.pair().prev_state.subtrace_len == window(data_keeper.prev_ctx.slider) - prev_fold.fold_states_count
                &&& h.pair().current_state.pos.0 == data_keeper.current_ctx.slider.pos() + current_fold.fold_states_count
                &&& h.pair().current_state.subtrace_len == window(data_keeper.current_ctx.slider) - current_fold.fold_states_count
            },
            r is Err <==> (data_keeper.prev_ctx.slider.pos() + prev_fold.fold_states_count > u32::MAX
                || prev_fold.fold_states_count > window(data_keeper.prev_ctx.slider)
                || data_keeper.current_ctx.slider.pos() + current_fold.fold_states_count > u32::MAX
                || current_fold.fold_states_count > window(data_keeper.current_ctx.slider)),
            // C09.V2
            (fold_inside(*prev_fold, data_keeper.prev_ctx.slider) && fold_inside(*current_fold, data_keeper.current_ctx.slider))
                ==> (r matches Ok(h) && state_fits(h.pair().prev_state, data_keeper.prev_ctx.slider)
                     && state_fits(h.pair().current_state, data_keeper.current_ctx.slider)),
//@ end

//@ lift crates/air-lib/trace-handler/src/state_automata/fold_fsm/state_handler.rs :: impl CtxStateHandler :: fn set_final_states
//@ name fold::CtxStateHandler::set_final_states
//@ props C01 C09
//@ spec
        requires old(data_keeper).wf()
        ensures final(data_keeper).wf(), final(data_keeper).same_traces(old(data_keeper)),
            // C09: a prepared state that fits is restored; the swallowed error can only be "does not fit"
            state_fits(self.pair().prev_state, old(data_keeper).prev_ctx.slider)
                ==> restored(final(data_keeper).prev_ctx.slider, self.pair().prev_state),
            state_fits(self.pair().current_state, old(data_keeper).current_ctx.slider)
                ==> restored(final(data_keeper).current_ctx.slider, self.pair().current_state),
//@ end
}
} // mod fold_sh

// ================================================================ fold: lore_applier.rs
//@ lift crates/air-lib/trace-handler/src/state_automata/fold_fsm.rs :: enum ByNextPosition
//@ derive Clone Copy
//@ rewrite 1 "enum ByNextPosition" => "pub enum ByNextPosition"
//@ end
use ByNextPosition::*;
use MergeCtxType::*;

// the descriptor apply_fold_lore moves the slider to
pub open spec fn lore_desc(l: ResolvedSubTraceDescs, p: ByNextPosition) -> SubTraceDesc {
    match p { ByNextPosition::Before => l.before_subtrace, ByNextPosition::After => l.after_subtrace }
}
// set_position_and_len / set_subtrace_len accept (hostile) descriptor d on slider s
pub open spec fn desc_fits(d: SubTraceDesc, s: TraceSlider) -> bool {
    d.subtrace_len == 0 || d.begin_pos.0 + d.subtrace_len <= s.tlen()
}
// (the two rewrites in apply_fold_lore drop an identity cast `TracePos as _` (= `as TracePos`), which Verus rejects)
// an absent lore is always accepted (set_subtrace_len(0)); a present one iff its descriptor fits the trace
pub open spec fn lore_accepted(o: TraceSlider, l: Option<ResolvedSubTraceDescs>, p: ByNextPosition) -> bool {
    l matches Some(d) ==> desc_fits(lore_desc(d, p), o)
}
// what one application does to one slider (o: before, a: after); returns whether it succeeds
pub open spec fn lore_applied(o: TraceSlider, a: TraceSlider, l: Option<ResolvedSubTraceDescs>, p: ByNextPosition, ok: bool) -> bool {
    &&& a.wf() && a.tlen() == o.tlen()
    &&& ok == lore_accepted(o, l, p)
    &&& ok ==> a.seen() == 0 && match l {
            Some(d) => a.pos() == lore_desc(d, p).begin_pos.0 && a.slen() == lore_desc(d, p).subtrace_len,
            None => a.pos() == o.pos() && a.slen() == 0,       // an absent lore is an empty subtrace
        }
    &&& !ok ==> a.pos() == o.pos() && a.slen() == o.slen() && a.seen() == o.seen()
}

//@ lift crates/air-lib/trace-handler/src/state_automata/fold_fsm/lore_applier.rs :: fn apply_fold_lore
//@ props C01 C09
//@ ret r
//@ rewrite 1 "fold_lore.before_subtrace.begin_pos as _" => "fold_lore.before_subtrace.begin_pos"
//@ rewrite 1 "fold_lore.after_subtrace.begin_pos as _" => "fold_lore.after_subtrace.begin_pos"
//@ spec
    requires old(data_keeper).wf()               // nothing about fold_lore: positions and lengths are hostile
    ensures
        final(data_keeper).wf(), final(data_keeper).same_traces(old(data_keeper)),
        ctx_type is Previous ==> final(data_keeper).current_ctx == old(data_keeper).current_ctx
            && lore_applied(old(data_keeper).prev_ctx.slider, final(data_keeper).prev_ctx.slider, *fold_lore, next_position, r is Ok),
        ctx_type is Current ==> final(data_keeper).prev_ctx == old(data_keeper).prev_ctx
            && lore_applied(old(data_keeper).current_ctx.slider, final(data_keeper).current_ctx.slider, *fold_lore, next_position, r is Ok),
//@ end

// both sliders, Previous first; a failure of the first leaves the second untouched
pub open spec fn lore_applied_both(o: DataKeeper, a: DataKeeper, pl: Option<ResolvedSubTraceDescs>, cl: Option<ResolvedSubTraceDescs>, p: ByNextPosition, ok: bool) -> bool {
    let ok1 = lore_accepted(o.prev_ctx.slider, pl, p);
    let ok2 = lore_accepted(o.current_ctx.slider, cl, p);
    &&& lore_applied(o.prev_ctx.slider, a.prev_ctx.slider, pl, p, ok1)
    &&& ok1 ==> lore_applied(o.current_ctx.slider, a.current_ctx.slider, cl, p, ok2)
    &&& !ok1 ==> a.current_ctx == o.current_ctx
    &&& ok == (ok1 && ok2)
}

//@ lift crates/air-lib/trace-handler/src/state_automata/fold_fsm/lore_applier.rs :: fn apply_fold_lore_before
//@ props C01 C09
//@ ret r
//@ spec
    requires old(data_keeper).wf()
    ensures final(data_keeper).wf(), final(data_keeper).same_traces(old(data_keeper)),
        lore_applied_both(*old(data_keeper), *final(data_keeper), *prev_fold_lore, *current_fold_lore, ByNextPosition::Before, r is Ok),
//@ end

//@ lift crates/air-lib/trace-handler/src/state_automata/fold_fsm/lore_applier.rs :: fn apply_fold_lore_after
//@ props C01 C09
//@ ret r
//@ spec
    requires old(data_keeper).wf()
    ensures final(data_keeper).wf(), final(data_keeper).same_traces(old(data_keeper)),
        lore_applied_both(*old(data_keeper), *final(data_keeper), *prev_fold_lore, *current_fold_lore, ByNextPosition::After, r is Ok),
//@ end

// ================================================================ par: par_fsm/state_handler.rs, par_fsm.rs
// (verbatim from slider.rs)
pub open spec fn par_len(p: ParResult, t: SubgraphType) -> int {
    match t { SubgraphType::Left => p.left_size as int, SubgraphType::Right => p.left_size + p.right_size }
}
// stub: exactly the contract proved on the real text in slider.rs (par compute_new_states)
//@ stub slider :: compute_new_states

// the whole par lies inside the slider's remaining window, and the window inside the trace
pub open spec fn par_inside(p: ParResult, s: TraceSlider) -> bool {
    s.in_window() && p.left_size + p.right_size <= window(s)
}

pub mod par_sh {
use super::*;

//@ lift crates/air-lib/trace-handler/src/state_automata/par_fsm/state_handler.rs :: struct CtxStateHandler
//@ derive Default Clone Copy
//@ end

impl CtxStateHandler {
    pub closed spec fn left(&self) -> CtxStatesPair { self.left_pair }
    pub closed spec fn right(&self) -> CtxStatesPair { self.right_pair }
    pub open spec fn pair(&self, t: SubgraphType) -> CtxStatesPair { match t { SubgraphType::Left => self.left(), SubgraphType::Right => self.right() } }

//@ lift crates/air-lib/trace-handler/src/state_automata/par_fsm/state_handler.rs :: impl CtxStateHandler :: fn prepare
//@ name par::CtxStateHandler::prepare
//@ props C01 C09
//@ ret r
//@ spec
        requires data_keeper.wf()            // nothing about the pars: their sizes are hostile
        ensures
            r matches Ok(h) ==> {
                &&& h.left().prev_state.pos.0 == data_keeper.prev_ctx.slider.pos() + prev_par.left_size
                &&& h.left().current_state.pos.0 == data_keeper.current_ctx.slider.pos() + current_par.left_size
                &&& h.right().prev_state.pos.0 == data_keeper.prev_ctx.slider.pos() + prev_par.left_size + prev_par.right_size
                &&& h.right().current_state.pos.0 == data_keeper.current_ctx.slider.pos() + current_par.left_size + current_par.right_size
            },
            // C09.V2: the Right-end states of pars lying inside in-window sliders always fit
            r matches Ok(h) ==> ((par_inside(prev_par, data_keeper.prev_ctx.slider) && par_inside(current_par, data_keeper.current_ctx.slider))
                ==> (state_fits(h.right().prev_state, data_keeper.prev_ctx.slider)
                     && state_fits(h.right().current_state, data_keeper.current_ctx.slider))),
//@ end

//@ lift crates/air-lib/trace-handler/src/state_automata/par_fsm/state_handler.rs :: impl CtxStateHandler :: fn handle_subgraph_end
//@ name par::CtxStateHandler::handle_subgraph_end
//@ props C01 C09
//@ spec
        requires old(data_keeper).wf()
        ensures final(data_keeper).wf(), final(data_keeper).same_traces(old(data_keeper)),
            // C09: a prepared state that fits is restored; the swallowed error can only be "does not fit"
            state_fits(self.pair(subgraph_type).prev_state, old(data_keeper).prev_ctx.slider)
                ==> restored(final(data_keeper).prev_ctx.slider, self.pair(subgraph_type).prev_state),
            state_fits(self.pair(subgraph_type).current_state, old(data_keeper).current_ctx.slider)
                ==> restored(final(data_keeper).current_ctx.slider, self.pair(subgraph_type).current_state),
//@ end
}

// fields of ParFSM that prepare_sliders never mentions
#[derive(Default, Clone)]
pub struct StateInserter { pub opaque: u8 }
#[derive(Default, Clone)]
pub struct ParBuilder { pub opaque: u8 }

//@ lift crates/air-lib/trace-handler/src/state_automata/par_fsm.rs :: struct ParFSM
//@ derive Default Clone
//@ end

// the window lengths prepare_sliders asks for
pub open spec fn sub_len(p: ParResult, t: SubgraphType) -> u32 {
    match t { SubgraphType::Left => p.left_size, SubgraphType::Right => p.right_size }
}
// set_subtrace_len(len) on slider o giving a; returns whether it succeeds
pub open spec fn len_set(o: TraceSlider, a: TraceSlider, len: u32, ok: bool) -> bool {
    &&& a.wf() && a.tlen() == o.tlen() && a.pos() == o.pos()
    &&& ok == (len == 0 || o.pos() + len <= o.tlen())
    &&& ok ==> a.slen() == len && a.seen() == 0
    &&& !ok ==> a.slen() == o.slen() && a.seen() == o.seen()
}

impl ParFSM {
    pub closed spec fn prev(&self) -> ParResult { self.prev_par }
    pub closed spec fn cur(&self) -> ParResult { self.current_par }

//@ lift crates/air-lib/trace-handler/src/state_automata/par_fsm.rs :: impl ParFSM :: fn prepare_sliders
//@ props C01 C09
//@ ret r
//@ spec
        requires old(data_keeper).wf()           // nothing about the par sizes: they are hostile
        ensures final(data_keeper).wf(), final(data_keeper).same_traces(old(data_keeper)), ({
            let ok1 = sub_len(self.prev(), subgraph_type) == 0
                || old(data_keeper).prev_ctx.slider.pos() + sub_len(self.prev(), subgraph_type) <= old(data_keeper).prev_ctx.slider.tlen();
            let ok2 = sub_len(self.cur(), subgraph_type) == 0
                || old(data_keeper).current_ctx.slider.pos() + sub_len(self.cur(), subgraph_type) <= old(data_keeper).current_ctx.slider.tlen();
            &&& len_set(old(data_keeper).prev_ctx.slider, final(data_keeper).prev_ctx.slider, sub_len(self.prev(), subgraph_type), ok1)
            &&& ok1 ==> len_set(old(data_keeper).current_ctx.slider, final(data_keeper).current_ctx.slider, sub_len(self.cur(), subgraph_type), ok2)
            &&& !ok1 ==> final(data_keeper).current_ctx == old(data_keeper).current_ctx
            &&& r is Ok <==> ok1 && ok2
        }),
//@ end
}
} // mod par_sh

// whether a state fits depends on the trace length only, and no slider operation changes it: what `prepare`
// established at the fold start still holds when `set_final_states` runs at the fold end
//@ lemma state_fits_stable props C09
proof fn state_fits_stable(s: CtxState, a: TraceSlider, b: TraceSlider)
    requires a.tlen() == b.tlen()
    ensures state_fits(s, a) == state_fits(s, b)
{ }
//@ end

} // verus!
fn main() {}
