//@ unit canon
// The canon instruction's handlers: what happens to a canon state found in data, and who canonicalizes.
//   air/src/execution_step/instructions/canon_utils/mod.rs  handle_seen_canon, handle_canon_executed, handle_canon_request_sent_by,
//                                                           handle_unseen_canon, create_canon_stream_for_first_time,
//                                                           populate_seen_cid_context
//   air/src/execution_step/instructions/canon.rs            Canon::execute (dispatch on MergerCanonResult)
// C11 (an `Executed(cid)` state in data is re-bound through its CID, never re-canonicalized), C14.V3 (verify_canon before
// binding), C19 (canonicalize only where addressed; a foreign mark is re-emitted, not re-forwarded; unseen + elsewhere => forwarded).
//
// Ghost logs: `TraceHandler.pushed_canon` = the canon states given to `meet_canon_end`; `Streams.canonized` = one entry (the
// peer) per call of the instruction's stream-producer closure (it reads the stream table); `Scalars.bound` = one entry
// (name, canon stream, cid) per successful call of the instruction's epilog closure; `next_peer_pks` is the real Vec.
//
// Trusted part of this file:
//  * the two closure types of canon_utils (`dyn Fn(..)`: Verus has no `dyn`): opaque structs with an `external_body` method
//    `call`; a closure call `f(args)` in the lifted text is rewritten to `f.call(args)` (3 declared rewrites).
//    `CreateCanonStreamClosure::call` = canon.rs `create_canon_stream_producer` body: reads the stream, returns
//    `CanonStream::from_values(values, peer_pk)` (tetraplet (peer_pk, "", "", "")), logs the call.
//    `CanonEpilogClosure::call` = canon.rs `epilog_closure` body: `scalars.set_canon_value(name, (stream, cid))?;
//    meet_canon_end(CanonResult::executed(cid)); Ok(())`. Both constructor functions are external (they build `Box<dyn Fn>`).
//    canon_map.rs / canon_stream_map_scalar.rs pass other closures to the same handlers; they are not covered here.
//  * `value_cids.iter().map(|c| exec_ctx.cid_state.get_canon_value_by_cid(c)).collect::<Result<Vec<_>, _>>()` is rewritten
//    to the helper `collect_canon_values` (iterator chain with a capturing closure); no contract.
//  * ExecutionCidState::{get_canon_result_by_cid, get_tetraplet_by_cid} (read-only lookups = uninterpreted functions of the
//    store), populate_unseen_cid_context (touches the CID trackers only; returns `unseen_cid(store, stream)`),
//    PeerCidTracker::register, resolve_peer_id_to_string (read-only; returns `resolved_peer(var, ctx)`),
//    TraceHandler::{meet_canon_start (returns `next_canon()`), meet_canon_end}, SecurityTetraplet::new, Canon::to_string.
//  * `&str == String` compares contents, `From<T> for T` is the identity (as in unit resolved_call).
//  * verify_canon: contract imported mechanically from unit call_verifier.
use vstd::prelude::*;

//@ lift air/src/execution_step/errors/execution_errors.rs :: macro_rules trace_to_exec_err
//@ end

//@ lift air/src/execution_step/instructions/mod.rs :: macro_rules joinable
//@ end

verus! {

use std::rc::Rc;
use core::marker::PhantomData;

pub mod ax {
    use vstd::prelude::*;
    // std: `impl PartialEq<String> for &str` compares the contents (vstd specifies only str/str and String/String)
    use vstd::std_specs::cmp::PartialEqSpec;
    #[verifier::external_body]
    pub broadcast proof fn axiom_str_eq_string_obeys()
        ensures #[trigger] <&str as PartialEqSpec<String>>::obeys_eq_spec() {}
    #[verifier::external_body]
    pub broadcast proof fn axiom_str_eq_string(a: &str, b: &String)
        ensures #[trigger] <&str as PartialEqSpec<String>>::eq_spec(&a, b) == (a@ == b@) {}
}
broadcast use {ax::axiom_str_eq_string_obeys, ax::axiom_str_eq_string};
pub assume_specification<T>[ <T as core::convert::From<T>>::from ](t: T) -> (r: T) ensures r == t;

// ---------------------------------------------------------------- shim: opaque data (trusted)
pub struct CID<T> { pub id: u64, pub ph: PhantomData<T> }
impl<T> Clone for CID<T> { fn clone(&self) -> (r: Self) ensures r == *self { CID { id: self.id, ph: PhantomData } } }
#[derive(Clone, Copy)]
pub struct AirPos(pub usize);
pub struct ValueAggregate { pub x: u64 }
pub struct JValue { pub x: u8 }
pub struct CanonCidAggregate { pub x: u8 }
pub struct SecurityTetraplet { pub peer_pk: String, pub service_id: String, pub function_name: String, pub lens: String }
pub type RcSecurityTetraplet = Rc<SecurityTetraplet>;
impl SecurityTetraplet {
    // real (polyplets): four `impl Into<String>` arguments stored as they are
    #[verifier::external_body]
    pub fn new(peer_pk: String, service_id: &str, function_name: &str, lens: &str) -> (r: Self)
        ensures r.peer_pk@ == peer_pk@, r.service_id@ == service_id@, r.function_name@ == function_name@, r.lens@ == lens@
    { unimplemented!() }
}
// the tetraplet of a canon result produced at peer p: (p, "", "", "")
pub open spec fn canon_tet_ok(p: Seq<char>, t: SecurityTetraplet) -> bool {
    t.peer_pk@ == p && t.service_id@ == ""@ && t.function_name@ == ""@ && t.lens@ == ""@
}

//@ lift crates/air-lib/interpreter-data/src/executed_state.rs :: struct CanonResultCidAggregate
//@ derive
//@ end
//@ lift crates/air-lib/interpreter-data/src/executed_state.rs :: enum CanonResult
//@ derive Clone
//@ end
impl CanonResult {
//@ lift crates/air-lib/interpreter-data/src/executed_state/impls.rs :: impl CanonResult :: fn executed
//@ name CanonResult::executed
//@ props C11
//@ ret r
//@ spec
        ensures r == CanonResult::Executed(cid)
//@ end
//@ lift crates/air-lib/interpreter-data/src/executed_state/impls.rs :: impl CanonResult :: fn request_sent_by
//@ name CanonResult::request_sent_by
//@ props C19
//@ ret r
//@ spec
        ensures r == CanonResult::RequestSentBy(peer_id)
//@ end
}
//@ lift crates/air-lib/trace-handler/src/merger/canon_merger.rs :: enum MergerCanonResult
//@ derive
//@ end

//@ lift air/src/execution_step/value_types/canon_stream.rs :: struct CanonStream
//@ pub-fields
//@ derive
//@ end
impl CanonStream {
//@ lift air/src/execution_step/value_types/canon_stream.rs :: impl CanonStream :: fn new
//@ name CanonStream::new
//@ props C11
//@ ret r
//@ spec
        ensures r == (CanonStream { values, tetraplet })
//@ end
}

// ---------------------------------------------------------------- errors
pub struct LambdaError { pub x: u8 }
pub struct ErrorObjectError { pub x: u8 }
pub struct StreamMapError { pub x: u8 }
pub struct TraceHandlerError { pub x: u8 }
pub type TraceHandlerResult<T> = Result<T, TraceHandlerError>;
// the variants the lifted code constructs / the imported contract of verify_canon names; every other one is `Other`
pub enum UncatchableError {
    TraceError { trace_error: TraceHandlerError, instruction: String },
    InstructionParametersMismatch { param: &'static str, expected_value: String, stored_value: String },
    Other(u8),
}
//@ lift air/src/execution_step/errors/catchable_errors.rs :: enum CatchableError
//@ derive
//@ end
//@ lift air/src/execution_step/errors/execution_errors.rs :: enum ExecutionError
//@ derive
//@ end
pub type ExecutionResult<T> = Result<T, ExecutionError>;
pub mod execution_step { pub use super::{ExecutionError, UncatchableError, Joinable}; }
//@ lift air/src/execution_step/errors/joinable.rs :: trait Joinable
//@ end
// real: generated by thiserror's #[from]
impl From<UncatchableError> for ExecutionError { fn from(e: UncatchableError) -> Self { ExecutionError::Uncatchable(e) } }
impl vstd::std_specs::convert::FromSpecImpl<UncatchableError> for ExecutionError {
    open spec fn obeys_from_spec() -> bool { true }
    open spec fn from_spec(e: UncatchableError) -> ExecutionError { ExecutionError::Uncatchable(e) }
}
pub open spec fn waiting(e: CatchableError) -> bool { e is VariableNotFound }
pub open spec fn joinable_err(e: ExecutionError) -> bool {
    match e { ExecutionError::Catchable(c) => waiting(*c), ExecutionError::Uncatchable(_) => false }
}
impl ExecutionError {
    // real: errors/execution_errors.rs `impl Joinable for ExecutionError` (proved in unit resolved_call)
    #[verifier::external_body]
    pub fn is_joinable(&self) -> (r: bool) ensures r == joinable_err(*self) { unimplemented!() }
}

// ---------------------------------------------------------------- shim: the context's sub-objects (trusted, opaque)
// one entry per successful `set_canon_value(name, CanonStreamWithProvenance::new(stream, cid))` of the epilog
pub struct Scalars<'i> { pub bound: Ghost<Seq<(Seq<char>, CanonStream, CID<CanonResultCidAggregate>)>>, pub ph: PhantomData<&'i u8> }
// one entry (the peer) per run of the instruction's canon-stream producer, which reads the stream table
pub struct Streams { pub canonized: Ghost<Seq<Seq<char>>>, pub x: u8 }
pub struct StreamMaps { pub x: u8 }
pub struct LastErrorDescriptor { pub x: u8 }
pub struct ErrorDescriptor { pub x: u8 }
pub struct InstructionTracker { pub x: u8 }
pub struct SignatureStore { pub x: u8 }
pub struct CallResults { pub x: u8 }
pub struct CallRequests { pub x: u8 }
pub struct PeerCidTracker { pub x: u8 }
impl PeerCidTracker {
    #[verifier::external_body]
    pub fn register<T>(&mut self, peer: &str, cid: &CID<T>) { unimplemented!() }
}
pub struct ExecutionCidState { pub x: u8 }
// what the CID store answers: functions of the store and the CID
pub uninterp spec fn canon_agg(st: ExecutionCidState, cid: CID<CanonResultCidAggregate>) -> Result<Rc<CanonResultCidAggregate>, UncatchableError>;
pub uninterp spec fn tet_by_cid(st: ExecutionCidState, cid: CID<SecurityTetraplet>) -> Result<RcSecurityTetraplet, UncatchableError>;
impl ExecutionCidState {
    #[verifier::external_body]
    pub fn get_canon_result_by_cid(&self, cid: &CID<CanonResultCidAggregate>) -> (r: Result<Rc<CanonResultCidAggregate>, UncatchableError>)
        ensures r == canon_agg(*self, *cid)
    { unimplemented!() }
    #[verifier::external_body]
    pub fn get_tetraplet_by_cid(&self, cid: &CID<SecurityTetraplet>) -> (r: Result<RcSecurityTetraplet, UncatchableError>)
        ensures r == tet_by_cid(*self, *cid)
    { unimplemented!() }
}

//@ lift air/src/execution_step/execution_context/context.rs :: struct RcRunParameters
//@ derive
//@ end

//@ lift air/src/execution_step/execution_context/context.rs :: struct ExecutionCtx
//@ end

impl<'i> ExecutionCtx<'i> {
    // spec views (the struct has a private field, so Verus treats it as opaque in public contracts)
    pub closed spec fn next_peers(&self) -> Seq<String> { self.next_peer_pks@ }
    pub closed spec fn me(&self) -> Seq<char> { self.run_parameters.current_peer_id@ }
    pub closed spec fn complete(&self) -> bool { self.subgraph_completeness }
    pub closed spec fn canonized(&self) -> Seq<Seq<char>> { self.streams.canonized@ }
    pub closed spec fn bound(&self) -> Seq<(Seq<char>, CanonStream, CID<CanonResultCidAggregate>)> { self.scalars.bound@ }
    pub closed spec fn cid(&self) -> ExecutionCidState { self.cid_state }
    // everything the contracts watch except the completeness flag
    pub open spec fn same(&self, o: &Self) -> bool {
        self.next_peers() == o.next_peers() && self.me() == o.me() && self.canonized() == o.canonized() && self.bound() == o.bound()
            && self.cid() == o.cid()
    }

//@ lift air/src/execution_step/execution_context/context.rs :: impl <'i> ExecutionCtx<'i> :: fn record_canon_cid
//@ name ExecutionCtx::record_canon_cid
//@ props C11
//@ spec
        ensures final(self).same(old(self)), final(self).complete() == old(self).complete(),
//@ end
}
impl ExecutionCtx<'_> {
//@ lift air/src/execution_step/execution_context/context.rs :: impl ExecutionCtx<'_> :: fn make_subgraph_incomplete
//@ name ExecutionCtx::make_subgraph_incomplete
//@ props C19
//@ spec
        ensures final(self).same(old(self)), !final(self).complete(),
//@ end
}

// ---------------------------------------------------------------- shim: trace handler (trusted)
pub struct TraceHandler { pub pushed_canon: Ghost<Seq<CanonResult>>, pub x: u8 }
impl TraceHandler {
    // what the merger will deliver for the next canon instruction: a function of the handler's state
    pub uninterp spec fn next_canon(&self) -> TraceHandlerResult<MergerCanonResult>;
    // real: try_merge_next_state_as_canon(&mut self.data_keeper)
    #[verifier::external_body]
    pub fn meet_canon_start(&mut self) -> (r: TraceHandlerResult<MergerCanonResult>)
        ensures r == old(self).next_canon(), final(self).pushed_canon@ == old(self).pushed_canon@
    { unimplemented!() }
    // real: self.data_keeper.result_trace.push(ExecutedState::Canon(canon_result))
    #[verifier::external_body]
    pub fn meet_canon_end(&mut self, canon_result: CanonResult)
        ensures final(self).pushed_canon@ == old(self).pushed_canon@.push(canon_result)
    { unimplemented!() }
}

// ---------------------------------------------------------------- shim: AST, peer resolution
pub mod ast {
    use super::*;
//@ lift crates/air-lib/air-parser/src/ast/values.rs :: struct Stream
//@ derive
//@ end
//@ lift crates/air-lib/air-parser/src/ast/values.rs :: struct CanonStream
//@ derive
//@ end
    pub struct ResolvableToPeerIdVariable<'i> { pub opaque_payload: u64, pub ph: PhantomData<&'i u8> }
//@ lift crates/air-lib/air-parser/src/ast/instructions.rs :: struct Canon
//@ derive
//@ end
    // Display of the raw instruction: only rendered into an error message
    impl<'i> Canon<'i> {
        #[verifier::external_body]
        pub fn to_string(&self) -> String { unimplemented!() }
    }
}
use ast::ResolvableToPeerIdVariable;
// the peer a canon is addressed to: a function of the variable and the (read-only) context
pub uninterp spec fn resolved_peer(peer_id: ResolvableToPeerIdVariable, exec_ctx: ExecutionCtx) -> ExecutionResult<String>;
#[verifier::external_body]
pub fn resolve_peer_id_to_string<'i>(peer_id: &ResolvableToPeerIdVariable<'_>, exec_ctx: &ExecutionCtx<'i>) -> (r: ExecutionResult<String>)
    ensures r == resolved_peer(*peer_id, *exec_ctx)
{ unimplemented!() }

// ---------------------------------------------------------------- shim: the two closures of canon_utils (trusted; `dyn Fn`)
// `CreateCanonStreamClosure<'c> = dyn Fn(&mut ExecutionCtx<'_>, String) -> CanonStream + 'c`
pub struct CreateCanonStreamClosure<'c> { pub ph: PhantomData<&'c u8>, pub x: u8 }
// the canon stream the producer builds: a function of the closure (stream name, position), the context and the peer
pub uninterp spec fn produced(f: CreateCanonStreamClosure, exec_ctx: ExecutionCtx, peer_pk: Seq<char>) -> CanonStream;
impl<'c> CreateCanonStreamClosure<'c> {
    // real (canon.rs create_canon_stream_producer): `let stream = exec_ctx.streams.get(name, position)..; CanonStream::from_values(values, peer_pk)`
    #[verifier::external_body]
    pub fn call(&self, exec_ctx: &mut ExecutionCtx<'_>, peer_pk: String) -> (r: CanonStream)
        ensures r == produced(*self, *old(exec_ctx), peer_pk@), canon_tet_ok(peer_pk@, *r.tetraplet),
            final(exec_ctx).canonized() == old(exec_ctx).canonized().push(peer_pk@),
            final(exec_ctx).next_peers() == old(exec_ctx).next_peers(), final(exec_ctx).me() == old(exec_ctx).me(),
            final(exec_ctx).bound() == old(exec_ctx).bound(), final(exec_ctx).cid() == old(exec_ctx).cid(),
            final(exec_ctx).complete() == old(exec_ctx).complete(),
    { unimplemented!() }
}
// `CanonEpilogClosure<'c> = dyn Fn(CanonStream, CID<CanonResultCidAggregate>, &mut ExecutionCtx<'_>, &mut TraceHandler) -> ExecutionResult<()> + 'c`
pub struct CanonEpilogClosure<'c> { pub name: Ghost<Seq<char>>, pub ph: PhantomData<&'c u8> }
impl<'c> CanonEpilogClosure<'c> {
    // real (canon.rs epilog_closure): `exec_ctx.scalars.set_canon_value(name, CanonStreamWithProvenance::new(stream, cid.clone()))?;
    //                                  trace_ctx.meet_canon_end(CanonResult::executed(cid)); Ok(())`
    #[verifier::external_body]
    pub fn call(&self, canon_stream: CanonStream, canon_result_cid: CID<CanonResultCidAggregate>, exec_ctx: &mut ExecutionCtx<'_>,
                trace_ctx: &mut TraceHandler) -> (r: ExecutionResult<()>)
        ensures
            final(exec_ctx).next_peers() == old(exec_ctx).next_peers(), final(exec_ctx).me() == old(exec_ctx).me(),
            final(exec_ctx).canonized() == old(exec_ctx).canonized(), final(exec_ctx).cid() == old(exec_ctx).cid(),
            final(exec_ctx).complete() == old(exec_ctx).complete(),
            r is Ok ==> final(exec_ctx).bound() == old(exec_ctx).bound().push((self.name@, canon_stream, canon_result_cid))
                && final(trace_ctx).pushed_canon@ == old(trace_ctx).pushed_canon@.push(CanonResult::Executed(canon_result_cid)),
            r is Err ==> final(exec_ctx).bound() == old(exec_ctx).bound() && final(trace_ctx).pushed_canon@ == old(trace_ctx).pushed_canon@,
    { unimplemented!() }
}
// real: canon.rs; they build the `Box<dyn Fn>`s described above
#[verifier::external_body]
pub fn epilog_closure(canon_stream_name: &str) -> (r: Box<CanonEpilogClosure<'_>>)
    ensures r.name@ == canon_stream_name@
{ unimplemented!() }
// the producer closure of the instruction `(canon peer $stream_name@position ..)`
pub uninterp spec fn producer_of(stream_name: Seq<char>, position: AirPos) -> CreateCanonStreamClosure<'static>;
#[verifier::external_body]
pub fn create_canon_stream_producer<'closure, 'name: 'closure>(stream_name: &'name str, position: AirPos) -> (r: Box<CreateCanonStreamClosure<'closure>>)
    ensures *r == producer_of(stream_name@, position)
{ unimplemented!() }

// the CID under which a freshly built canon stream is recorded: a function of the store and the stream
pub uninterp spec fn unseen_cid(st: ExecutionCidState, canon_stream: CanonStream) -> ExecutionResult<CID<CanonResultCidAggregate>>;
// real: canon_utils `populate_unseen_cid_context`: tracks every value, the tetraplet and the aggregate in the CID trackers and
// registers the CID with the peer CID tracker (iterator chains; touches cid_state / peer_cid_tracker only)
#[verifier::external_body]
pub fn populate_unseen_cid_context(exec_ctx: &mut ExecutionCtx<'_>, canon_stream: &CanonStream) -> (r: ExecutionResult<CID<CanonResultCidAggregate>>)
    ensures r == unseen_cid(old(exec_ctx).cid(), *canon_stream),
        final(exec_ctx).next_peers() == old(exec_ctx).next_peers(), final(exec_ctx).me() == old(exec_ctx).me(),
        final(exec_ctx).canonized() == old(exec_ctx).canonized(), final(exec_ctx).bound() == old(exec_ctx).bound(),
        final(exec_ctx).complete() == old(exec_ctx).complete(),
{ unimplemented!() }
// real: `value_cids.iter().map(|c| exec_ctx.cid_state.get_canon_value_by_cid(c)).collect::<Result<Vec<_>, _>>()` (read-only)
#[verifier::external_body]
pub fn collect_canon_values(value_cids: &Vec<CID<CanonCidAggregate>>, exec_ctx: &ExecutionCtx<'_>) -> Result<Vec<ValueAggregate>, UncatchableError>
{ unimplemented!() }

//@ import-spec call_verifier :: tet_eq
//@ stub call_verifier :: verify_canon

// ================================================================ the decision table, written from the property statements
pub open spec fn quiet(c0: ExecutionCtx, c1: ExecutionCtx, t0: TraceHandler, t1: TraceHandler) -> bool {
    c1.next_peers() == c0.next_peers() && c1.me() == c0.me() && c1.canonized() == c0.canonized() && c1.bound() == c0.bound()
        && t1.pushed_canon@ == t0.pushed_canon@
}
// C11/C19: the stream is canonicalized here -- the producer runs exactly once, for this peer -- and, if that succeeds, the
// result is bound and recorded as exactly one `Executed(cid)`; the particle goes nowhere
pub open spec fn first_time(name: Seq<char>, f: CreateCanonStreamClosure, p: Seq<char>, c0: ExecutionCtx, c1: ExecutionCtx,
                            t0: TraceHandler, t1: TraceHandler, r: ExecutionResult<()>) -> bool {
    let s = produced(f, c0, p);
    &&& c1.canonized() == c0.canonized().push(p)
    &&& c1.next_peers() == c0.next_peers() && c1.me() == c0.me()
    &&& canon_tet_ok(p, *s.tetraplet)
    &&& match unseen_cid(c0.cid(), s) {
        Err(_) => r is Err && c1.bound() == c0.bound() && t1.pushed_canon@ == t0.pushed_canon@,
        Ok(cid) => {
            &&& r is Ok ==> c1.bound() == c0.bound().push((name, s, cid)) && t1.pushed_canon@ == t0.pushed_canon@.push(CanonResult::Executed(cid))
            &&& r is Err ==> c1.bound() == c0.bound() && t1.pushed_canon@ == t0.pushed_canon@
        }
    }
}
// C19: not seen yet and addressed elsewhere: forwarded there and marked as sent by this peer; nothing canonicalized
pub open spec fn forwarded(tgt: Seq<char>, c0: ExecutionCtx, c1: ExecutionCtx, t0: TraceHandler, t1: TraceHandler) -> bool {
    &&& c1.next_peers().len() == c0.next_peers().len() + 1
    &&& c1.next_peers().drop_last() =~= c0.next_peers()
    &&& c1.next_peers().last()@ == tgt
    &&& t1.pushed_canon@.len() == t0.pushed_canon@.len() + 1
    &&& t1.pushed_canon@.drop_last() =~= t0.pushed_canon@
    &&& (t1.pushed_canon@.last() matches CanonResult::RequestSentBy(q) && q@ == c0.me())
    &&& c1.me() == c0.me() && c1.canonized() == c0.canonized() && c1.bound() == c0.bound()
    &&& !c1.complete()
}
// C19/C07: a mark found in data for a canon addressed elsewhere is re-emitted as it is: not forwarded again, nothing canonicalized
pub open spec fn re_emitted(mark: CanonResult, c0: ExecutionCtx, c1: ExecutionCtx, t0: TraceHandler, t1: TraceHandler) -> bool {
    &&& c1.next_peers() == c0.next_peers() && c1.me() == c0.me() && c1.canonized() == c0.canonized() && c1.bound() == c0.bound()
    &&& t1.pushed_canon@ == t0.pushed_canon@.push(mark)
    &&& !c1.complete()
}
pub open spec fn unseen_table(name: Seq<char>, f: CreateCanonStreamClosure, peer_id: ResolvableToPeerIdVariable, c0: ExecutionCtx, c1: ExecutionCtx,
                              t0: TraceHandler, t1: TraceHandler, r: ExecutionResult<()>) -> bool {
    match resolved_peer(peer_id, c0) {
        // the address is not known yet: wait; any other resolution error is the canon's error; nothing happens either way
        Err(e) => quiet(c0, c1, t0, t1) && (if joinable_err(e) { r is Ok && !c1.complete() } else { r == Err::<(), ExecutionError>(e) }),
        Ok(p) => if p@ != c0.me() { r is Ok && forwarded(p@, c0, c1, t0, t1) } else { first_time(name, f, p@, c0, c1, t0, t1, r) },
    }
}
pub open spec fn sent_by_table(name: Seq<char>, f: CreateCanonStreamClosure, peer_id: ResolvableToPeerIdVariable, mark: CanonResult,
                               c0: ExecutionCtx, c1: ExecutionCtx, t0: TraceHandler, t1: TraceHandler, r: ExecutionResult<()>) -> bool {
    match resolved_peer(peer_id, c0) {
        Err(e) => quiet(c0, c1, t0, t1) && r == Err::<(), ExecutionError>(e),
        Ok(p) => if p@ != c0.me() { r is Ok && re_emitted(mark, c0, c1, t0, t1) } else { first_time(name, f, p@, c0, c1, t0, t1, r) },
    }
}
// C11/C14: a canon already executed somewhere is never canonicalized again and never forwarded: its stored tetraplet must be
// (addressed peer, "", "", "") -- otherwise it is rejected and nothing is bound -- and then the stored value is bound through
// the very CID found in data and that CID is re-emitted
pub open spec fn executed_table(name: Seq<char>, peer_id_var: ResolvableToPeerIdVariable, cid: CID<CanonResultCidAggregate>,
                                c0: ExecutionCtx, c1: ExecutionCtx, t0: TraceHandler, t1: TraceHandler, r: ExecutionResult<()>) -> bool {
    let unbound = c1.bound() == c0.bound() && t1.pushed_canon@ == t0.pushed_canon@;
    &&& c1.canonized() == c0.canonized() && c1.next_peers() == c0.next_peers() && c1.me() == c0.me()
    &&& c1.complete() == c0.complete()
    &&& r is Err ==> unbound
    &&& match resolved_peer(peer_id_var, c0) {
        Err(_) => r is Err,
        Ok(p) => match canon_agg(c0.cid(), cid) {
            Err(_) => r is Err,
            Ok(agg) => match tet_by_cid(c0.cid(), agg.tetraplet) {
                Err(_) => r is Err,
                Ok(tet) => if !canon_tet_ok(p@, *tet) { r is Err } else {
                    r is Ok ==> {
                        &&& t1.pushed_canon@ == t0.pushed_canon@.push(CanonResult::Executed(cid))
                        &&& c1.bound().len() == c0.bound().len() + 1 && c1.bound().drop_last() =~= c0.bound()
                        &&& c1.bound().last().0 == name && c1.bound().last().2 == cid && c1.bound().last().1.tetraplet == tet
                    }
                },
            },
        },
    }
}
pub open spec fn seen_table(name: Seq<char>, f: CreateCanonStreamClosure, peer_id_var: ResolvableToPeerIdVariable, peer_id: ResolvableToPeerIdVariable,
                            state: CanonResult, c0: ExecutionCtx, c1: ExecutionCtx, t0: TraceHandler, t1: TraceHandler, r: ExecutionResult<()>) -> bool {
    match state {
        CanonResult::RequestSentBy(_) => sent_by_table(name, f, peer_id, state, c0, c1, t0, t1, r),
        CanonResult::Executed(cid) => executed_table(name, peer_id_var, cid, c0, c1, t0, t1, r),
    }
}

// ================================================================ canon_utils/mod.rs
//@ lift air/src/execution_step/instructions/canon_utils/mod.rs :: fn populate_seen_cid_context
//@ props C11
//@ spec
    ensures final(exec_ctx).same(old(exec_ctx)), final(exec_ctx).complete() == old(exec_ctx).complete(),
//@ end

//@ lift air/src/execution_step/instructions/canon_utils/mod.rs :: fn create_canon_stream_for_first_time
//@ props C11 C19
//@ ret r
//@ rewrite 1 "create_canon_stream(exec_ctx, peer_id)" => "create_canon_stream.call(exec_ctx, peer_id)"
//@ rewrite 1 "epilog(canon_stream, canon_result_cid, exec_ctx, trace_ctx)" => "epilog.call(canon_stream, canon_result_cid, exec_ctx, trace_ctx)"
//@ spec
    // C19: a stream is canonicalized only by the peer the canon is addressed to
    requires peer_id@ == old(exec_ctx).me()
    ensures first_time(epilog.name@, *create_canon_stream, peer_id@, *old(exec_ctx), *final(exec_ctx), *old(trace_ctx), *final(trace_ctx), r),
        final(exec_ctx).complete() == old(exec_ctx).complete(),
//@ end

//@ lift air/src/execution_step/instructions/canon_utils/mod.rs :: fn handle_unseen_canon
//@ props C11 C19
//@ ret r
//@ rewrite 1 "use crate::joinable;" => ""
//@ spec
    ensures unseen_table(epilog.name@, *create_canon_stream, *peer_id, *old(exec_ctx), *final(exec_ctx), *old(trace_ctx), *final(trace_ctx), r)
//@ end

//@ lift air/src/execution_step/instructions/canon_utils/mod.rs :: fn handle_canon_request_sent_by
//@ props C11 C19
//@ ret r
//@ spec
    ensures sent_by_table(epilog.name@, *create_canon_stream, *peer_id, canon_result, *old(exec_ctx), *final(exec_ctx), *old(trace_ctx), *final(trace_ctx), r)
//@ end

//@ lift air/src/execution_step/instructions/canon_utils/mod.rs :: fn handle_canon_executed
//@ props C11 C14 C19
//@ ret r
//@ rewrite 1 "crate::execution_step::instructions::resolve_peer_id_to_string(" => "resolve_peer_id_to_string("
//@ rewrite 1 "value_cids\n        .iter()\n        .map(|canon_value_cid| exec_ctx.cid_state.get_canon_value_by_cid(canon_value_cid))\n        .collect::<Result<Vec<_>, _>>()?" => "collect_canon_values(&value_cids, exec_ctx)?"
//@ rewrite 1 "epilog(canon_stream, canon_result_cid, exec_ctx, trace_ctx)" => "epilog.call(canon_stream, canon_result_cid, exec_ctx, trace_ctx)"
//@ spec
    ensures executed_table(epilog.name@, *peer_id_var, canon_result_cid, *old(exec_ctx), *final(exec_ctx), *old(trace_ctx), *final(trace_ctx), r)
//@ end

//@ lift air/src/execution_step/instructions/canon_utils/mod.rs :: fn handle_seen_canon
//@ props C11 C14 C19
//@ ret r
//@ spec
    ensures seen_table(epilog.name@, *create_canon_stream, *peer_id_var, *peer_id, canon_result, *old(exec_ctx), *final(exec_ctx),
        *old(trace_ctx), *final(trace_ctx), r)
//@ end

// ================================================================ canon.rs
pub open spec fn canon_table(canon: ast::Canon, c0: ExecutionCtx, c1: ExecutionCtx, t0: TraceHandler, t1: TraceHandler, r: ExecutionResult<()>) -> bool {
    match t0.next_canon() {
        // the merger refused the state: nothing happened
        Err(_) => r is Err && quiet(c0, c1, t0, t1),
        Ok(MergerCanonResult::Empty) => unseen_table(canon.canon_stream.name@, producer_of(canon.stream.name@, canon.stream.position), canon.peer_id, c0, c1, t0, t1, r),
        Ok(MergerCanonResult::CanonResult(state)) =>
            seen_table(canon.canon_stream.name@, producer_of(canon.stream.name@, canon.stream.position), canon.peer_id, canon.peer_id, state, c0, c1, t0, t1, r),
    }
}
impl<'i> ast::Canon<'i> {
//@ lift air/src/execution_step/instructions/canon.rs :: impl<'i> super::ExecutableInstruction<'i> for ast::Canon<'i> :: fn execute
//@ name Canon::execute
//@ props C11 C14 C19
//@ ret r
//@ spec
        ensures
            canon_table(*self, *old(exec_ctx), *final(exec_ctx), *old(trace_ctx), *final(trace_ctx), r),
            // C19: canonicalized only where addressed -- at most once; forwarded only when addressed elsewhere -- to that peer
            final(exec_ctx).canonized() != old(exec_ctx).canonized() ==> (resolved_peer(self.peer_id, *old(exec_ctx)) matches Ok(p) && p@ == old(exec_ctx).me()
                && final(exec_ctx).canonized() == old(exec_ctx).canonized().push(p@)),
            final(exec_ctx).next_peers() != old(exec_ctx).next_peers() ==> (resolved_peer(self.peer_id, *old(exec_ctx)) matches Ok(p) && p@ != old(exec_ctx).me()
                && final(exec_ctx).next_peers().last()@ == p@),
            // C11: a canon that data says was executed is never canonicalized again
            old(trace_ctx).next_canon() matches Ok(MergerCanonResult::CanonResult(CanonResult::Executed(_))) ==> final(exec_ctx).canonized() == old(exec_ctx).canonized(),
//@ end
}

} // verus!
fn main() {}
