//@ unit stream_scopes
// The scope functions of the two stream tables (properties C10 "every stream ... is compactified before the data is produced",
// C13 "no stream value is lost", C01 "no panic"):
//   air/src/execution_step/execution_context/streams_variables.rs       Streams::{meet_scope_start, meet_scope_end, compactify}
//   air/src/execution_step/execution_context/streams_variables/stream_descriptor.rs   StreamDescriptor::restricted, find_closest
//   air/src/execution_step/execution_context/stream_maps_variables.rs   StreamMaps::{meet_scope_start, meet_scope_end, compactify},
//                                                                       StreamMapDescriptor::restricted
//   air/src/execution_step/value_types/stream_map.rs                    StreamMap::{new, compactify}
//   crates/air-lib/air-parser/src/parser/span.rs                        Span::contains_position
// Abstract view (the one of unit appends, whose vocabulary is imported with `//@ import-spec`): `table: Map<name, Seq<descriptor>>`.
//   meet_scope_start(name, span)  table' == table.insert(name, bound_to(table, name).push(restricted(fresh stream, span)))
//   meet_scope_end(name, trace)   exactly the LAST descriptor of `name` leaves the table, the name leaves it iff nothing else is bound to
//                                 it, the stream that left was handed to Stream::compactify (with all its appends) and the result
//                                 returned is that call's result
//   compactify(trace)             Ok: every stream of every descriptor of every name was handed to Stream::compactify exactly once and
//                                 the table keeps its names, spans and appended values; Err: the calls made stop at the first one that
//                                 failed, whose error is returned (the caller then produces no data: farewell_step/outcome.rs)
//   find_closest(descriptors, p)  the stream of `closest(spans, p)` -- the LAST descriptor whose span contains p
// This unit exists because a seeded change went through C10/C12/C13/C01: StreamMaps::meet_scope_start with
// `self.stream_maps.insert(name, vec![new_descriptor])` instead of the Entry match drops every stream map already bound to the name
// (global, or of an enclosing / recursive `new`) without compactify -- its `ap` states keep GenerationIdx::stub() in the produced data.
//
// The precondition of meet_scope_end ("the name is bound to at least one descriptor" -- the two `unwrap()`s) is a call-order fact:
// unit control_exec proves at the only call site (obligations `epilog` and `New::execute`, from `balanced` of the body) that the scope
// log of the owning object has depth > 0 for that name. The step from "depth > 0 in the ghost scope log of control_exec's shim" to
// "a descriptor is bound in the real table" is NOT mechanical: it is the invariant depth(log, name) <= bound_to(table, name).len(),
// whose steps are lemma `scope_len_steps` (the induction over the run is an argument on paper).
//
// Ghost logs: `Stream.calls` (as in unit appends) is the sequence of `add_value` calls made on that stream object; `Stream.compactions`
// counts the `compactify` calls made on it; `TraceHandler.compacted` is the sequence of (stream as it was, result returned) of all
// `Stream::compactify(.., trace_ctx)` calls made with that handler.
//
// Trusted part of this file:
//  * `Stream` (value_types::Stream): opaque, same shim as unit appends plus `compactify` -- a callee stub: appends nothing to and removes
//    nothing from `calls`, logs itself and its result in the handler. What compactify does to the content and which generation numbers
//    it writes is `streams :: Stream::compactify` (the shims differ: that unit sees the three value matrices, this one the call log,
//    so the contract cannot be imported with `//@ stub`).
//  * `HashMap<String, Vec<D>>`: opaque as in unit appends (ghost view `Map<Seq<char>, Seq<D>>`; `get_mut`, `insert` same text), plus
//      `remove(name)`   = `Map::remove` under the key's contents, returns the vector that was bound;
//      `entry(name)`    = `Occupied(e)` iff the name is bound, `e.get_mut()` being a mutable borrow of exactly that vector;
//                         `Vacant(e)` otherwise, `e.insert(v)` binding the name to `v`, the map unchanged if `insert` is not called
//                         (OccupiedEntry / VacantEntry are transparent structs around that borrow; std's have more methods);
//      `iter_mut()`     yields every bound name exactly once, in an unspecified order, with a mutable borrow of exactly its vector;
//                         terminates. (The same three facts vstd states for `HashMap::iter`, plus distinctness of the keys.)
//  * `impl Into<String>` (the name parameter of meet_scope_start; both callers pass `&str`): `into_text(name)` is the text of the
//    String `name.into()` returns, = the text of the argument for a `&str` (vstd has no spec for `<&str as Into<String>>::into`).
//  * `Iterator::rev` on a slice iterator yields the remaining elements in reverse order (`verif_rev`, vstd has no model of `Rev`);
//    AirPos: `struct AirPos(usize)` with the derived comparisons of a usize newtype (same text as unit validator).
//  * `From<T> for T` is the identity (the `?` in compactify); `vec![x]`, `Vec::{push, pop, is_empty}`, `<[T]>::iter_mut`, `Option::unwrap` are vstd's.
// Rewrites (9, all local): `name.into()` -> `name_into(name)` (2x, see above); the five loop heads of the two `compactify` and of find_closest
//   get a named ghost iterator (`for x in it: ..`), of which `for descriptor in descriptors` (`&mut Vec<D>`: `IntoIterator for &mut Vec<T>` is
//   `self.iter_mut()`, std) is also spelled `descriptors.iter_mut()` and find_closest's `.rev()` becomes `.verif_rev()`; the parameter type
//   `impl DoubleEndedIterator<Item = &'d StreamDescriptor>` is instantiated at `core::slice::Iter<'d, StreamDescriptor>`, the type of the
//   argument at its only call site (`descriptors.iter()` in Streams::get); the field of `GenerationIdx` is made pub (as in unit appends).
// `#[verifier::loop_isolation(false)]` on the two compactify: the loop bodies must know what `iter_mut()` promised about the final value
//   of the borrowed table, because the `?` inside the inner loop is an exit of the function.
// NOT here: `Streams::{get, get_mut}` / `StreamMaps::{get, get_mut}`, `find_closest_mut`, and the find_closest* of stream maps:
//   closures returning borrows handed to `Option::and_then`, `&mut` items returned out of an `iter_mut().rev()` loop, and
//   `.rev().find(..).map(..)` chains are outside Verus; unit appends states the contract of the two `get_mut` by hand (`lookup`).
use vstd::prelude::*;
use vstd::std_specs::iter::IteratorSpec;
verus! {

pub assume_specification<T>[ <T as core::convert::From<T>>::from ](t: T) -> (r: T) ensures r == t;

// ---------------------------------------------------------------- shim: opaque data (trusted; same text as unit appends)
#[derive(Clone, Copy)]
pub struct AirPos(pub usize);
// real: lexer/text_pos.rs `struct AirPos(usize)` with derived PartialEq/PartialOrd (same text as unit validator)
pub open spec fn ord_of(a: int, b: int) -> core::cmp::Ordering {
    if a < b { core::cmp::Ordering::Less } else if a == b { core::cmp::Ordering::Equal } else { core::cmp::Ordering::Greater }
}
impl PartialEq for AirPos { fn eq(&self, o: &Self) -> bool { self.0 == o.0 } }
impl PartialOrd for AirPos { fn partial_cmp(&self, o: &Self) -> Option<core::cmp::Ordering> { self.0.partial_cmp(&o.0) } }
impl vstd::std_specs::cmp::PartialEqSpecImpl<AirPos> for AirPos {
    open spec fn obeys_eq_spec() -> bool { true }
    open spec fn eq_spec(&self, o: &AirPos) -> bool { self.0 == o.0 }
}
impl vstd::std_specs::cmp::PartialOrdSpecImpl<AirPos> for AirPos {
    open spec fn obeys_partial_cmp_spec() -> bool { true }
    open spec fn partial_cmp_spec(&self, o: &AirPos) -> Option<core::cmp::Ordering> { Some(ord_of(self.0 as int, o.0 as int)) }
}
pub struct ValueAggregate { pub x: u64 }
pub struct ExecutionError { pub x: u8 }
pub type ExecutionResult<T> = Result<T, ExecutionError>;

//@ lift crates/air-lib/interpreter-data/src/generation_idx.rs :: type GenerationIdxType
//@ end
//@ lift crates/air-lib/interpreter-data/src/generation_idx.rs :: struct GenerationIdx
//@ derive Copy Clone
//@ rewrite 1 "GenerationIdx(GenerationIdxType)" => "GenerationIdx(pub GenerationIdxType)"
//@ end
//@ lift air/src/execution_step/value_types/stream/stream_definition.rs :: enum Generation
//@ derive Clone Copy
//@ end

//@ lift crates/air-lib/air-parser/src/parser/span.rs :: struct Span
//@ derive Clone Copy
//@ end
//@ import-spec appends :: span_contains
impl Span {
//@ lift crates/air-lib/air-parser/src/parser/span.rs :: impl Span :: fn contains_position
//@ name Span::contains_position
//@ props C13
//@ ret r
//@ spec
        ensures r == span_contains(*self, position)
//@ end
}

// ---------------------------------------------------------------- shim: trace handler with the ghost log of compactify calls (trusted)
pub struct TraceHandler { pub compacted: Ghost<Seq<(Stream, ExecutionResult<()>)>>, pub x: u8 }

// ---------------------------------------------------------------- shim: value_types::Stream (trusted)
pub struct Stream { pub calls: Ghost<Seq<(ValueAggregate, Generation)>>, pub compactions: Ghost<nat>, pub x: u8 }
//@ import-spec appends :: fresh_stream
impl Stream {
    #[verifier::external_body]
    pub fn new() -> (r: Self)
        ensures r == fresh_stream(), r.calls@ =~= Seq::<(ValueAggregate, Generation)>::empty()
    { unimplemented!() }
    // real: stream_definition.rs Stream::compactify (unit streams: keeps the values and their order, drops empty generations, writes a
    // generation number below the number of values for every value into the trace)
    #[verifier::external_body]
    pub fn compactify(&mut self, trace_ctx: &mut TraceHandler) -> (r: ExecutionResult<()>)
        ensures
            final(self).calls@ == old(self).calls@,
            final(self).compactions@ == old(self).compactions@ + 1,
            final(trace_ctx).compacted@ == old(trace_ctx).compacted@.push((*old(self), r)),
    { unimplemented!() }
}

// ---------------------------------------------------------------- shim: the lookup tables HashMap<String, Vec<D>> (trusted, opaque)
#[verifier::external_body]
#[verifier::reject_recursive_types(K)]
#[verifier::reject_recursive_types(V)]
pub struct HashMap<K, V> { m: std::collections::HashMap<K, V> }
// std::collections::hash_map::{Entry, OccupiedEntry, VacantEntry}: the borrow of the slot the key has / would have
pub struct OccupiedEntry<'a, D> { pub slot: &'a mut Vec<D> }
pub struct VacantEntry<'a, D> { pub slot: &'a mut Option<Vec<D>> }
pub enum Entry<'a, D> { Occupied(OccupiedEntry<'a, D>), Vacant(VacantEntry<'a, D>) }
pub use Entry::Occupied;
pub use Entry::Vacant;
impl<'a, D> OccupiedEntry<'a, D> {
    pub fn get_mut(&mut self) -> (r: &mut Vec<D>)
        ensures *r == *old(self).slot, *final(self).slot == *final(r), *final(final(self).slot) == *final(old(self).slot)
    { &mut *self.slot }
}
impl<'a, D> VacantEntry<'a, D> {
    // real: returns `&'a mut V`; the lifted code drops it
    pub fn insert(self, value: Vec<D>)
        ensures *final(self.slot) == Some(value)
    { *self.slot = Some(value); }
}
#[verifier::external_body]
#[verifier::reject_recursive_types(D)]
pub struct MapIterMut<'a, D> { inner: std::collections::hash_map::IterMut<'a, String, Vec<D>> }
impl<'a, D> Iterator for MapIterMut<'a, D> {
    type Item = (&'a String, &'a mut Vec<D>);
    #[verifier::external_body]
    fn next(&mut self) -> (r: Option<(&'a String, &'a mut Vec<D>)>) { self.inner.next() }
}
impl<'a, D> vstd::std_specs::iter::IteratorSpecImpl for MapIterMut<'a, D> {
    open spec fn obeys_prophetic_iter_laws(&self) -> bool { true }
    #[verifier::prophetic]
    uninterp spec fn remaining(&self) -> Seq<(&'a String, &'a mut Vec<D>)>;
    #[verifier::prophetic]
    open spec fn will_return_none(&self) -> bool { true }
    uninterp spec fn decrease(&self) -> Option<nat>;
    uninterp spec fn peek(&self, index: int) -> Option<(&'a String, &'a mut Vec<D>)>;
}
impl<D> HashMap<String, Vec<D>> {
    pub uninterp spec fn view(&self) -> Map<Seq<char>, Seq<D>>;
    #[verifier::external_body]
    pub fn insert(&mut self, k: String, v: Vec<D>) -> (r: Option<Vec<D>>)
        ensures final(self)@ == old(self)@.insert(k@, v@)
    { unimplemented!() }
    // HashMap::get_mut::<str>: a mutable borrow of exactly the entry under that key
    #[verifier::external_body]
    pub fn get_mut(&mut self, k: &str) -> (r: Option<&mut Vec<D>>)
        ensures
            old(self)@.contains_key(k@) ==> (r matches Some(v) && v@ == old(self)@[k@] && final(self)@ == old(self)@.insert(k@, final(v)@)),
            !old(self)@.contains_key(k@) ==> r is None && final(self)@ == old(self)@,
    { unimplemented!() }
    // HashMap::remove::<str>
    #[verifier::external_body]
    pub fn remove(&mut self, k: &str) -> (r: Option<Vec<D>>)
        ensures
            final(self)@ == old(self)@.remove(k@),
            old(self)@.contains_key(k@) ==> (r matches Some(v) && v@ == old(self)@[k@]),
            !old(self)@.contains_key(k@) ==> r is None,
    { unimplemented!() }
    // HashMap::entry
    #[verifier::external_body]
    pub fn entry(&mut self, k: String) -> (r: Entry<'_, D>)
        ensures
            old(self)@.contains_key(k@) ==> (r matches Entry::Occupied(e) && (*e.slot)@ == old(self)@[k@]
                && final(self)@ == old(self)@.insert(k@, (*final(e.slot))@)),
            !old(self)@.contains_key(k@) ==> (r matches Entry::Vacant(e) && *e.slot is None
                && final(self)@ == (match *final(e.slot) { Some(v) => old(self)@.insert(k@, v@), None => old(self)@ })),
    { unimplemented!() }
    // HashMap::iter_mut
    #[verifier::external_body]
    pub fn iter_mut(&mut self) -> (r: MapIterMut<'_, D>)
        ensures
            r.decrease() is Some,
            // every bound name, and only bound names, each exactly once, with a borrow of exactly its vector
            forall|k: Seq<char>| old(self)@.contains_key(k) ==> exists|i: int| 0 <= i < r.remaining().len() && (#[trigger] r.remaining()[i]).0@ == k,
            forall|i: int| 0 <= i < r.remaining().len() ==> old(self)@.contains_key((#[trigger] r.remaining()[i]).0@)
                && (*r.remaining()[i].1)@ == old(self)@[r.remaining()[i].0@],
            forall|i: int, j: int| 0 <= i < j < r.remaining().len() ==> (#[trigger] r.remaining()[i]).0@ != (#[trigger] r.remaining()[j]).0@,
            final(self)@.dom() == old(self)@.dom(),
            forall|i: int| 0 <= i < r.remaining().len() ==> final(self)@[(#[trigger] r.remaining()[i]).0@] == (*final(r.remaining()[i].1))@,
    { unimplemented!() }
}

// `Iterator::rev` of a slice iterator (a provided method of DoubleEndedIterator, which Verus cannot be given a specification for;
// vstd has no model of `core::iter::Rev`): yields the remaining elements in reverse order, terminates
#[verifier::external_body]
#[verifier::reject_recursive_types(T)]
pub struct RevIter<'a, T> { inner: core::iter::Rev<core::slice::Iter<'a, T>> }
impl<'a, T> Iterator for RevIter<'a, T> {
    type Item = &'a T;
    #[verifier::external_body]
    fn next(&mut self) -> (r: Option<&'a T>) { self.inner.next() }
}
impl<'a, T> vstd::std_specs::iter::IteratorSpecImpl for RevIter<'a, T> {
    open spec fn obeys_prophetic_iter_laws(&self) -> bool { true }
    #[verifier::prophetic]
    uninterp spec fn remaining(&self) -> Seq<&'a T>;
    #[verifier::prophetic]
    open spec fn will_return_none(&self) -> bool { true }
    uninterp spec fn decrease(&self) -> Option<nat>;
    uninterp spec fn peek(&self, index: int) -> Option<&'a T>;
}
pub trait VerifRev<'a, T> { fn verif_rev(self) -> RevIter<'a, T>; }
impl<'a, T> VerifRev<'a, T> for core::slice::Iter<'a, T> {
    #[verifier::external_body]
    fn verif_rev(self) -> (r: RevIter<'a, T>)
        ensures r.decrease() is Some, r.remaining() == self.remaining().reverse()
    { RevIter { inner: self.rev() } }
}

// `name.into()` for the `impl Into<String>` parameter (vstd has no spec for `<&str as Into<String>>::into`, and the orphan rule forbids
// giving one here): `into_text(name)` is the text of the String the conversion returns; for the `&str` both callers pass it is the text
// of the argument (std: `impl From<&str> for String` copies the text)
pub uninterp spec fn into_text<N>(name: N) -> Seq<char>;
#[verifier::external_body]
pub broadcast proof fn axiom_into_text_of_str(name: &str)
    ensures #[trigger] into_text::<&str>(name) == name@
{}
#[verifier::external_body]
pub fn name_into<N: Into<String>>(name: N) -> (r: String)
    ensures r@ == into_text(name)
{ name.into() }
// the `name: impl Into<String>` parameter of the two meet_scope_start, by a signature rewrite: a value that converts into the String
// with its text, so that `name.into()` needs no rewrite wherever the body calls it (both callers pass a `&str`)
pub struct NameArg { pub s: String }
impl NameArg {
    pub fn into(self) -> (r: String) ensures r@ == self.s@ { self.s }
}

// ================================================================ streams_variables.rs
//@ lift air/src/execution_step/execution_context/streams_variables/stream_descriptor.rs :: struct StreamDescriptor
//@ derive
//@ end
impl StreamDescriptor {
//@ lift air/src/execution_step/execution_context/streams_variables/stream_descriptor.rs :: impl StreamDescriptor :: fn restricted
//@ name StreamDescriptor::restricted
//@ props C13
//@ ret r
//@ spec
        ensures r == (StreamDescriptor { span, stream })
//@ end
}

pub type StreamTable = Map<Seq<char>, Seq<StreamDescriptor>>;
//@ import-spec appends :: bound_to still_there kept_in no_stream_lost closest

// ---------------------------------------------------------------- find_closest: the search direction of the getters is `closest`
pub open spec fn ref_spans(ds: Seq<&StreamDescriptor>) -> Seq<Span> { ds.map_values(|d: &StreamDescriptor| d.span) }
// `closest` looks at the spans from the last one down: the ones that do not contain the position can be cut off
pub proof fn lemma_closest_skip_last(spans: Seq<Span>, p: AirPos, k: int)
    requires 0 <= k <= spans.len(), forall|i: int| spans.len() - k <= i < spans.len() ==> !span_contains(#[trigger] spans[i], p)
    ensures closest(spans, p) == closest(spans.take(spans.len() - k), p)
    decreases k
{
    if k == 0 { assert(spans.take(spans.len() as int) =~= spans); }
    else {
        lemma_closest_skip_last(spans.drop_last(), p, k - 1);
        assert(spans.drop_last().take(spans.len() - k) =~= spans.take(spans.len() - k));
    }
}
// (the immutable twin of `find_closest_mut`, whose contract unit appends states by hand for `Streams::get_mut`)
//@ lift air/src/execution_step/execution_context/streams_variables/stream_descriptor.rs :: fn find_closest
//@ props C13 C01
//@ ret r
//@ sig 1 "impl DoubleEndedIterator<Item = &'d StreamDescriptor>" => "core::slice::Iter<'d, StreamDescriptor>"
//@ rewrite 1 "in descriptors.rev()" => "in it: descriptors.verif_rev()"
//@ spec
    ensures
        // the LAST descriptor whose scope contains the position (descriptors are ordered by decreasing scope), None if there is none
        match closest(ref_spans(descriptors.remaining()), position) {
            Some(i) => r == Some(&descriptors.remaining()[i].stream),
            None => r is None,
        },
//@ before "for descriptor in descriptors.rev()"
    let ghost ds = descriptors.remaining();
//@ loop 0
        invariant
            ds == descriptors.remaining(),
            it.snapshot@.remaining() == ds.reverse(),
            forall|i: int| ds.len() - it.index@ <= i < ds.len() ==> !span_contains((#[trigger] ds[i]).span, position),
//@ before "if descriptor.span.contains_position(position)"
        proof {
            let k = it.index@;
            assert(ds.reverse()[k] == ds[ds.len() - 1 - k]);
            lemma_closest_skip_last(ref_spans(ds), position, k);
            assert(ref_spans(ds).take(ds.len() - k).last() == ds[ds.len() - 1 - k].span);
        }
//@ before "return Some(&descriptor.stream);"
            proof {
                let k = it.index@;
                assert(descriptor == ds[ds.len() - 1 - k]);
                assert(ref_spans(ds).take(ds.len() - k).len() == ds.len() - k);
                assert(closest(ref_spans(ds).take(ds.len() - k), position) == Some(ds.len() - k - 1));
            }
//@ before "None"
    proof { lemma_closest_skip_last(ref_spans(ds), position, ds.len() as int); }
//@ end

// ---------------------------------------------------------------- the vocabulary of the contracts
pub type Calls = Seq<(Stream, ExecutionResult<()>)>;
// C10: the handler saw exactly one more `Stream::compactify`, of the stream `s` as it was (with every append it held), which returned `r`
pub open spec fn one_compactify(h0: TraceHandler, h1: TraceHandler, s: Stream, r: ExecutionResult<()>) -> bool {
    h1.compacted@ == h0.compacted@.push((s, r))
}
// the compactify calls made with the handler between two states
pub open spec fn new_calls(h0: TraceHandler, h1: TraceHandler) -> Calls { h1.compacted@.skip(h0.compacted@.len() as int) }
pub open spec fn only_grew(h0: TraceHandler, h1: TraceHandler) -> bool {
    h0.compacted@.len() <= h1.compacted@.len() && forall|i: int| 0 <= i < h0.compacted@.len() ==> h1.compacted@[i] == h0.compacted@[i]
}
// "stops at the first error": every call but the last succeeded, and the result is the last call's (Ok if there was none)
pub open spec fn stops_at_first_error(calls: Calls, r: ExecutionResult<()>) -> bool {
    &&& forall|i: int| 0 <= i < calls.len() - 1 ==> (#[trigger] calls[i]).1 is Ok
    &&& r is Ok ==> (calls.len() > 0 ==> calls.last().1 is Ok)
    &&& r is Err ==> calls.len() > 0 && calls.last().1 == r
}
// the descriptor after one `compactify` of its stream: same scope, same appends
pub open spec fn compactified_once(d0: StreamDescriptor, d1: StreamDescriptor) -> bool {
    d1.span == d0.span && d1.stream.calls@ == d0.stream.calls@ && d1.stream.compactions@ == d0.stream.compactions@ + 1
}
// same names, same number of descriptors under each
pub open spec fn same_shape(t0: StreamTable, t1: StreamTable) -> bool {
    &&& t1.dom() =~= t0.dom()
    &&& forall|n: Seq<char>| t0.contains_key(n) ==> (#[trigger] t1[n]).len() == t0[n].len()
}
pub open spec fn is_stream_of(t: StreamTable, s: Stream) -> bool {
    exists|n: Seq<char>, j: int| t.contains_key(n) && 0 <= j < t[n].len() && (#[trigger] t[n][j]).stream == s
}
pub open spec fn logged(calls: Calls, s: Stream) -> bool {
    exists|i: int| 0 <= i < calls.len() && (#[trigger] calls[i]).0 == s
}
// EVERY stream of EVERY descriptor of EVERY name was compactified (exactly once), as it was, with this handler
pub open spec fn all_compactified(t0: StreamTable, t1: StreamTable, calls: Calls) -> bool {
    forall|n: Seq<char>, j: int| #![trigger t0[n][j]] t0.contains_key(n) && 0 <= j < t0[n].len() ==>
        compactified_once(t0[n][j], t1[n][j]) && logged(calls, t0[n][j].stream)
}
// C10, the contract of `compactify` over a whole table
pub open spec fn table_compactified(t0: StreamTable, t1: StreamTable, h0: TraceHandler, h1: TraceHandler, r: ExecutionResult<()>) -> bool {
    &&& t1.dom() =~= t0.dom()
    // only streams of the table are handed to Stream::compactify; the calls stop at the first error, which is returned
    &&& only_grew(h0, h1)
    &&& forall|i: int| 0 <= i < new_calls(h0, h1).len() ==> is_stream_of(t0, (#[trigger] new_calls(h0, h1)[i]).0)
    &&& stops_at_first_error(new_calls(h0, h1), r)
    // Ok (the only case in which data is produced: farewell_step/outcome.rs compactify_streams): every stream was, and the table keeps
    // its names, scopes and appended values. On Err nothing is said about the streams not yet visited (Verus does not know that an
    // `IterMut` dropped early leaves the items it has not yielded as they are); the caller drops the context.
    &&& r is Ok ==> same_shape(t0, t1) && all_compactified(t0, t1, new_calls(h0, h1))
}
pub broadcast proof fn lemma_skip_push<T>(s: Seq<T>, k: int, x: T)
    requires 0 <= k <= s.len()
    ensures #[trigger] s.push(x).skip(k) =~= s.skip(k).push(x)
{}
pub broadcast proof fn lemma_logged_push(calls: Calls, x: (Stream, ExecutionResult<()>), s: Stream)
    ensures #[trigger] logged(calls.push(x), s) <==> (logged(calls, s) || x.0 == s)
{
    if logged(calls, s) {
        let i = choose|i: int| 0 <= i < calls.len() && (#[trigger] calls[i]).0 == s;
        assert(calls.push(x)[i].0 == s);
    }
    if x.0 == s { assert(calls.push(x)[calls.len() as int].0 == s); }
    if logged(calls.push(x), s) {
        let i = choose|i: int| 0 <= i < calls.push(x).len() && (#[trigger] calls.push(x)[i]).0 == s;
        if i < calls.len() { assert(calls[i].0 == s); }
    }
}

// ---------------------------------------------------------------- the call-order fact behind `requires` of meet_scope_end
// Unit control_exec proves depth(scope log of the owning object, name) > 0 at the call of meet_scope_end. `depth <= bound_to(table, name).len()`
// is kept by every operation on the table: each step below changes the length exactly as the matching scope event changes the depth
// (Start +1 / End -1 for that name only), and an append (`one_append`, the contract of every append in unit appends) or a compactify
// (`same_shape`) never shortens any list. Hence depth > 0 ==> a descriptor is bound. (Hand-written; the induction over the run is not mechanised.)
//@ import-spec appends :: global_span stream_spans lookup one_more is_new_global add_value_res append_res one_append
//@ lemma scope_len_steps props C01 C13
proof fn scope_len_steps(t0: StreamTable, name: Seq<char>, d: StreamDescriptor, t_app: StreamTable, p: AirPos, v: ValueAggregate, g: Generation, t_cmp: StreamTable)
    requires one_append(t0, t_app, name, p, v, g), same_shape(t0, t_cmp)
    ensures
        // meet_scope_start
        ({ let t1 = t0.insert(name, bound_to(t0, name).push(d));
           bound_to(t1, name).len() == bound_to(t0, name).len() + 1 && forall|n: Seq<char>| n != name ==> bound_to(t1, n) == bound_to(t0, n) }),
        // meet_scope_end
        t0.contains_key(name) && t0[name].len() > 0 ==> ({
            let t1 = if t0[name].len() == 1 { t0.remove(name) } else { t0.insert(name, t0[name].drop_last()) };
            bound_to(t1, name).len() == bound_to(t0, name).len() - 1 && forall|n: Seq<char>| n != name ==> bound_to(t1, n) == bound_to(t0, n) }),
        // an append, a compactify
        forall|n: Seq<char>| bound_to(t_app, n).len() >= bound_to(t0, n).len(),
        forall|n: Seq<char>| bound_to(t_cmp, n).len() == bound_to(t0, n).len(),
{
    assert forall|n: Seq<char>| bound_to(t_app, n).len() >= bound_to(t0, n).len() by {
        if lookup(t0, name, p) is None && !(append_res(t0, name, p, v, g) is Err) && n == name { assert(t_app.dom().contains(name)); }
    }
    assert forall|n: Seq<char>| bound_to(t_cmp, n).len() == bound_to(t0, n).len() by {
        assert(t_cmp.contains_key(n) == t0.contains_key(n));
    }
}
//@ end

//@ lift air/src/execution_step/execution_context/streams_variables.rs :: struct Streams
//@ pub-fields
//@ derive
//@ end
impl Streams {
    pub open spec fn view(&self) -> StreamTable { self.streams@ }

//@ lift air/src/execution_step/execution_context/streams_variables.rs :: impl Streams :: fn meet_scope_start
//@ name Streams::meet_scope_start
//@ props C13 C10 C01
//@ sig 1 "name: impl Into<String>" => "name: NameArg"
//@ at-start
        let ghost name_text = name.s@;
//@ at-end
        assert(self.streams@[name_text] =~= bound_to(old(self)@, name_text).push(StreamDescriptor { span, stream: fresh_stream() }));
//@ spec
        ensures
            // every descriptor that was bound to the name still is, in the same order, followed by the new restricted one (empty stream);
            // every other name is untouched
            final(self)@ == old(self)@.insert(name.s@,
                bound_to(old(self)@, name.s@).push(StreamDescriptor { span, stream: fresh_stream() })),
            // C13
            no_stream_lost(old(self)@, final(self)@),
//@ end

//@ lift air/src/execution_step/execution_context/streams_variables.rs :: impl Streams :: fn meet_scope_end
//@ name Streams::meet_scope_end
//@ props C13 C10 C01
//@ ret r
//@ spec
        requires
            // "met_scope_end must be called after met_scope_start" (the two unwraps): control_exec :: epilog / New::execute
            old(self)@.contains_key(name@), old(self)@[name@].len() > 0,
        ensures
            // exactly the LAST descriptor bound to the name is removed ...
            bound_to(final(self)@, name@) =~= old(self)@[name@].drop_last(),
            // ... the name goes iff nothing else is bound to it, every other name is untouched
            final(self)@ == (if old(self)@[name@].len() == 1 { old(self)@.remove(name@) } else { old(self)@.insert(name@, old(self)@[name@].drop_last()) }),
            // C10: the stream that leaves the table is compactified, with all its appends, and that call's result is returned
            one_compactify(*old(trace_ctx), *final(trace_ctx), old(self)@[name@].last().stream, r),
//@ end

// loop_isolation(false): the loop bodies must know what `iter_mut()` promised about the final value of the borrowed table
// (the `?` inside the inner loop is an exit of the function)
#[verifier::loop_isolation(false)]
//@ lift air/src/execution_step/execution_context/streams_variables.rs :: impl Streams :: fn compactify
//@ name Streams::compactify
//@ props C10 C13 C01
//@ ret r
//@ rewrite 1 "in self.streams.iter_mut()" => "in it: self.streams.iter_mut()"
//@ rewrite 1 "for descriptor in descriptors" => "for descriptor in it2: descriptors.iter_mut()"
//@ spec
        ensures table_compactified(old(self)@, final(self)@, *old(trace_ctx), *final(trace_ctx), r)
//@ loop 0
          invariant
            only_grew(*old(trace_ctx), *trace_ctx),
            forall|c: int| 0 <= c < new_calls(*old(trace_ctx), *trace_ctx).len() ==> (#[trigger] new_calls(*old(trace_ctx), *trace_ctx)[c]).1 is Ok
                && is_stream_of(old(self)@, new_calls(*old(trace_ctx), *trace_ctx)[c].0),
            forall|i: int| 0 <= i < it.index@ ==> (*final((#[trigger] it.snapshot@.remaining()[i]).1))@.len() == old(self)@[it.snapshot@.remaining()[i].0@].len(),
            forall|i: int, j: int| 0 <= i < it.index@ && 0 <= j < old(self)@[it.snapshot@.remaining()[i].0@].len() ==>
                compactified_once(#[trigger] old(self)@[it.snapshot@.remaining()[i].0@][j], (*final(it.snapshot@.remaining()[i].1))@[j])
                && logged(new_calls(*old(trace_ctx), *trace_ctx), old(self)@[it.snapshot@.remaining()[i].0@][j].stream),
//@ before "for descriptor in descriptors"
            let ghost ds0 = descriptors@;
            let ghost key = it.snapshot@.remaining()[it.index@].0@;
            assert(ds0 == old(self)@[key]);
//@ loop 1
              invariant
                only_grew(*old(trace_ctx), *trace_ctx),
                forall|c: int| 0 <= c < new_calls(*old(trace_ctx), *trace_ctx).len() ==> (#[trigger] new_calls(*old(trace_ctx), *trace_ctx)[c]).1 is Ok
                    && is_stream_of(old(self)@, new_calls(*old(trace_ctx), *trace_ctx)[c].0),
                forall|i: int, j: int| 0 <= i < it.index@ && 0 <= j < old(self)@[it.snapshot@.remaining()[i].0@].len() ==>
                    logged(new_calls(*old(trace_ctx), *trace_ctx), (#[trigger] old(self)@[it.snapshot@.remaining()[i].0@][j]).stream),
                it2.snapshot@.remaining().len() == ds0.len(),
                forall|j: int| 0 <= j < ds0.len() ==> *(#[trigger] it2.snapshot@.remaining()[j]) == ds0[j],
                forall|j: int| 0 <= j < it2.index@ ==> compactified_once(ds0[j], *final(#[trigger] it2.snapshot@.remaining()[j])),
                forall|j: int| 0 <= j < it2.index@ ==> logged(new_calls(*old(trace_ctx), *trace_ctx), (#[trigger] ds0[j]).stream),
//@ before "descriptor.stream.compactify(trace_ctx)?;"
                proof {
                    broadcast use {lemma_skip_push, lemma_logged_push};
                    assert(old(self)@[key][it2.index@] == ds0[it2.index@]);
                    assert(is_stream_of(old(self)@, descriptor.stream));
                }
                let ghost h_prev = *trace_ctx;
                let ghost s_prev = descriptor.stream;
//@ after "descriptor.stream.compactify(trace_ctx)?;"
                proof {
                    assert(new_calls(*old(trace_ctx), *trace_ctx) =~= new_calls(*old(trace_ctx), h_prev).push(trace_ctx.compacted@.last()));
                    assert(new_calls(*old(trace_ctx), *trace_ctx).last().0 == s_prev);
                    assert(logged(new_calls(*old(trace_ctx), *trace_ctx), s_prev));
                }
//@ after "            }"
            proof {     // (anchor: the closing brace of the inner loop) what the inner loop did to this name's vector
                assert(descriptors@.len() == ds0.len());
                assert(forall|j: int| 0 <= j < ds0.len() ==> compactified_once(ds0[j], #[trigger] descriptors@[j]));
                assert(forall|j: int| 0 <= j < ds0.len() ==> logged(new_calls(*old(trace_ctx), *trace_ctx), (#[trigger] ds0[j]).stream));
            }
//@ end
}

// ================================================================ stream_map.rs, stream_maps_variables.rs
//@ lift air/src/execution_step/value_types/stream_map.rs :: struct StreamMap
//@ pub-fields
//@ derive
//@ end
impl StreamMap {
//@ lift air/src/execution_step/value_types/stream_map.rs :: impl StreamMap :: fn new
//@ name StreamMap::new
//@ props C13
//@ ret r
//@ spec
        ensures r == (StreamMap { stream: fresh_stream() })
//@ end
//@ lift air/src/execution_step/value_types/stream_map.rs :: impl StreamMap :: fn compactify
//@ name StreamMap::compactify
//@ props C10
//@ ret r
//@ spec
        ensures
            // the map's stream, with all its appends, is compactified and that call's result is returned
            one_compactify(*old(trace_ctx), *final(trace_ctx), old(self).stream, r),
            final(self).stream.calls@ == old(self).stream.calls@,
            final(self).stream.compactions@ == old(self).stream.compactions@ + 1,
//@ end
}

//@ lift air/src/execution_step/execution_context/stream_maps_variables.rs :: struct StreamMapDescriptor
//@ derive
//@ end
impl StreamMapDescriptor {
//@ lift air/src/execution_step/execution_context/stream_maps_variables.rs :: impl StreamMapDescriptor :: fn restricted
//@ name StreamMapDescriptor::restricted
//@ props C13
//@ ret r
//@ spec
        ensures r == (StreamMapDescriptor { span, stream_map })
//@ end
}

// the table of stream maps, and the same seen as a table of their underlying streams (as in unit appends)
pub type StreamMapTable = Map<Seq<char>, Seq<StreamMapDescriptor>>;
//@ import-spec appends :: as_stream_descriptor as_streams
pub open spec fn maps_bound_to(t: StreamMapTable, name: Seq<char>) -> Seq<StreamMapDescriptor> {
    if t.contains_key(name) { t[name] } else { Seq::empty() }
}
// the restricted descriptor `new` creates: the scope of the `new`, an empty map
pub open spec fn new_map_descriptor(span: Span) -> StreamMapDescriptor {
    StreamMapDescriptor { span, stream_map: StreamMap { stream: fresh_stream() } }
}

//@ lift air/src/execution_step/execution_context/stream_maps_variables.rs :: struct StreamMaps
//@ pub-fields
//@ derive
//@ end
impl StreamMaps {
    pub open spec fn view(&self) -> StreamMapTable { self.stream_maps@ }

//@ lift air/src/execution_step/execution_context/stream_maps_variables.rs :: impl StreamMaps :: fn meet_scope_start
//@ name StreamMaps::meet_scope_start
//@ props C13 C10 C01
//@ sig 1 "name: impl Into<String>" => "name: NameArg"
//@ at-start
        let ghost name_text = name.s@;
//@ at-end
        assert(self.stream_maps@[name_text] =~= maps_bound_to(old(self)@, name_text).push(new_map_descriptor(span)));
        assert(as_streams(self.stream_maps@)[name_text] =~= bound_to(as_streams(old(self)@), name_text).push(as_stream_descriptor(new_map_descriptor(span))));
//@ spec
        ensures
            // every descriptor that was bound to the name still is, in the same order, followed by the new restricted one (empty map);
            // every other name is untouched
            final(self)@ == old(self)@.insert(name.s@, maps_bound_to(old(self)@, name.s@).push(new_map_descriptor(span))),
            // C13
            no_stream_lost(as_streams(old(self)@), as_streams(final(self)@)),
//@ end

//@ lift air/src/execution_step/execution_context/stream_maps_variables.rs :: impl StreamMaps :: fn meet_scope_end
//@ name StreamMaps::meet_scope_end
//@ props C13 C10 C01
//@ ret r
//@ spec
        requires
            // "met_scope_end must be called after met_scope_start" (the two unwraps): control_exec :: epilog / New::execute
            old(self)@.contains_key(name@), old(self)@[name@].len() > 0,
        ensures
            // exactly the LAST descriptor bound to the name is removed ...
            maps_bound_to(final(self)@, name@) =~= old(self)@[name@].drop_last(),
            // ... the name goes iff nothing else is bound to it, every other name is untouched
            final(self)@ == (if old(self)@[name@].len() == 1 { old(self)@.remove(name@) } else { old(self)@.insert(name@, old(self)@[name@].drop_last()) }),
            // C10: the stream of the map that leaves the table is compactified, with all its appends, and that call's result is returned
            one_compactify(*old(trace_ctx), *final(trace_ctx), old(self)@[name@].last().stream_map.stream, r),
//@ end

#[verifier::loop_isolation(false)]
//@ lift air/src/execution_step/execution_context/stream_maps_variables.rs :: impl StreamMaps :: fn compactify
//@ name StreamMaps::compactify
//@ props C10 C13 C01
//@ ret r
//@ rewrite 1 "in self.stream_maps.iter_mut()" => "in it: self.stream_maps.iter_mut()"
//@ rewrite 1 "in descriptors.iter_mut()" => "in it2: descriptors.iter_mut()"
//@ spec
        ensures table_compactified(as_streams(old(self)@), as_streams(final(self)@), *old(trace_ctx), *final(trace_ctx), r)
//@ loop 0
          invariant
            only_grew(*old(trace_ctx), *trace_ctx),
            forall|c: int| 0 <= c < new_calls(*old(trace_ctx), *trace_ctx).len() ==> (#[trigger] new_calls(*old(trace_ctx), *trace_ctx)[c]).1 is Ok
                && is_stream_of(as_streams(old(self)@), new_calls(*old(trace_ctx), *trace_ctx)[c].0),
            forall|i: int| 0 <= i < it.index@ ==> (*final((#[trigger] it.snapshot@.remaining()[i]).1))@.len() == old(self)@[it.snapshot@.remaining()[i].0@].len(),
            forall|i: int, j: int| 0 <= i < it.index@ && 0 <= j < old(self)@[it.snapshot@.remaining()[i].0@].len() ==>
                compactified_once(as_stream_descriptor(#[trigger] old(self)@[it.snapshot@.remaining()[i].0@][j]), as_stream_descriptor((*final(it.snapshot@.remaining()[i].1))@[j]))
                && logged(new_calls(*old(trace_ctx), *trace_ctx), old(self)@[it.snapshot@.remaining()[i].0@][j].stream_map.stream),
//@ before "for descriptor in descriptors"
            let ghost ds0 = descriptors@;
            let ghost key = it.snapshot@.remaining()[it.index@].0@;
            assert(ds0 == old(self)@[key]);
//@ loop 1
              invariant
                only_grew(*old(trace_ctx), *trace_ctx),
                forall|c: int| 0 <= c < new_calls(*old(trace_ctx), *trace_ctx).len() ==> (#[trigger] new_calls(*old(trace_ctx), *trace_ctx)[c]).1 is Ok
                    && is_stream_of(as_streams(old(self)@), new_calls(*old(trace_ctx), *trace_ctx)[c].0),
                forall|i: int, j: int| 0 <= i < it.index@ && 0 <= j < old(self)@[it.snapshot@.remaining()[i].0@].len() ==>
                    logged(new_calls(*old(trace_ctx), *trace_ctx), (#[trigger] old(self)@[it.snapshot@.remaining()[i].0@][j]).stream_map.stream),
                it2.snapshot@.remaining().len() == ds0.len(),
                forall|j: int| 0 <= j < ds0.len() ==> *(#[trigger] it2.snapshot@.remaining()[j]) == ds0[j],
                forall|j: int| 0 <= j < it2.index@ ==> compactified_once(as_stream_descriptor(ds0[j]), as_stream_descriptor(*final(#[trigger] it2.snapshot@.remaining()[j]))),
                forall|j: int| 0 <= j < it2.index@ ==> logged(new_calls(*old(trace_ctx), *trace_ctx), (#[trigger] ds0[j]).stream_map.stream),
//@ before "descriptor.stream_map.compactify(trace_ctx)?;"
                proof {
                    broadcast use {lemma_skip_push, lemma_logged_push};
                    assert(old(self)@[key][it2.index@] == ds0[it2.index@]);
                    assert(as_streams(old(self)@)[key][it2.index@] == as_stream_descriptor(ds0[it2.index@]));
                    assert(is_stream_of(as_streams(old(self)@), descriptor.stream_map.stream));
                }
                let ghost h_prev = *trace_ctx;
                let ghost s_prev = descriptor.stream_map.stream;
//@ after "descriptor.stream_map.compactify(trace_ctx)?;"
                proof {
                    assert(new_calls(*old(trace_ctx), *trace_ctx) =~= new_calls(*old(trace_ctx), h_prev).push(trace_ctx.compacted@.last()));
                    assert(new_calls(*old(trace_ctx), *trace_ctx).last().0 == s_prev);
                    assert(logged(new_calls(*old(trace_ctx), *trace_ctx), s_prev));
                }
//@ after "            }"
            proof {     // (anchor: the closing brace of the inner loop) what the inner loop did to this name's vector
                assert(descriptors@.len() == ds0.len());
                assert(forall|j: int| 0 <= j < ds0.len() ==> compactified_once(as_stream_descriptor(ds0[j]), as_stream_descriptor(#[trigger] descriptors@[j])));
                assert(forall|j: int| 0 <= j < ds0.len() ==> logged(new_calls(*old(trace_ctx), *trace_ctx), (#[trigger] ds0[j]).stream_map.stream));
            }
//@ end
}

} // verus!
fn main() {}
