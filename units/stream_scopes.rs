//@ unit stream_scopes
// The scope functions of the two stream tables (properties C10 "every stream ... is compactified before the data is produced",
// C13 "no stream value is lost", C01 "no panic"):
//   air/src/execution_step/execution_context/streams_variables.rs       Streams::{new, meet_scope_start, meet_scope_end, compactify}
//   air/src/execution_step/execution_context/streams_variables/stream_descriptor.rs   StreamDescriptor::restricted
//   air/src/execution_step/execution_context/stream_maps_variables.rs   StreamMaps::{meet_scope_start, meet_scope_end, compactify},
//                                                                       StreamMapDescriptor::restricted
//   air/src/execution_step/value_types/stream_map.rs                    StreamMap::{new, compactify}
// Abstract view (the one of unit appends, whose vocabulary is imported with `//@ import-spec`): `table: Map<name, Seq<descriptor>>`.
//   meet_scope_start(name, span)  table' == table.insert(name, bound_to(table, name).push(restricted(fresh stream, span)))
//   meet_scope_end(name, trace)   exactly the LAST descriptor of `name` leaves the table, the name leaves it iff nothing else is bound to
//                                 it, the stream that left was handed to Stream::compactify (with all its appends) and the result
//                                 returned is that call's result
//   compactify(trace)             Ok: every stream of every descriptor of every name was handed to Stream::compactify exactly once;
//                                 Err: the calls made stop at the first one that failed, whose error is returned; the table keeps its
//                                 names, spans and appended values in both cases
// The precondition of meet_scope_end ("the name is bound to at least one descriptor" -- the two `unwrap()`s) is a call-order fact:
// unit control_exec proves at the only call site (obligations `epilog` and `New::execute`, from `balanced` of the body) that the scope
// log of the owning object has depth > 0 for that name. The step from "depth > 0 in the ghost scope log of control_exec's shim" to
// "a descriptor is bound in the real table" is NOT mechanical: it is the invariant depth(log, name) <= bound_to(table, name).len(),
// which every contract here and in unit appends keeps (start: +1 on both sides; end: -1 on both sides; an append never shortens a
// list -- `one_append`; compactify keeps every length), see lemma `scope_len_steps`.
//
// Ghost logs: `Stream.calls` (as in unit appends) is the sequence of `add_value` calls made on that stream object; `Stream.compactions`
// counts the `compactify` calls made on it; `TraceHandler.compacted` is the sequence of (stream as it was, result returned) of all
// `Stream::compactify(.., trace_ctx)` calls made with that handler.
//
// Trusted part of this file:
//  * `Stream` (value_types::Stream): opaque, same shim as unit appends plus `compactify` -- a callee stub: appends nothing to and removes
//    nothing from `calls`, logs itself and its result in the handler. What compactify does to the content and which generation numbers
//    it writes is `streams :: Stream::compactify` (the shims differ: that unit sees the three value matrices, this one the call log,
//    so the contract cannot be imported with `//@ stub`).
//  * `HashMap<String, Vec<D>>`: opaque as in unit appends (ghost view `Map<Seq<char>, Seq<D>>`; `get_mut`, `insert` same text), plus
//      `remove(name)`   = `Map::remove` under the key's contents, returns the vector that was bound;
//      `entry(name)`    = `Occupied(e)` iff the name is bound, `e.get_mut()` being a mutable borrow of exactly that vector;
//                         `Vacant(e)` otherwise, `e.insert(v)` binding the name to `v`, the map unchanged if `insert` is not called
//                         (OccupiedEntry / VacantEntry are transparent structs around that borrow; std's have more methods);
//      `iter_mut()`     yields every bound name exactly once, in an unspecified order, with a mutable borrow of exactly its vector;
//                         terminates. (The same three facts vstd states for `HashMap::iter`, plus distinctness of the keys.)
//  * `impl Into<String>` (the name parameter of meet_scope_start; both callers pass `&str`): `into_text(name)` is the text of the
//    String `name.into()` returns -- vstd's `IntoSpec::into_spec` when the conversion has a spec, an uninterpreted function of `name` otherwise.
//  * `From<T> for T` is the identity (the `?` in compactify); `vec![x]` is vstd's.
// Rewrites: the two loop heads of each `compactify` get a named ghost iterator (`for x in it: ..`), and
//   `for descriptor in descriptors` (`&mut Vec<D>`: `IntoIterator for &mut Vec<T>` is `self.iter_mut()`, std) is spelled `descriptors.iter_mut()`.
// NOT here: `Streams::{get, get_mut}` / `StreamMaps::{get, get_mut}` and `find_closest*` (`.rev()` on an `impl DoubleEndedIterator`,
//   closures returning borrows: outside Verus; unit appends states their contract by hand).
use vstd::prelude::*;
use vstd::std_specs::iter::IteratorSpec;
verus! {

pub assume_specification<T>[ <T as core::convert::From<T>>::from ](t: T) -> (r: T) ensures r == t;

// ---------------------------------------------------------------- shim: opaque data (trusted; same text as unit appends)
#[derive(Clone, Copy)]
pub struct AirPos(pub usize);
pub struct ValueAggregate { pub x: u64 }
pub struct ExecutionError { pub x: u8 }
pub type ExecutionResult<T> = Result<T, ExecutionError>;

//@ lift crates/air-lib/interpreter-data/src/generation_idx.rs :: type GenerationIdxType
//@ end
//@ lift crates/air-lib/interpreter-data/src/generation_idx.rs :: struct GenerationIdx
//@ derive Copy Clone
//@ rewrite 1 "GenerationIdx(GenerationIdxType)" => "GenerationIdx(pub GenerationIdxType)"
//@ end
//@ lift air/src/execution_step/value_types/stream/stream_definition.rs :: enum Generation
//@ derive Clone Copy
//@ end

//@ lift crates/air-lib/air-parser/src/parser/span.rs :: struct Span
//@ derive Clone Copy
//@ end

// ---------------------------------------------------------------- shim: trace handler with the ghost log of compactify calls (trusted)
pub struct TraceHandler { pub compacted: Ghost<Seq<(Stream, ExecutionResult<()>)>>, pub x: u8 }

// ---------------------------------------------------------------- shim: value_types::Stream (trusted)
pub struct Stream { pub calls: Ghost<Seq<(ValueAggregate, Generation)>>, pub compactions: Ghost<nat>, pub x: u8 }
//@ import-spec appends :: fresh_stream
impl Stream {
    #[verifier::external_body]
    pub fn new() -> (r: Self)
        ensures r == fresh_stream(), r.calls@ =~= Seq::<(ValueAggregate, Generation)>::empty()
    { unimplemented!() }
    // real: stream_definition.rs Stream::compactify (unit streams: keeps the values and their order, drops empty generations, writes a
    // generation number below the number of values for every value into the trace)
    #[verifier::external_body]
    pub fn compactify(&mut self, trace_ctx: &mut TraceHandler) -> (r: ExecutionResult<()>)
        ensures
            final(self).calls@ == old(self).calls@,
            final(self).compactions@ == old(self).compactions@ + 1,
            final(trace_ctx).compacted@ == old(trace_ctx).compacted@.push((*old(self), r)),
    { unimplemented!() }
}

// ---------------------------------------------------------------- shim: the lookup tables HashMap<String, Vec<D>> (trusted, opaque)
#[verifier::external_body]
#[verifier::reject_recursive_types(K)]
#[verifier::reject_recursive_types(V)]
pub struct HashMap<K, V> { m: std::collections::HashMap<K, V> }
// std::collections::hash_map::{Entry, OccupiedEntry, VacantEntry}: the borrow of the slot the key has / would have
pub struct OccupiedEntry<'a, D> { pub slot: &'a mut Vec<D> }
pub struct VacantEntry<'a, D> { pub slot: &'a mut Option<Vec<D>> }
pub enum Entry<'a, D> { Occupied(OccupiedEntry<'a, D>), Vacant(VacantEntry<'a, D>) }
pub use Entry::Occupied;
pub use Entry::Vacant;
impl<'a, D> OccupiedEntry<'a, D> {
    pub fn get_mut(&mut self) -> (r: &mut Vec<D>)
        ensures *r == *old(self).slot, *final(self).slot == *final(r), *final(final(self).slot) == *final(old(self).slot)
    { &mut *self.slot }
}
impl<'a, D> VacantEntry<'a, D> {
    // real: returns `&'a mut V`; the lifted code drops it
    pub fn insert(self, value: Vec<D>)
        ensures *final(self.slot) == Some(value)
    { *self.slot = Some(value); }
}
#[verifier::external_body]
#[verifier::reject_recursive_types(D)]
pub struct MapIterMut<'a, D> { inner: std::collections::hash_map::IterMut<'a, String, Vec<D>> }
impl<'a, D> Iterator for MapIterMut<'a, D> {
    type Item = (&'a String, &'a mut Vec<D>);
    #[verifier::external_body]
    fn next(&mut self) -> (r: Option<(&'a String, &'a mut Vec<D>)>) { self.inner.next() }
}
impl<'a, D> vstd::std_specs::iter::IteratorSpecImpl for MapIterMut<'a, D> {
    open spec fn obeys_prophetic_iter_laws(&self) -> bool { true }
    #[verifier::prophetic]
    uninterp spec fn remaining(&self) -> Seq<(&'a String, &'a mut Vec<D>)>;
    #[verifier::prophetic]
    open spec fn will_return_none(&self) -> bool { true }
    uninterp spec fn decrease(&self) -> Option<nat>;
    uninterp spec fn peek(&self, index: int) -> Option<(&'a String, &'a mut Vec<D>)>;
}
impl<D> HashMap<String, Vec<D>> {
    pub uninterp spec fn view(&self) -> Map<Seq<char>, Seq<D>>;
    #[verifier::external_body]
    pub fn insert(&mut self, k: String, v: Vec<D>) -> (r: Option<Vec<D>>)
        ensures final(self)@ == old(self)@.insert(k@, v@)
    { unimplemented!() }
    // HashMap::get_mut::<str>: a mutable borrow of exactly the entry under that key
    #[verifier::external_body]
    pub fn get_mut(&mut self, k: &str) -> (r: Option<&mut Vec<D>>)
        ensures
            old(self)@.contains_key(k@) ==> (r matches Some(v) && v@ == old(self)@[k@] && final(self)@ == old(self)@.insert(k@, final(v)@)),
            !old(self)@.contains_key(k@) ==> r is None && final(self)@ == old(self)@,
    { unimplemented!() }
    // HashMap::remove::<str>
    #[verifier::external_body]
    pub fn remove(&mut self, k: &str) -> (r: Option<Vec<D>>)
        ensures
            final(self)@ == old(self)@.remove(k@),
            old(self)@.contains_key(k@) ==> (r matches Some(v) && v@ == old(self)@[k@]),
            !old(self)@.contains_key(k@) ==> r is None,
    { unimplemented!() }
    // HashMap::entry
    #[verifier::external_body]
    pub fn entry(&mut self, k: String) -> (r: Entry<'_, D>)
        ensures
            old(self)@.contains_key(k@) ==> (r matches Entry::Occupied(e) && (*e.slot)@ == old(self)@[k@]
                && final(self)@ == old(self)@.insert(k@, (*final(e.slot))@)),
            !old(self)@.contains_key(k@) ==> (r matches Entry::Vacant(e) && *e.slot is None
                && final(self)@ == (match *final(e.slot) { Some(v) => old(self)@.insert(k@, v@), None => old(self)@ })),
    { unimplemented!() }
    // HashMap::iter_mut
    #[verifier::external_body]
    pub fn iter_mut(&mut self) -> (r: MapIterMut<'_, D>)
        ensures
            r.decrease() is Some,
            // every bound name, and only bound names, each exactly once, with a borrow of exactly its vector
            forall|k: Seq<char>| old(self)@.contains_key(k) ==> exists|i: int| 0 <= i < r.remaining().len() && (#[trigger] r.remaining()[i]).0@ == k,
            forall|i: int| 0 <= i < r.remaining().len() ==> old(self)@.contains_key((#[trigger] r.remaining()[i]).0@)
                && (*r.remaining()[i].1)@ == old(self)@[r.remaining()[i].0@],
            forall|i: int, j: int| 0 <= i < j < r.remaining().len() ==> (#[trigger] r.remaining()[i]).0@ != (#[trigger] r.remaining()[j]).0@,
            final(self)@.dom() == old(self)@.dom(),
            forall|i: int| 0 <= i < r.remaining().len() ==> final(self)@[(#[trigger] r.remaining()[i]).0@] == (*final(r.remaining()[i].1))@,
    { unimplemented!() }
}

// `name.into()` for the `impl Into<String>` parameter (vstd has no spec for `<&str as Into<String>>::into`, and the orphan rule forbids
// giving one here): `into_text(name)` is the text of the String the conversion returns; for the `&str` both callers pass it is the text
// of the argument (std: `impl From<&str> for String` copies the text)
pub uninterp spec fn into_text<N>(name: N) -> Seq<char>;
#[verifier::external_body]
pub broadcast proof fn axiom_into_text_of_str(name: &str)
    ensures #[trigger] into_text::<&str>(name) == name@
{}
#[verifier::external_body]
pub fn name_into<N: Into<String>>(name: N) -> (r: String)
    ensures r@ == into_text(name)
{ name.into() }

// ================================================================ streams_variables.rs
//@ lift air/src/execution_step/execution_context/streams_variables/stream_descriptor.rs :: struct StreamDescriptor
//@ derive
//@ end
impl StreamDescriptor {
//@ lift air/src/execution_step/execution_context/streams_variables/stream_descriptor.rs :: impl StreamDescriptor :: fn restricted
//@ name StreamDescriptor::restricted
//@ props C13
//@ ret r
//@ spec
        ensures r == (StreamDescriptor { span, stream })
//@ end
}

pub type StreamTable = Map<Seq<char>, Seq<StreamDescriptor>>;
//@ import-spec appends :: bound_to still_there kept_in no_stream_lost

// ---------------------------------------------------------------- the vocabulary of the contracts
// C10: the handler saw exactly one more `Stream::compactify`, of the stream `s` as it was (with every append it held), which returned `r`
pub open spec fn one_compactify(t0: TraceHandler, t1: TraceHandler, s: Stream, r: ExecutionResult<()>) -> bool {
    t1.compacted@ == t0.compacted@.push((s, r))
}
// the compactify calls made with the handler between two states
pub open spec fn new_calls(t0: TraceHandler, t1: TraceHandler) -> Seq<(Stream, ExecutionResult<()>)> {
    t1.compacted@.skip(t0.compacted@.len() as int)
}
pub open spec fn only_grew(t0: TraceHandler, t1: TraceHandler) -> bool { t0.compacted@.is_prefix_of(t1.compacted@) }
// "stops at the first error": every call but the last succeeded, and the result is the last call's (Ok if there was none)
pub open spec fn stops_at_first_error(calls: Seq<(Stream, ExecutionResult<()>)>, r: ExecutionResult<()>) -> bool {
    &&& forall|i: int| 0 <= i < calls.len() - 1 ==> (#[trigger] calls[i]).1 is Ok
    &&& r is Ok ==> (calls.len() > 0 ==> calls.last().1 is Ok)
    &&& r is Err ==> calls.len() > 0 && calls.last().1 == r
}
// the descriptor after one `compactify` of its stream: same scope, same appends
pub open spec fn compactified_once(d0: StreamDescriptor, d1: StreamDescriptor) -> bool {
    d1.span == d0.span && d1.stream.calls@ == d0.stream.calls@ && d1.stream.compactions@ == d0.stream.compactions@ + 1
}
pub open spec fn untouched_or_compactified(d0: StreamDescriptor, d1: StreamDescriptor) -> bool { d1 == d0 || compactified_once(d0, d1) }
// same names, same number of descriptors under each
pub open spec fn same_shape(t0: StreamTable, t1: StreamTable) -> bool {
    &&& t1.dom() =~= t0.dom()
    &&& forall|n: Seq<char>| t0.contains_key(n) ==> (#[trigger] t1[n]).len() == t0[n].len()
}
pub open spec fn is_stream_of(t: StreamTable, s: Stream) -> bool {
    exists|n: Seq<char>, j: int| t.contains_key(n) && 0 <= j < t[n].len() && (#[trigger] t[n][j]).stream == s
}
pub open spec fn logged(calls: Seq<(Stream, ExecutionResult<()>)>, s: Stream) -> bool {
    exists|i: int| 0 <= i < calls.len() && (#[trigger] calls[i]).0 == s
}
// C10, the contract of `compactify` over a whole table
pub open spec fn table_compactified(t0: StreamTable, t1: StreamTable, h0: TraceHandler, h1: TraceHandler, r: ExecutionResult<()>) -> bool {
    // the table keeps its names, scopes and appended values; a stream is compactified at most once
    &&& same_shape(t0, t1)
    &&& forall|n: Seq<char>, j: int| #![trigger t0[n][j]] t0.contains_key(n) && 0 <= j < t0[n].len() ==> untouched_or_compactified(t0[n][j], t1[n][j])
    // only streams of the table are handed to Stream::compactify, and the calls stop at the first error, which is returned
    &&& only_grew(h0, h1)
    &&& forall|i: int| 0 <= i < new_calls(h0, h1).len() ==> is_stream_of(t0, (#[trigger] new_calls(h0, h1)[i]).0)
    &&& stops_at_first_error(new_calls(h0, h1), r)
    // Ok: EVERY stream of EVERY descriptor of EVERY name was
    &&& r is Ok ==> forall|n: Seq<char>, j: int| #![trigger t0[n][j]] t0.contains_key(n) && 0 <= j < t0[n].len() ==>
            compactified_once(t0[n][j], t1[n][j]) && logged(new_calls(h0, h1), t0[n][j].stream)
}

//@ lift air/src/execution_step/execution_context/streams_variables.rs :: struct Streams
//@ pub-fields
//@ derive
//@ end
impl Streams {
    pub open spec fn view(&self) -> StreamTable { self.streams@ }

//@ lift air/src/execution_step/execution_context/streams_variables.rs :: impl Streams :: fn meet_scope_start
//@ name Streams::meet_scope_start
//@ props C13 C10 C01
//@ rewrite 1 "let name = name.into();" => "let name = name_into(name);"
//@ spec
        ensures
            // every descriptor that was bound to the name still is, in the same order, followed by the new restricted one (empty stream)
            bound_to(final(self)@, into_text(name)) =~= bound_to(old(self)@, into_text(name)).push(StreamDescriptor { span, stream: fresh_stream() }),
            // and every other name is untouched
            final(self)@ == old(self)@.insert(into_text(name),
                bound_to(old(self)@, into_text(name)).push(StreamDescriptor { span, stream: fresh_stream() })),
            // C13
            no_stream_lost(old(self)@, final(self)@),
//@ end

//@ lift air/src/execution_step/execution_context/streams_variables.rs :: impl Streams :: fn meet_scope_end
//@ name Streams::meet_scope_end
//@ props C13 C10 C01
//@ ret r
//@ spec
        requires
            // "met_scope_end must be called after met_scope_start" (the two unwraps): control_exec :: epilog / New::execute
            old(self)@.contains_key(name@), old(self)@[name@].len() > 0,
        ensures
            // exactly the LAST descriptor bound to the name is removed ...
            bound_to(final(self)@, name@) =~= old(self)@[name@].drop_last(),
            // ... the name goes iff nothing else is bound to it, every other name is untouched
            final(self)@ == (if old(self)@[name@].len() == 1 { old(self)@.remove(name@) } else { old(self)@.insert(name@, old(self)@[name@].drop_last()) }),
            // C10: the stream that leaves the table is compactified, with all its appends, and that call's result is returned
            one_compactify(*old(trace_ctx), *final(trace_ctx), old(self)@[name@].last().stream, r),
//@ end

//@ lift air/src/execution_step/execution_context/streams_variables.rs :: impl Streams :: fn compactify
//@ name Streams::compactify
//@ props C10 C13 C01
//@ ret r
//@ rewrite 1 "in self.streams.iter_mut()" => "in it: self.streams.iter_mut()"
//@ rewrite 1 "for descriptor in descriptors {" => "for descriptor in it2: descriptors.iter_mut() {"
//@ spec
        ensures table_compactified(old(self)@, final(self)@, *old(trace_ctx), *final(trace_ctx), r)
//@ end
}

} // verus!
fn main() {}
