//@ unit fold_fsm
//@ verus-flags --no-erasure-check
// (--no-erasure-check: see slider.rs -- the TracePos shim's AddAssignSpecImpl trips Verus' erasure pass after verification)
// FoldFSM::{from_fold_start, meet_iteration_start, prepare, meet_iteration_end, meet_back_iterator, meet_generation_end,
// meet_fold_end}  (state_automata/fold_fsm.rs -- every function of the file): the integration layer that calls
// StateInserter (unit par_builder), SubTraceLoreCtor / SubTraceLoreCtorQueue (unit lore_ctor), the fold CtxStateHandler
// and apply_fold_lore_{before,after} (unit fold_state) in their real order.
// C10 / C01: the typestate preconditions those units ASSUME -- queue `current` requires 1 <= pos <= len, `traverse_back`
// requires pos >= 1, `add_element` requires pos <= len, the ctor steps keep their invariant only from the expected
// CtorState and under monotone positions, `into_subtrace_lore` requires s_b <= e_b and s_a <= e_a, `insert` requires
// pos < rlen -- are PROVED here at their call sites from the explicit struct invariant `inv(fsm, dk)` = `core_inv` +
// `shape`.  At meet_generation_end every queued iteration yields exactly two descriptors with len = end - start and
// s_b <= e_b <= s_a <= e_a <= n, whatever state an early exit left it in; meet_fold_end writes Fold(collected lore) over
// the placeholder and touches nothing else.  C09: the slider end state prepared at the start is restored at the end
// whenever it fits, and it fits whenever the fold lies inside an in-window slider.
//
// Remaining assumptions about the caller (TraceHandler / the executor), exact text in the `requires` clauses:
//   (1) `core_inv(fsm, dk)` for meet_generation_end / meet_fold_end (into_subtrace_lore subtracts positions, the placeholder must lie
//       inside the result trace): lemma `inv_grows` shows it follows from the postcondition of the previous FoldFSM call as soon
//       as THE RESULT TRACE ONLY GROWS BETWEEN FSM CALLS and that call was made in order (see (2));
//   (2) the documented call order, stated on the FSM's own state -- `can_start_iteration` (forward phase, previous iteration
//       ended), `can_end_iteration` (an iteration is open), `can_go_back` (pos >= 1, and >= 2 once the back traversal runs) -- is
//       NO LONGER a precondition of anything. Since the F13 fix (`current()` returns None, `traverse_back` saturates,
//       NoFoldIterationStarted) meet_iteration_start / prepare / meet_iteration_end / meet_back_iterator are TOTAL: the only thing
//       the first two need of the FSM is the queue's own invariant pos <= len (established by from_fold_start, kept by every
//       method whatever the order), the last two need nothing. The call-order facts and `inv` are the ANTECEDENTS of the
//       implications that carry the C10 / C09 results. meet_iteration_end / meet_back_iterator return Err(NoFoldIterationStarted)
//       exactly when there is no iteration to work with (cursor outside 1..=len: nothing changes; or back traversal running and
//       cursor 1: nothing to come back to). A `next` executed out of order and answered by Ok (a second meet_iteration_end on
//       the same iteration) can leave a ctor outside its typestate invariant, i.e. without (1) for the generation end: the
//       executor aborts the run on the NoFoldIterationStarted that follows in every such case found (Next::execute calls
//       meet_back_iterator or meet_iteration_start right after), but that is an argument about Next::execute, not a contract of
//       this file. `fold_protocol_replayed` shows that the real order implies all of (2) and (1);
//   (3) standing: `dk.wf()` (slider invariant of slider.rs) and `rlen <= u32::MAX` (`trace_states_count()` `expect`s it).
//
// Callees.  External_body stubs whose contracts are copied mechanically (`//@ stub`): par_builder
// (StateInserter::{from_keeper, insert}), lore_ctor (SubTraceLoreCtor::{from_before_start, before_end, maybe_before_end,
// after_start, after_end}, SubTraceLoreCtorQueue::{current, add_element, traverse_back, start_back_traverse,
// end_back_traverse, back_traversal_started, finish}), fold_state (fold::CtxStateHandler::prepare), slider
// (CtxState::update_ctx_state, TraceSlider::{set_position_and_len, set_subtrace_len}).
// LIFTED AGAIN and re-proved here with the contract of fold_state.rs / slider.rs retyped by hand PLUS a frame clause
// (`sliders_only`): update_ctx_states, fold::CtxStateHandler::set_final_states, apply_fold_lore{,_before,_after},
// DataKeeper::{prev,current}_slider_mut -- those units model DataKeeper with its two merge contexts only, so their
// contracts cannot say that a callee taking `&mut DataKeeper` leaves `result_trace` alone, which the ctor invariant
// (positions <= rlen) and meet_fold_end's frame need.  (No cost in trust: proved on the real bodies here.)
// RESTATED BY HAND, external_body, NOT proved anywhere: SubTraceLoreCtorQueue::transform_to_lore (`Vec::drain` + `map` +
// `collect`: no Verus specification), in terms of the ensures clause lore_ctor.rs proves for into_subtrace_lore; and the
// shim `vec_extend` for `Vec::extend(Vec)` (one declared rewrite in meet_generation_end).
// Other declared rewrites: meet_iteration_start's two `opt.and_then(|pos| self.<fold>.lore.remove(pos))` are spelled as
// the `match` that defines and_then (Verus rejects closures capturing `&mut`); the lore maps and position maps are opaque
// (`LoreMap::remove`, `BiHashMap::get_by_left`: external_body, no contract -- their results are hostile anyway).
//
// Trusted part of this file: as in par_fsm.rs (TracePos shim, ExecutionTrace with both vocabularies, opaque payloads,
// KeeperError, method-style spec fns retyped verbatim from the proving units because `//@ import-spec` only reaches
// top-level spec fns); `Default for FoldFSM` (the real one is `#[derive(Default)]`: empty queue, cursor 0, flag false,
// empty lore -- used by `..<_>::default()` in from_fold_start); `executor_runs_body` (the statement of assumption (1),
// used by the harness only).
use vstd::prelude::*;
verus! {

// ---------------------------------------------------------------- shim: TracePos (trusted, verbatim from slider.rs)
#[derive(Copy, Clone, Default)]
pub struct TracePos(pub u32);
impl core::ops::AddAssign<u32> for TracePos { fn add_assign(&mut self, rhs: u32) { self.0 = self.0 + rhs; } }
impl From<u32> for TracePos { fn from(v: u32) -> TracePos { TracePos(v) } }
impl PartialEq for TracePos { fn eq(&self, o: &Self) -> bool { self.0 == o.0 } }
impl PartialOrd for TracePos { fn partial_cmp(&self, o: &Self) -> Option<core::cmp::Ordering> { self.0.partial_cmp(&o.0) } }
impl vstd::std_specs::ops::AddAssignSpecImpl<u32> for TracePos {
    open spec fn obeys_add_assign_spec() -> bool { true }
    open spec fn add_assign_req(&self, rhs: u32) -> bool { self.0 + rhs <= u32::MAX }
    open spec fn add_assign_spec(&self, rhs: u32) -> TracePos { TracePos((self.0 + rhs) as u32) }
}
impl vstd::std_specs::convert::FromSpecImpl<u32> for TracePos {
    open spec fn obeys_from_spec() -> bool { true }
    open spec fn from_spec(v: u32) -> TracePos { TracePos(v) }
}
impl vstd::std_specs::cmp::PartialOrdSpecImpl<TracePos> for TracePos {
    open spec fn obeys_partial_cmp_spec() -> bool { true }
    open spec fn partial_cmp_spec(&self, o: &TracePos) -> Option<core::cmp::Ordering> { if self.0 < o.0 { Some(core::cmp::Ordering::Less) } else if self.0 == o.0 { Some(core::cmp::Ordering::Equal) } else { Some(core::cmp::Ordering::Greater) } }
}
impl vstd::std_specs::cmp::PartialEqSpecImpl<TracePos> for TracePos {
    open spec fn obeys_eq_spec() -> bool { true }
    open spec fn eq_spec(&self, o: &TracePos) -> bool { self.0 == o.0 }
}
impl vstd::std_specs::ops::AddSpecImpl<u32> for TracePos {
    open spec fn obeys_add_spec() -> bool { true }
    open spec fn add_req(self, rhs: u32) -> bool { self.0 + rhs <= u32::MAX }
    open spec fn add_spec(self, rhs: u32) -> TracePos { TracePos((self.0 + rhs) as u32) }
}
impl core::ops::Add<u32> for TracePos { type Output = TracePos; fn add(self, rhs: u32) -> TracePos { TracePos(self.0 + rhs) } }
impl vstd::std_specs::ops::SubSpecImpl<TracePos> for TracePos {
    open spec fn obeys_sub_spec() -> bool { true }
    open spec fn sub_req(self, rhs: TracePos) -> bool { self.0 >= rhs.0 }
    open spec fn sub_spec(self, rhs: TracePos) -> TracePos { TracePos((self.0 - rhs.0) as u32) }
}
impl core::ops::Sub<TracePos> for TracePos { type Output = TracePos; fn sub(self, rhs: TracePos) -> TracePos { TracePos(self.0 - rhs.0) } }
impl vstd::std_specs::convert::FromSpecImpl<TracePos> for u32 {
    open spec fn obeys_from_spec() -> bool { true }
    open spec fn from_spec(v: TracePos) -> u32 { v.0 }
}
impl From<TracePos> for u32 { fn from(v: TracePos) -> u32 { v.0 } }
impl TracePos {
    // auto_checked_add![TracePos]: `self.0.checked_add(other.0).map(Self)`
    pub fn checked_add(&self, other: &TracePos) -> (r: Option<TracePos>)
        ensures r == (if self.0 + other.0 <= u32::MAX { Some(TracePos((self.0 + other.0) as u32)) } else { None })
    { match self.0.checked_add(other.0) { Some(v) => Some(TracePos(v)), None => None } }
    pub fn checked_sub(&self, other: &TracePos) -> (r: Option<TracePos>)
        ensures r == (if self.0 >= other.0 { Some(TracePos((self.0 - other.0) as u32)) } else { None })
    { match self.0.checked_sub(other.0) { Some(v) => Some(TracePos(v)), None => None } }
}

// ---------------------------------------------------------------- shim: executed states, trace (trusted; as in par_builder.rs)
pub type TraceLen = u32;
pub struct CallResult { pub opaque: u8 }
pub struct ApResult { pub opaque: u8 }
pub struct CanonResult { pub opaque: u8 }

//@ lift crates/air-lib/interpreter-data/src/executed_state.rs :: struct ParResult
//@ derive Clone Copy
//@ end
// shim (trusted): what `#[derive(Default)]` generates for ParResult (field-wise `Default::default()`, u32's is 0)
impl Default for ParResult {
    fn default() -> (r: Self)
        ensures r == (ParResult { left_size: 0, right_size: 0 })
    { ParResult { left_size: 0, right_size: 0 } }
}
//@ lift crates/air-lib/interpreter-data/src/executed_state.rs :: struct SubTraceDesc
//@ derive Clone Copy
//@ end
//@ lift crates/air-lib/interpreter-data/src/executed_state.rs :: struct FoldSubTraceLore
//@ derive
//@ end
//@ lift crates/air-lib/interpreter-data/src/executed_state.rs :: type FoldLore
//@ end
//@ lift crates/air-lib/interpreter-data/src/executed_state.rs :: struct FoldResult
//@ derive
//@ end
//@ lift crates/air-lib/interpreter-data/src/executed_state.rs :: enum ExecutedState
//@ derive
//@ end

// one trace type for both vocabularies: `tr()` is the view par_builder.rs speaks about (the result trace),
// `slen()` the length slider.rs / fold_state.rs speak about (the two input traces inside the sliders)
pub struct ExecutionTrace(pub Vec<ExecutedState>);
impl ExecutionTrace {
    pub open spec fn tr(&self) -> Seq<ExecutedState> { self.0@ }
    pub closed spec fn slen(&self) -> nat { self.0@.len() }
}
// (verbatim from slider.rs)
pub enum KeeperError {
    SetSubtraceLenFailed { requested_subtrace_len: TraceLen, trace_position: TracePos, trace_len: TraceLen },
    SetSubtraceLenAndPosFailed { requested_pos: TracePos, requested_subtrace_len: TraceLen, trace_len: TraceLen },
}

//@ lift crates/air-lib/trace-handler/src/data_keeper/trace_slider.rs :: type SeenElements
//@ end
//@ lift crates/air-lib/trace-handler/src/data_keeper/trace_slider.rs :: struct TraceSlider
//@ derive
//@ end

impl TraceSlider {
//@ import-spec slider :: TraceSlider::wf TraceSlider::pos TraceSlider::slen TraceSlider::seen TraceSlider::tlen TraceSlider::in_window
//@ stub slider :: TraceSlider::set_position_and_len
//@ stub slider :: TraceSlider::set_subtrace_len
}
type KeeperResult<T> = Result<T, KeeperError>;

// ---------------------------------------------------------------- shim: fold results, FSM errors (as in fold_state.rs)
//@ lift crates/air-lib/trace-handler/src/merger/fold_merger/fold_lore_resolver.rs :: struct ResolvedSubTraceDescs
//@ derive Clone
//@ end
//@ lift crates/air-lib/trace-handler/src/merger/fold_merger/fold_lore_resolver.rs :: type FoldStatesCount
//@ end
// the real field is `HashMap<TracePos, ResolvedSubTraceDescs>`; nothing here reads it
#[verifier::external_body]
pub struct LoreMap { m: std::collections::HashMap<u32, ResolvedSubTraceDescs> }
impl LoreMap {
    // `HashMap::remove`: never panics; which entry (if any) comes out of a map filled from hostile data is unconstrained
    #[verifier::external_body]
    pub fn remove(&mut self, k: &TracePos) -> Option<ResolvedSubTraceDescs> { unimplemented!() }
}
//@ lift crates/air-lib/trace-handler/src/merger/fold_merger/fold_lore_resolver.rs :: struct ResolvedFold
//@ derive
//@ rewrite 1 "HashMap<TracePos, ResolvedSubTraceDescs>" => "LoreMap"
//@ end
//@ lift crates/air-lib/trace-handler/src/merger/mod.rs :: enum MergeCtxType
//@ derive Clone Copy
//@ end
//@ lift crates/air-lib/trace-handler/src/state_automata/errors.rs :: enum StateFSMError
//@ derive
//@ end
// `#[from] KeeperError` (thiserror) generates exactly this impl
impl From<KeeperError> for StateFSMError { fn from(e: KeeperError) -> Self { StateFSMError::KeeperError(e) } }
impl vstd::std_specs::convert::FromSpecImpl<KeeperError> for StateFSMError {
    open spec fn obeys_from_spec() -> bool { true }
    open spec fn from_spec(e: KeeperError) -> StateFSMError { StateFSMError::KeeperError(e) }
}
type FSMResult<T> = Result<T, StateFSMError>;

//@ lift crates/air-lib/trace-handler/src/merger/fold_merger.rs :: struct MergerFoldResult
//@ derive
//@ end

// ---------------------------------------------------------------- the data keeper: the REAL struct, all five fields
//@ lift crates/air-lib/trace-handler/src/data_keeper/merge_ctx.rs :: struct MergeCtx
//@ derive
//@ end
#[verifier::external_body]
#[verifier::reject_recursive_types(K)]
#[verifier::reject_recursive_types(V)]
pub struct BiHashMap<K, V> { k: core::marker::PhantomData<(K, V)> }
impl<K, V> BiHashMap<K, V> {
    // `bimap::BiHashMap::get_by_left`: never panics; unconstrained
    #[verifier::external_body]
    pub fn get_by_left(&self, left: &K) -> Option<&V> { unimplemented!() }
}

//@ lift crates/air-lib/trace-handler/src/data_keeper/keeper.rs :: struct DataKeeper
//@ derive
//@ end

impl DataKeeper {
    // (verbatim from par_builder.rs)
    pub open spec fn rlen(&self) -> nat { self.result_trace.tr().len() }
    // everything but the result trace
    pub open spec fn rest_eq(&self, o: &DataKeeper) -> bool {
        self.prev_ctx == o.prev_ctx && self.current_ctx == o.current_ctx
            && self.new_to_prev_pos == o.new_to_prev_pos && self.new_to_current_pos == o.new_to_current_pos
    }
    // (verbatim from fold_state.rs)
    pub open spec fn wf(&self) -> bool { self.prev_ctx.slider.wf() && self.current_ctx.slider.wf() }
    // both traces are never modified
    pub open spec fn same_traces(&self, o: &DataKeeper) -> bool {
        self.prev_ctx.slider.tlen() == o.prev_ctx.slider.tlen() && self.current_ctx.slider.tlen() == o.current_ctx.slider.tlen()
    }
    // everything but the two sliders (what the fold_state.rs contracts, written for a two-field keeper, leave unsaid:
    // their bodies take `&mut DataKeeper` only to reach `prev_ctx.slider` / `current_ctx.slider`)
    pub open spec fn sliders_only(&self, o: &DataKeeper) -> bool {
        self.result_trace == o.result_trace
            && self.new_to_prev_pos == o.new_to_prev_pos && self.new_to_current_pos == o.new_to_current_pos
    }

// (contract of fold_state.rs + frame)
//@ lift crates/air-lib/trace-handler/src/data_keeper/keeper.rs :: impl DataKeeper :: fn prev_slider_mut
//@ props C01 C09 C10 C08
//@ ret r
//@ spec
        ensures *r == old(self).prev_ctx.slider, final(self).prev_ctx.slider == *final(r),
            final(self).current_ctx == old(self).current_ctx, final(self).sliders_only(old(self)),
//@ end

//@ lift crates/air-lib/trace-handler/src/data_keeper/keeper.rs :: impl DataKeeper :: fn current_slider_mut
//@ props C01 C09 C10 C08
//@ ret r
//@ spec
        ensures *r == old(self).current_ctx.slider, final(self).current_ctx.slider == *final(r),
            final(self).prev_ctx == old(self).prev_ctx, final(self).sliders_only(old(self)),
//@ end
}

//@ lift crates/air-lib/trace-handler/src/state_automata/utils.rs :: struct CtxState
//@ derive Clone Copy
//@ end
//@ lift crates/air-lib/trace-handler/src/state_automata/utils.rs :: struct CtxStatesPair
//@ derive Clone Copy
//@ end
impl CtxState {
//@ stub slider :: CtxState::update_ctx_state
}

// ---------------------------------------------------------------- vocabulary imported mechanically
//@ import-spec fold_state :: state_fits restored window fold_inside lore_desc desc_fits lore_accepted lore_applied lore_applied_both
//@ import-spec lore_ctor :: next_state

// (contract of slider.rs, in the `restored` vocabulary of fold_state.rs, + frame)
//@ lift crates/air-lib/trace-handler/src/state_automata/utils.rs :: fn update_ctx_states
//@ props C01 C09 C10 C08
//@ spec
    requires old(data_keeper).wf()
    ensures final(data_keeper).wf(), final(data_keeper).same_traces(old(data_keeper)),
        final(data_keeper).sliders_only(old(data_keeper)),
        // C09: a state that fits is always restored (the swallowed error can only be "does not fit")
        state_fits(state_pair.prev_state, old(data_keeper).prev_ctx.slider)
            ==> restored(final(data_keeper).prev_ctx.slider, state_pair.prev_state),
        state_fits(state_pair.current_state, old(data_keeper).current_ctx.slider)
            ==> restored(final(data_keeper).current_ctx.slider, state_pair.current_state),
//@ end

// ---------------------------------------------------------------- callee: StateInserter (contracts proved in par_builder.rs)
//@ lift crates/air-lib/trace-handler/src/state_automata/state_inserter.rs :: struct StateInserter
//@ derive
//@ end
impl StateInserter {
    pub closed spec fn pos(&self) -> nat { self.position.0 as nat }          // (verbatim from par_builder.rs)
//@ stub par_builder :: StateInserter::from_keeper
//@ stub par_builder :: StateInserter::insert
}

// ---------------------------------------------------------------- callee: fold CtxStateHandler (fold_state.rs)
//@ lift crates/air-lib/trace-handler/src/state_automata/fold_fsm/state_handler.rs :: struct CtxStateHandler
//@ derive
//@ end
impl CtxStateHandler {
    pub closed spec fn pair(&self) -> CtxStatesPair { self.state_pair }      // (verbatim from fold_state.rs, mod fold_sh)
//@ stub fold_state :: fold::CtxStateHandler::prepare

// (contract of fold_state.rs + frame)
//@ lift crates/air-lib/trace-handler/src/state_automata/fold_fsm/state_handler.rs :: impl CtxStateHandler :: fn set_final_states
//@ props C01 C09 C10 C08
//@ spec
        requires old(data_keeper).wf()
        ensures final(data_keeper).wf(), final(data_keeper).same_traces(old(data_keeper)),
            final(data_keeper).sliders_only(old(data_keeper)),
            // C09: a prepared state that fits is restored; the swallowed error can only be "does not fit"
            state_fits(self.pair().prev_state, old(data_keeper).prev_ctx.slider)
                ==> restored(final(data_keeper).prev_ctx.slider, self.pair().prev_state),
            state_fits(self.pair().current_state, old(data_keeper).current_ctx.slider)
                ==> restored(final(data_keeper).current_ctx.slider, self.pair().current_state),
//@ end
}

// ---------------------------------------------------------------- callees: lore_applier.rs (contracts of fold_state.rs + frame, re-proved)
//@ lift crates/air-lib/trace-handler/src/state_automata/fold_fsm.rs :: enum ByNextPosition
//@ derive Clone Copy
//@ rewrite 1 "enum ByNextPosition" => "pub enum ByNextPosition"
//@ end
use ByNextPosition::*;
use MergeCtxType::*;

// (the two rewrites drop an identity cast `TracePos as _` (= `as TracePos`), which Verus rejects -- as in fold_state.rs)
//@ lift crates/air-lib/trace-handler/src/state_automata/fold_fsm/lore_applier.rs :: fn apply_fold_lore
//@ props C01 C09 C10 C08
//@ ret r
//@ rewrite 1 "fold_lore.before_subtrace.begin_pos as _" => "fold_lore.before_subtrace.begin_pos"
//@ rewrite 1 "fold_lore.after_subtrace.begin_pos as _" => "fold_lore.after_subtrace.begin_pos"
//@ rewrite 3 ")?;" => ").map_err(|e: KeeperError| -> (o: StateFSMError) ensures o == StateFSMError::KeeperError(e) { e.into() })?;"
//@ spec
    requires old(data_keeper).wf()               // nothing about fold_lore: positions and lengths are hostile
    ensures
        final(data_keeper).wf(), final(data_keeper).same_traces(old(data_keeper)),
        final(data_keeper).sliders_only(old(data_keeper)),
        ctx_type is Previous ==> final(data_keeper).current_ctx == old(data_keeper).current_ctx
            && lore_applied(old(data_keeper).prev_ctx.slider, final(data_keeper).prev_ctx.slider, *fold_lore, next_position, r is Ok),
        ctx_type is Current ==> final(data_keeper).prev_ctx == old(data_keeper).prev_ctx
            && lore_applied(old(data_keeper).current_ctx.slider, final(data_keeper).current_ctx.slider, *fold_lore, next_position, r is Ok),
        // the only error is the slider's (the three rewrites spell the `From` conversion hidden in `?` as an annotated closure)
        r matches Err(e) ==> e is KeeperError,
//@ end

//@ lift crates/air-lib/trace-handler/src/state_automata/fold_fsm/lore_applier.rs :: fn apply_fold_lore_before
//@ props C01 C09 C10 C08
//@ ret r
//@ spec
    requires old(data_keeper).wf()
    ensures final(data_keeper).wf(), final(data_keeper).same_traces(old(data_keeper)),
        final(data_keeper).sliders_only(old(data_keeper)),
        lore_applied_both(*old(data_keeper), *final(data_keeper), *prev_fold_lore, *current_fold_lore, ByNextPosition::Before, r is Ok),
        r matches Err(e) ==> e is KeeperError,
//@ end

//@ lift crates/air-lib/trace-handler/src/state_automata/fold_fsm/lore_applier.rs :: fn apply_fold_lore_after
//@ props C01 C09 C10 C08
//@ ret r
//@ spec
    requires old(data_keeper).wf()
    ensures final(data_keeper).wf(), final(data_keeper).same_traces(old(data_keeper)),
        final(data_keeper).sliders_only(old(data_keeper)),
        lore_applied_both(*old(data_keeper), *final(data_keeper), *prev_fold_lore, *current_fold_lore, ByNextPosition::After, r is Ok),
        r matches Err(e) ==> e is KeeperError,
//@ end

// ---------------------------------------------------------------- callees: lore_ctor.rs, lore_ctor_queue.rs (contracts proved in lore_ctor.rs)
//@ lift crates/air-lib/trace-handler/src/state_automata/fold_fsm/lore_ctor.rs :: enum CtorState
//@ derive PartialEq Eq Clone Copy
//@ end
//@ lift crates/air-lib/trace-handler/src/state_automata/fold_fsm/lore_ctor.rs :: struct PositionsTracker
//@ derive Clone Copy
//@ end
//@ lift crates/air-lib/trace-handler/src/state_automata/fold_fsm/lore_ctor.rs :: struct SubTraceLoreCtor
//@ derive Clone Copy
//@ end

impl SubTraceLoreCtor {
    // specs: verbatim from lore_ctor.rs
    pub closed spec fn st(&self) -> CtorState { self.state }
    pub closed spec fn vpos(&self) -> TracePos { self.value_pos }
    pub closed spec fn sb(&self) -> nat { self.before_tracker.start_pos.0 as nat }
    pub closed spec fn eb(&self) -> nat { self.before_tracker.end_pos.0 as nat }
    pub closed spec fn sa(&self) -> nat { self.after_tracker.start_pos.0 as nat }
    pub closed spec fn ea(&self) -> nat { self.after_tracker.end_pos.0 as nat }

    // typestate invariant: the positions recorded so far are ordered and not beyond the result trace length n
    pub open spec fn inv(&self, n: nat) -> bool {
        match self.st() {
            CtorState::BeforeStarted => self.sb() <= n,
            CtorState::BeforeCompleted => self.sb() <= self.eb() <= n,
            CtorState::AfterStarted => self.sb() <= self.eb() <= self.sa() <= n,
            CtorState::AfterCompleted => self.sb() <= self.eb() <= self.sa() <= self.ea() <= n,
        }
    }
    // everything but the named field is unchanged
    pub open spec fn same_but_eb(&self, o: &Self) -> bool { self.vpos() == o.vpos() && self.sb() == o.sb() && self.sa() == o.sa() && self.ea() == o.ea() }
    pub open spec fn same_but_sa(&self, o: &Self) -> bool { self.vpos() == o.vpos() && self.sb() == o.sb() && self.eb() == o.eb() && self.ea() == o.ea() }
    pub open spec fn same_but_ea(&self, o: &Self) -> bool { self.vpos() == o.vpos() && self.sb() == o.sb() && self.eb() == o.eb() && self.sa() == o.sa() }

    // what finish() must do to a ctor `self` (giving `f`) when the result trace has n states
    pub open spec fn finished_as(&self, f: &Self, n: nat) -> bool {
        // from any state
        &&& f.st() == CtorState::AfterCompleted
        &&& f.vpos() == self.vpos() && f.sb() == self.sb()
        // what was already recorded is kept, what was not is the current end of the trace
        &&& f.eb() == (if self.st() is BeforeStarted { n } else { self.eb() })
        &&& f.sa() == (if self.st() is BeforeStarted || self.st() is BeforeCompleted { n } else { self.sa() })
        &&& f.ea() == (if self.st() is AfterCompleted { self.ea() } else { n })
        // under monotone positions (the invariant w.r.t. the current length): s_b <= e_b <= s_a <= e_a <= n
        &&& self.inv(n) ==> f.inv(n) && f.sb() <= f.eb() <= f.sa() <= f.ea() <= n
    }

//@ stub lore_ctor :: SubTraceLoreCtor::from_before_start
//@ stub lore_ctor :: SubTraceLoreCtor::before_end
//@ stub lore_ctor :: SubTraceLoreCtor::maybe_before_end
//@ stub lore_ctor :: SubTraceLoreCtor::after_start
//@ stub lore_ctor :: SubTraceLoreCtor::after_end
}

//@ lift crates/air-lib/trace-handler/src/state_automata/fold_fsm/lore_ctor_queue.rs :: struct LoreCtorDesc
//@ derive Clone
//@ end
//@ lift crates/air-lib/trace-handler/src/state_automata/fold_fsm/lore_ctor_queue.rs :: struct SubTraceLoreCtorQueue
//@ derive
//@ end

// what into_subtrace_lore is proved (lore_ctor.rs) to return for ctor c: the ensures clause of that obligation, verbatim
pub open spec fn lore_of(c: SubTraceLoreCtor, r: FoldSubTraceLore) -> bool {
    &&& r.value_pos == c.vpos() && r.subtraces_desc@.len() == 2
    &&& r.subtraces_desc@[0].begin_pos.0 == c.sb() && r.subtraces_desc@[0].subtrace_len == c.eb() - c.sb()
    &&& r.subtraces_desc@[1].begin_pos.0 == c.sa() && r.subtraces_desc@[1].subtrace_len == c.ea() - c.sa()
}

impl SubTraceLoreCtorQueue {
    // specs: verbatim from lore_ctor.rs
    pub closed spec fn q(&self) -> Seq<LoreCtorDesc> { self.queue@ }
    pub closed spec fn pos(&self) -> nat { self.back_traversal_pos as nat }
    pub closed spec fn started(&self) -> bool { self.back_traversal_started }
    // the back-traversal cursor never runs past the queue
    pub open spec fn wf(&self) -> bool { self.pos() <= self.q().len() }

//@ stub lore_ctor :: SubTraceLoreCtorQueue::current
//@ stub lore_ctor :: SubTraceLoreCtorQueue::add_element
//@ stub lore_ctor :: SubTraceLoreCtorQueue::traverse_back
//@ stub lore_ctor :: SubTraceLoreCtorQueue::start_back_traverse
//@ stub lore_ctor :: SubTraceLoreCtorQueue::end_back_traverse
//@ stub lore_ctor :: SubTraceLoreCtorQueue::back_traversal_started
//@ stub lore_ctor :: SubTraceLoreCtorQueue::finish

    // RESTATED BY HAND (no unit proves it): transform_to_lore is `self.queue.drain(..).map(|l| l.ctor.into_subtrace_lore())
    // .collect()`; `Vec::drain` and iterator adapters have no Verus specification, so the function stays an
    // external_body stub.  Its contract says what that one line does: the queue is emptied, the cursor and the flag are
    // not touched, and element i of the result is into_subtrace_lore() of ctor i -- described by the ensures clause that
    // lore_ctor.rs proves for into_subtrace_lore (`lore_of`), under into_subtrace_lore's precondition for every element
    // (violating it panics in `end_pos - start_pos`), which is PROVED at the call site in meet_generation_end.
    #[verifier::external_body]
    pub fn transform_to_lore(&mut self) -> (r: FoldLore)
        requires forall|i: int| 0 <= i < old(self).q().len() ==>
            (#[trigger] old(self).q()[i]).ctor.sb() <= old(self).q()[i].ctor.eb() && old(self).q()[i].ctor.sa() <= old(self).q()[i].ctor.ea()
        ensures final(self).q().len() == 0, final(self).pos() == old(self).pos(), final(self).started() == old(self).started(),
            r@.len() == old(self).q().len(),
            forall|i: int| 0 <= i < old(self).q().len() ==> lore_of(old(self).q()[i].ctor, #[trigger] r@[i]),
    { unimplemented!() }
}

// shim (trusted): `self.result_lore.extend(fold_lore)` -- `Extend<T> for Vec<T>` fed with a `Vec<T>` appends its elements in order
#[verifier::external_body]
pub fn vec_extend(v: &mut FoldLore, more: FoldLore)
    ensures final(v)@ == old(v)@ + more@
{ v.extend(more) }

// ================================================================ FoldFSM
//@ lift crates/air-lib/trace-handler/src/state_automata/fold_fsm.rs :: struct FoldFSM
//@ derive
//@ end

impl FoldFSM {
    pub closed spec fn pf(&self) -> ResolvedFold { self.prev_fold }
    pub closed spec fn cf(&self) -> ResolvedFold { self.current_fold }
    pub closed spec fn si(&self) -> StateInserter { self.state_inserter }
    pub closed spec fn cq(&self) -> SubTraceLoreCtorQueue { self.ctor_queue }
    pub closed spec fn lore(&self) -> Seq<FoldSubTraceLore> { self.result_lore@ }
    pub closed spec fn sh(&self) -> CtxStateHandler { self.state_handler }
    // the state meet_fold_end writes over the placeholder: a Fold whose lore is the collected one
    pub closed spec fn written(&self) -> ExecutedState { ExecutedState::Fold(FoldResult { lore: self.result_lore }) }
    // the placeholder's position = the fold's own position in the result trace
    pub open spec fn p(&self) -> nat { self.si().pos() }
    pub open spec fn q(&self) -> Seq<LoreCtorDesc> { self.cq().q() }
    pub open spec fn pos(&self) -> nat { self.cq().pos() }
    pub open spec fn started(&self) -> bool { self.cq().started() }
    // everything but the ctor queue
    pub open spec fn same_but_queue(&self, o: &FoldFSM) -> bool {
        self.pf() == o.pf() && self.cf() == o.cf() && self.si() == o.si() && self.lore() == o.lore() && self.sh() == o.sh()
    }
}
// shim (trusted): what `#[derive(Default)]` generates for FoldFSM (field-wise defaults); the only facts used -- by the
// `..<_>::default()` in from_fold_start -- are that the queue is empty, its cursor 0, its flag false, and the lore empty
// (`Vec::default()`, `usize::default()`, `bool::default()`)
impl Default for FoldFSM {
    #[verifier::external_body]
    fn default() -> (r: Self)
        ensures r.q().len() == 0, r.pos() == 0, !r.started(), r.lore().len() == 0
    { unimplemented!() }
}

// C10 for one finished lore entry w.r.t. result-trace length n: exactly two descriptors [s_b, e_b) and [s_a, e_a)
// (len = end - start) with s_b <= e_b <= s_a <= e_a <= n
pub open spec fn entry_ok(l: FoldSubTraceLore, n: nat) -> bool {
    &&& l.subtraces_desc@.len() == 2
    &&& l.subtraces_desc@[0].begin_pos.0 + l.subtraces_desc@[0].subtrace_len <= l.subtraces_desc@[1].begin_pos.0
    &&& l.subtraces_desc@[1].begin_pos.0 + l.subtraces_desc@[1].subtrace_len <= n
}
pub open spec fn lore_ok(lore: Seq<FoldSubTraceLore>, n: nat) -> bool {
    forall|j: int| 0 <= j < lore.len() ==> entry_ok(#[trigger] lore[j], n)
}
// what the entry produced for ctor c looks like when generation end finds the result trace at length n: whatever c had
// recorded is kept, whatever it had not is n  (finish(), then into_subtrace_lore())
pub open spec fn fin_eb(c: SubTraceLoreCtor, n: nat) -> nat { if c.st() is BeforeStarted { n } else { c.eb() } }
pub open spec fn fin_sa(c: SubTraceLoreCtor, n: nat) -> nat { if c.st() is BeforeStarted || c.st() is BeforeCompleted { n } else { c.sa() } }
pub open spec fn fin_ea(c: SubTraceLoreCtor, n: nat) -> nat { if c.st() is AfterCompleted { c.ea() } else { n } }
pub open spec fn entry_from(c: SubTraceLoreCtor, n: nat, l: FoldSubTraceLore) -> bool {
    &&& l.value_pos == c.vpos() && l.subtraces_desc@.len() == 2
    &&& l.subtraces_desc@[0].begin_pos.0 == c.sb() && l.subtraces_desc@[0].subtrace_len == fin_eb(c, n) - c.sb()
    &&& l.subtraces_desc@[1].begin_pos.0 == fin_sa(c, n) && l.subtraces_desc@[1].subtrace_len == fin_ea(c, n) - fin_sa(c, n)
}

// THE STRUCT INVARIANT of FoldFSM w.r.t. the data keeper it lives on.
// core: the placeholder lies inside the result trace; the queue cursor is inside the queue; every queued ctor satisfies
// its own typestate invariant w.r.t. the current result-trace length (monotone positions); every finished entry is well formed
pub open spec fn core_inv(f: FoldFSM, dk: DataKeeper) -> bool {
    &&& f.p() < dk.rlen()
    &&& f.pos() <= f.q().len()
    &&& forall|i: int| 0 <= i < f.q().len() ==> (#[trigger] f.q()[i]).ctor.inv(dk.rlen())
    &&& lore_ok(f.lore(), dk.rlen())
}
// shape of the queue: forward phase (!started): cursor at the end, everything before the last element has its `before`
// range closed; backward phase (started): the element under the cursor has its `after` range open, those behind it
// are completed, those before it still wait for their `after` range
pub open spec fn shape(f: FoldFSM) -> bool {
    &&& forall|i: int| 0 <= i < f.pos() - 1 ==> (#[trigger] f.q()[i]).ctor.st() is BeforeCompleted
    &&& forall|i: int| f.pos() <= i < f.q().len() ==> (#[trigger] f.q()[i]).ctor.st() is AfterCompleted
    &&& !f.started() ==> f.pos() == f.q().len()
        && (f.pos() >= 1 ==> (f.q()[f.pos() - 1].ctor.st() is BeforeStarted || f.q()[f.pos() - 1].ctor.st() is BeforeCompleted))
    &&& f.started() ==> f.pos() >= 1 && f.q()[f.pos() - 1].ctor.st() is AfterStarted
}
pub open spec fn inv(f: FoldFSM, dk: DataKeeper) -> bool { core_inv(f, dk) && shape(f) }

// CALL-ORDER TYPESTATE (in the vocabulary of the FSM's own state). Since the F13 fix none of the three is a precondition: they are
// the antecedents of the C10 implications of meet_iteration_start / prepare / meet_iteration_end / meet_back_iterator, which are total.
// meet_iteration_start: only in the forward phase, and only after the previous iteration's meet_iteration_end
pub open spec fn can_start_iteration(f: FoldFSM) -> bool {
    !f.started() && (f.pos() >= 1 ==> f.q()[f.pos() - 1].ctor.st() is BeforeCompleted)
}
// meet_iteration_end: only for an iteration that was started and not ended yet
pub open spec fn can_end_iteration(f: FoldFSM) -> bool {
    !f.started() && f.pos() >= 1 && f.q()[f.pos() - 1].ctor.st() is BeforeStarted
}
// meet_back_iterator: there is an iteration to come back from; once the back traversal runs, also one to come back to
pub open spec fn can_go_back(f: FoldFSM) -> bool {
    f.pos() >= 1 && (f.started() ==> f.pos() >= 2)
}

impl FoldFSM {
//@ lift crates/air-lib/trace-handler/src/state_automata/fold_fsm.rs :: impl FoldFSM :: fn from_fold_start
//@ props C10 C01 C09 C08
//@ ret r
//@ spec
        requires old(data_keeper).wf(),
            old(data_keeper).rlen() <= u32::MAX,         // the real trace_states_count() `expect`s this
        ensures
            // C10: in every case exactly the placeholder is appended to the result trace; nothing else of the keeper changes
            final(data_keeper).result_trace.tr() == old(data_keeper).result_trace.tr().push(
                ExecutedState::Par(ParResult { left_size: 0, right_size: 0 })),
            final(data_keeper).rest_eq(old(data_keeper)),
            // C01: total on hostile (resolved) fold lore
            r is Err <==> (old(data_keeper).prev_ctx.slider.pos() + fold_result.prev_fold_lore.fold_states_count > u32::MAX
                || fold_result.prev_fold_lore.fold_states_count > window(old(data_keeper).prev_ctx.slider)
                || old(data_keeper).current_ctx.slider.pos() + fold_result.current_fold_lore.fold_states_count > u32::MAX
                || fold_result.current_fold_lore.fold_states_count > window(old(data_keeper).current_ctx.slider)),
            r matches Ok(f) ==> {
                &&& f.pf() == fold_result.prev_fold_lore && f.cf() == fold_result.current_fold_lore
                // C10: the struct invariant is established: placeholder at n0, empty queue, empty lore
                &&& f.p() == old(data_keeper).rlen() && f.q().len() == 0 && f.pos() == 0 && !f.started() && f.lore().len() == 0
                &&& inv(f, *final(data_keeper))
                // C09: the end state continues right behind all of the fold's states, with what is left of the window ...
                &&& f.sh().pair().prev_state.pos.0 == old(data_keeper).prev_ctx.slider.pos() + f.pf().fold_states_count
                &&& f.sh().pair().prev_state.subtrace_len == window(old(data_keeper).prev_ctx.slider) - f.pf().fold_states_count
                &&& f.sh().pair().current_state.pos.0 == old(data_keeper).current_ctx.slider.pos() + f.cf().fold_states_count
                &&& f.sh().pair().current_state.subtrace_len == window(old(data_keeper).current_ctx.slider) - f.cf().fold_states_count
            },
            // ... C09.V2: and it fits whenever both folds lie inside in-window sliders (then the ctor cannot fail either)
            (fold_inside(fold_result.prev_fold_lore, old(data_keeper).prev_ctx.slider)
                && fold_inside(fold_result.current_fold_lore, old(data_keeper).current_ctx.slider))
                ==> (r matches Ok(f) && state_fits(f.sh().pair().prev_state, final(data_keeper).prev_ctx.slider)
                     && state_fits(f.sh().pair().current_state, final(data_keeper).current_ctx.slider)),
//@ end

// (the two rewrites spell `Option::and_then` with a closure that captures `&mut self.<fold>.lore` -- which Verus
// rejects: "closures capturing a mutable reference" -- as the `match` that is and_then's definition)
//@ lift crates/air-lib/trace-handler/src/state_automata/fold_fsm.rs :: impl FoldFSM :: fn meet_iteration_start
//@ props C10 C01 C09 C08
//@ ret r
//@ rewrite 1 "prev_pos.and_then(|pos| self.prev_fold.lore.remove(pos))" => "match prev_pos { Some(pos) => self.prev_fold.lore.remove(pos), None => None }"
//@ rewrite 1 "current_pos.and_then(|pos| self.current_fold.lore.remove(pos))" => "match current_pos { Some(pos) => self.current_fold.lore.remove(pos), None => None }"
//@ spec
        requires
            // TOTAL: no call-order precondition; only the queue's own invariant pos <= len (`back_traversal_pos += 1`), which
            // from_fold_start establishes and every method keeps whatever the call order
            old(self).pos() <= old(self).q().len(),
            old(data_keeper).wf(), old(data_keeper).rlen() <= u32::MAX,
            // nothing about value_pos, the position maps and the lore maps: they are hostile
        ensures
            final(self).pos() <= final(self).q().len(),
            final(data_keeper).wf(), final(data_keeper).same_traces(old(data_keeper)), final(data_keeper).sliders_only(old(data_keeper)),
            // the FSM: besides the queue only the two (hostile) lore maps lose an entry
            final(self).pf().fold_states_count == old(self).pf().fold_states_count
                && final(self).cf().fold_states_count == old(self).cf().fold_states_count
                && final(self).si() == old(self).si() && final(self).lore() == old(self).lore() && final(self).sh() == old(self).sh(),
            final(self).started() == old(self).started(),
            r is Err ==> final(self).q() == old(self).q() && final(self).pos() == old(self).pos(),
            // on Ok exactly one ctor is queued, started at the current end of the result trace, and the sliders stand
            // where the `before` descriptors of the lore queued with it say
            r is Ok ==> {
                &&& final(self).q().len() == old(self).q().len() + 1 && final(self).pos() == old(self).pos() + 1
                &&& forall|i: int| 0 <= i < old(self).q().len() ==> final(self).q()[i] == old(self).q()[i]
                &&& final(self).q().last().ctor.st() is BeforeStarted && final(self).q().last().ctor.vpos() == value_pos
                &&& final(self).q().last().ctor.sb() == old(data_keeper).rlen()
                &&& lore_applied_both(*old(data_keeper), *final(data_keeper), final(self).q().last().prev_lore,
                                      final(self).q().last().current_lore, ByNextPosition::Before, true)
            },
            // C10, in call order (`can_start_iteration`) under the struct invariant (follows by inv_grows): the invariant is kept
            (inv(*old(self), *old(data_keeper)) && can_start_iteration(*old(self))) ==> inv(*final(self), *final(data_keeper)),
//@ end

//@ lift crates/air-lib/trace-handler/src/state_automata/fold_fsm.rs :: impl FoldFSM :: fn prepare
//@ props C10 C01 C09 C08
//@ ret r
//@ spec
        requires
            old(self).pos() <= old(self).q().len(),      // the queue's own invariant; no call-order precondition
            old(data_keeper).wf(), old(data_keeper).rlen() <= u32::MAX,
            // nothing about prev_lore / current_lore / value_pos: they are hostile
        ensures
            final(self).pos() <= final(self).q().len(),
            // the keeper: only the sliders move, as apply_fold_lore_before is proved to move them
            final(data_keeper).wf(), final(data_keeper).same_traces(old(data_keeper)), final(data_keeper).sliders_only(old(data_keeper)),
            lore_applied_both(*old(data_keeper), *final(data_keeper), prev_lore, current_lore, ByNextPosition::Before, r is Ok),
            // the FSM: on Ok exactly one ctor is queued, started at the current end of the result trace
            final(self).same_but_queue(old(self)), final(self).started() == old(self).started(),
            r is Err ==> final(self).q() == old(self).q() && final(self).pos() == old(self).pos(),
            r is Ok ==> {
                &&& final(self).q().len() == old(self).q().len() + 1 && final(self).pos() == old(self).pos() + 1
                &&& forall|i: int| 0 <= i < old(self).q().len() ==> final(self).q()[i] == old(self).q()[i]
                &&& final(self).q().last().prev_lore == prev_lore && final(self).q().last().current_lore == current_lore
                &&& final(self).q().last().ctor.st() is BeforeStarted && final(self).q().last().ctor.vpos() == value_pos
                &&& final(self).q().last().ctor.sb() == old(data_keeper).rlen()
            },
            (inv(*old(self), *old(data_keeper)) && can_start_iteration(*old(self))) ==> inv(*final(self), *final(data_keeper)),
//@ end

// TOTAL since the F13 fix: `current()` returns None instead of panicking and the method returns NoFoldIterationStarted. No call-order
// precondition is left: only the queue's own invariant pos <= len (kept by every queue operation, whatever the call order). What the
// C10 results need -- the struct invariant and `can_end_iteration` -- are antecedents of an implication.
//@ lift crates/air-lib/trace-handler/src/state_automata/fold_fsm.rs :: impl FoldFSM :: fn meet_iteration_end
//@ props C10 C01
//@ ret r
//@ spec
        requires
            data_keeper.rlen() <= u32::MAX,
        ensures
            // C01: Err exactly when there is no current iteration, it is NoFoldIterationStarted, and nothing changed
            r is Err <==> !(1 <= old(self).pos() <= old(self).q().len()),
            r matches Err(e) ==> e is NoFoldIterationStarted && final(self).q() == old(self).q(),
            final(self).same_but_queue(old(self)), final(self).started() == old(self).started(), final(self).pos() == old(self).pos(),
            final(self).q().len() == old(self).q().len(),
            forall|i: int| 0 <= i < old(self).q().len() && i != old(self).pos() - 1 ==> final(self).q()[i] == old(self).q()[i],
            // Ok: the `before` range of the iteration under the cursor is closed at the current end of the result trace, whatever state it was in
            r is Ok ==> ({ let o = old(self).q()[old(self).pos() - 1]; let a = final(self).q()[old(self).pos() - 1];
               a.prev_lore == o.prev_lore && a.current_lore == o.current_lore
               && a.ctor.st() == next_state(o.ctor.st()) && a.ctor.eb() == data_keeper.rlen() && a.ctor.same_but_eb(&o.ctor) }),
            // C10, in call order: an open iteration is completed and the struct invariant is kept
            (inv(*old(self), *data_keeper) && can_end_iteration(*old(self))) ==>
                r is Ok && final(self).q()[old(self).pos() - 1].ctor.st() is BeforeCompleted && inv(*final(self), *data_keeper),
//@ end

// TOTAL since the F13 fix, no call-order precondition (see meet_iteration_end). NoFoldIterationStarted exactly when there is no
// iteration to work with: the cursor is at 0, or the back traversal runs and the cursor is at 1 (nothing to come back TO).
//@ lift crates/air-lib/trace-handler/src/state_automata/fold_fsm.rs :: impl FoldFSM :: fn meet_back_iterator
//@ props C10 C01 C09 C08
//@ ret r
//@ spec
        requires
            old(data_keeper).wf(), old(data_keeper).rlen() <= u32::MAX,
        ensures
            final(data_keeper).wf(), final(data_keeper).same_traces(old(data_keeper)), final(data_keeper).sliders_only(old(data_keeper)),
            final(self).same_but_queue(old(self)), final(self).q().len() == old(self).q().len(),
            old(self).pos() <= old(self).q().len() ==> final(self).pos() <= final(self).q().len(),
            // C01: the new error, exactly
            (r matches Err(e) && e is NoFoldIterationStarted) <==>
                (!(1 <= old(self).pos() <= old(self).q().len()) || (old(self).started() && old(self).pos() == 1)),
            // no current iteration at all: nothing changed
            !(1 <= old(self).pos() <= old(self).q().len()) ==> final(self).q() == old(self).q() && final(self).pos() == old(self).pos()
                && final(self).started() == old(self).started() && *final(data_keeper) == *old(data_keeper),
            // the first call of a generation turns round at the last iteration; every later one steps back by one
            !old(self).started() ==> final(self).pos() == old(self).pos() && (r is Ok ==> final(self).started()),
            (old(self).started() && 1 <= old(self).pos() <= old(self).q().len()) ==> final(self).pos() == old(self).pos() - 1 && final(self).started(),
            // C10 / C09, in call order (`can_go_back`) under the struct invariant: everything the contract said before the fix
            (inv(*old(self), *old(data_keeper)) && can_go_back(*old(self))) ==> {
                &&& !(r matches Err(e) && e is NoFoldIterationStarted)
                // the `after` range of the iteration now under the cursor is opened at the current end of the result trace,
                // and the sliders are moved by its lore's `after` descriptors (hostile) as apply_fold_lore_after is proved to
                // (if its `before` range was still open -- no meet_iteration_end -- that is closed there as well)
                &&& ({ let k = final(self).pos() - 1; let o = old(self).q()[k]; let a = final(self).q()[k]; let n = old(data_keeper).rlen();
                   a.prev_lore == o.prev_lore && a.current_lore == o.current_lore
                   && a.ctor.st() is AfterStarted && a.ctor.sa() == n
                   && a.ctor.vpos() == o.ctor.vpos() && a.ctor.sb() == o.ctor.sb() && a.ctor.ea() == o.ctor.ea()
                   && a.ctor.eb() == (if o.ctor.st() is BeforeStarted { n } else { o.ctor.eb() })
                   && lore_applied_both(*old(data_keeper), *final(data_keeper), a.prev_lore, a.current_lore, ByNextPosition::After, r is Ok) })
                // the iteration come back from is closed there too
                &&& old(self).started() ==> ({ let o = old(self).q()[old(self).pos() - 1]; let b = final(self).q()[old(self).pos() - 1];
                   b.prev_lore == o.prev_lore && b.current_lore == o.current_lore
                   && b.ctor.st() is AfterCompleted && b.ctor.ea() == old(data_keeper).rlen() && b.ctor.same_but_ea(&o.ctor) })
                // no other element of the queue is touched
                &&& forall|i: int| 0 <= i < old(self).q().len() && i != final(self).pos() - 1 && i != old(self).pos() - 1
                    ==> final(self).q()[i] == old(self).q()[i]
                &&& core_inv(*final(self), *final(data_keeper))
                &&& r is Ok ==> inv(*final(self), *final(data_keeper))
            },
//@ end

//@ lift crates/air-lib/trace-handler/src/state_automata/fold_fsm.rs :: impl FoldFSM :: fn meet_generation_end
//@ props C10 C01
//@ rewrite 1 "self.result_lore.extend(fold_lore)" => "vec_extend(&mut self.result_lore, fold_lore)"
//@ spec
        requires
            core_inv(*old(self), *data_keeper),          // follows by inv_grows; NO call-order assumption: any early exit is fine
            data_keeper.rlen() <= u32::MAX,
        ensures
            final(self).pf() == old(self).pf() && final(self).cf() == old(self).cf() && final(self).si() == old(self).si()
                && final(self).sh() == old(self).sh(),
            // the queue is consumed
            final(self).q().len() == 0, final(self).pos() == 0, !final(self).started(),
            // C10: one entry per queued iteration is appended, in order; whatever the iteration had not recorded is the
            // current end of the result trace; every entry is well formed
            final(self).lore().len() == old(self).lore().len() + old(self).q().len(),
            forall|j: int| 0 <= j < old(self).lore().len() ==> final(self).lore()[j] == old(self).lore()[j],
            forall|j: int| old(self).lore().len() <= j < final(self).lore().len() ==>
                entry_from(old(self).q()[j - old(self).lore().len()].ctor, data_keeper.rlen(), #[trigger] final(self).lore()[j]),
            forall|j: int| old(self).lore().len() <= j < final(self).lore().len() ==>
                entry_ok(#[trigger] final(self).lore()[j], data_keeper.rlen()),
            inv(*final(self), *data_keeper),
//@ end

//@ lift crates/air-lib/trace-handler/src/state_automata/fold_fsm.rs :: impl FoldFSM :: fn meet_fold_end
//@ props C10 C01 C09 C08
//@ spec
        requires
            core_inv(self, *old(data_keeper)),           // follows by inv_grows
            old(data_keeper).wf(),
        ensures
            // C10: the placeholder, and nothing else, is overwritten by the Fold state carrying the collected lore,
            // every entry of which is well formed w.r.t. the result trace as it is left
            final(data_keeper).result_trace.tr() == old(data_keeper).result_trace.tr().update(self.p() as int, self.written()),
            final(data_keeper).rlen() == old(data_keeper).rlen(),
            final(data_keeper).result_trace.tr()[self.p() as int] == self.written(),
            forall|i: int| 0 <= i < old(data_keeper).rlen() && i != self.p()
                ==> final(data_keeper).result_trace.tr()[i] == old(data_keeper).result_trace.tr()[i],
            final(data_keeper).result_trace.tr()[self.p() as int] matches ExecutedState::Fold(fr)
                && fr.lore@ == self.lore() && lore_ok(fr.lore@, final(data_keeper).rlen()),
            final(data_keeper).new_to_prev_pos == old(data_keeper).new_to_prev_pos,
            final(data_keeper).new_to_current_pos == old(data_keeper).new_to_current_pos,
            // C09: a prepared end state that fits is restored (the swallowed error can only be "does not fit")
            final(data_keeper).wf(), final(data_keeper).same_traces(old(data_keeper)),
            state_fits(self.sh().pair().prev_state, old(data_keeper).prev_ctx.slider)
                ==> restored(final(data_keeper).prev_ctx.slider, self.sh().pair().prev_state),
            state_fits(self.sh().pair().current_state, old(data_keeper).current_ctx.slider)
                ==> restored(final(data_keeper).current_ctx.slider, self.sh().pair().current_state),
//@ end
}


// ================================================================ the protocol, end to end (no code involved)
// The single assumption about the keeper between FoldFSM calls.  `core_inv` and `inv` depend on the keeper through the
// result-trace length only and are monotone in it: as long as the result trace does not shrink, the invariant
// precondition of the next call follows from the postcondition of the previous one.
//@ lemma inv_grows props C10
proof fn inv_grows(f: FoldFSM, dk1: DataKeeper, dk2: DataKeeper)
    requires dk1.rlen() <= dk2.rlen()
    ensures core_inv(f, dk1) ==> core_inv(f, dk2), inv(f, dk1) ==> inv(f, dk2)
{ }
//@ end

// C10 for a fold iteration, end to end: an iteration that went through the whole protocol (ctor c, AfterCompleted under
// its invariant) yields at generation end exactly the two ranges [s_b, e_b) and [s_a, e_a) it recorded, ordered and inside
// the result trace
//@ lemma completed_iteration_entry props C10
proof fn completed_iteration_entry(c: SubTraceLoreCtor, n: nat, l: FoldSubTraceLore)
    requires c.st() is AfterCompleted, c.inv(n), entry_from(c, n, l)
    ensures
        l.subtraces_desc@.len() == 2,
        l.subtraces_desc@[0].begin_pos.0 == c.sb() && l.subtraces_desc@[0].begin_pos.0 + l.subtraces_desc@[0].subtrace_len == c.eb(),
        l.subtraces_desc@[1].begin_pos.0 == c.sa() && l.subtraces_desc@[1].begin_pos.0 + l.subtraces_desc@[1].subtrace_len == c.ea(),
        c.sb() <= c.eb() <= c.sa() <= c.ea() <= n,
{ }
//@ end

// C09 for a fold: if the fold read from a slider lies inside that slider's window (and the window inside the trace),
// the end state prepared by from_fold_start still fits when meet_fold_end runs (fitting depends on the trace length only,
// which nothing changes), so the restore whose error is swallowed cannot fail: the slider ends right behind all of the
// fold's states with what was left of its window -- whatever hostile lore moved it around in between.
//@ lemma fold_fsm_restores props C09
proof fn fold_fsm_restores(fold: ResolvedFold, s: CtxState, at_start: TraceSlider, after_start: TraceSlider, before_end: TraceSlider, at_end: TraceSlider)
    requires
        s.pos.0 == at_start.pos() + fold.fold_states_count,
        s.subtrace_len == window(at_start) - fold.fold_states_count,
        fold_inside(fold, at_start) ==> state_fits(s, after_start),                  // from_fold_start
        before_end.tlen() == after_start.tlen(),                                     // same_traces, all the way
        state_fits(s, before_end) ==> restored(at_end, s),                           // meet_fold_end
    ensures
        fold_inside(fold, at_start) ==> at_end.pos() == at_start.pos() + fold.fold_states_count && at_end.seen() == 0
            && at_end.slen() == window(at_start) - fold.fold_states_count,
{ }
//@ end

// ================================================================ the protocol replayed in its real order
// THE assumption about the executor's effect on the keeper, stated once: between two FSM calls the executor may do
// anything to it (run nested pars and folds, move the sliders) as long as THE RESULT TRACE ONLY GROWS, the sliders stay
// well formed (slider.rs) over the same two input traces, and the result trace still fits u32.  This stub is used by
// the harness below only; no obligation on repository code depends on it.
#[verifier::external_body]
pub fn executor_runs_body(dk: &mut DataKeeper)
    ensures final(dk).rlen() >= old(dk).rlen(), final(dk).rlen() <= u32::MAX,
        final(dk).wf(), final(dk).same_traces(old(dk)),
{ unimplemented!() }

// One generation with two iterations, in the order fold_stream / next.rs drive the TraceHandler (Next::execute calls
// meet_iteration_end and, if there is a next value, meet_iteration_start back to back; at the last value
// meet_iteration_end and meet_back_iterator back to back; coming back from the nested `next`, meet_back_iterator again),
// with arbitrary executor activity wherever an instruction body runs.  Every invariant AND every call-order
// condition (`can_start_iteration`, `can_end_iteration`, `can_go_back`: the antecedents of the C10 implications, hence
// `current()` is always Some here) is discharged from the previous postcondition and `executor_runs_body` alone, and C10 comes
// out end to end: the Fold state at the fold's own position n0 has one entry per iteration, each with exactly two
// descriptors, and the four ranges  before(1) before(2) after(2) after(1)  partition the entries n0+1 .. n without gap
// or overlap.  C09: a fold lying inside an in-window slider leaves that slider right behind all of the fold's states.
//@ lemma fold_protocol_replayed props C10 C09 C01
pub fn fold_protocol_replayed(fold_result: MergerFoldResult, v1: TracePos, v2: TracePos, dk: &mut DataKeeper)
    -> (r: (bool, Ghost<nat>, Ghost<nat>, Ghost<nat>))
    requires old(dk).wf(), old(dk).rlen() < u32::MAX
    ensures ({
        let n0 = old(dk).rlen(); let b1 = r.1@; let b2 = r.2@; let d = r.3@; let e = final(dk).rlen();
        r.0 ==> {
            &&& n0 + 1 <= b1 <= b2 <= d <= e
            &&& final(dk).result_trace.tr()[n0 as int] matches ExecutedState::Fold(fr) && {
                &&& fr.lore@.len() == 2
                &&& fr.lore@[0].value_pos == v1 && fr.lore@[0].subtraces_desc@.len() == 2
                &&& fr.lore@[1].value_pos == v2 && fr.lore@[1].subtraces_desc@.len() == 2
                // before(1) = [n0+1, b1)   before(2) = [b1, b2)   after(2) = [b2, d)   after(1) = [d, e)
                &&& fr.lore@[0].subtraces_desc@[0].begin_pos.0 == n0 + 1 && fr.lore@[0].subtraces_desc@[0].subtrace_len == b1 - (n0 + 1)
                &&& fr.lore@[1].subtraces_desc@[0].begin_pos.0 == b1 && fr.lore@[1].subtraces_desc@[0].subtrace_len == b2 - b1
                &&& fr.lore@[1].subtraces_desc@[1].begin_pos.0 == b2 && fr.lore@[1].subtraces_desc@[1].subtrace_len == d - b2
                &&& fr.lore@[0].subtraces_desc@[1].begin_pos.0 == d && fr.lore@[0].subtraces_desc@[1].subtrace_len == e - d
            }
            &&& (fold_inside(fold_result.prev_fold_lore, old(dk).prev_ctx.slider)
                 && fold_inside(fold_result.current_fold_lore, old(dk).current_ctx.slider)) ==> {
                &&& final(dk).prev_ctx.slider.pos() == old(dk).prev_ctx.slider.pos() + fold_result.prev_fold_lore.fold_states_count
                &&& final(dk).current_ctx.slider.pos() == old(dk).current_ctx.slider.pos() + fold_result.current_fold_lore.fold_states_count
                &&& final(dk).prev_ctx.slider.seen() == 0 && final(dk).current_ctx.slider.seen() == 0
            }
        }
    }),
{
    let bad = (false, Ghost(0nat), Ghost(0nat), Ghost(0nat));
    let mut fsm = match FoldFSM::from_fold_start(fold_result, dk) { Ok(f) => f, Err(_) => { return bad; } };
    // iteration 1
    if fsm.meet_iteration_start(v1, dk).is_err() { return bad; }
    let ghost g = *dk;
    executor_runs_body(dk);                              // body of iteration 1 up to its `next`
    proof { inv_grows(fsm, g, *dk); }
    let ghost b1 = dk.rlen();
    if fsm.meet_iteration_end(dk).is_err() { return bad; }
    // iteration 2 (Next::execute: iteration end and start back to back)
    if fsm.meet_iteration_start(v2, dk).is_err() { return bad; }
    let ghost g = *dk;
    executor_runs_body(dk);                              // body of iteration 2 up to its `next`
    proof { inv_grows(fsm, g, *dk); }
    let ghost b2 = dk.rlen();
    if fsm.meet_iteration_end(dk).is_err() { return bad; }
    // no further value: turn round
    if fsm.meet_back_iterator(dk).is_err() { return bad; }
    let ghost g = *dk;
    executor_runs_body(dk);                              // rest of the body of iteration 2
    proof { inv_grows(fsm, g, *dk); }
    let ghost d = dk.rlen();
    // back in iteration 1's `next`
    if fsm.meet_back_iterator(dk).is_err() { return bad; }
    let ghost g = *dk;
    executor_runs_body(dk);                              // rest of the body of iteration 1
    proof { inv_grows(fsm, g, *dk); }
    fsm.meet_generation_end(dk);
    fsm.meet_fold_end(dk);
    (true, Ghost(b1), Ghost(b2), Ghost(d))
}
//@ end

} // verus!
fn main() {}
