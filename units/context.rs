//@ unit context
// ExecutionCtx (air/src/execution_step/execution_context/context.rs): the call-request-id counter
// (C06.V1/V2, C01.V9), the subgraph-completeness flag (its four accessors are the contracts the
// ExecutionCtx shims of the other units quote), and the error classification predicates
// (air/src/execution_step/errors: C18.V2).
//
// Trusted part of this file: the opaque field types of ExecutionCtx (every one of them is a struct
// the lifted functions only move around or default-construct), `ExecutionCidState::from_cid_info`,
// `PeerCidTracker::new`, `Streams::new`, `RcRunParameters::from_run_parameters` (no contract at all),
// the opaque payload types of CatchableError, the opaque UncatchableError.
use vstd::prelude::*;
verus! {

use std::rc::Rc;

// ---------------------------------------------------------------- shim: field types of ExecutionCtx (trusted, opaque)
pub struct Scalars<'i> { pub opaque_payload: u64, pub ph: core::marker::PhantomData<&'i u8> }
pub struct Streams { pub x: u8 }
pub struct StreamMaps { pub x: u8 }
pub struct LastErrorDescriptor { pub x: u8 }
pub struct ErrorDescriptor { pub x: u8 }
pub struct InstructionTracker { pub x: u8 }
pub struct CallResults { pub x: u8 }
pub struct CallRequests { pub x: u8 }
pub struct ExecutionCidState { pub x: u8 }
pub struct SignatureStore { pub x: u8 }
pub struct PeerCidTracker { pub x: u8 }
pub struct CidInfo { pub x: u8 }
pub struct RunParameters { pub x: u8 }
pub struct RcRunParameters { pub current_peer_id: Rc<String> }
impl<'i> Default for Scalars<'i> { fn default() -> Self { Scalars { opaque_payload: 0, ph: core::marker::PhantomData } } }
impl Default for StreamMaps { fn default() -> Self { StreamMaps { x: 0 } } }
impl Default for LastErrorDescriptor { fn default() -> Self { LastErrorDescriptor { x: 0 } } }
impl Default for ErrorDescriptor { fn default() -> Self { ErrorDescriptor { x: 0 } } }
impl Default for InstructionTracker { fn default() -> Self { InstructionTracker { x: 0 } } }
impl Default for CallRequests { fn default() -> Self { CallRequests { x: 0 } } }
impl Streams { pub fn new() -> Self { Streams { x: 0 } } }
impl ExecutionCidState {
    #[verifier::external_body]
    pub fn from_cid_info(prev_cid_info: CidInfo, current_cid_info: CidInfo) -> Self { unimplemented!() }
}
impl PeerCidTracker {
    #[verifier::external_body]
    pub fn new(current_peer_id: Rc<String>) -> Self { unimplemented!() }
}
impl RcRunParameters {
    #[verifier::external_body]
    pub fn from_run_parameters(run_parameters: &RunParameters) -> Self { unimplemented!() }
}

//@ lift air/src/execution_step/execution_context/context.rs :: struct ExecCtxIngredients
//@ derive
//@ end

//@ lift air/src/execution_step/execution_context/context.rs :: struct ExecutionCtx
//@ end

impl<'i> ExecutionCtx<'i> {
    // spec views of the fields the contracts talk about (the struct has a private field, so Verus treats it as opaque)
    pub closed spec fn lcid(&self) -> u32 { self.last_call_request_id }
    pub closed spec fn complete(&self) -> bool { self.subgraph_completeness }
    pub closed spec fn results(&self) -> CallResults { self.call_results }
    pub closed spec fn requests(&self) -> CallRequests { self.call_requests }
    pub closed spec fn next_peers(&self) -> Seq<String> { self.next_peer_pks@ }
    pub closed spec fn params(&self) -> RcRunParameters { self.run_parameters }

//@ lift air/src/execution_step/execution_context/context.rs :: impl <'i> ExecutionCtx<'i> :: fn new
//@ name ExecutionCtx::new
//@ props C06 C01
//@ ret r
//@ spec
        // C06.V2: the counter of a fresh context is the one persisted in *prev* data, whatever the
        // (untrusted) current data claims; the host's call results are taken as given; nothing is
        // requested or forwarded yet
        ensures
            r.lcid() == prev_ingredients.last_call_request_id,
            r.results() == call_results,
            r.complete(),
            r.next_peers().len() == 0,
//@ end

//@ lift air/src/execution_step/execution_context/context.rs :: impl <'i> ExecutionCtx<'i> :: fn next_call_request_id
//@ name ExecutionCtx::next_call_request_id
//@ props C06 C01
//@ ret r
//@ spec
        // C01.V9: the real code is an unchecked `+= 1` under overflow-checks = true, so u32 exhaustion
        // is a panic; it is a precondition here (nothing on the caller side establishes it: finding)
        requires old(self).lcid() < u32::MAX
        // C06.V1: strictly larger than every id issued before, and persisted as the new maximum
        ensures
            r == old(self).lcid() + 1,
            final(self).lcid() == r,
            final(self).results() == old(self).results(),
            final(self).requests() == old(self).requests(),
            final(self).next_peers() == old(self).next_peers(),
            final(self).complete() == old(self).complete(),
//@ end
}

impl ExecutionCtx<'_> {
//@ lift air/src/execution_step/execution_context/context.rs :: impl ExecutionCtx<'_> :: fn make_subgraph_incomplete
//@ props C05 C19
//@ spec
        ensures
            !final(self).complete(),
            final(self).lcid() == old(self).lcid(),
            final(self).results() == old(self).results(),
            final(self).requests() == old(self).requests(),
            final(self).next_peers() == old(self).next_peers(),
            final(self).params() == old(self).params(),
//@ end

//@ lift air/src/execution_step/execution_context/context.rs :: impl ExecutionCtx<'_> :: fn is_subgraph_complete
//@ props C18
//@ ret r
//@ spec
        ensures r == self.complete()
//@ end

//@ lift air/src/execution_step/execution_context/context.rs :: impl ExecutionCtx<'_> :: fn set_subgraph_completeness
//@ props C18
//@ spec
        ensures
            final(self).complete() == subgraph_complete,
            final(self).lcid() == old(self).lcid(),
            final(self).results() == old(self).results(),
            final(self).requests() == old(self).requests(),
            final(self).next_peers() == old(self).next_peers(),
//@ end

//@ lift air/src/execution_step/execution_context/context.rs :: impl ExecutionCtx<'_> :: fn flush_subgraph_completeness
//@ props C18
//@ spec
        ensures
            final(self).complete(),
            final(self).lcid() == old(self).lcid(),
            final(self).results() == old(self).results(),
            final(self).requests() == old(self).requests(),
            final(self).next_peers() == old(self).next_peers(),
//@ end
}

// ---------------------------------------------------------------- errors (C18.V2)
// trusted: payload types (opaque), UncatchableError (opaque: none of the predicates looks inside)
pub struct JValue { pub x: u8 }
pub struct LambdaError { pub x: u8 }
pub struct ErrorObjectError { pub x: u8 }
pub struct StreamMapError { pub x: u8 }
pub struct UncatchableError { pub x: u8 }

//@ lift air/src/execution_step/errors/catchable_errors.rs :: enum CatchableError
//@ derive
//@ end

//@ lift air/src/execution_step/errors/execution_errors.rs :: enum ExecutionError
//@ derive
//@ end

//@ lift air/src/execution_step/errors/joinable.rs :: trait Joinable
//@ end

// what the property statement calls "catchable" / "still waiting" (written from the statement, not from the code)
pub open spec fn catchable(e: ExecutionError) -> bool { e is Catchable }
pub open spec fn waiting(e: CatchableError) -> bool { e is VariableNotFound }
pub open spec fn joinable(e: ExecutionError) -> bool {
    match e { ExecutionError::Catchable(c) => waiting(*c), ExecutionError::Uncatchable(_) => false }
}

impl ExecutionError {
//@ lift air/src/execution_step/errors/execution_errors.rs :: impl ExecutionError :: fn is_catchable
//@ props C18
//@ ret r
//@ spec
        ensures r == catchable(*self)
//@ end
}

// the two `impl Joinable for ..` methods are lifted into inherent impls (same text, same receiver; the trait
// has no other implementor reachable from the lifted code) so that they get a vacuity canary
impl CatchableError {
//@ lift air/src/execution_step/errors/catchable_errors.rs :: impl Joinable for CatchableError :: fn is_joinable
//@ props C18
//@ ret r
//@ rewrite 1 "log_join!(\"  waiting for an argument with name '{}'\", var_name);" => ""
//@ spec
        ensures r == waiting(*self)
//@ end
}

impl ExecutionError {
//@ lift air/src/execution_step/errors/execution_errors.rs :: impl Joinable for ExecutionError :: fn is_joinable
//@ props C18
//@ ret r
//@ spec
        ensures r == joinable(*self), r ==> catchable(*self)
//@ end
}

} // verus!
fn main() {}
