//@ unit multisubset
// crates/air-lib/interpreter-data/src/interpreter_data/verification.rs: is_multisubset,
// check_cid_multiset_invariant, PeerInfo (C15: "neither result set contains the other (as multisets)").
//
// Trusted part of this file:
//  * `to_count_map` is LIFTED and proved (loop invariant: the map holds the multiset of the prefix seen so far; the `+= 1`
//    cannot overflow because a count never exceeds the number of positions seen). Two declared rewrites on it:
//    `for cid in cids` -> `for cid in it: cids.iter()` (what `IntoIterator for &Vec` is defined as) and the std idiom
//    `*count_map.entry(&**cid).or_default() += 1;` -> `entry_or_default_add1(&mut count_map, rc_str(cid));`, a trusted helper
//    whose body IS that idiom and whose assumed contract is "the count under the key (0 if absent) goes up by one, all other
//    keys keep theirs". So what is assumed shrank from "the function returns the multiset" to the meaning of one std call.
//  * a str is determined by its characters (axiom_str_view_injective) and `&**cid` views as the Rc<str> does (rc_str).
//  * `&str` obeys the hash-table key model (Hash/Eq of str are consistent) -- axiom_str_ref_obeys_key_model.
//  * PublicKey / Signature / KeyError / DataVerifierError shims; `to_peer_id()` succeeds on validated keys
//    (DataVerifier::new validates every key before any PeerInfo exists: the `expect("cannot happen ..")`).
//  * R12 rewrite in is_multisubset: `for (cid, &smaller_count) in &smaller_count_set` becomes
//    `for (cid, smaller_count_ref) in it: smaller_count_set.iter()` + `let smaller_count = *smaller_count_ref;`
//    (Verus rejects the `&x` pattern, and vstd specifies `HashMap::iter` but not `IntoIterator for &HashMap`,
//    which std defines as `self.iter()`).
// NOT covered: DataVerifier::merge / try_push_cid (`Entry::{Occupied,Vacant}`, `get_mut`, `mem::swap` through an
//    entry, by-value HashMap iteration with a `mut` binding): the swap decision `ours.len() < other.len()` is
//    outside this unit.
use vstd::prelude::*;
use std::collections::HashMap;
verus! {
broadcast use {vstd::std_specs::hash::group_hash_axioms, key_model::axiom_str_ref_obeys_key_model};

pub type CidRef = str;
pub type Rc<T> = std::rc::Rc<T>;

pub mod key_model {
    use vstd::prelude::*;
    #[verifier::external_body]
    pub broadcast proof fn axiom_str_ref_obeys_key_model()
        ensures #[trigger] vstd::std_specs::hash::obeys_key_model::<&str>()
    {}
}

// ---------------------------------------------------------------- shim: signatures, errors (trusted)
#[derive(Debug)]
pub struct KeyError;
pub struct PublicKey { pub bytes: Vec<u8> }
pub struct Signature { pub bytes: Vec<u8> }
impl PublicKey {
    pub uninterp spec fn is_valid(&self) -> bool;      // `validate()` returned Ok
    #[verifier::external_body]
    pub fn to_peer_id(&self) -> (r: Result<String, KeyError>)
        ensures self.is_valid() ==> r is Ok
    { unimplemented!() }
}
pub enum DataVerifierError {
    PeerIdNotFound(String),
    MergeMismatch { peer_id: String, larger_cids: Vec<Rc<CidRef>>, smaller_cids: Vec<Rc<CidRef>> },
}

//@ lift crates/air-lib/interpreter-data/src/interpreter_data/verification.rs :: struct PeerInfo
//@ end

impl<'data> PeerInfo<'data> {
//@ lift crates/air-lib/interpreter-data/src/interpreter_data/verification.rs :: impl<'data> PeerInfo<'data> :: fn new
//@ props C15
//@ ret r
//@ spec
        ensures r.cids@.len() == 0, r.public_key == public_key, r.signature == signature
//@ end
}

// ---------------------------------------------------------------- specs
// number of occurrences of the CID text `k` in a vector of CIDs
pub open spec fn occurrences(cids: Seq<Rc<CidRef>>, k: &str) -> nat
    decreases cids.len()
{
    if cids.len() == 0 { 0 } else { occurrences(cids.drop_last(), k) + if cids.last()@ == k@ { 1nat } else { 0nat } }
}
// count stored in a count map (missing = 0)
pub open spec fn count_of(m: Map<&str, usize>, k: &str) -> nat { if m.dom().contains(k) { m[k] as nat } else { 0 } }
// multiset inclusion from the property statement: `smaller` is contained in `larger`
pub open spec fn multi_included(smaller: Seq<Rc<CidRef>>, larger: Seq<Rc<CidRef>>) -> bool {
    forall|k: &str| occurrences(larger, k) >= occurrences(smaller, k)
}

// std idiom `*m.entry(k).or_default() += 1` (HashMap entry API, outside Verus): TRUSTED to mean "the count stored under k
// (0 when absent) goes up by one, every other key keeps its count"; `+=` panics on overflow (overflow-checks = true), hence
// the precondition, which the loop invariant of to_count_map discharges (count <= positions seen <= usize::MAX).
#[verifier::external_body]
fn entry_or_default_add1<'a>(m: &mut HashMap<&'a str, usize>, k: &'a str)
    requires count_of(old(m)@, k) < usize::MAX
    ensures final(m)@ == old(m)@.insert(k, (count_of(old(m)@, k) + 1) as usize)
{ *m.entry(k).or_default() += 1; }

// &**cid for cid: &Rc<str>
#[verifier::external_body]
pub uninterp spec fn rc_str_spec<'a>(cid: &'a Rc<CidRef>) -> &'a str;
#[verifier::external_body]
pub proof fn axiom_rc_str_spec(cid: &Rc<CidRef>)
    ensures rc_str_spec(cid)@ == cid@
{}
#[verifier::external_body]
fn rc_str<'a>(cid: &'a Rc<CidRef>) -> (r: &'a str)
    ensures r == rc_str_spec(cid), r@ == cid@
{ &**cid }

// TRUSTED: a str is determined by its characters (Rust's Eq for str compares the bytes; this is the fact the key model of
// `&str` rests on). The contract formerly assumed for to_count_map implied it.
#[verifier::external_body]
pub proof fn axiom_str_view_injective(a: &str, b: &str)
    ensures a@ == b@ ==> a == b
{}

pub proof fn lemma_occurrences_push(s: Seq<Rc<CidRef>>, c: Rc<CidRef>, k: &str)
    ensures occurrences(s.push(c), k) == occurrences(s, k) + if c@ == k@ { 1nat } else { 0nat }
{
    assert(s.push(c).drop_last() =~= s);
}
pub proof fn lemma_occurrences_bound(s: Seq<Rc<CidRef>>, k: &str)
    ensures occurrences(s, k) <= s.len()
    decreases s.len()
{
    if s.len() > 0 { lemma_occurrences_bound(s.drop_last(), k); }
}

//@ lift crates/air-lib/interpreter-data/src/interpreter_data/verification.rs :: fn to_count_map
//@ props C15
//@ ret r
//@ rewrite 1 "for cid in cids" => "for cid in it: cids.iter()"
//@ rewrite 1 "*count_map.entry(&**cid).or_default() += 1;" => "entry_or_default_add1(&mut count_map, rc_str(cid));"
//@ spec
    // C15: the count map IS the multiset of the vector (the link between the property's "as multisets" and is_multisubset)
    ensures forall|k: &str| count_of(r@, k) == occurrences(cids@, k)
//@ after "count_map.entry"
        proof {
            let ghost seen = cids@.take(it.index() as int);
            assert forall|k: &str| count_of(count_map@, k) == occurrences(seen.push(*cid), k) by {
                if k == key { assert(count_of(old_map, k) == occurrences(seen, k)); }
                else { assert(k@ != (*cid)@); assert(count_of(old_map, k) == occurrences(seen, k)); }
            }
        }
//@ before #2 "count_map"
    proof { assert(cids@.take(cids@.len() as int) =~= cids@); }
//@ loop 0
        invariant
            it.seq().len() == cids@.len(),
            forall|i: int| 0 <= i < cids@.len() ==> *it.seq()[i] == cids@[i],
            forall|k: &str| count_of(count_map@, k) == occurrences(cids@.take(it.index() as int), k),
//@ before "count_map.entry"
        let ghost old_map = count_map@;
        let ghost key = rc_str_spec(cid);
        proof {
            let ghost seen = cids@.take(it.index() as int);
            assert(cids@.take(it.index() as int + 1) =~= seen.push(*cid));
            assert forall|k: &str| #[trigger] occurrences(seen.push(*cid), k) == occurrences(seen, k) + if (*cid)@ == k@ { 1nat } else { 0nat } by {
                lemma_occurrences_push(seen, *cid, k);
            }
            assert(cids.len() <= usize::MAX);
            assert forall|k: &str| #[trigger] occurrences(seen, k) < usize::MAX by { lemma_occurrences_bound(seen, k); }
            axiom_rc_str_spec(cid);
            assert forall|k: &str| k@ == (*cid)@ implies k == rc_str_spec(cid) by { axiom_str_view_injective(k, rc_str_spec(cid)); }
        }
//@ end

//@ lift crates/air-lib/interpreter-data/src/interpreter_data/verification.rs :: fn is_multisubset
//@ props C15
//@ ret r
//@ rewrite 1 "(cid, &smaller_count) in &smaller_count_set" => "(cid, smaller_count_ref) in it: smaller_count_set.iter()"
//@ rewrite 1 "let larger_count =" => "let smaller_count = *smaller_count_ref; let larger_count ="
//@ spec
    ensures r <==> forall|k: &str| count_of(larger_count_set@, k) >= count_of(smaller_count_set@, k)
//@ loop 0
        invariant
            forall|k: &str| smaller_count_set@.dom().contains(k) ==> it.seq().contains((&k, &smaller_count_set@[k])),
            forall|i: int| 0 <= i < it.seq().len() ==> smaller_count_set@.contains_pair(*it.seq()[i].0, *it.seq()[i].1),
            forall|i: int| 0 <= i < it.index() ==> count_of(larger_count_set@, *it.seq()[i].0) >= *it.seq()[i].1,
//@ end

//@ lift crates/air-lib/interpreter-data/src/interpreter_data/verification.rs :: fn check_cid_multiset_invariant
//@ props C15
//@ ret r
//@ spec
    requires smaller_pair.public_key.is_valid()
    ensures
        // C15: accepted iff the smaller result set is contained in the larger one as a multiset
        r is Ok <==> multi_included(smaller_pair.cids@, larger_pair.cids@),
        r matches Err(e) ==> (e matches DataVerifierError::MergeMismatch { peer_id, larger_cids, smaller_cids }
            && larger_cids@.len() == larger_pair.cids@.len() && smaller_cids@.len() == smaller_pair.cids@.len()),
//@ end

} // verus!
fn main() {}
