//@ unit multisubset
// crates/air-lib/interpreter-data/src/interpreter_data/verification.rs: is_multisubset,
// check_cid_multiset_invariant, PeerInfo (C15: "neither result set contains the other (as multisets)").
//
// Trusted part of this file:
//  * `to_count_map` stays external_body (it uses `HashMap::entry(..).or_default()`, outside Verus). Its assumed
//    contract is "returns the multiset of its argument": for every key, the stored count (0 if absent) is the
//    number of positions of the vector holding that CID text. THIS IS THE ONE ASSUMED LINK of C15's chain.
//  * `&str` obeys the hash-table key model (Hash/Eq of str are consistent) -- axiom_str_ref_obeys_key_model.
//  * PublicKey / Signature / KeyError / DataVerifierError shims; `to_peer_id()` succeeds on validated keys
//    (DataVerifier::new validates every key before any PeerInfo exists: the `expect("cannot happen ..")`).
//  * R12 rewrite in is_multisubset: `for (cid, &smaller_count) in &smaller_count_set` becomes
//    `for (cid, smaller_count_ref) in it: smaller_count_set.iter()` + `let smaller_count = *smaller_count_ref;`
//    (Verus rejects the `&x` pattern, and vstd specifies `HashMap::iter` but not `IntoIterator for &HashMap`,
//    which std defines as `self.iter()`).
// NOT covered: DataVerifier::merge / try_push_cid (`Entry::{Occupied,Vacant}`, `get_mut`, `mem::swap` through an
//    entry, by-value HashMap iteration with a `mut` binding): the swap decision `ours.len() < other.len()` is
//    outside this unit.
use vstd::prelude::*;
use std::collections::HashMap;
verus! {
broadcast use {vstd::std_specs::hash::group_hash_axioms, key_model::axiom_str_ref_obeys_key_model};

pub type CidRef = str;
pub type Rc<T> = std::rc::Rc<T>;

pub mod key_model {
    use vstd::prelude::*;
    #[verifier::external_body]
    pub broadcast proof fn axiom_str_ref_obeys_key_model()
        ensures #[trigger] vstd::std_specs::hash::obeys_key_model::<&str>()
    {}
}

// ---------------------------------------------------------------- shim: signatures, errors (trusted)
#[derive(Debug)]
pub struct KeyError;
pub struct PublicKey { pub bytes: Vec<u8> }
pub struct Signature { pub bytes: Vec<u8> }
impl PublicKey {
    pub uninterp spec fn is_valid(&self) -> bool;      // `validate()` returned Ok
    #[verifier::external_body]
    pub fn to_peer_id(&self) -> (r: Result<String, KeyError>)
        ensures self.is_valid() ==> r is Ok
    { unimplemented!() }
}
pub enum DataVerifierError {
    PeerIdNotFound(String),
    MergeMismatch { peer_id: String, larger_cids: Vec<Rc<CidRef>>, smaller_cids: Vec<Rc<CidRef>> },
}

//@ lift crates/air-lib/interpreter-data/src/interpreter_data/verification.rs :: struct PeerInfo
//@ end

impl<'data> PeerInfo<'data> {
//@ lift crates/air-lib/interpreter-data/src/interpreter_data/verification.rs :: impl<'data> PeerInfo<'data> :: fn new
//@ props C15
//@ ret r
//@ spec
        ensures r.cids@.len() == 0, r.public_key == public_key, r.signature == signature
//@ end
}

// ---------------------------------------------------------------- specs
// number of occurrences of the CID text `k` in a vector of CIDs
pub open spec fn occurrences(cids: Seq<Rc<CidRef>>, k: &str) -> nat
    decreases cids.len()
{
    if cids.len() == 0 { 0 } else { occurrences(cids.drop_last(), k) + if cids.last()@ == k@ { 1nat } else { 0nat } }
}
// count stored in a count map (missing = 0)
pub open spec fn count_of(m: Map<&str, usize>, k: &str) -> nat { if m.dom().contains(k) { m[k] as nat } else { 0 } }
// multiset inclusion from the property statement: `smaller` is contained in `larger`
pub open spec fn multi_included(smaller: Seq<Rc<CidRef>>, larger: Seq<Rc<CidRef>>) -> bool {
    forall|k: &str| occurrences(larger, k) >= occurrences(smaller, k)
}

// ASSUMED: to_count_map returns the multiset of its argument
#[verifier::external_body]
fn to_count_map(cids: &Vec<Rc<CidRef>>) -> (r: HashMap<&str, usize>)
    ensures forall|k: &str| count_of(r@, k) == occurrences(cids@, k)
{ unimplemented!() }

//@ lift crates/air-lib/interpreter-data/src/interpreter_data/verification.rs :: fn is_multisubset
//@ props C15
//@ ret r
//@ rewrite 1 "(cid, &smaller_count) in &smaller_count_set" => "(cid, smaller_count_ref) in it: smaller_count_set.iter()"
//@ rewrite 1 "let larger_count =" => "let smaller_count = *smaller_count_ref; let larger_count ="
//@ spec
    ensures r <==> forall|k: &str| count_of(larger_count_set@, k) >= count_of(smaller_count_set@, k)
//@ loop 0
        invariant
            forall|k: &str| smaller_count_set@.dom().contains(k) ==> it.seq().contains((&k, &smaller_count_set@[k])),
            forall|i: int| 0 <= i < it.seq().len() ==> smaller_count_set@.contains_pair(*it.seq()[i].0, *it.seq()[i].1),
            forall|i: int| 0 <= i < it.index() ==> count_of(larger_count_set@, *it.seq()[i].0) >= *it.seq()[i].1,
//@ end

//@ lift crates/air-lib/interpreter-data/src/interpreter_data/verification.rs :: fn check_cid_multiset_invariant
//@ props C15
//@ ret r
//@ spec
    requires smaller_pair.public_key.is_valid()
    ensures
        // C15: accepted iff the smaller result set is contained in the larger one as a multiset
        r is Ok <==> multi_included(smaller_pair.cids@, larger_pair.cids@),
        r matches Err(e) ==> (e matches DataVerifierError::MergeMismatch { peer_id, larger_cids, smaller_cids }
            && larger_cids@.len() == larger_pair.cids@.len() && smaller_cids@.len() == smaller_pair.cids@.len()),
//@ end

} // verus!
fn main() {}
