#![feature(allocator_api)]
//@ unit cid_record
// C03, signature clause, producer side, CALL states: every CID-bearing call state handed to the trace is registered for signing.
//   air/src/execution_step/instructions/call/prev_result_handler.rs  handle_prev_state, update_state_with_service_result,
//                                                                    handle_service_error, try_to_service_result,
//                                                                    StateDescriptor::maybe_set_prev_state (the deferred re-emission)
//   air/src/execution_step/instructions/call/call_result_setter.rs   populate_context_from_peer_service_result, populate_context_from_data,
//                                                                    handle_remote_call
//   air/src/execution_step/execution_context/context.rs              record_call_cid
//   crates/air-lib/interpreter-data/src/executed_state/impls.rs      CallResult::get_cid, ValueRef::get_cid (the verifier's notion of
//                                                                    "this state carries a CID")
// How the other side works (interpreter_data/verification.rs, collect_peers_cids_from_trace): for every `Call` state with
// `get_cid() == Some(cid)` -- Executed(Scalar|Stream) AND Failed -- the verifier looks up the aggregate, reads the peer_pk of the
// tetraplet stored under it and counts the cid for that peer; each peer's signature must then verify over exactly its cids.
// Hence the per-call form of C03's signature clause, contract (R):
//   every state given to `meet_call_end` that carries a CID was registered (`record_call_cid(p, cid)`) exactly once, with
//   p = peer_pk of the tetraplet under which the aggregate is stored; nothing else is registered; on EVERY path, error paths included.
// (The canon states are unit cid_record_canon; what `register` keeps and what is signed is unit cid_record_sign.)
//
// Ghost logs: `PeerCidTracker.recorded` = one entry (peer, cid) per `register` call, whatever the peer;
//             `TraceHandler.pushed` = the call states given to `meet_call_end`.
// `stored_tet(store, cid)` = the tetraplet stored under a service-result CID (what the verifier will read).
//
// FINDING F8: `try_to_service_result` FAILS (R): host answer with ret_code 0 whose text is not JSON -> `Failed(cid)` is pushed, nothing registered.
//
// Trusted part of this file:
//  * `String` key model, `u32::to_string`, `From<T> for T` (as unit prev_result);
//  * opaque data types (CID = an id, JValue, TracePos, ...), error payloads;
//  * PeerCidTracker::register appends (peer, cid) to the ghost log (its real effect: unit cid_record_sign);
//  * ExecutionCidState::track_service_result `Ok(c) ==> stored_tet(new store, c) == the tetraplet argument`,
//    ExecutionCidState::resolve_service_info `Ok(info) ==> info.tetraplet == stored_tet(store, cid)`: both are consequences of the
//    contracts proved on the real text in unit cid_state (`ts()[srs()[c].tetraplet_cid] == tetraplet`); written by hand
//    because that unit uses the real store types;
//  * Scalars::set_scalar_value, Streams::add_stream_value: `&mut` of their own field only, NO contract (an error may be catchable);
//  * TraceHandler::meet_call_end appends to `pushed`; trace_pos, serde_json::*, value_to_json_cid, to_value: no contract;
//  * verify_call: contract imported mechanically from unit call_verifier.
use vstd::prelude::*;
verus! {

use std::rc::Rc;
use std::collections::HashMap;
use core::marker::PhantomData;

pub mod ax {
    use vstd::prelude::*;
    use vstd::string::to_string_from_display_ensures;
    pub uninterp spec fn dec(v: u32) -> String;
    #[verifier::external_body]
    pub broadcast proof fn axiom_u32_to_string(v: u32, s: String)
        ensures #[trigger] to_string_from_display_ensures::<u32>(&v, s) ==> s == dec(v) {}
    #[verifier::external_body]
    pub broadcast proof fn axiom_string_obeys_key_model()
        ensures #[trigger] vstd::std_specs::hash::obeys_key_model::<String>() {}
}
broadcast use {vstd::std_specs::hash::group_hash_axioms, ax::axiom_u32_to_string, ax::axiom_string_obeys_key_model};
pub assume_specification<T>[ <T as core::convert::From<T>>::from ](t: T) -> (r: T) ensures r == t;
pub assume_specification<T: ?Sized, A: std::alloc::Allocator + Clone>[ <std::rc::Rc<T, A> as Clone>::clone ](a: &std::rc::Rc<T, A>) -> (r: std::rc::Rc<T, A>)
    ensures r == *a;

// ---------------------------------------------------------------- shim: opaque data (trusted)
pub struct CID<T> { pub id: u64, pub ph: PhantomData<T> }
impl<T> Clone for CID<T> { fn clone(&self) -> (r: Self) ensures r == *self { CID { id: self.id, ph: PhantomData } } }
pub struct JValue { pub x: u8 }
impl Clone for JValue { fn clone(&self) -> (r: Self) ensures r == *self { JValue { x: self.x } } }
#[derive(Clone, Copy)]
pub struct TracePos(pub u32);
#[derive(Clone, Copy)]
pub struct AirPos(pub usize);
#[derive(Clone, Copy)]
pub struct GenerationIdx(pub u32);
impl GenerationIdx { pub fn stub() -> Self { GenerationIdx(0xCAFEBABE) } }
pub struct SecurityTetraplet { pub peer_pk: String, pub service_id: String, pub function_name: String, pub lens: String }
pub type RcSecurityTetraplet = Rc<SecurityTetraplet>;
pub struct ServiceResultCidAggregate { pub argument_hash: Rc<str> }
pub struct ServiceResultAggregate { pub result: JValue, pub tetraplet: RcSecurityTetraplet, pub trace_pos: TracePos }
impl ServiceResultAggregate {
    pub fn new(result: JValue, tetraplet: RcSecurityTetraplet, trace_pos: TracePos) -> Self { Self { result, tetraplet, trace_pos } }
}
pub struct ValueAggregate { pub result: ServiceResultAggregate, pub provenance_cid: CID<ServiceResultCidAggregate> }
impl ValueAggregate {
    pub fn from_service_result(service_result: ServiceResultAggregate, service_result_agg_cid: CID<ServiceResultCidAggregate>) -> Self {
        Self { result: service_result, provenance_cid: service_result_agg_cid }
    }
}
pub enum Generation { Previous(GenerationIdx), Current(GenerationIdx), New }
impl Generation {
    pub fn from_data(data_type: ValueSource, generation: GenerationIdx) -> Self {
        match data_type { ValueSource::PreviousData => Generation::Previous(generation), ValueSource::CurrentData => Generation::Current(generation) }
    }
}
pub struct StreamValueDescriptor<'a> { pub value: ValueAggregate, pub name: &'a str, pub generation: Generation, pub position: AirPos }
impl<'a> StreamValueDescriptor<'a> {
    pub fn new(value: ValueAggregate, name: &'a str, generation: Generation, position: AirPos) -> Self { Self { value, name, generation, position } }
}
#[verifier::external_body]
pub fn opaque_string() -> String { unimplemented!() }
pub struct CidCalculationError { pub x: u8 }
#[verifier::external_body]
pub fn value_to_json_cid(value: &JValue) -> Result<CID<JValue>, CidCalculationError> { unimplemented!() }

// ---------------------------------------------------------------- real data types
//@ lift crates/air-lib/interpreter-data/src/executed_state.rs :: enum Sender
//@ derive Clone
//@ end
//@ lift crates/air-lib/interpreter-data/src/executed_state.rs :: enum CallResult
//@ derive Clone
//@ end
//@ lift crates/air-lib/interpreter-data/src/executed_state.rs :: enum ValueRef
//@ derive
//@ end
// real: #[derive(Clone)] (Verus gives a derived clone no spec)
impl Clone for ValueRef {
    fn clone(&self) -> (r: Self) ensures r == *self {
        match self {
            ValueRef::Scalar(cid) => ValueRef::Scalar(cid.clone()),
            ValueRef::Stream { cid, generation } => ValueRef::Stream { cid: cid.clone(), generation: *generation },
            ValueRef::Unused(cid) => ValueRef::Unused(cid.clone()),
        }
    }
}
//@ lift crates/air-lib/interpreter-data/src/executed_state.rs :: struct CallServiceFailed
//@ derive
//@ end
//@ lift crates/air-lib/trace-handler/src/merger/mod.rs :: enum ValueSource
//@ derive Clone Copy
//@ end
//@ lift crates/air-lib/trace-handler/src/merger/call_merger.rs :: struct MetCallResult
//@ derive
//@ end
//@ lift crates/air-lib/interpreter-interface/src/call_service_result.rs :: struct CallServiceResult
//@ derive
//@ end
//@ lift crates/air-lib/interpreter-interface/src/call_service_result.rs :: type CallResults
//@ end
//@ lift crates/air-lib/interpreter-interface/src/call_service_result.rs :: const CALL_SERVICE_SUCCESS
//@ end
//@ lift crates/air-lib/interpreter-interface/src/call_request_parameters.rs :: type CallRequests
//@ end
pub struct CallRequestParams { pub x: u8 }
//@ lift crates/air-lib/air-parser/src/ast/values.rs :: struct Scalar
//@ derive
//@ end
//@ lift crates/air-lib/air-parser/src/ast/values.rs :: struct Stream
//@ derive
//@ end
//@ lift crates/air-lib/air-parser/src/ast/instruction_arguments.rs :: enum CallOutputValue
//@ derive
//@ end

impl CallServiceFailed {
//@ lift crates/air-lib/interpreter-data/src/executed_state.rs :: impl CallServiceFailed :: fn new
//@ name CallServiceFailed::new
//@ props C03
//@ end
    #[verifier::external_body]
    pub fn to_value(&self) -> JValue { unimplemented!() }
}

// ---- which states carry a CID: the verifier's own test (`call.get_cid()` in collect_peers_cids_from_trace), written from its source
pub open spec fn cid_of(c: CallResult) -> Option<CID<ServiceResultCidAggregate>> {
    match c {
        CallResult::RequestSentBy(_) => None,
        CallResult::Executed(ValueRef::Scalar(cid)) => Some(cid),
        CallResult::Executed(ValueRef::Stream { cid, .. }) => Some(cid),
        CallResult::Executed(ValueRef::Unused(_)) => None,
        CallResult::Failed(cid) => Some(cid),
    }
}

impl ValueRef {
//@ lift crates/air-lib/interpreter-data/src/executed_state/impls.rs :: impl ValueRef :: fn get_cid
//@ name ValueRef::get_cid
//@ props C03
//@ ret r
//@ spec
        ensures match cid_of(CallResult::Executed(*self)) { Some(c) => r matches Some(x) && *x == c, None => r is None }
//@ end
}

impl CallResult {
//@ lift crates/air-lib/interpreter-data/src/executed_state/impls.rs :: impl CallResult :: fn get_cid
//@ name CallResult::get_cid
//@ props C03
//@ ret r
//@ spec
        // `cid_of` IS what the verifier counts
        ensures match cid_of(*self) { Some(c) => r matches Some(x) && *x == c, None => r is None }
//@ end
//@ lift crates/air-lib/interpreter-data/src/executed_state/impls.rs :: impl CallResult :: fn executed_service_result
//@ name CallResult::executed_service_result
//@ props C03
//@ ret r
//@ spec
        ensures r == CallResult::Executed(value_ref)
//@ end
//@ lift crates/air-lib/interpreter-data/src/executed_state/impls.rs :: impl CallResult :: fn executed_scalar
//@ name CallResult::executed_scalar
//@ props C03
//@ ret r
//@ spec
        ensures r == CallResult::Executed(ValueRef::Scalar(service_result_agg_cid))
//@ end
//@ lift crates/air-lib/interpreter-data/src/executed_state/impls.rs :: impl CallResult :: fn executed_stream_stub
//@ name CallResult::executed_stream_stub
//@ props C03
//@ ret r
//@ spec
        ensures r matches CallResult::Executed(ValueRef::Stream { cid: c, .. }) && c == cid
//@ end
//@ lift crates/air-lib/interpreter-data/src/executed_state/impls.rs :: impl CallResult :: fn executed_unused
//@ name CallResult::executed_unused
//@ props C03
//@ ret r
//@ spec
        ensures r == CallResult::Executed(ValueRef::Unused(value_cid))
//@ end
//@ lift crates/air-lib/interpreter-data/src/executed_state/impls.rs :: impl CallResult :: fn sent_peer_id
//@ name CallResult::sent_peer_id
//@ props C03
//@ ret r
//@ spec
        ensures cid_of(r) is None
//@ end
//@ lift crates/air-lib/interpreter-data/src/executed_state/impls.rs :: impl CallResult :: fn sent_peer_id_with_call_id
//@ name CallResult::sent_peer_id_with_call_id
//@ props C03
//@ ret r
//@ spec
        ensures cid_of(r) is None
//@ end
//@ lift crates/air-lib/interpreter-data/src/executed_state/impls.rs :: impl CallResult :: fn failed
//@ name CallResult::failed
//@ props C03
//@ ret r
//@ spec
        ensures r == CallResult::Failed(service_result_agg_cid)
//@ end
}

// ---------------------------------------------------------------- errors
pub struct LambdaError { pub x: u8 }
pub struct ErrorObjectError { pub x: u8 }
pub struct StreamMapError { pub x: u8 }
#[derive(Debug)]
pub struct SerdeError { pub x: u8 }
pub struct IntConversionError { pub x: u8 }
// the variants the lifted code constructs; every other uncatchable error is `Other`
pub enum UncatchableError {
    MalformedCallServiceFailed(SerdeError),
    CallResultNotCorrespondToInstr(ValueRef),
    InstructionParametersMismatch { param: &'static str, expected_value: String, stored_value: String },
    Other(u8),
}
impl From<IntConversionError> for UncatchableError { fn from(e: IntConversionError) -> Self { UncatchableError::Other(0) } }
impl From<CidCalculationError> for UncatchableError { fn from(e: CidCalculationError) -> Self { UncatchableError::Other(1) } }
impl vstd::std_specs::convert::FromSpecImpl<IntConversionError> for UncatchableError {
    open spec fn obeys_from_spec() -> bool { true }
    open spec fn from_spec(e: IntConversionError) -> UncatchableError { UncatchableError::Other(0) }
}
impl vstd::std_specs::convert::FromSpecImpl<CidCalculationError> for UncatchableError {
    open spec fn obeys_from_spec() -> bool { true }
    open spec fn from_spec(e: CidCalculationError) -> UncatchableError { UncatchableError::Other(1) }
}

//@ lift air/src/execution_step/errors/catchable_errors.rs :: enum CatchableError
//@ derive
//@ end
//@ lift air/src/execution_step/errors/execution_errors.rs :: enum ExecutionError
//@ derive
//@ end
pub type ExecutionResult<T> = Result<T, ExecutionError>;

impl From<CatchableError> for ExecutionError {
//@ lift air/src/execution_step/errors/execution_errors.rs :: impl From<CatchableError> for ExecutionError :: fn from
//@ name ExecutionError::from<CatchableError>
//@ props C03
//@ end
}
// real: generated by thiserror's #[from]
impl From<UncatchableError> for ExecutionError { fn from(e: UncatchableError) -> Self { ExecutionError::Uncatchable(e) } }
impl vstd::std_specs::convert::FromSpecImpl<UncatchableError> for ExecutionError {
    open spec fn obeys_from_spec() -> bool { true }
    open spec fn from_spec(e: UncatchableError) -> ExecutionError { ExecutionError::Uncatchable(e) }
}
impl vstd::std_specs::convert::FromSpecImpl<CatchableError> for ExecutionError {
    open spec fn obeys_from_spec() -> bool { false }
    open spec fn from_spec(e: CatchableError) -> ExecutionError { arbitrary() }
}

// ---------------------------------------------------------------- shim: serde_json, verifier (trusted)
pub mod serde_json {
    use super::*;
    pub struct Value { pub x: u8 }
    #[verifier::external_body]
    pub fn from_str(s: &str) -> Result<JValue, SerdeError> { unimplemented!() }
    #[verifier::external_body]
    pub fn to_value(v: JValue) -> (r: Result<Value, SerdeError>) ensures r is Ok { unimplemented!() }
    #[verifier::external_body]
    pub fn from_value(v: Value) -> Result<CallServiceFailed, SerdeError> { unimplemented!() }
}
//@ import-spec call_verifier :: tet_eq
//@ stub call_verifier :: verify_call
pub mod air_interpreter_interface { pub use super::CALL_SERVICE_SUCCESS; }
pub mod air_interpreter_data { pub use super::ValueRef; }

// ---------------------------------------------------------------- shim: the context's sub-objects (trusted, opaque)
pub struct Scalars<'i> { pub opaque_payload: u64, pub ph: PhantomData<&'i u8> }
impl<'i> Scalars<'i> {
    #[verifier::external_body]
    pub fn set_scalar_value(&mut self, name: &str, value: ValueAggregate) -> ExecutionResult<bool> { unimplemented!() }
}
pub struct Streams { pub x: u8 }
impl Streams {
    #[verifier::external_body]
    pub fn add_stream_value(&mut self, value_descriptor: StreamValueDescriptor<'_>) -> ExecutionResult<()> { unimplemented!() }
}
pub struct StreamMaps { pub x: u8 }
pub struct LastErrorDescriptor { pub x: u8 }
pub struct ErrorDescriptor { pub x: u8 }
pub struct InstructionTracker { pub x: u8 }
pub struct SignatureStore { pub x: u8 }
// ghost log of `register` calls: (peer, cid id), one entry per call whatever the peer
pub struct PeerCidTracker { pub recorded: Ghost<Seq<(Seq<char>, u64)>>, pub x: u8 }
impl PeerCidTracker {
    // real effect (kept iff peer == current_peer_id): unit cid_record_sign
    #[verifier::external_body]
    pub fn register<T>(&mut self, peer: &str, cid: &CID<T>)
        ensures final(self).recorded@ == old(self).recorded@.push((peer@, cid.id))
    { unimplemented!() }
}
pub struct ResolvedServiceInfo { pub value: JValue, pub tetraplet: RcSecurityTetraplet, pub service_result_aggregate: Rc<ServiceResultCidAggregate> }
pub struct ExecutionCidState { pub x: u8 }
// the tetraplet stored under a service-result CID: `tetraplet_store[service_result_store[cid].tetraplet_cid]`, i.e. what
// collect_peers_cids_from_trace reads to decide whose signature must cover the cid
pub uninterp spec fn stored_tet(st: ExecutionCidState, cid: CID<ServiceResultCidAggregate>) -> RcSecurityTetraplet;
impl ExecutionCidState {
    // unit cid_state: `r matches Ok(info) ==> info.tetraplet == self.ts()[self.srs()[cid].tetraplet_cid]`
    #[verifier::external_body]
    pub fn resolve_service_info(&self, service_result_agg_cid: &CID<ServiceResultCidAggregate>) -> (r: Result<ResolvedServiceInfo, UncatchableError>)
        ensures r matches Ok(info) ==> info.tetraplet == stored_tet(*self, *service_result_agg_cid)
    { unimplemented!() }
    // unit cid_state: `r matches Ok(c) ==> final(self).ts()[final(self).srs()[c].tetraplet_cid] == tetraplet`
    #[verifier::external_body]
    pub fn track_service_result(&mut self, value: JValue, tetraplet: RcSecurityTetraplet, argument_hash: Rc<str>)
        -> (r: Result<CID<ServiceResultCidAggregate>, UncatchableError>)
        ensures r matches Ok(c) ==> stored_tet(*final(self), c) == tetraplet
    { unimplemented!() }
}

//@ lift air/src/execution_step/execution_context/context.rs :: struct RcRunParameters
//@ derive
//@ end

//@ lift air/src/execution_step/execution_context/context.rs :: struct ExecutionCtx
//@ end

impl<'i> ExecutionCtx<'i> {
    // spec views (the struct has a private field, so Verus treats it as opaque in public contracts)
    pub closed spec fn recorded(&self) -> Seq<(Seq<char>, u64)> { self.peer_cid_tracker.recorded@ }
    pub closed spec fn cid(&self) -> ExecutionCidState { self.cid_state }

//@ lift air/src/execution_step/execution_context/context.rs :: impl <'i> ExecutionCtx<'i> :: fn record_call_cid
//@ name ExecutionCtx::record_call_cid
//@ props C03
//@ spec
        // exactly one registration, of exactly this (peer, cid); the CID store is not touched
        ensures final(self).recorded() == old(self).recorded().push((peer_id@, cid.id)), final(self).cid() == old(self).cid(),
//@ end
}

impl ExecutionCtx<'_> {
//@ lift air/src/execution_step/execution_context/context.rs :: impl ExecutionCtx<'_> :: fn make_subgraph_incomplete
//@ name ExecutionCtx::make_subgraph_incomplete
//@ props C03
//@ spec
        ensures final(self).recorded() == old(self).recorded(), final(self).cid() == old(self).cid(),
//@ end
}

// ---------------------------------------------------------------- shim: trace handler (trusted)
pub struct TraceHandler { pub pushed: Ghost<Seq<CallResult>>, pub x: u8 }
impl TraceHandler {
    // real: `self.data_keeper.result_trace.push(ExecutedState::Call(call_result))`
    #[verifier::external_body]
    pub fn meet_call_end(&mut self, call_result: CallResult)
        ensures final(self).pushed@ == old(self).pushed@.push(call_result)
    { unimplemented!() }
    #[verifier::external_body]
    pub fn trace_pos(&self) -> Result<TracePos, IntConversionError> { unimplemented!() }
}

// ================================================================ contract (R), from the property statement
// what must have been registered for a state that goes into the trace: nothing for a state without a CID; otherwise the CID, for the
// peer of the tetraplet stored under it
pub open spec fn owed(rec0: Seq<(Seq<char>, u64)>, c: CallResult, st: ExecutionCidState) -> Seq<(Seq<char>, u64)> {
    match cid_of(c) {
        Some(cid) => rec0.push((stored_tet(st, cid).peer_pk@, cid.id)),
        None => rec0,
    }
}
// (R): at most one state was handed to the trace; the registrations made are exactly the ones owed for it -- none if none was
pub open spec fn rec_ok(c0: ExecutionCtx, c1: ExecutionCtx, p0: Seq<CallResult>, p1: Seq<CallResult>) -> bool {
    if p1 == p0 { c1.recorded() == c0.recorded() } else {
        &&& p1.len() == p0.len() + 1
        &&& p1.drop_last() =~= p0
        &&& c1.recorded() == owed(c0.recorded(), p1.last(), c1.cid())
    }
}

// ---------------------------------------------------------------- call_result_setter.rs
// (R) for a function that RETURNS the state its caller hands to the trace
//@ lift air/src/execution_step/instructions/call/call_result_setter.rs :: fn populate_context_from_peer_service_result
//@ props C03
//@ ret r
//@ spec
    ensures
        r matches Ok(c) ==> final(exec_ctx).recorded() == owed(old(exec_ctx).recorded(), c, final(exec_ctx).cid()),
        // the aggregate is stored under the tetraplet of THIS call
        r matches Ok(c) ==> (cid_of(c) matches Some(cid) ==> stored_tet(final(exec_ctx).cid(), cid) == tetraplet),
        // a result bound to a variable gets a CID-bearing state of the matching kind; an unused one carries no service-result CID
        r matches Ok(c) ==> match *output {
            CallOutputValue::Scalar(_) => c matches CallResult::Executed(ValueRef::Scalar(_)),
            CallOutputValue::Stream(_) => c matches CallResult::Executed(ValueRef::Stream { .. }),
            CallOutputValue::None => c matches CallResult::Executed(ValueRef::Unused(_)),
        },
        // no state => no registration
        r is Err ==> final(exec_ctx).recorded() == old(exec_ctx).recorded(),
//@ end

//@ lift air/src/execution_step/instructions/call/call_result_setter.rs :: fn populate_context_from_data
//@ props C03
//@ ret r
//@ rewrite 2 "verifier::verify_call(" => "verify_call("
//@ spec
    ensures
        final(exec_ctx).recorded() == old(exec_ctx).recorded(), final(exec_ctx).cid() == old(exec_ctx).cid(),
        // a replayed value is accepted only if it is stored under the peer of this call (verify_call): that is the peer to register it for
        r is Ok ==> (cid_of(CallResult::Executed(value)) matches Some(cid) ==> stored_tet(old(exec_ctx).cid(), cid).peer_pk@ == tetraplet.peer_pk@),
//@ end

// the forwarding mark of a call addressed elsewhere carries no CID and registers nothing
//@ lift air/src/execution_step/instructions/call/call_result_setter.rs :: fn handle_remote_call
//@ props C03
//@ spec
    ensures rec_ok(*old(exec_ctx), *final(exec_ctx), old(trace_ctx).pushed@, final(trace_ctx).pushed@),
        final(exec_ctx).recorded() == old(exec_ctx).recorded(),
//@ end

// ---------------------------------------------------------------- prev_result_handler.rs
//@ lift air/src/execution_step/instructions/call/prev_result_handler.rs :: struct StateDescriptor
//@ derive
//@ end

impl StateDescriptor {
    // spec view (private fields: opaque in public contracts): the state the caller re-emits later with `maybe_set_prev_state`
    pub closed spec fn prev(&self) -> Option<CallResult> { self.prev_state }
//@ lift air/src/execution_step/instructions/call/prev_result_handler.rs :: impl StateDescriptor :: fn executed
//@ name StateDescriptor::executed
//@ props C03
//@ ret r
//@ spec
        ensures r.prev() is None
//@ end
//@ lift air/src/execution_step/instructions/call/prev_result_handler.rs :: impl StateDescriptor :: fn not_ready
//@ name StateDescriptor::not_ready
//@ props C03
//@ ret r
//@ spec
        ensures r.prev() == Some(prev_state)
//@ end
//@ lift air/src/execution_step/instructions/call/prev_result_handler.rs :: impl StateDescriptor :: fn can_execute_now
//@ name StateDescriptor::can_execute_now
//@ props C03
//@ ret r
//@ spec
        ensures r.prev() == Some(prev_state)
//@ end
//@ lift air/src/execution_step/instructions/call/prev_result_handler.rs :: impl StateDescriptor :: fn cant_execute_now
//@ name StateDescriptor::cant_execute_now
//@ props C03
//@ ret r
//@ spec
        ensures r.prev() == Some(prev_state)
//@ end
//@ lift air/src/execution_step/instructions/call/prev_result_handler.rs :: impl StateDescriptor :: fn no_previous_state
//@ name StateDescriptor::no_previous_state
//@ props C03
//@ ret r
//@ spec
        ensures r.prev() is None
//@ end
//@ lift air/src/execution_step/instructions/call/prev_result_handler.rs :: impl StateDescriptor :: fn maybe_set_prev_state
//@ name StateDescriptor::maybe_set_prev_state
//@ props C03
//@ spec
        // the deferred re-emission (resolved_call.rs): exactly the remembered state, or nothing
        ensures final(trace_ctx).pushed@ == (match self.prev() {
            Some(c) => old(trace_ctx).pushed@.push(c),
            None => old(trace_ctx).pushed@,
        })
//@ end
}

//@ lift air/src/execution_step/instructions/call/prev_result_handler.rs :: fn handle_service_error
//@ props C03
//@ ret r
//@ spec
    ensures
        rec_ok(*old(exec_ctx), *final(exec_ctx), old(trace_ctx).pushed@, final(trace_ctx).pushed@),
        // the failure of the service is recorded under the tetraplet of THIS call
        final(trace_ctx).pushed@ != old(trace_ctx).pushed@ ==> (cid_of(final(trace_ctx).pushed@.last()) matches Some(cid)
            && stored_tet(final(exec_ctx).cid(), cid) == tetraplet),
        r is Ok ==> final(trace_ctx).pushed@ == old(trace_ctx).pushed@,
//@ end

// FINDING F8 -- this obligation FAILS on the real text: the `Err(e)` arm tracks a CallServiceFailed aggregate and pushes
// `Failed(cid)` with `meet_call_end`, but never calls `record_call_cid` (compare handle_service_error above).
//@ lift air/src/execution_step/instructions/call/prev_result_handler.rs :: fn try_to_service_result
//@ props C03
//@ ret r
//@ rewrite 1 "format!(\n                \"call_service result '{service_result}' can't be serialized or deserialized with an error: {e}\"\n            )" => "opaque_string()"
//@ spec
    ensures
        rec_ok(*old(exec_ctx), *final(exec_ctx), old(trace_ctx).pushed@, final(trace_ctx).pushed@),
        final(trace_ctx).pushed@ != old(trace_ctx).pushed@ ==> (cid_of(final(trace_ctx).pushed@.last()) matches Some(cid)
            && stored_tet(final(exec_ctx).cid(), cid) == *tetraplet),
        r is Ok ==> final(trace_ctx).pushed@ == old(trace_ctx).pushed@,
//@ end

//@ lift air/src/execution_step/instructions/call/prev_result_handler.rs :: fn update_state_with_service_result
//@ props C03
//@ ret r
//@ spec
    ensures
        rec_ok(*old(exec_ctx), *final(exec_ctx), old(trace_ctx).pushed@, final(trace_ctx).pushed@),
        final(trace_ctx).pushed@ != old(trace_ctx).pushed@ ==> (cid_of(final(trace_ctx).pushed@.last()) matches Some(cid)
            ==> stored_tet(final(exec_ctx).cid(), cid) == tetraplet),
//@ end

//@ lift air/src/execution_step/instructions/call/prev_result_handler.rs :: fn try_get_argument_hash
//@ props C03
//@ ret r
//@ rewrite 1 "expected_value: \"arguments of the call aren't resolved yet\".to_owned()," => "expected_value: opaque_string(),"
//@ rewrite 1 "stored_value: \"a result of the call\".to_owned()," => "stored_value: opaque_string(),"
//@ spec
    ensures r is Ok <==> argument_hash is Some,
        r matches Ok(h) ==> argument_hash == Some(h),
//@ end

//@ lift air/src/execution_step/instructions/call/prev_result_handler.rs :: fn handle_prev_state
//@ props C03
//@ ret r
//@ rewrite 1 "verifier::verify_call(" => "verify_call("
//@ rewrite 1 ".map_err(UncatchableError::MalformedCallServiceFailed)" => ".map_err(|e: SerdeError| -> (o: UncatchableError) { UncatchableError::MalformedCallServiceFailed(e) })"
//@ spec
    // no precondition: every state shape, replayed (Failed / Executed), own pending request with or without a host answer, foreign mark
    ensures
        rec_ok(*old(exec_ctx), *final(exec_ctx), old(trace_ctx).pushed@, final(trace_ctx).pushed@),
        // the peer a CID is registered for is the peer of THIS call (for a replayed state: verify_call has shown it equal to the stored one)
        final(trace_ctx).pushed@ != old(trace_ctx).pushed@ ==> (cid_of(final(trace_ctx).pushed@.last()) matches Some(cid)
            ==> stored_tet(final(exec_ctx).cid(), cid).peer_pk@ == tetraplet.peer_pk@),
        // a state left for the caller to re-emit later (`maybe_set_prev_state`, no registration there) carries no CID
        r matches Ok(sd) ==> (sd.prev() matches Some(c) ==> cid_of(c) is None),
        // a replayed state is re-emitted as it is
        (met_result.result is Failed || met_result.result is Executed) ==>
            (final(trace_ctx).pushed@ == old(trace_ctx).pushed@ || final(trace_ctx).pushed@ == old(trace_ctx).pushed@.push(met_result.result)),
//@ end

} // verus!
fn main() {}
