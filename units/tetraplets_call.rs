//@ unit tetraplets_call
// C17, part 2: the tetraplet stored with a *call result* -- the link "stored tetraplet = the peer, service and function that
// produced the value" that unit tetraplets relies on.
//   air/src/execution_step/instructions/call/call_result_setter.rs   (populate_context_from_peer_service_result, populate_context_from_data)
//   air/src/execution_step/instructions/call/prev_result_handler.rs  (update_state_with_service_result, handle_service_error,
//                                                                     try_to_service_result, handle_prev_state)
//   air/src/execution_step/value_types/scalar.rs, scalar/values.rs   (ServiceResultAggregate::new, ValueAggregate::from_service_result)
//
// Ghost logs: `Scalars.sets` / `Streams.adds` are the (name, stored tetraplet) pairs of every value put into the context,
// `ExecutionCidState.recorded` the tetraplets recorded in the CID store of the outgoing data (what other peers will replay).
// Contract, from the property statement: whatever a call instruction with own tetraplet `t = (peer, service, function, "")` of its
// resolved triplet puts into the context or into the data -- a fresh host result, or a result replayed from previous/current data --
// carries exactly `t`; a replayed result is accepted only if the tetraplet recorded with it in the data equals `t` (verify_call, C14).
//
// Trusted part of this file: as in unit prev_result (same shims), plus
//  * SecurityTetraplet: four String fields; Clone keeps the texts;
//  * Scalars::set_scalar_value / Streams::add_stream_value / ExecutionCidState::track_service_result append to their ghost log
//    (their bodies store the value / the tetraplet they are given: HashMap / Vec insertions outside this unit);
//  * ExecutionCidState::resolve_service_info: an uninterpreted lookup of the data's CID store;
//  * verify_call: stub with the contract proved in unit call_verifier.
use vstd::prelude::*;
verus! {

use std::rc::Rc;
use std::collections::HashMap;
use core::marker::PhantomData;

pub mod ax {
    use vstd::prelude::*;
    use vstd::string::to_string_from_display_ensures;
    pub uninterp spec fn dec(v: u32) -> String;
    #[verifier::external_body]
    pub broadcast proof fn axiom_u32_to_string(v: u32, s: String)
        ensures #[trigger] to_string_from_display_ensures::<u32>(&v, s) ==> s == dec(v) {}
    #[verifier::external_body]
    pub broadcast proof fn axiom_string_obeys_key_model()
        ensures #[trigger] vstd::std_specs::hash::obeys_key_model::<String>() {}
}
use ax::dec;
broadcast use {vstd::std_specs::hash::group_hash_axioms, ax::axiom_u32_to_string, ax::axiom_string_obeys_key_model};
pub assume_specification<T>[ <T as core::convert::From<T>>::from ](t: T) -> (r: T) ensures r == t;

// ---------------------------------------------------------------- the abstract tetraplet (same vocabulary as unit tetraplets)
pub type Text = Seq<char>;
pub struct Tet { pub peer: Text, pub service: Text, pub function: Text, pub lens: Text }

// ---------------------------------------------------------------- shim: opaque data (trusted)
pub struct CID<T> { pub id: u64, pub ph: PhantomData<T> }
impl<T> Clone for CID<T> { fn clone(&self) -> (r: Self) ensures r == *self { CID { id: self.id, ph: PhantomData } } }
pub struct JValue { pub x: u8 }
impl Clone for JValue { fn clone(&self) -> (r: Self) ensures r == *self { JValue { x: self.x } } }
#[derive(Clone, Copy)]
pub struct TracePos(pub u32);
#[derive(Clone, Copy)]
pub struct AirPos(pub usize);
#[derive(Clone, Copy)]
pub struct GenerationIdx(pub u32);
impl GenerationIdx { pub fn stub() -> Self { GenerationIdx(0xCAFEBABE) } }
pub struct SecurityTetraplet { pub peer_pk: String, pub service_id: String, pub function_name: String, pub lens: String }
impl SecurityTetraplet {
    pub open spec fn tv(&self) -> Tet { Tet { peer: self.peer_pk@, service: self.service_id@, function: self.function_name@, lens: self.lens@ } }
}
pub type RcSecurityTetraplet = Rc<SecurityTetraplet>;
pub struct ServiceResultCidAggregate { pub argument_hash: Rc<str> }
pub struct CanonResultCidAggregate { pub x: u8 }
pub type JsonString = Rc<str>;

// value_types/scalar/values.rs, scalar.rs: the real aggregates (as in unit tetraplets)
//@ lift air/src/execution_step/value_types/scalar/values.rs :: struct LiteralAggregate
//@ derive
//@ end
//@ lift air/src/execution_step/value_types/scalar/values.rs :: struct ServiceResultAggregate
//@ derive
//@ end
//@ lift air/src/execution_step/value_types/scalar/values.rs :: struct CanonResultAggregate
//@ derive
//@ end
//@ lift air/src/execution_step/value_types/scalar.rs :: enum ValueAggregate
//@ derive
//@ end
impl ServiceResultAggregate {
    pub open spec fn stored(&self) -> Tet { self.tetraplet.tv() }
//@ lift air/src/execution_step/value_types/scalar/values.rs :: impl ServiceResultAggregate :: fn new
//@ name ServiceResultAggregate::new
//@ props C17
//@ ret r
//@ spec
        ensures r.stored() == tetraplet.tv()
//@ end
}
impl ValueAggregate {
    // the tetraplet of a stored call result (the two other variants are the business of unit tetraplets)
    pub open spec fn stored(&self) -> Option<Tet> {
        match *self { ValueAggregate::ServiceResult { result, .. } => Some(result.stored()), _ => None }
    }
//@ lift air/src/execution_step/value_types/scalar.rs :: impl ValueAggregate :: fn from_service_result
//@ name ValueAggregate::from_service_result
//@ props C17
//@ ret r
//@ spec
        ensures r.stored() == Some(service_result.stored())
//@ end
}
pub enum Generation { Previous(GenerationIdx), Current(GenerationIdx), New }
impl Generation {
    pub fn from_data(data_type: ValueSource, generation: GenerationIdx) -> Self {
        match data_type { ValueSource::PreviousData => Generation::Previous(generation), ValueSource::CurrentData => Generation::Current(generation) }
    }
}
//@ lift air/src/execution_step/execution_context/streams_variables/stream_value_descriptor.rs :: struct StreamValueDescriptor
//@ derive
//@ end
impl<'stream_name> StreamValueDescriptor<'stream_name> {
//@ lift air/src/execution_step/execution_context/streams_variables/stream_value_descriptor.rs :: impl<'stream_name> StreamValueDescriptor<'stream_name> :: fn new
//@ name StreamValueDescriptor::new
//@ props C17
//@ ret r
//@ spec
        ensures r.value == value, r.name == name
//@ end
}
#[verifier::external_body]
pub fn opaque_string() -> String { unimplemented!() }
pub struct CidCalculationError { pub x: u8 }
#[verifier::external_body]
pub fn value_to_json_cid(value: &JValue) -> Result<CID<JValue>, CidCalculationError> { unimplemented!() }

// ---------------------------------------------------------------- real data types
//@ lift crates/air-lib/interpreter-data/src/executed_state.rs :: enum Sender
//@ derive Clone
//@ end
//@ lift crates/air-lib/interpreter-data/src/executed_state.rs :: enum CallResult
//@ derive Clone
//@ end
//@ lift crates/air-lib/interpreter-data/src/executed_state.rs :: enum ValueRef
//@ derive
//@ end
// the `#[derive(Clone)]` of ValueRef written out (Verus gives a derived clone no contract)
impl Clone for ValueRef {
    fn clone(&self) -> (r: Self) ensures r == *self {
        match self {
            ValueRef::Scalar(cid) => ValueRef::Scalar(cid.clone()),
            ValueRef::Stream { cid, generation } => ValueRef::Stream { cid: cid.clone(), generation: *generation },
            ValueRef::Unused(cid) => ValueRef::Unused(cid.clone()),
        }
    }
}
//@ lift crates/air-lib/interpreter-data/src/executed_state.rs :: struct CallServiceFailed
//@ derive
//@ end
//@ lift crates/air-lib/trace-handler/src/merger/mod.rs :: enum ValueSource
//@ derive Clone Copy
//@ end
//@ lift crates/air-lib/trace-handler/src/merger/call_merger.rs :: struct MetCallResult
//@ derive
//@ end
//@ lift crates/air-lib/interpreter-interface/src/call_service_result.rs :: struct CallServiceResult
//@ derive
//@ end
//@ lift crates/air-lib/interpreter-interface/src/call_service_result.rs :: type CallResults
//@ end
//@ lift crates/air-lib/interpreter-interface/src/call_service_result.rs :: const CALL_SERVICE_SUCCESS
//@ end
//@ lift crates/air-lib/interpreter-interface/src/call_request_parameters.rs :: type CallRequests
//@ end
pub struct CallRequestParams { pub x: u8 }
//@ lift crates/air-lib/air-parser/src/ast/values.rs :: struct Scalar
//@ derive
//@ end
//@ lift crates/air-lib/air-parser/src/ast/values.rs :: struct Stream
//@ derive
//@ end
//@ lift crates/air-lib/air-parser/src/ast/instruction_arguments.rs :: enum CallOutputValue
//@ derive
//@ end

impl CallServiceFailed {
//@ lift crates/air-lib/interpreter-data/src/executed_state.rs :: impl CallServiceFailed :: fn new
//@ props C17
//@ end
    #[verifier::external_body]
    pub fn to_value(&self) -> JValue { unimplemented!() }
}

impl CallResult {
//@ lift crates/air-lib/interpreter-data/src/executed_state/impls.rs :: impl CallResult :: fn executed_service_result
//@ props C17
//@ ret r
//@ spec
        ensures r == CallResult::Executed(value_ref)
//@ end
//@ lift crates/air-lib/interpreter-data/src/executed_state/impls.rs :: impl CallResult :: fn executed_scalar
//@ props C17
//@ ret r
//@ spec
        ensures r == CallResult::Executed(ValueRef::Scalar(service_result_agg_cid))
//@ end
//@ lift crates/air-lib/interpreter-data/src/executed_state/impls.rs :: impl CallResult :: fn executed_stream_stub
//@ props C17
//@ ret r
//@ spec
        ensures r matches CallResult::Executed(ValueRef::Stream { cid: c, .. }) && c == cid
//@ end
//@ lift crates/air-lib/interpreter-data/src/executed_state/impls.rs :: impl CallResult :: fn executed_unused
//@ props C17
//@ ret r
//@ spec
        ensures r == CallResult::Executed(ValueRef::Unused(value_cid))
//@ end
//@ lift crates/air-lib/interpreter-data/src/executed_state/impls.rs :: impl CallResult :: fn failed
//@ props C17
//@ ret r
//@ spec
        ensures r == CallResult::Failed(service_result_agg_cid)
//@ end
}

// ---------------------------------------------------------------- errors
pub struct LambdaError { pub x: u8 }
pub struct ErrorObjectError { pub x: u8 }
pub struct StreamMapError { pub x: u8 }
#[derive(Debug)]
pub struct SerdeError { pub x: u8 }
pub struct IntConversionError { pub x: u8 }
// the variants the lifted code constructs; every other uncatchable error is `Other`
pub enum UncatchableError {
    MalformedCallServiceFailed(SerdeError),
    CallResultNotCorrespondToInstr(ValueRef),
    InstructionParametersMismatch { param: &'static str, expected_value: String, stored_value: String },
    Other(u8),
}
impl From<IntConversionError> for UncatchableError { fn from(e: IntConversionError) -> Self { UncatchableError::Other(0) } }
impl From<CidCalculationError> for UncatchableError { fn from(e: CidCalculationError) -> Self { UncatchableError::Other(1) } }
impl vstd::std_specs::convert::FromSpecImpl<IntConversionError> for UncatchableError {
    open spec fn obeys_from_spec() -> bool { true }
    open spec fn from_spec(e: IntConversionError) -> UncatchableError { UncatchableError::Other(0) }
}
impl vstd::std_specs::convert::FromSpecImpl<CidCalculationError> for UncatchableError {
    open spec fn obeys_from_spec() -> bool { true }
    open spec fn from_spec(e: CidCalculationError) -> UncatchableError { UncatchableError::Other(1) }
}

//@ lift air/src/execution_step/errors/catchable_errors.rs :: enum CatchableError
//@ derive
//@ end
//@ lift air/src/execution_step/errors/execution_errors.rs :: enum ExecutionError
//@ derive
//@ end
pub type ExecutionResult<T> = Result<T, ExecutionError>;

impl From<CatchableError> for ExecutionError {
//@ lift air/src/execution_step/errors/execution_errors.rs :: impl From<CatchableError> for ExecutionError :: fn from
//@ name ExecutionError::from<CatchableError>
//@ props C17
//@ end
}
// real: generated by thiserror's #[from]
impl From<UncatchableError> for ExecutionError { fn from(e: UncatchableError) -> Self { ExecutionError::Uncatchable(e) } }
impl vstd::std_specs::convert::FromSpecImpl<UncatchableError> for ExecutionError {
    open spec fn obeys_from_spec() -> bool { true }
    open spec fn from_spec(e: UncatchableError) -> ExecutionError { ExecutionError::Uncatchable(e) }
}
// nothing is claimed about the value of the (lifted) CatchableError conversion
impl vstd::std_specs::convert::FromSpecImpl<CatchableError> for ExecutionError {
    open spec fn obeys_from_spec() -> bool { false }
    open spec fn from_spec(e: CatchableError) -> ExecutionError { arbitrary() }
}

// ---------------------------------------------------------------- shim: serde_json, verifier (trusted)
pub mod serde_json {
    use super::*;
    pub struct Value { pub x: u8 }
    #[verifier::external_body]
    pub fn from_str(s: &str) -> Result<JValue, SerdeError> { unimplemented!() }
    // JValue -> serde_json::Value: total for every JValue (string keys, finite numbers)
    #[verifier::external_body]
    pub fn to_value(v: JValue) -> (r: Result<Value, SerdeError>) ensures r is Ok { unimplemented!() }
    #[verifier::external_body]
    pub fn from_value(v: Value) -> Result<CallServiceFailed, SerdeError> { unimplemented!() }
}
// real: instructions/call/verifier.rs (property C14): contract imported from unit call_verifier. The lifted code calls it as
// `verifier::verify_call`; a module named `verifier` shadows Verus' `#[verifier::..]`, hence the path rewrite at the call sites.
//@ import-spec call_verifier :: tet_eq
//@ stub call_verifier :: verify_call
// the lifted code names these crates in function-local `use` items
pub mod air_interpreter_interface { pub use super::CALL_SERVICE_SUCCESS; }
pub mod air_interpreter_data { pub use super::ValueRef; }

// ---------------------------------------------------------------- shim: the context's sub-objects (trusted, opaque)
pub struct Scalars<'i> { pub sets: Ghost<Seq<(Text, Option<Tet>)>>, pub ph: PhantomData<&'i u8> }
impl<'i> Scalars<'i> {
    // real: `self.non_iterable_variables.set_value(name, value)`: the value is stored under the name as it is
    #[verifier::external_body]
    pub fn set_scalar_value(&mut self, name: &str, value: ValueAggregate) -> (r: ExecutionResult<bool>)
        ensures final(self).sets@ == old(self).sets@.push((name@, value.stored()))
    { unimplemented!() }
}
pub struct Streams { pub adds: Ghost<Seq<(Text, Option<Tet>)>>, pub x: u8 }
impl Streams {
    // real: `stream.add_value(value, generation)` on the stream of that name (created if absent): the value is stored as it is
    #[verifier::external_body]
    pub fn add_stream_value(&mut self, value_descriptor: StreamValueDescriptor<'_>) -> (r: ExecutionResult<()>)
        ensures final(self).adds@ == old(self).adds@.push((value_descriptor.name@, value_descriptor.value.stored()))
    { unimplemented!() }
}
pub struct StreamMaps { pub x: u8 }
pub struct LastErrorDescriptor { pub x: u8 }
pub struct ErrorDescriptor { pub x: u8 }
pub struct InstructionTracker { pub x: u8 }
pub struct SignatureStore { pub x: u8 }
pub struct PeerCidTracker { pub x: u8 }
impl PeerCidTracker {
    #[verifier::external_body]
    pub fn register<T>(&mut self, peer: &str, cid: &CID<T>) { unimplemented!() }
}
pub struct ResolvedServiceInfo { pub value: JValue, pub tetraplet: RcSecurityTetraplet, pub service_result_aggregate: Rc<ServiceResultCidAggregate> }
pub struct ExecutionCidState { pub recorded: Ghost<Seq<Tet>>, pub x: u8 }
impl ExecutionCidState {
    // what the data says about a call result: the value, the tetraplet recorded with it, the argument hash
    pub uninterp spec fn info_spec(&self, cid: CID<ServiceResultCidAggregate>) -> Result<ResolvedServiceInfo, UncatchableError>;
    #[verifier::external_body]
    pub fn resolve_service_info(&self, service_result_agg_cid: &CID<ServiceResultCidAggregate>) -> (r: Result<ResolvedServiceInfo, UncatchableError>)
        ensures r == self.info_spec(*service_result_agg_cid)
    { unimplemented!() }
    // real: value, tetraplet and argument hash go into the three CID trackers of the outgoing data
    #[verifier::external_body]
    pub fn track_service_result(&mut self, value: JValue, tetraplet: RcSecurityTetraplet, argument_hash: Rc<str>)
        -> (r: Result<CID<ServiceResultCidAggregate>, UncatchableError>)
        ensures final(self).recorded@ == old(self).recorded@.push(tetraplet.tv())
    { unimplemented!() }
}

//@ lift air/src/execution_step/execution_context/context.rs :: struct RcRunParameters
//@ derive
//@ end

//@ lift air/src/execution_step/execution_context/context.rs :: struct ExecutionCtx
//@ end

impl<'i> ExecutionCtx<'i> {
    // spec views (the struct has a private field, so Verus treats it as opaque in public contracts)
    pub closed spec fn results(&self) -> Map<String, CallServiceResult> { self.call_results@ }
    pub closed spec fn requests(&self) -> Map<u32, CallRequestParams> { self.call_requests@ }
    pub closed spec fn next_peers(&self) -> Seq<String> { self.next_peer_pks@ }
    pub closed spec fn lcid(&self) -> u32 { self.last_call_request_id }
    pub closed spec fn complete(&self) -> bool { self.subgraph_completeness }
    pub closed spec fn me(&self) -> Seq<char> { self.run_parameters.current_peer_id@ }
    // the three ghost logs
    pub closed spec fn sets(&self) -> Seq<(Text, Option<Tet>)> { self.scalars.sets@ }
    pub closed spec fn adds(&self) -> Seq<(Text, Option<Tet>)> { self.streams.adds@ }
    pub closed spec fn recorded(&self) -> Seq<Tet> { self.cid_state.recorded@ }
    pub closed spec fn cid_state_info(&self, cid: CID<ServiceResultCidAggregate>) -> Result<ResolvedServiceInfo, UncatchableError> { self.cid_state.info_spec(cid) }

//@ lift air/src/execution_step/execution_context/context.rs :: impl <'i> ExecutionCtx<'i> :: fn record_call_cid
//@ name ExecutionCtx::record_call_cid
//@ props C17
//@ spec
        ensures same_logs(*old(self), *final(self)),
//@ end
}

impl ExecutionCtx<'_> {
//@ lift air/src/execution_step/execution_context/context.rs :: impl ExecutionCtx<'_> :: fn make_subgraph_incomplete
//@ props C17
//@ spec
        ensures same_logs(*old(self), *final(self)),
//@ end
}

// ---------------------------------------------------------------- the contract vocabulary
pub open spec fn same_logs(a: ExecutionCtx, b: ExecutionCtx) -> bool { a.sets() == b.sets() && a.adds() == b.adds() && a.recorded() == b.recorded() }
// `after` extends `before`, and every appended value carries the tetraplet t
pub open spec fn appended_all(before: Seq<(Text, Option<Tet>)>, after: Seq<(Text, Option<Tet>)>, t: Tet) -> bool {
    &&& before.len() <= after.len()
    &&& after.subrange(0, before.len() as int) =~= before
    &&& forall|i: int| before.len() <= i < after.len() ==> (#[trigger] after[i]).1 == Some(t)
}
pub open spec fn recorded_all(before: Seq<Tet>, after: Seq<Tet>, t: Tet) -> bool {
    &&& before.len() <= after.len()
    &&& after.subrange(0, before.len() as int) =~= before
    &&& forall|i: int| before.len() <= i < after.len() ==> #[trigger] after[i] == t
}
// C17 for call results: everything this call put into the context (scalars, streams) or into the outgoing data carries t
pub open spec fn carries(c0: ExecutionCtx, c1: ExecutionCtx, t: Tet) -> bool {
    appended_all(c0.sets(), c1.sets(), t) && appended_all(c0.adds(), c1.adds(), t) && recorded_all(c0.recorded(), c1.recorded(), t)
}

// ---------------------------------------------------------------- shim: trace handler (trusted)
pub struct TraceHandler { pub pushed: Ghost<Seq<CallResult>>, pub x: u8 }
impl TraceHandler {
    // real: `self.data_keeper.result_trace.push(ExecutedState::Call(call_result))`
    #[verifier::external_body]
    pub fn meet_call_end(&mut self, call_result: CallResult)
        ensures final(self).pushed@ == old(self).pushed@.push(call_result)
    { unimplemented!() }
    #[verifier::external_body]
    pub fn trace_pos(&self) -> Result<TracePos, IntConversionError> { unimplemented!() }
}

// exactly one state satisfying `p` was appended
pub open spec fn pushed_one(before: Seq<CallResult>, after: Seq<CallResult>, p: spec_fn(CallResult) -> bool) -> bool {
    after.len() == before.len() + 1 && after.drop_last() =~= before && p(after.last())
}
pub open spec fn is_executed(c: CallResult) -> bool { c is Executed }
pub open spec fn is_failed(c: CallResult) -> bool { c is Failed }

// ---------------------------------------------------------------- call_result_setter.rs
// a fresh host result: stored under the output name with the call's own tetraplet, which is also what goes into the data
//@ lift air/src/execution_step/instructions/call/call_result_setter.rs :: fn populate_context_from_peer_service_result
//@ props C17
//@ ret r
//@ spec
    requires executed_result.stored() == tetraplet.tv()         // update_state_with_service_result builds it so
    ensures
        carries(*old(exec_ctx), *final(exec_ctx), tetraplet.tv()),
        r is Ok ==> (match *output {
            CallOutputValue::Scalar(s) => final(exec_ctx).sets() == old(exec_ctx).sets().push((s.name@, Some(tetraplet.tv())))
                && final(exec_ctx).adds() == old(exec_ctx).adds() && final(exec_ctx).recorded() == old(exec_ctx).recorded().push(tetraplet.tv()),
            CallOutputValue::Stream(s) => final(exec_ctx).adds() == old(exec_ctx).adds().push((s.name@, Some(tetraplet.tv())))
                && final(exec_ctx).sets() == old(exec_ctx).sets() && final(exec_ctx).recorded() == old(exec_ctx).recorded().push(tetraplet.tv()),
            CallOutputValue::None => same_logs(*old(exec_ctx), *final(exec_ctx)),
        }),
//@ end

// a result replayed from previous / current data: stored with the tetraplet of the call's resolved triplet, and accepted only if
// the tetraplet the data records for that result is the same one (verify_call)
pub open spec fn data_agrees(c: ExecutionCtx, cid: CID<ServiceResultCidAggregate>, t: &SecurityTetraplet) -> bool {
    c.cid_state_info(cid) matches Ok(info) && tet_eq(t, &*info.tetraplet)
}
//@ lift air/src/execution_step/instructions/call/call_result_setter.rs :: fn populate_context_from_data
//@ props C17
//@ ret r
//@ rewrite 2 "verifier::verify_call(" => "verify_call("
//@ spec
    ensures
        carries(*old(exec_ctx), *final(exec_ctx), tetraplet.tv()),
        final(exec_ctx).recorded() == old(exec_ctx).recorded(),
        r is Ok ==> (match (*output, value) {
            (CallOutputValue::Scalar(s), ValueRef::Scalar(cid)) => final(exec_ctx).sets() == old(exec_ctx).sets().push((s.name@, Some(tetraplet.tv())))
                && final(exec_ctx).adds() == old(exec_ctx).adds() && data_agrees(*old(exec_ctx), cid, &*tetraplet),
            (CallOutputValue::Stream(s), ValueRef::Stream { cid, .. }) => final(exec_ctx).adds() == old(exec_ctx).adds().push((s.name@, Some(tetraplet.tv())))
                && final(exec_ctx).sets() == old(exec_ctx).sets() && data_agrees(*old(exec_ctx), cid, &*tetraplet),
            _ => same_logs(*old(exec_ctx), *final(exec_ctx)),
        }),
//@ end

// ---------------------------------------------------------------- prev_result_handler.rs
//@ lift air/src/execution_step/instructions/call/prev_result_handler.rs :: struct StateDescriptor
//@ derive
//@ end
impl StateDescriptor {
//@ lift air/src/execution_step/instructions/call/prev_result_handler.rs :: impl StateDescriptor :: fn executed
//@ props C17
//@ end
//@ lift air/src/execution_step/instructions/call/prev_result_handler.rs :: impl StateDescriptor :: fn not_ready
//@ props C17
//@ end
//@ lift air/src/execution_step/instructions/call/prev_result_handler.rs :: impl StateDescriptor :: fn can_execute_now
//@ props C17
//@ end
//@ lift air/src/execution_step/instructions/call/prev_result_handler.rs :: impl StateDescriptor :: fn cant_execute_now
//@ props C17
//@ end
}

//@ lift air/src/execution_step/instructions/call/prev_result_handler.rs :: fn handle_service_error
//@ props C17
//@ ret r
//@ spec
    ensures
        // a failed call puts no value into the context; its failure goes into the data under the call's own tetraplet
        final(exec_ctx).sets() == old(exec_ctx).sets(), final(exec_ctx).adds() == old(exec_ctx).adds(),
        recorded_all(old(exec_ctx).recorded(), final(exec_ctx).recorded(), tetraplet.tv()),
        r is Ok ==> final(exec_ctx).recorded() == old(exec_ctx).recorded(),
//@ end

//@ lift air/src/execution_step/instructions/call/prev_result_handler.rs :: fn try_to_service_result
//@ props C17
//@ ret r
//@ rewrite 1 "format!(\n                \"call_service result '{service_result}' can't be serialized or deserialized with an error: {e}\"\n            )" => "opaque_string()"
//@ spec
    ensures
        final(exec_ctx).sets() == old(exec_ctx).sets(), final(exec_ctx).adds() == old(exec_ctx).adds(),
        recorded_all(old(exec_ctx).recorded(), final(exec_ctx).recorded(), tetraplet.tv()),
        r is Ok ==> final(exec_ctx).recorded() == old(exec_ctx).recorded(),
//@ end

//@ lift air/src/execution_step/instructions/call/prev_result_handler.rs :: fn update_state_with_service_result
//@ props C17
//@ ret r
//@ spec
    ensures
        carries(*old(exec_ctx), *final(exec_ctx), tetraplet.tv()),
        // success: exactly one value, under the output's name (none for a call without output)
        r is Ok ==> (match *output {
            CallOutputValue::Scalar(s) => final(exec_ctx).sets() == old(exec_ctx).sets().push((s.name@, Some(tetraplet.tv()))) && final(exec_ctx).adds() == old(exec_ctx).adds(),
            CallOutputValue::Stream(s) => final(exec_ctx).adds() == old(exec_ctx).adds().push((s.name@, Some(tetraplet.tv()))) && final(exec_ctx).sets() == old(exec_ctx).sets(),
            CallOutputValue::None => same_logs(*old(exec_ctx), *final(exec_ctx)),
        }),
//@ end

//@ lift air/src/execution_step/instructions/call/prev_result_handler.rs :: fn try_get_argument_hash
//@ props C17
//@ rewrite 1 "expected_value: \"arguments of the call aren't resolved yet\".to_owned()," => "expected_value: opaque_string(),"
//@ rewrite 1 "stored_value: \"a result of the call\".to_owned()," => "stored_value: opaque_string(),"
//@ end

// THE contract of this unit: whatever state the call meets in the data -- its own pending request now answered by the host (fresh
// result), a result already in previous/current data (replayed), a failure, somebody's request mark -- everything it puts into the
// context or the data carries the tetraplet of the call's resolved triplet
//@ lift air/src/execution_step/instructions/call/prev_result_handler.rs :: fn handle_prev_state
//@ props C17
//@ ret r
//@ rewrite 1 "verifier::verify_call(" => "verify_call("
//@ rewrite 1 ".map_err(UncatchableError::MalformedCallServiceFailed)" => ".map_err(|e: SerdeError| -> (o: UncatchableError) { UncatchableError::MalformedCallServiceFailed(e) })"
//@ spec
    ensures
        carries(*old(exec_ctx), *final(exec_ctx), tetraplet.tv()),
        // a result replayed from data (`Executed`) is stored under the output's name and agrees with what the data records
        r is Ok ==> (met_result.result matches CallResult::Executed(v) ==> match (*output, v) {
            (CallOutputValue::Scalar(s), ValueRef::Scalar(cid)) => final(exec_ctx).sets() == old(exec_ctx).sets().push((s.name@, Some(tetraplet.tv())))
                && data_agrees(*old(exec_ctx), cid, &**tetraplet),
            (CallOutputValue::Stream(s), ValueRef::Stream { cid, .. }) => final(exec_ctx).adds() == old(exec_ctx).adds().push((s.name@, Some(tetraplet.tv())))
                && data_agrees(*old(exec_ctx), cid, &**tetraplet),
            _ => same_logs(*old(exec_ctx), *final(exec_ctx)),
        }),
//@ end

} // verus!
fn main() {}
