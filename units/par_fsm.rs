//@ unit par_fsm
//@ verus-flags --no-erasure-check
// (--no-erasure-check: see slider.rs -- the TracePos shim's AddAssignSpecImpl trips Verus' erasure pass after verification)
// ParFSM::{from_left_started, left_completed, right_completed}  (state_automata/par_fsm.rs): the integration layer that
// calls StateInserter / ParBuilder (unit par_builder), the par CtxStateHandler and ParFSM::prepare_sliders (unit fold_state)
// in their real order.  C10: the call-order preconditions those units ASSUME (`ParBuilder::track` requires
// saved <= rlen, `StateInserter::insert` requires pos < rlen) are PROVED here at their only call sites from the explicit
// struct invariant `inv(fsm, dk)`; the Par written back over the placeholder at p = n0 is Par(n1 - (n0+1), n2 - n1) and
// no other entry of the result trace changes.  C09: the Right-end slider states prepared at the start are restored at
// the end whenever they fit, and they fit whenever the par lies inside an in-window slider.  C01: no panic under `inv`.
//
// The one remaining assumption about the caller (TraceHandler / the executor) is `inv(fsm, dk)` at left_completed /
// right_completed; lemma `inv_grows` shows it follows from the postcondition of the previous ParFSM call as soon as
// THE RESULT TRACE ONLY GROWS BETWEEN FSM CALLS.  (Plus the two standing preconditions `dk.wf()` -- slider invariant
// of slider.rs -- and `rlen <= u32::MAX` at from_left_started, which `trace_states_count()` `expect`s.)
//
// Callees.  External_body stubs whose contracts are copied mechanically (`//@ stub`) from the unit that proves them on
// the real body: par_builder (StateInserter::{from_keeper, insert}, ParBuilder::{from_keeper, track, build}), fold_state
// (par::CtxStateHandler::prepare), slider (CtxState::update_ctx_state, TraceSlider::set_subtrace_len).
// LIFTED AGAIN and re-proved here, with the contract of fold_state.rs / slider.rs retyped by hand PLUS a frame clause:
// update_ctx_states, par::CtxStateHandler::handle_subgraph_end, ParFSM::prepare_sliders, DataKeeper::{prev,current}_slider_mut.
// Reason: those units model DataKeeper with its two merge contexts only, so their contracts cannot say that a callee
// taking `&mut DataKeeper` leaves `result_trace` alone -- which is exactly what right_completed's frame needs, because
// handle_subgraph_end runs AFTER the insert.  (Re-lifting costs nothing in trust: the retyped contracts are proved on
// the real bodies here, not assumed.)
//
// `par_protocol_replayed` replays the three calls in the order par.rs drives them, with arbitrary executor activity in
// between (`executor_runs_subgraph`: the statement of the one assumption), and obtains C10 / C09 end to end.
// Declared rewrites: right_completed takes `mut self`, which Verus rejects; it is spelled as its definition
// (`self` + `let mut this = self;` + 4 x `self.` => `this.`).  An edit that changes the number of `self.` uses in
// right_completed therefore makes this unit UNDECIDED (lost anchor), not failed.
//
// Trusted part of this file: `executor_runs_subgraph` (harness only); the TracePos shim (verbatim from slider.rs); ExecutionTrace as a Vec newtype carrying both
// vocabularies (`tr()` of par_builder.rs, `slen()` of slider.rs); opaque payloads of the ExecutedState variants not
// touched here, opaque BiHashMap, opaque LoreMap (as in par_builder.rs / fold_state.rs); KeeperError (verbatim from
// slider.rs); `Default for ParResult` (the real one is `#[derive(Default)]`: both sizes 0); the method-style spec
// functions (`TraceSlider::{wf,pos,slen,seen,tlen,in_window}`, `DataKeeper::{rlen,rest_eq,wf,same_traces}`,
// `StateInserter::pos`, `ParBuilder::{saved,left,right}`, `CtxStateHandler::{left,right,pair}`, `ParFSM::{prev,cur}`,
// and `sub_len`/`len_set` which live inside `mod par_sh` of fold_state.rs) are retyped verbatim from the proving units
// because `//@ import-spec` only reaches top-level spec fns; all top-level ones are imported mechanically.
use vstd::prelude::*;
verus! {

// ---------------------------------------------------------------- shim: TracePos (trusted, verbatim from slider.rs)
#[derive(Copy, Clone, Default)]
pub struct TracePos(pub u32);
impl core::ops::AddAssign<u32> for TracePos { fn add_assign(&mut self, rhs: u32) { self.0 = self.0 + rhs; } }
impl From<u32> for TracePos { fn from(v: u32) -> TracePos { TracePos(v) } }
impl PartialEq for TracePos { fn eq(&self, o: &Self) -> bool { self.0 == o.0 } }
impl PartialOrd for TracePos { fn partial_cmp(&self, o: &Self) -> Option<core::cmp::Ordering> { self.0.partial_cmp(&o.0) } }
impl vstd::std_specs::ops::AddAssignSpecImpl<u32> for TracePos {
    open spec fn obeys_add_assign_spec() -> bool { true }
    open spec fn add_assign_req(&self, rhs: u32) -> bool { self.0 + rhs <= u32::MAX }
    open spec fn add_assign_spec(&self, rhs: u32) -> TracePos { TracePos((self.0 + rhs) as u32) }
}
impl vstd::std_specs::convert::FromSpecImpl<u32> for TracePos {
    open spec fn obeys_from_spec() -> bool { true }
    open spec fn from_spec(v: u32) -> TracePos { TracePos(v) }
}
impl vstd::std_specs::cmp::PartialOrdSpecImpl<TracePos> for TracePos {
    open spec fn obeys_partial_cmp_spec() -> bool { true }
    open spec fn partial_cmp_spec(&self, o: &TracePos) -> Option<core::cmp::Ordering> { if self.0 < o.0 { Some(core::cmp::Ordering::Less) } else if self.0 == o.0 { Some(core::cmp::Ordering::Equal) } else { Some(core::cmp::Ordering::Greater) } }
}
impl vstd::std_specs::cmp::PartialEqSpecImpl<TracePos> for TracePos {
    open spec fn obeys_eq_spec() -> bool { true }
    open spec fn eq_spec(&self, o: &TracePos) -> bool { self.0 == o.0 }
}
impl vstd::std_specs::ops::AddSpecImpl<u32> for TracePos {
    open spec fn obeys_add_spec() -> bool { true }
    open spec fn add_req(self, rhs: u32) -> bool { self.0 + rhs <= u32::MAX }
    open spec fn add_spec(self, rhs: u32) -> TracePos { TracePos((self.0 + rhs) as u32) }
}
impl core::ops::Add<u32> for TracePos { type Output = TracePos; fn add(self, rhs: u32) -> TracePos { TracePos(self.0 + rhs) } }
impl vstd::std_specs::ops::SubSpecImpl<TracePos> for TracePos {
    open spec fn obeys_sub_spec() -> bool { true }
    open spec fn sub_req(self, rhs: TracePos) -> bool { self.0 >= rhs.0 }
    open spec fn sub_spec(self, rhs: TracePos) -> TracePos { TracePos((self.0 - rhs.0) as u32) }
}
impl core::ops::Sub<TracePos> for TracePos { type Output = TracePos; fn sub(self, rhs: TracePos) -> TracePos { TracePos(self.0 - rhs.0) } }
impl vstd::std_specs::convert::FromSpecImpl<TracePos> for u32 {
    open spec fn obeys_from_spec() -> bool { true }
    open spec fn from_spec(v: TracePos) -> u32 { v.0 }
}
impl From<TracePos> for u32 { fn from(v: TracePos) -> u32 { v.0 } }
impl TracePos {
    // auto_checked_add![TracePos]: `self.0.checked_add(other.0).map(Self)`
    pub fn checked_add(&self, other: &TracePos) -> (r: Option<TracePos>)
        ensures r == (if self.0 + other.0 <= u32::MAX { Some(TracePos((self.0 + other.0) as u32)) } else { None })
    { match self.0.checked_add(other.0) { Some(v) => Some(TracePos(v)), None => None } }
    pub fn checked_sub(&self, other: &TracePos) -> (r: Option<TracePos>)
        ensures r == (if self.0 >= other.0 { Some(TracePos((self.0 - other.0) as u32)) } else { None })
    { match self.0.checked_sub(other.0) { Some(v) => Some(TracePos(v)), None => None } }
}

// ---------------------------------------------------------------- shim: executed states, trace (trusted; as in par_builder.rs)
pub type TraceLen = u32;
pub struct CallResult { pub opaque: u8 }
pub struct ApResult { pub opaque: u8 }
pub struct CanonResult { pub opaque: u8 }

//@ lift crates/air-lib/interpreter-data/src/executed_state.rs :: struct ParResult
//@ derive Clone Copy
//@ end
// shim (trusted): what `#[derive(Default)]` generates for ParResult (field-wise `Default::default()`, u32's is 0)
impl Default for ParResult {
    fn default() -> (r: Self)
        ensures r == (ParResult { left_size: 0, right_size: 0 })
    { ParResult { left_size: 0, right_size: 0 } }
}
//@ lift crates/air-lib/interpreter-data/src/executed_state.rs :: struct SubTraceDesc
//@ derive Clone Copy
//@ end
//@ lift crates/air-lib/interpreter-data/src/executed_state.rs :: struct FoldSubTraceLore
//@ derive
//@ end
//@ lift crates/air-lib/interpreter-data/src/executed_state.rs :: type FoldLore
//@ end
//@ lift crates/air-lib/interpreter-data/src/executed_state.rs :: struct FoldResult
//@ derive
//@ end
//@ lift crates/air-lib/interpreter-data/src/executed_state.rs :: enum ExecutedState
//@ derive
//@ end

// one trace type for both vocabularies: `tr()` is the view par_builder.rs speaks about (the result trace),
// `slen()` the length slider.rs / fold_state.rs speak about (the two input traces inside the sliders)
pub struct ExecutionTrace(pub Vec<ExecutedState>);
impl ExecutionTrace {
    pub open spec fn tr(&self) -> Seq<ExecutedState> { self.0@ }
    pub closed spec fn slen(&self) -> nat { self.0@.len() }
}
// (verbatim from slider.rs)
pub enum KeeperError {
    SetSubtraceLenFailed { requested_subtrace_len: TraceLen, trace_position: TracePos, trace_len: TraceLen },
    SetSubtraceLenAndPosFailed { requested_pos: TracePos, requested_subtrace_len: TraceLen, trace_len: TraceLen },
}

//@ lift crates/air-lib/trace-handler/src/data_keeper/trace_slider.rs :: type SeenElements
//@ end
//@ lift crates/air-lib/trace-handler/src/data_keeper/trace_slider.rs :: struct TraceSlider
//@ derive
//@ end

impl TraceSlider {
//@ import-spec slider :: TraceSlider::wf TraceSlider::pos TraceSlider::slen TraceSlider::seen TraceSlider::tlen TraceSlider::in_window
//@ stub slider :: TraceSlider::set_subtrace_len
}
type KeeperResult<T> = Result<T, KeeperError>;

// ---------------------------------------------------------------- shim: fold results, FSM errors (as in fold_state.rs)
//@ lift crates/air-lib/trace-handler/src/merger/fold_merger/fold_lore_resolver.rs :: struct ResolvedSubTraceDescs
//@ derive Clone
//@ end
//@ lift crates/air-lib/trace-handler/src/merger/fold_merger/fold_lore_resolver.rs :: type FoldStatesCount
//@ end
// the real field is `HashMap<TracePos, ResolvedSubTraceDescs>`; nothing here reads it
#[verifier::external_body]
pub struct LoreMap { m: std::collections::HashMap<u32, ResolvedSubTraceDescs> }
//@ lift crates/air-lib/trace-handler/src/merger/fold_merger/fold_lore_resolver.rs :: struct ResolvedFold
//@ derive
//@ rewrite 1 "HashMap<TracePos, ResolvedSubTraceDescs>" => "LoreMap"
//@ end
//@ lift crates/air-lib/trace-handler/src/state_automata/par_fsm.rs :: enum SubgraphType
//@ derive Clone Copy
//@ end
//@ lift crates/air-lib/trace-handler/src/merger/mod.rs :: enum MergeCtxType
//@ derive Clone Copy
//@ end
//@ lift crates/air-lib/trace-handler/src/state_automata/errors.rs :: enum StateFSMError
//@ derive
//@ end
// `#[from] KeeperError` (thiserror) generates exactly this impl
impl From<KeeperError> for StateFSMError { fn from(e: KeeperError) -> Self { StateFSMError::KeeperError(e) } }
impl vstd::std_specs::convert::FromSpecImpl<KeeperError> for StateFSMError {
    open spec fn obeys_from_spec() -> bool { true }
    open spec fn from_spec(e: KeeperError) -> StateFSMError { StateFSMError::KeeperError(e) }
}
type FSMResult<T> = Result<T, StateFSMError>;

//@ lift crates/air-lib/trace-handler/src/merger/par_merger.rs :: struct MergerParResult
//@ derive Clone Copy
//@ end

// ---------------------------------------------------------------- the data keeper: the REAL struct, all five fields
//@ lift crates/air-lib/trace-handler/src/data_keeper/merge_ctx.rs :: struct MergeCtx
//@ derive
//@ end
#[verifier::external_body]
#[verifier::reject_recursive_types(K)]
#[verifier::reject_recursive_types(V)]
pub struct BiHashMap<K, V> { k: core::marker::PhantomData<(K, V)> }

//@ lift crates/air-lib/trace-handler/src/data_keeper/keeper.rs :: struct DataKeeper
//@ derive
//@ end

impl DataKeeper {
    // (verbatim from par_builder.rs)
    pub open spec fn rlen(&self) -> nat { self.result_trace.tr().len() }
    // everything but the result trace
    pub open spec fn rest_eq(&self, o: &DataKeeper) -> bool {
        self.prev_ctx == o.prev_ctx && self.current_ctx == o.current_ctx
            && self.new_to_prev_pos == o.new_to_prev_pos && self.new_to_current_pos == o.new_to_current_pos
    }
    // (verbatim from fold_state.rs)
    pub open spec fn wf(&self) -> bool { self.prev_ctx.slider.wf() && self.current_ctx.slider.wf() }
    // both traces are never modified
    pub open spec fn same_traces(&self, o: &DataKeeper) -> bool {
        self.prev_ctx.slider.tlen() == o.prev_ctx.slider.tlen() && self.current_ctx.slider.tlen() == o.current_ctx.slider.tlen()
    }
    // everything but the two sliders (what the fold_state.rs contracts, written for a two-field keeper, leave unsaid:
    // their bodies take `&mut DataKeeper` only to reach `prev_ctx.slider` / `current_ctx.slider`)
    pub open spec fn sliders_only(&self, o: &DataKeeper) -> bool {
        self.result_trace == o.result_trace
            && self.new_to_prev_pos == o.new_to_prev_pos && self.new_to_current_pos == o.new_to_current_pos
    }

// (contract of fold_state.rs + frame)
//@ lift crates/air-lib/trace-handler/src/data_keeper/keeper.rs :: impl DataKeeper :: fn prev_slider_mut
//@ props C01 C09 C10 C08
//@ ret r
//@ spec
        ensures *r == old(self).prev_ctx.slider, final(self).prev_ctx.slider == *final(r),
            final(self).current_ctx == old(self).current_ctx, final(self).sliders_only(old(self)),
//@ end

//@ lift crates/air-lib/trace-handler/src/data_keeper/keeper.rs :: impl DataKeeper :: fn current_slider_mut
//@ props C01 C09 C10 C08
//@ ret r
//@ spec
        ensures *r == old(self).current_ctx.slider, final(self).current_ctx.slider == *final(r),
            final(self).prev_ctx == old(self).prev_ctx, final(self).sliders_only(old(self)),
//@ end
}

//@ lift crates/air-lib/trace-handler/src/state_automata/utils.rs :: struct CtxState
//@ derive Clone Copy
//@ end
//@ lift crates/air-lib/trace-handler/src/state_automata/utils.rs :: struct CtxStatesPair
//@ derive Clone Copy
//@ end
impl CtxState {
//@ stub slider :: CtxState::update_ctx_state
}

// ---------------------------------------------------------------- vocabulary imported mechanically
//@ import-spec fold_state :: state_fits restored window par_len par_inside
//@ import-spec par_builder :: pb_started pb_tracked pb_built

// (contract of slider.rs, in the `restored` vocabulary of fold_state.rs, + frame)
//@ lift crates/air-lib/trace-handler/src/state_automata/utils.rs :: fn update_ctx_states
//@ props C01 C09 C10 C08
//@ spec
    requires old(data_keeper).wf()
    ensures final(data_keeper).wf(), final(data_keeper).same_traces(old(data_keeper)),
        final(data_keeper).sliders_only(old(data_keeper)),
        // C09: a state that fits is always restored (the swallowed error can only be "does not fit")
        state_fits(state_pair.prev_state, old(data_keeper).prev_ctx.slider)
            ==> restored(final(data_keeper).prev_ctx.slider, state_pair.prev_state),
        state_fits(state_pair.current_state, old(data_keeper).current_ctx.slider)
            ==> restored(final(data_keeper).current_ctx.slider, state_pair.current_state),
//@ end

// ---------------------------------------------------------------- callees: StateInserter, ParBuilder (contracts proved in par_builder.rs)
//@ lift crates/air-lib/trace-handler/src/state_automata/state_inserter.rs :: struct StateInserter
//@ derive
//@ end
impl StateInserter {
    pub closed spec fn pos(&self) -> nat { self.position.0 as nat }          // (verbatim from par_builder.rs)
//@ stub par_builder :: StateInserter::from_keeper
//@ stub par_builder :: StateInserter::insert
}

//@ lift crates/air-lib/trace-handler/src/state_automata/par_fsm/par_builder.rs :: struct ParBuilder
//@ derive
//@ end
impl ParBuilder {
    // (verbatim from par_builder.rs)
    pub closed spec fn saved(&self) -> nat { self.saved_states_count as nat }
    pub closed spec fn left(&self) -> nat { self.left_subgraph_size as nat }
    pub closed spec fn right(&self) -> nat { self.right_subgraph_size as nat }
//@ stub par_builder :: ParBuilder::from_keeper
//@ stub par_builder :: ParBuilder::track
//@ stub par_builder :: ParBuilder::build
}

// ---------------------------------------------------------------- callees: par CtxStateHandler, prepare_sliders (contracts proved in fold_state.rs)
//@ lift crates/air-lib/trace-handler/src/state_automata/par_fsm/state_handler.rs :: struct CtxStateHandler
//@ derive Clone Copy
//@ end
impl CtxStateHandler {
    // (verbatim from fold_state.rs, mod par_sh)
    pub closed spec fn left(&self) -> CtxStatesPair { self.left_pair }
    pub closed spec fn right(&self) -> CtxStatesPair { self.right_pair }
    pub open spec fn pair(&self, t: SubgraphType) -> CtxStatesPair { match t { SubgraphType::Left => self.left(), SubgraphType::Right => self.right() } }
//@ stub fold_state :: par::CtxStateHandler::prepare

// (contract of fold_state.rs + frame)
//@ lift crates/air-lib/trace-handler/src/state_automata/par_fsm/state_handler.rs :: impl CtxStateHandler :: fn handle_subgraph_end
//@ props C01 C09 C10 C08
//@ spec
        requires old(data_keeper).wf()
        ensures final(data_keeper).wf(), final(data_keeper).same_traces(old(data_keeper)),
            final(data_keeper).sliders_only(old(data_keeper)),
            // C09: a prepared state that fits is restored; the swallowed error can only be "does not fit"
            state_fits(self.pair(subgraph_type).prev_state, old(data_keeper).prev_ctx.slider)
                ==> restored(final(data_keeper).prev_ctx.slider, self.pair(subgraph_type).prev_state),
            state_fits(self.pair(subgraph_type).current_state, old(data_keeper).current_ctx.slider)
                ==> restored(final(data_keeper).current_ctx.slider, self.pair(subgraph_type).current_state),
//@ end
}

//@ lift crates/air-lib/trace-handler/src/state_automata/par_fsm.rs :: struct ParFSM
//@ derive
//@ end

// (as in fold_state.rs, mod par_sh; used only by obligations proved in this unit)
// the window lengths prepare_sliders asks for
pub open spec fn sub_len(p: ParResult, t: SubgraphType) -> u32 {
    match t { SubgraphType::Left => p.left_size, SubgraphType::Right => p.right_size }
}
// set_subtrace_len(len) on slider o giving a; returns whether it succeeds
pub open spec fn len_set(o: TraceSlider, a: TraceSlider, len: u32, ok: bool) -> bool {
    &&& a.wf() && a.tlen() == o.tlen() && a.pos() == o.pos()
    &&& ok == (len == 0 || o.pos() + len <= o.tlen())
    &&& ok ==> a.slen() == len && a.seen() == 0
    &&& !ok ==> a.slen() == o.slen() && a.seen() == o.seen()
}

// ================================================================ ParFSM
// the temporary state StateInserter::from_keeper pushes
pub open spec fn placeholder() -> ExecutedState { ExecutedState::Par(ParResult { left_size: 0, right_size: 0 }) }
pub open spec fn par_or_default(o: Option<ParResult>) -> ParResult {
    match o { Some(p) => p, None => ParResult { left_size: 0, right_size: 0 } }
}

impl ParFSM {
    pub closed spec fn prev(&self) -> ParResult { self.prev_par }            // (verbatim from fold_state.rs)
    pub closed spec fn cur(&self) -> ParResult { self.current_par }          // (verbatim from fold_state.rs)
    pub closed spec fn si(&self) -> StateInserter { self.state_inserter }
    pub closed spec fn sh(&self) -> CtxStateHandler { self.state_handler }
    pub closed spec fn pb(&self) -> ParBuilder { self.par_builder }
    // the placeholder's position = the par's own position in the result trace
    pub open spec fn p(&self) -> nat { self.si().pos() }
}

// THE STRUCT INVARIANT of ParFSM w.r.t. the data keeper it lives on: the placeholder lies strictly before everything
// the builder has counted so far, and the builder has never counted more than the result trace holds
pub open spec fn inv(fsm: ParFSM, dk: DataKeeper) -> bool {
    fsm.p() < fsm.pb().saved() <= dk.rlen()
}
// what from_left_started leaves behind when the result trace had n0 states: placeholder at n0, builder started at n0 + 1
pub open spec fn fsm_started(fsm: ParFSM, n0: nat) -> bool {
    fsm.p() == n0 && pb_started(fsm.pb(), n0 + 1)
}
// the state right_completed writes over the placeholder when the result trace has n2 states
pub open spec fn par_written(fsm: ParFSM, n2: nat) -> ExecutedState {
    ExecutedState::Par(ParResult { left_size: fsm.pb().left() as u32, right_size: (n2 - fsm.pb().saved()) as u32 })
}
// slider `a` at the end of the Left subgraph, coming from `o`: restored to the prepared Left-end state `s` (if that
// fits, cf. F10), then given the Right subgraph's window `len` (if that is accepted; the error is swallowed)
pub open spec fn left_end(o: TraceSlider, a: TraceSlider, s: CtxState, len: u32) -> bool {
    &&& a.wf() && a.tlen() == o.tlen()
    &&& state_fits(s, o) ==> {
        &&& a.pos() == s.pos.0 && a.seen() == 0
        &&& a.slen() == (if len == 0 || s.pos.0 + len <= o.tlen() { len } else { s.subtrace_len })
    }
}

impl ParFSM {
// (contract of fold_state.rs + frame)
//@ lift crates/air-lib/trace-handler/src/state_automata/par_fsm.rs :: impl ParFSM :: fn prepare_sliders
//@ props C01 C09 C10 C08
//@ ret r
//@ spec
        requires old(data_keeper).wf()           // nothing about the par sizes: they are hostile
        ensures final(data_keeper).wf(), final(data_keeper).same_traces(old(data_keeper)),
            final(data_keeper).sliders_only(old(data_keeper)), ({
            let ok1 = sub_len(self.prev(), subgraph_type) == 0
                || old(data_keeper).prev_ctx.slider.pos() + sub_len(self.prev(), subgraph_type) <= old(data_keeper).prev_ctx.slider.tlen();
            let ok2 = sub_len(self.cur(), subgraph_type) == 0
                || old(data_keeper).current_ctx.slider.pos() + sub_len(self.cur(), subgraph_type) <= old(data_keeper).current_ctx.slider.tlen();
            &&& len_set(old(data_keeper).prev_ctx.slider, final(data_keeper).prev_ctx.slider, sub_len(self.prev(), subgraph_type), ok1)
            &&& ok1 ==> len_set(old(data_keeper).current_ctx.slider, final(data_keeper).current_ctx.slider, sub_len(self.cur(), subgraph_type), ok2)
            &&& !ok1 ==> final(data_keeper).current_ctx == old(data_keeper).current_ctx
            &&& r is Ok <==> ok1 && ok2
        }),
//@ end

//@ lift crates/air-lib/trace-handler/src/state_automata/par_fsm.rs :: impl ParFSM :: fn from_left_started
//@ props C10 C01 C09 C08
//@ ret r
//@ spec
        requires old(data_keeper).wf(),
            old(data_keeper).rlen() <= u32::MAX,         // the real trace_states_count() `expect`s this
        ensures
            // C10: in every case exactly the placeholder is appended to the result trace, the position maps are untouched
            final(data_keeper).result_trace.tr() == old(data_keeper).result_trace.tr().push(placeholder()),
            final(data_keeper).new_to_prev_pos == old(data_keeper).new_to_prev_pos,
            final(data_keeper).new_to_current_pos == old(data_keeper).new_to_current_pos,
            final(data_keeper).wf(), final(data_keeper).same_traces(old(data_keeper)),
            r matches Ok(f) ==> {
                &&& f.prev() == par_or_default(ingredients.prev_par) && f.cur() == par_or_default(ingredients.current_par)
                // C10: the struct invariant is established; placeholder at n0, builder at n0 + 1
                &&& fsm_started(f, old(data_keeper).rlen())
                &&& inv(f, *final(data_keeper))
                // C09: the end states are prepared from the sliders as they stood at the par ...
                &&& f.sh().left().prev_state.pos.0 == old(data_keeper).prev_ctx.slider.pos() + f.prev().left_size
                &&& f.sh().left().current_state.pos.0 == old(data_keeper).current_ctx.slider.pos() + f.cur().left_size
                &&& f.sh().right().prev_state.pos.0 == old(data_keeper).prev_ctx.slider.pos() + f.prev().left_size + f.prev().right_size
                &&& f.sh().right().current_state.pos.0 == old(data_keeper).current_ctx.slider.pos() + f.cur().left_size + f.cur().right_size
                // ... C09.V2: and the Right-end ones fit (w.r.t. the keeper as it is left) whenever both pars lie inside in-window sliders
                &&& (par_inside(f.prev(), old(data_keeper).prev_ctx.slider) && par_inside(f.cur(), old(data_keeper).current_ctx.slider))
                    ==> (state_fits(f.sh().right().prev_state, final(data_keeper).prev_ctx.slider)
                         && state_fits(f.sh().right().current_state, final(data_keeper).current_ctx.slider))
                // both sliders stand where they stood, with the Left subgraph's window
                &&& len_set(old(data_keeper).prev_ctx.slider, final(data_keeper).prev_ctx.slider, f.prev().left_size, true)
                &&& len_set(old(data_keeper).current_ctx.slider, final(data_keeper).current_ctx.slider, f.cur().left_size, true)
            },
//@ end

//@ lift crates/air-lib/trace-handler/src/state_automata/par_fsm.rs :: impl ParFSM :: fn left_completed
//@ props C10 C01 C09 C08
//@ spec
        requires
            inv(*old(self), *old(data_keeper)),      // the one assumption: follows from `inv` after from_left_started by inv_grows
            old(data_keeper).wf(),
        ensures
            // C10: the result trace and the position maps are untouched
            final(data_keeper).sliders_only(old(data_keeper)),
            // the FSM: only the builder moves, by exactly what `track(Left)` is proved to do in par_builder.rs
            final(self).prev() == old(self).prev(), final(self).cur() == old(self).cur(),
            final(self).si() == old(self).si(), final(self).sh() == old(self).sh(),
            pb_tracked(old(self).pb(), final(self).pb(), old(data_keeper).rlen(), SubgraphType::Left),
            inv(*final(self), *final(data_keeper)),
            // sliders: Left-end state restored if it fits, then the Right subgraph's window
            left_end(old(data_keeper).prev_ctx.slider, final(data_keeper).prev_ctx.slider,
                     old(self).sh().left().prev_state, old(self).prev().right_size),
            // (a rejected window for the previous slider leaves the current one without its window)
            (state_fits(old(self).sh().left().prev_state, old(data_keeper).prev_ctx.slider)
                && (old(self).prev().right_size == 0
                    || old(self).sh().left().prev_state.pos.0 + old(self).prev().right_size <= old(data_keeper).prev_ctx.slider.tlen()))
              ==> left_end(old(data_keeper).current_ctx.slider, final(data_keeper).current_ctx.slider,
                     old(self).sh().left().current_state, old(self).cur().right_size),
            final(data_keeper).wf(), final(data_keeper).same_traces(old(data_keeper)),
//@ end

// (Verus rejects a `mut self` parameter: `fn f(mut self)` is spelled as its definition `fn f(self) { let mut this = self; .. }`)
//@ lift crates/air-lib/trace-handler/src/state_automata/par_fsm.rs :: impl ParFSM :: fn right_completed
//@ props C10 C01 C09 C08
//@ sig 1 "mut self" => "self"
//@ rewrite 4 "self." => "this."
//@ before "self.par_builder.track"
        let mut this = self;
//@ spec
        requires
            inv(self, *old(data_keeper)),            // the one assumption: follows from `inv` after left_completed by inv_grows
            old(data_keeper).wf(),
        ensures
            // C10: the placeholder, and nothing else, is overwritten by the Par that `track(Right)`; `build()` yield
            final(data_keeper).result_trace.tr()
                == old(data_keeper).result_trace.tr().update(self.p() as int, par_written(self, old(data_keeper).rlen())),
            final(data_keeper).rlen() == old(data_keeper).rlen(),
            final(data_keeper).result_trace.tr()[self.p() as int] == par_written(self, old(data_keeper).rlen()),
            forall|i: int| 0 <= i < old(data_keeper).rlen() && i != self.p()
                ==> final(data_keeper).result_trace.tr()[i] == old(data_keeper).result_trace.tr()[i],
            final(data_keeper).new_to_prev_pos == old(data_keeper).new_to_prev_pos,
            final(data_keeper).new_to_current_pos == old(data_keeper).new_to_current_pos,
            // C09: a prepared Right-end state that fits is restored (the swallowed error can only be "does not fit")
            final(data_keeper).wf(), final(data_keeper).same_traces(old(data_keeper)),
            state_fits(self.sh().right().prev_state, old(data_keeper).prev_ctx.slider)
                ==> restored(final(data_keeper).prev_ctx.slider, self.sh().right().prev_state),
            state_fits(self.sh().right().current_state, old(data_keeper).current_ctx.slider)
                ==> restored(final(data_keeper).current_ctx.slider, self.sh().right().current_state),
//@ end
}

// ================================================================ the protocol, end to end (no code involved)
// The single assumption about the executor.  `inv` depends on the keeper through the result-trace length only and is
// monotone in it: whatever happens between two ParFSM calls, as long as the result trace does not shrink, the
// precondition of the next call follows from the postcondition of the previous one.
//@ lemma inv_grows props C10
proof fn inv_grows(fsm: ParFSM, dk1: DataKeeper, dk2: DataKeeper)
    requires inv(fsm, dk1), dk1.rlen() <= dk2.rlen()
    ensures inv(fsm, dk2)
{ }
//@ end

// C10 for a par: result-trace lengths n0 at from_left_started (f0 = its result), n1 at left_completed (f0 -> f1),
// n2 at right_completed.  The executor's side: n0 + 1 <= n1 <= n2 (the trace only grows; n0 + 1 is the length
// from_left_started leaves) and the trace fits u32.  Then both `inv` preconditions hold, and the state written at
// p = n0 is Par(n1 - (n0 + 1), n2 - n1) without truncation: its sizes exactly cover the entries n0+1 .. n1 and n1 .. n2.
//@ lemma par_fsm_covers props C10
proof fn par_fsm_covers(f0: ParFSM, f1: ParFSM, dk1: DataKeeper, dk2: DataKeeper, n0: nat)
    requires
        fsm_started(f0, n0),
        n0 + 1 <= dk1.rlen() <= dk2.rlen() < 0x1_0000_0000,
        f1.si() == f0.si(),
        pb_tracked(f0.pb(), f1.pb(), dk1.rlen(), SubgraphType::Left),
    ensures
        inv(f0, dk1), inv(f1, dk2),               // the preconditions of left_completed / right_completed
        f1.p() == n0,
        par_written(f1, dk2.rlen()) matches ExecutedState::Par(q)
            && q.left_size == dk1.rlen() - (n0 + 1) && q.right_size == dk2.rlen() - dk1.rlen()
            && f1.p() + 1 + q.left_size == dk1.rlen() && dk1.rlen() + q.right_size == dk2.rlen(),
{ }
//@ end

// C09 for a par: if the par read from a slider lies inside that slider's window (and the window inside the trace),
// the Right-end state prepared by from_left_started still fits when right_completed runs (fitting depends on the
// trace length only, which nothing changes), so the restore whose error is swallowed cannot fail: the slider ends
// right behind the whole par, no state behind the par is skipped or lost.
//@ lemma par_fsm_restores props C09
proof fn par_fsm_restores(par: ParResult, s: CtxState, at_start: TraceSlider, after_start: TraceSlider, before_end: TraceSlider, at_end: TraceSlider)
    requires
        s.pos.0 == at_start.pos() + par.left_size + par.right_size,
        par_inside(par, at_start) ==> state_fits(s, after_start),                    // from_left_started
        before_end.tlen() == after_start.tlen(),                                     // same_traces, all the way
        state_fits(s, before_end) ==> restored(at_end, s),                           // right_completed
    ensures
        par_inside(par, at_start) ==> at_end.pos() == at_start.pos() + par.left_size + par.right_size && at_end.seen() == 0
            && at_end.slen() == s.subtrace_len,
{ }
//@ end

// ================================================================ the protocol replayed in its real order
// THE assumption about the executor, stated once: between two FSM calls the executor may do anything to the keeper
// (run nested pars and folds, move the sliders) as long as THE RESULT TRACE ONLY GROWS, the sliders stay well formed
// (slider.rs) over the same two input traces, and the result trace still fits u32.  This stub is used by the harness
// below only; no obligation on repository code depends on it.
#[verifier::external_body]
pub fn executor_runs_subgraph(dk: &mut DataKeeper)
    ensures final(dk).rlen() >= old(dk).rlen(), final(dk).rlen() <= u32::MAX,
        final(dk).wf(), final(dk).same_traces(old(dk)),
{ unimplemented!() }

// TraceHandler::meet_par_start / meet_par_subgraph_end(Left) / meet_par_subgraph_end(Right) in the order par.rs drives
// them, with arbitrary executor activity in between.  Every precondition of the three ParFSM functions (hence, through
// them, of track / insert) is discharged from the previous postcondition and `executor_runs_subgraph` alone, and the
// C10 / C09 statements come out end to end: at the par's own position p = n0 stands Par(n1 - (n0+1), n2 - n1), whose
// sizes exactly cover the entries n0+1 .. n1 and n1 .. n2; a par lying inside an in-window slider leaves that slider
// right behind the whole par.
//@ lemma par_protocol_replayed props C10 C09 C01
pub fn par_protocol_replayed(ingredients: MergerParResult, dk: &mut DataKeeper) -> (r: (bool, Ghost<nat>, Ghost<nat>))
    requires old(dk).wf(), old(dk).rlen() < u32::MAX
    ensures ({
        let n0 = old(dk).rlen(); let n1 = r.1@; let n2 = r.2@;
        let pp = par_or_default(ingredients.prev_par); let cp = par_or_default(ingredients.current_par);
        r.0 ==> {
            &&& n0 + 1 <= n1 <= n2 && n2 == final(dk).rlen()
            &&& final(dk).result_trace.tr()[n0 as int] == ExecutedState::Par(ParResult { left_size: (n1 - (n0 + 1)) as u32, right_size: (n2 - n1) as u32 })
            &&& ((n1 - (n0 + 1)) as u32) as int == n1 - (n0 + 1) && ((n2 - n1) as u32) as int == n2 - n1        // no truncation
            &&& par_inside(pp, old(dk).prev_ctx.slider) && par_inside(cp, old(dk).current_ctx.slider) ==> {
                &&& final(dk).prev_ctx.slider.pos() == old(dk).prev_ctx.slider.pos() + pp.left_size + pp.right_size
                &&& final(dk).current_ctx.slider.pos() == old(dk).current_ctx.slider.pos() + cp.left_size + cp.right_size
                &&& final(dk).prev_ctx.slider.seen() == 0 && final(dk).current_ctx.slider.seen() == 0
            }
        }
    }),
{
    let ghost dk0 = *dk;
    match ParFSM::from_left_started(ingredients, dk) {
        Err(_) => (false, Ghost(0), Ghost(0)),
        Ok(fsm) => {
            let mut fsm = fsm;
            let ghost dk_a = *dk;
            executor_runs_subgraph(dk);                  // the left subgraph
            let ghost n1 = dk.rlen();
            proof { inv_grows(fsm, dk_a, *dk); }
            let ghost f0 = fsm;
            fsm.left_completed(dk);
            let ghost dk_b = *dk;
            executor_runs_subgraph(dk);                  // the right subgraph
            let ghost n2 = dk.rlen();
            proof { inv_grows(fsm, dk_b, *dk); par_fsm_covers(f0, fsm, dk_b, *dk, dk0.rlen()); }
            fsm.right_completed(dk);
            (true, Ghost(n1), Ghost(n2))
        }
    }
}
//@ end

} // verus!
fn main() {}
