#![feature(sized_hierarchy)]
#![feature(allocator_api)]
//@ unit cid_store
// The CID store layer:
//   crates/air-lib/interpreter-data/src/cid_store.rs  CidStore::{new, get, is_empty, len, iter, check_reference, verify, verify_raw_value},
//                                                      CidTracker::{new, from_cid_stores, get, track_value, track_raw_value}, the two Default impls,
//                                                      From<CidTracker> for CidStore
//   crates/air-lib/interpreter-data/src/cid_info.rs   CidInfo::verify and the four verify_*_store functions
// C14.K1: `CidInfo::verify()` is Ok  <=>  every stored item verifies against its CID  AND  the five stores are closed under the
//         store -> store references (`CidInfo::closed`). C09.K1: `from_cid_stores(prev, cur)` = prev ∪ cur, current wins on a
//         common key, nothing is forgotten. C01: every lookup (`get`, `check_reference`) is total on any CID.
//
// WHAT IS *NOT* IN THE CLOSURE (read this before relying on `CidInfo::verify`):
//  * trace -> store references: no function here looks at the trace; a `Call`/`Canon` state of the trace may name a CID that is
//    in no store (that was finding F5: `collect_peers_cids_from_trace` unwrapped such lookups);
//  * `ServiceResultCidAggregate::argument_hash` is not a reference and is not checked against anything here;
//  * nothing relates the *content* of a referenced item to the referrer beyond its presence (a canon element's provenance target
//    merely has to exist), and the signature store is outside `CidInfo`.
//
// Trusted part of this file:
//  * `CID<T>` shim (same text as unit cid_verify) + `Clone`/`PartialEq`/`Eq`/`Hash` bodies (real ones compare / hash the `Rc<str>` text);
//    axiom `CID<T>` obeys vstd's hash-table key model (Hash and Eq both go through the text; PhantomData hashes nothing);
//  * `verify_value` / `verify_raw_value` are `//@ stub`s: their contracts are copied mechanically from unit cid_verify, where they are
//    proved on the lifted bodies; the vocabulary of those contracts (`cid_matches`, `mhash_matches`, `json_bytes`, `as_ref_bytes`,
//    `as_ref_spec`, `sha2_256`, `blake3_256`) is imported with `//@ import-spec`; the type shims they mention (`mod cid`,
//    `multihash_codetable::Multihash`, `serde_json::Error`, `Serialize`, `ExAsRef`) are repeated by hand (types only, no contracts);
//  * `value_to_json_cid` / `raw_value_to_json_cid`: results are the uninterpreted `json_cid_of` / `raw_cid_of` (NOT linked to `cid_matches`:
//    no unit proves that a computed CID verifies -- cid_verify lifts the verifying side only);
//  * std facts vstd lacks: `Rc::clone` returns its argument;
//    `std::any::type_name::<T>()` is a function of `T` (`type_name_of`);
//  * by-value iteration of a `HashMap` (`for (k, v) in map`): vstd has no model of `hash_map::IntoIter`, and the orphan rule forbids
//    giving the std type an `IteratorSpecImpl` here. R12b rewrite in from_cid_stores: `in current_cid_map.0` -> `in it: map_into_iter(current_cid_map.0)`;
//    `MapIntoIter` wraps the real `into_iter()`; assumed: it yields every (key, value) pair of the map and only those (the same two facts
//    vstd states for `HashMap::iter`), and terminates;
//  * RawValue / SecurityTetraplet: opaque; `RawValue::as_inner` returns the uninterpreted `raw_str()`;
//  * `thiserror`'s `#[from]`: `From<CidVerificationError> for CidStoreVerificationError` wraps into the variant of the same name.
// Rewrites (all local, R12 of the README): the three `for (k, v) in &self.0` / `for val in &canon_result.values` heads become named
//    `.iter()` loops; `CidStore::iter`'s `impl Iterator<..>` return type is spelled as the concrete `hash_map::Iter` (Verus cannot
//    for-loop an opaque `impl Iterator`); the `ok_or_else` closure of check_reference gets its annotated form so that the error it
//    builds is known.
// Not lifted: `IntoIterator for CidStore` (returns `hash_map::IntoIter`, no Verus model; one line, `self.0.into_iter()`).
use vstd::prelude::*;
use vstd::std_specs::iter::IteratorSpec;
use vstd::std_specs::convert::IntoSpec;
verus! {

use std::collections::HashMap;
pub type CidRef = str;
pub type Rc<T> = std::rc::Rc<T>;

pub mod ax {
    use vstd::prelude::*;
    use super::CID;
    // Hash / Eq of CID<T> are those of its text
    #[verifier::external_body]
    pub broadcast proof fn axiom_cid_obeys_key_model<T>()
        ensures #[trigger] vstd::std_specs::hash::obeys_key_model::<CID<T>>() {}
}
broadcast use {vstd::std_specs::hash::group_hash_axioms, ax::axiom_cid_obeys_key_model};

pub assume_specification<T: ?Sized, A: std::alloc::Allocator + Clone>[ <std::rc::Rc<T, A> as Clone>::clone ](a: &std::rc::Rc<T, A>) -> (r: std::rc::Rc<T, A>)
    ensures r == *a;
pub uninterp spec fn type_name_of<T: ?Sized>() -> &'static str;
pub assume_specification<T: ?Sized> [std::any::type_name::<T>] () -> (r: &'static str) ensures r == type_name_of::<T>();

// ---------------------------------------------------------------- shim: AsRef (same text as unit cid_verify)
//@ import-spec cid_verify :: as_ref_spec as_ref_bytes
#[verifier::external_trait_specification]
pub trait ExAsRef<T: core::marker::PointeeSized>: core::marker::PointeeSized {
    type ExternalTraitSpecificationFor: core::convert::AsRef<T>;
    fn as_ref(&self) -> (r: &T) ensures r == as_ref_spec::<Self, T>(self);
}

// ---------------------------------------------------------------- shim: cid, multihash (types of the contract vocabulary; same text as unit cid_verify)
pub mod multihash_codetable {
    use vstd::prelude::*;
    pub struct Multihash { pub code: u64, pub digest: Vec<u8> }
}
pub mod cid {
    use vstd::prelude::*;
    use super::multihash_codetable::Multihash;
    pub struct Error;
    pub struct Cid { pub codec: u64, pub hash: Multihash }
    pub uninterp spec fn from_str_spec(text: Seq<char>) -> Result<Cid, Error>;
    pub open spec fn parse_cid(text: Seq<char>) -> Option<Cid> {
        match from_str_spec(text) { Ok(c) => Some(c), Err(_) => None }
    }
}
pub mod serde_json { pub struct Error; }
pub trait Serialize {}

// ---------------------------------------------------------------- shim: CID<T> (same text as unit cid_verify, plus the key traits)
#[verifier::accept_recursive_types(T)]
pub struct CID<T: ?Sized>(pub Rc<CidRef>, pub core::marker::PhantomData<*const T>);
impl<T: ?Sized> CID<T> {
    pub open spec fn text(&self) -> Seq<char> { self.0@ }
    #[verifier::external_body]
    pub fn get_inner(&self) -> (r: Rc<CidRef>) ensures r == self.0 { self.0.clone() }
}
impl<T: ?Sized> Clone for CID<T> {
    #[verifier::external_body]
    fn clone(&self) -> (r: Self) ensures r == *self { Self(self.0.clone(), self.1) }
}
impl<Val> PartialEq for CID<Val> {
    #[verifier::external_body]
    fn eq(&self, other: &Self) -> bool { self.0 == other.0 }
}
impl<Val> Eq for CID<Val> {}
impl<Val> std::hash::Hash for CID<Val> {
    #[verifier::external_body]
    fn hash<H: std::hash::Hasher>(&self, state: &mut H) { self.0.hash(state); }
}

// ---------------------------------------------------------------- the verification vocabulary, proved in unit cid_verify
//@ import-spec cid_verify :: sha2_256 blake3_256 mhash_matches cid_matches json_bytes
//@ lift crates/air-lib/interpreter-cid/src/verify.rs :: enum CidVerificationError
//@ derive
//@ end
//@ stub cid_verify :: verify_value
//@ stub cid_verify :: verify_raw_value

// ---------------------------------------------------------------- shim: CID calculation (uninterpreted)
pub struct CidCalculationError { pub e: serde_json::Error }
pub uninterp spec fn json_cid_of<Val: ?Sized>(value: &Val) -> Result<CID<Val>, CidCalculationError>;
pub uninterp spec fn raw_cid_of<Val>(bytes: Seq<u8>) -> CID<Val>;
#[verifier::external_body]
pub fn value_to_json_cid<Val: Serialize + ?Sized>(value: &Val) -> (r: Result<CID<Val>, CidCalculationError>)
    ensures r == json_cid_of(value)
{ unimplemented!() }
#[verifier::external_body]
pub fn raw_value_to_json_cid<Val>(raw_value: impl AsRef<[u8]>) -> (r: CID<Val>)
    ensures r == raw_cid_of::<Val>(as_ref_bytes(raw_value))
{ unimplemented!() }

// ---------------------------------------------------------------- shim: stored types
pub struct RawValue { pub x: u8 }
impl RawValue {
    // the stored text (`&self.raw`)
    pub uninterp spec fn raw_str(&self) -> &str;
    #[verifier::external_body]
    pub fn as_inner(&self) -> (r: &str) ensures r == self.raw_str() { unimplemented!() }
}
pub struct SecurityTetraplet { pub x: u8 }
impl Serialize for SecurityTetraplet {}
pub type JValue = u8;   // only the default type argument of CidTracker names it

//@ lift crates/air-lib/interpreter-data/src/executed_state.rs :: struct ServiceResultCidAggregate
//@ derive
//@ end
//@ lift crates/air-lib/interpreter-data/src/executed_state.rs :: struct CanonResultCidAggregate
//@ derive
//@ end
//@ lift crates/air-lib/interpreter-data/src/executed_state.rs :: struct CanonCidAggregate
//@ derive
//@ end
//@ lift crates/air-lib/interpreter-data/src/executed_state.rs :: enum Provenance
//@ derive
//@ end
impl Serialize for ServiceResultCidAggregate {}
impl Serialize for CanonResultCidAggregate {}
impl Serialize for CanonCidAggregate {}

// ---------------------------------------------------------------- shim: by-value HashMap iteration (trusted, see header)
#[verifier::external_body]
#[verifier::reject_recursive_types(K)]
#[verifier::reject_recursive_types(V)]
pub struct MapIntoIter<K, V> { inner: std::collections::hash_map::IntoIter<K, V> }
impl<K, V> Iterator for MapIntoIter<K, V> {
    type Item = (K, V);
    #[verifier::external_body]
    fn next(&mut self) -> (r: Option<(K, V)>) { self.inner.next() }
}
impl<K, V> vstd::std_specs::iter::IteratorSpecImpl for MapIntoIter<K, V> {
    open spec fn obeys_prophetic_iter_laws(&self) -> bool { true }
    #[verifier::prophetic]
    uninterp spec fn remaining(&self) -> Seq<(K, V)>;
    #[verifier::prophetic]
    open spec fn will_return_none(&self) -> bool { true }
    uninterp spec fn decrease(&self) -> Option<nat>;
    uninterp spec fn peek(&self, index: int) -> Option<(K, V)>;
}
// std: `impl IntoIterator for HashMap<K, V, S>`
#[verifier::external_body]
pub fn map_into_iter<K, V>(m: HashMap<K, V>) -> (r: MapIntoIter<K, V>)
    ensures
        r.decrease() is Some,
        forall|k: K| m@.contains_key(k) ==> r.remaining().contains((k, m@[k])),
        forall|i: int| 0 <= i < r.remaining().len() ==> m@.contains_pair(r.remaining()[i].0, r.remaining()[i].1),
{ MapIntoIter { inner: m.into_iter() } }

// ================================================================ cid_store.rs
//@ lift crates/air-lib/interpreter-data/src/cid_store.rs :: struct CidStore
//@ derive
//@ end
//@ lift crates/air-lib/interpreter-data/src/cid_store.rs :: enum CidStoreVerificationError
//@ derive
//@ end
// real: generated by thiserror's #[from]
impl From<CidVerificationError> for CidStoreVerificationError {
    fn from(e: CidVerificationError) -> Self { CidStoreVerificationError::CidVerificationError(e) }
}
impl vstd::std_specs::convert::FromSpecImpl<CidVerificationError> for CidStoreVerificationError {
    open spec fn obeys_from_spec() -> bool { true }
    open spec fn from_spec(e: CidVerificationError) -> Self { CidStoreVerificationError::CidVerificationError(e) }
}

// a stored (cid, value) pair verifies: the JSON bytes of the value hash to the CID (cid_verify's acceptance condition)
pub open spec fn item_ok<Val>(cid: CID<Val>, value: Rc<Val>) -> bool {
    json_bytes::<Val>(&*value) matches Some(b) && cid_matches(cid.text(), b)
}
// a stored raw value verifies: its text, as bytes, hashes to the CID
pub open spec fn raw_item_ok(cid: CID<RawValue>, value: Rc<RawValue>) -> bool {
    cid_matches(cid.text(), as_ref_bytes::<&str>(value.raw_str()))
}
pub open spec fn all_items_ok<Val>(m: Map<CID<Val>, Rc<Val>>) -> bool {
    forall|k: CID<Val>| m.contains_key(k) ==> item_ok(k, #[trigger] m[k])
}
pub open spec fn all_raw_items_ok(m: Map<CID<RawValue>, Rc<RawValue>>) -> bool {
    forall|k: CID<RawValue>| m.contains_key(k) ==> raw_item_ok(k, #[trigger] m[k])
}
// what `HashMap::iter` is known to yield: every pair of the map, and only pairs of the map
pub open spec fn iter_covers<'a, Val>(s: Seq<(&'a CID<Val>, &'a Rc<Val>)>, m: Map<CID<Val>, Rc<Val>>) -> bool {
    &&& forall|k: CID<Val>| m.contains_key(k) ==> s.contains((&k, &m[k]))
    &&& forall|i: int| 0 <= i < s.len() ==> m.contains_pair(*s[i].0, *s[i].1)
}

impl<Val> CidStore<Val> {
    // ghost view (the field is private: opaque in public contracts)
    pub closed spec fn m(&self) -> Map<CID<Val>, Rc<Val>> { self.0@ }

//@ lift crates/air-lib/interpreter-data/src/cid_store.rs :: impl<Val> CidStore<Val> :: fn new
//@ props C09
//@ ret r
//@ spec
        ensures r.m() == Map::<CID<Val>, Rc<Val>>::empty()
//@ end

//@ lift crates/air-lib/interpreter-data/src/cid_store.rs :: impl<Val> CidStore<Val> :: fn get
//@ props C01 C09
//@ ret r
//@ spec
        // total on any CID: present -> the stored value, absent -> None
        ensures r == (if self.m().contains_key(*cid) { Some(self.m()[*cid]) } else { None::<Rc<Val>> })
//@ end

//@ lift crates/air-lib/interpreter-data/src/cid_store.rs :: impl<Val> CidStore<Val> :: fn is_empty
//@ props C09
//@ ret r
//@ spec
        ensures r <==> self.m().len() == 0
//@ end

//@ lift crates/air-lib/interpreter-data/src/cid_store.rs :: impl<Val> CidStore<Val> :: fn len
//@ props C09
//@ ret r
//@ spec
        ensures r == self.m().len()
//@ end

//@ lift crates/air-lib/interpreter-data/src/cid_store.rs :: impl<Val> CidStore<Val> :: fn iter
//@ props C14
//@ ret r
//@ sig 1 "impl Iterator<Item = (&CID<Val>, &Rc<Val>)>" => "std::collections::hash_map::Iter<'_, CID<Val>, Rc<Val>>"
//@ spec
        ensures iter_covers(r.remaining(), self.m()), r.decrease() is Some
//@ end

//@ lift crates/air-lib/interpreter-data/src/cid_store.rs :: impl<Val> CidStore<Val> :: fn check_reference
//@ props C14 C01
//@ ret r
//@ rewrite 1 ".ok_or_else(|| CidStoreVerificationError::MissingReference {" => ".ok_or_else(|| -> (o: CidStoreVerificationError) ensures o == missing_reference::<Src, Val>(*target_cid) { CidStoreVerificationError::MissingReference {"
//@ rewrite 1 "target_cid_repr: target_cid.get_inner(),\n            })" => "target_cid_repr: target_cid.get_inner(),\n            } })"
//@ spec
        ensures
            // Ok <=> the target is present; total on any CID
            r is Ok <==> self.m().contains_key(*target_cid),
            // the error names both types and the missing CID
            r matches Err(e) ==> e == missing_reference::<Src, Val>(*target_cid),
//@ end
}

pub open spec fn missing_reference<Src, Val>(target_cid: CID<Val>) -> CidStoreVerificationError {
    CidStoreVerificationError::MissingReference {
        source_type_name: type_name_of::<Src>(),
        target_type_name: type_name_of::<Val>(),
        target_cid_repr: target_cid.0,
    }
}

impl<Val: Serialize> CidStore<Val> {
//@ lift crates/air-lib/interpreter-data/src/cid_store.rs :: impl<Val: Serialize> CidStore<Val> :: fn verify
//@ props C14
//@ ret r
//@ rewrite 1 "for (cid, value) in &self.0" => "for (cid, value) in it: self.0.iter()"
//@ spec
        ensures
            r is Ok <==> all_items_ok(self.m()),
//@ loop 0
            invariant
                iter_covers(it.seq(), self.m()),
                forall|i: int| 0 <= i < it.index() ==> item_ok(*it.seq()[i].0, *it.seq()[i].1),
//@ end
}

impl CidStore<RawValue> {
//@ lift crates/air-lib/interpreter-data/src/cid_store.rs :: impl CidStore<RawValue> :: fn verify_raw_value
//@ props C14
//@ ret r
//@ rewrite 1 "for (cid, value) in &self.0" => "for (cid, value) in it: self.0.iter()"
//@ spec
        ensures
            r is Ok <==> all_raw_items_ok(self.m()),
//@ loop 0
            invariant
                iter_covers(it.seq(), self.m()),
                forall|i: int| 0 <= i < it.index() ==> raw_item_ok(*it.seq()[i].0, *it.seq()[i].1),
//@ end
}

impl<Val> Default for CidStore<Val> {
//@ lift crates/air-lib/interpreter-data/src/cid_store.rs :: impl<Val> Default for CidStore<Val> :: fn default
//@ name CidStore::default
//@ props C09
//@ no-canary
//@ ret r
//@ spec
        ensures r.m() == Map::<CID<Val>, Rc<Val>>::empty()
//@ end
}

//@ lift crates/air-lib/interpreter-data/src/cid_store.rs :: struct CidTracker
//@ derive
//@ end

impl<Val> CidTracker<Val> {
    pub closed spec fn m(&self) -> Map<CID<Val>, Rc<Val>> { self.cids@ }

//@ lift crates/air-lib/interpreter-data/src/cid_store.rs :: impl<Val> CidTracker<Val> :: fn new
//@ props C09
//@ ret r
//@ spec
        ensures r.m() == Map::<CID<Val>, Rc<Val>>::empty()
//@ end

//@ lift crates/air-lib/interpreter-data/src/cid_store.rs :: impl<Val> CidTracker<Val> :: fn from_cid_stores
//@ props C09
//@ ret r
//@ rewrite 1 "for (cid, val) in current_cid_map.0" => "for (cid, val) in it: map_into_iter(current_cid_map.0)"
//@ spec
        ensures
            // C09.K1: the union of both stores, the current store wins on a common key; nothing is forgotten
            r.m() == prev_cid_map.m().union_prefer_right(current_cid_map.m()),
//@ loop 0
            invariant
                forall|k: CID<Val>| current_cid_map.m().contains_key(k) ==> it.seq().contains((k, current_cid_map.m()[k])),
                forall|i: int| 0 <= i < it.seq().len() ==> current_cid_map.m().contains_pair(it.seq()[i].0, it.seq()[i].1),
                forall|k: CID<Val>| cids@.contains_key(k) <==> (prev_cid_map.m().contains_key(k) || exists|j: int| 0 <= j < it.index() && it.seq()[j].0 == k),
                forall|k: CID<Val>| cids@.contains_key(k) ==> cids@[k] == (if (exists|j: int| 0 <= j < it.index() && it.seq()[j].0 == k) { current_cid_map.m()[k] } else { prev_cid_map.m()[k] }),
//@ before "cids.insert(cid, val);"
            assert(it.seq()[it.index() as int] == (cid, val));
//@ before "Self { cids }"
        assert(cids@ =~= prev_cid_map.m().union_prefer_right(current_cid_map.m()));
//@ end

//@ lift crates/air-lib/interpreter-data/src/cid_store.rs :: impl<Val> CidTracker<Val> :: fn get
//@ props C01 C09
//@ ret r
//@ spec
        ensures r == (if self.m().contains_key(*cid) { Some(self.m()[*cid]) } else { None::<Rc<Val>> })
//@ end
}

impl<Val: Serialize> CidTracker<Val> {
//@ lift crates/air-lib/interpreter-data/src/cid_store.rs :: impl<Val: Serialize> CidTracker<Val> :: fn track_value
//@ props C09
//@ ret r
//@ spec
        ensures
            // the value is stored under the CID computed from it and that CID is returned; every other entry is kept
            r matches Ok(c) ==> final(self).m().contains_key(c) && ({ let v = final(self).m()[c];
                tracked_as(value, v) && json_cid_of::<Val>(&*v) == Ok::<CID<Val>, CidCalculationError>(c) && final(self).m() == old(self).m().insert(c, v) }),
            r is Err ==> final(self).m() == old(self).m(),
//@ end
}

// `value.into()` produced `v` (for a type whose conversion has a spec)
pub open spec fn tracked_as<A: Into<Rc<Val>>, Val>(value: A, v: Rc<Val>) -> bool {
    <A as IntoSpec<Rc<Val>>>::obeys_into_spec() ==> v == <A as IntoSpec<Rc<Val>>>::into_spec(value)
}

impl CidTracker<RawValue> {
//@ lift crates/air-lib/interpreter-data/src/cid_store.rs :: impl CidTracker<RawValue> :: fn track_raw_value
//@ props C09
//@ ret r
//@ spec
        ensures
            final(self).m().contains_key(r) && ({ let v = final(self).m()[r];
                tracked_as(value, v) && r == raw_cid_of::<RawValue>(as_ref_bytes::<&str>(v.raw_str())) && final(self).m() == old(self).m().insert(r, v) }),
//@ end
}

impl<Val> Default for CidTracker<Val> {
//@ lift crates/air-lib/interpreter-data/src/cid_store.rs :: impl<Val> Default for CidTracker<Val> :: fn default
//@ name CidTracker::default
//@ props C09
//@ no-canary
//@ ret r
//@ spec
        ensures r.m() == Map::<CID<Val>, Rc<Val>>::empty()
//@ end
}

impl<Val> CidStore<Val> {
    pub closed spec fn of_tracker(value: CidTracker<Val>) -> Self { CidStore(value.cids) }
}
// checked: the lifted `from` below must satisfy `r == from_spec(value)` (the postcondition vstd puts on every `From::from`)
impl<Val> vstd::std_specs::convert::FromSpecImpl<CidTracker<Val>> for CidStore<Val> {
    open spec fn obeys_from_spec() -> bool { true }
    open spec fn from_spec(value: CidTracker<Val>) -> Self { CidStore::of_tracker(value) }
}
impl<Val> From<CidTracker<Val>> for CidStore<Val> {
//@ lift crates/air-lib/interpreter-data/src/cid_store.rs :: impl<Val> From<CidTracker<Val>> for CidStore<Val> :: fn from
//@ name CidStore::from<CidTracker>
//@ props C09
//@ no-canary
//@ ret r
//@ spec
        // what was tracked is what is stored
        ensures r.m() == value.m(), r == CidStore::of_tracker(value)
//@ end
}

// ================================================================ cid_info.rs
//@ lift crates/air-lib/interpreter-data/src/cid_info.rs :: struct CidInfo
//@ derive
//@ end

impl CidInfo {
    // ---- C14.K1, first half: every stored item verifies against its CID
    pub open spec fn items_verified(&self) -> bool {
        &&& all_raw_items_ok(self.value_store.m())
        &&& all_items_ok(self.tetraplet_store.m())
        &&& all_items_ok(self.canon_element_store.m())
        &&& all_items_ok(self.canon_result_store.m())
        &&& all_items_ok(self.service_result_store.m())
    }
    // ---- C14.K1, second half: the store -> store references resolve
    // service result -> tetraplet store & value store
    pub open spec fn service_refs_closed(&self) -> bool {
        forall|k: CID<ServiceResultCidAggregate>| self.service_result_store.m().contains_key(k) ==> {
            let a = #[trigger] self.service_result_store.m()[k];
            self.tetraplet_store.m().contains_key(a.tetraplet_cid) && self.value_store.m().contains_key(a.value_cid)
        }
    }
    // canon result -> canon element store (every element) & tetraplet store
    pub open spec fn canon_result_ok(&self, a: Rc<CanonResultCidAggregate>) -> bool {
        &&& forall|i: int| 0 <= i < a.values@.len() ==> self.canon_element_store.m().contains_key(#[trigger] a.values@[i])
        &&& self.tetraplet_store.m().contains_key(a.tetraplet)
    }
    pub open spec fn canon_result_refs_closed(&self) -> bool {
        forall|k: CID<CanonResultCidAggregate>| self.canon_result_store.m().contains_key(k) ==>
            self.canon_result_ok(#[trigger] self.canon_result_store.m()[k])
    }
    // canon element -> tetraplet store, value store, and its provenance target
    pub open spec fn canon_element_ok(&self, a: Rc<CanonCidAggregate>) -> bool {
        &&& self.tetraplet_store.m().contains_key(a.tetraplet)
        &&& self.value_store.m().contains_key(a.value)
        &&& match a.provenance {
            Provenance::Literal => true,
            Provenance::ServiceResult { cid } => self.service_result_store.m().contains_key(cid),
            Provenance::Canon { cid } => self.canon_result_store.m().contains_key(cid),
        }
    }
    pub open spec fn canon_element_refs_closed(&self) -> bool {
        forall|k: CID<CanonCidAggregate>| self.canon_element_store.m().contains_key(k) ==>
            self.canon_element_ok(#[trigger] self.canon_element_store.m()[k])
    }
    // the closure predicate. NOT in it: trace -> store references (F5), argument hashes, signatures (see the header)
    pub open spec fn closed(&self) -> bool {
        &&& self.service_refs_closed()
        &&& self.canon_result_refs_closed()
        &&& self.canon_element_refs_closed()
    }

//@ lift crates/air-lib/interpreter-data/src/cid_info.rs :: impl CidInfo :: fn verify
//@ props C14
//@ ret r
//@ spec
        ensures
            // C14.K1 (exact): accepted <=> every item verifies and every store -> store reference resolves
            r is Ok <==> self.items_verified() && self.closed(),
//@ end

//@ lift crates/air-lib/interpreter-data/src/cid_info.rs :: impl CidInfo :: fn verify_value_store
//@ props C14
//@ ret r
//@ spec
        ensures r is Ok <==> all_raw_items_ok(self.value_store.m())
//@ end

//@ lift crates/air-lib/interpreter-data/src/cid_info.rs :: impl CidInfo :: fn verify_tetraplet_store
//@ props C14
//@ ret r
//@ spec
        ensures r is Ok <==> all_items_ok(self.tetraplet_store.m())
//@ end

//@ lift crates/air-lib/interpreter-data/src/cid_info.rs :: impl CidInfo :: fn verify_service_result_store
//@ props C14
//@ ret r
//@ rewrite 1 "in self.service_result_store.iter()" => "in it: self.service_result_store.iter()"
//@ spec
        ensures r is Ok <==> all_items_ok(self.service_result_store.m()) && self.service_refs_closed()
//@ before "self.tetraplet_store"
            assert(it.seq()[it.index() as int] == (serv_cid, serv_result));
//@ loop 0
            invariant
                iter_covers(it.seq(), self.service_result_store.m()),
                forall|i: int| 0 <= i < it.index() ==> self.tetraplet_store.m().contains_key((*it.seq()[i].1).tetraplet_cid)
                    && self.value_store.m().contains_key((*it.seq()[i].1).value_cid),
//@ end

//@ lift crates/air-lib/interpreter-data/src/cid_info.rs :: impl CidInfo :: fn verify_canon_result_store
//@ props C14
//@ ret r
//@ rewrite 1 "in self.canon_result_store.iter()" => "in it: self.canon_result_store.iter()"
//@ rewrite 1 "for val in &canon_result.values" => "for val in it2: canon_result.values.iter()"
//@ rewrite 1 "in self.canon_element_store.iter()" => "in it: self.canon_element_store.iter()"
//@ spec
        ensures r is Ok <==> all_items_ok(self.canon_element_store.m()) && all_items_ok(self.canon_result_store.m())
            && self.canon_result_refs_closed() && self.canon_element_refs_closed()
//@ before "for val in &canon_result.values"
            assert(it.seq()[it.index() as int] == (canon_cid, canon_result));
//@ before "self.canon_element_store.check_reference(canon_cid, val)?;"
                assert(it2.seq()[it2.index() as int] == val);
//@ before #1 "self.tetraplet_store"
            assert(it.seq()[it.index() as int] == (element_cid, canon_element));
//@ loop 0
            invariant
                iter_covers(it.seq(), self.canon_result_store.m()),
                forall|i: int| 0 <= i < it.index() ==> self.canon_result_ok(*it.seq()[i].1),
//@ loop 1
                invariant
                    self.canon_result_store.m().contains_pair(*canon_cid, *canon_result),
                    it2.seq().len() == canon_result.values@.len(),
                    forall|i: int| 0 <= i < it2.seq().len() ==> *it2.seq()[i] == canon_result.values@[i],
                    forall|i: int| 0 <= i < it2.index() ==> self.canon_element_store.m().contains_key(canon_result.values@[i]),
//@ loop 2
            invariant
                self.canon_result_refs_closed(),
                iter_covers(it.seq(), self.canon_element_store.m()),
                forall|i: int| 0 <= i < it.index() ==> self.canon_element_ok(*it.seq()[i].1),
//@ end
}

} // verus!
fn main() {}
