//@ unit control_exec
// The control-flow executors of air/src/execution_step/instructions: par.rs (+ par/completeness_updater.rs), new.rs, match_.rs,
// mismatch.rs, fail.rs, never.rs, null.rs -- every function of those files -- plus the error-descriptor code `fail` drives
// (last_error_descriptor.rs set_from_error_object / error / meet_par_successed_end, error_descriptor.rs error /
// disable_error_setting, errors_utils.rs get_instruction_error_from_error_object) and ExecutionCtx's completeness accessors.
//
// How the contracts see "which child ran, when, and what happened around it" (as in xor.rs, extended):
//  * `ExecutionCtx.log` is a ghost log with one entry `Ran{id, pre, res, post}` per CHILD execution: the child's id, a snapshot
//    of the context (completeness flag + the three scope logs + `next_peer_pks`) on entry, the result, the snapshot on exit.
//  * `next_peer_pks` (C19: where the particle goes next) is FRAMED by every executor here: the first child starts with the list the
//    instruction was entered with, each further child with the list its predecessor left, and the instruction ends with the list
//    its last child left (unchanged if no child ran) -- `peers_chain` below; a child itself may do anything to the list.
//  * `Streams.scopes` / `StreamMaps.scopes` / `Scalars.scopes` are ghost logs of the scope calls made on that object
//    (`meet_scope_start/_end`, `meet_new_start_*/meet_new_end_*`). `depth(log, kind, name)` = #Start - #End.
//  * `TraceHandler.log` is the ghost log of the par calls made on the trace handler, interleaved with `Child{id}` entries the
//    leaf shim appends, so the order "meet_par_start, left, subgraph_end(Left), right, subgraph_end(Right)" is a fact about one sequence.
// The trait `ExecutableInstruction::execute` carries the inductive clause every instruction must satisfy and every child is
// assumed to satisfy: the scope logs stay well formed (no depth below 0) and every depth is the same on exit as on entry
// (`balanced`), on EVERY path -- errors included. It is assumed for the opaque child (`impl .. for Instruction`, external_body)
// and PROVED for Par, New, Match, MisMatch, Fail, Never, Null (their trait impls delegate to the lifted bodies). That clause is what
// discharges the two `unwrap()`s of Streams::meet_scope_end / StreamMaps::meet_scope_end ("met_scope_end must be called after
// met_scope_start"): the stub requires depth > 0 and New::execute proves it from `balanced` of its body.
//
// par (C05/C19): the source says "par is completed if at least one of its subgraphs is completed" (`||`, unchanged since the
// snapshot); the contract follows the source and says so explicitly.
//
// Trusted part of this file: opaque data (JValue, tetraplets, Provenance, LambdaAST, ImmutableValue, error payloads) with identity
// clones; the UncatchableError shim (only TraceError is constructed here); the opaque instruction kinds that are not lifted here and
// the leaf shim `Instruction::execute`; the ghost logs and the stubs named `real:` below (each with the callee it stands for);
// `From<T> for Rc<T>`.
use vstd::prelude::*;

// (the two rewrites annotate the macro's closure so that its result is known: `map_err(|trace_error| ..)` becomes
//  `map_err(|trace_error: TraceHandlerError| -> (o: ExecutionError) ensures is_trace_error(o) ..)`, body untouched -- as lambda.rs does)
//@ lift air/src/execution_step/errors/execution_errors.rs :: macro_rules trace_to_exec_err
//@ rewrite 1 "$trace_expr.map_err(|trace_error| {" => "::vstd::prelude::verus_exec_expr!{ $trace_expr.map_err(|trace_error: $crate::TraceHandlerError| -> (o: $crate::ExecutionError) ensures $crate::is_trace_error(o) {"
//@ rewrite 1 "})\n    };" => "}) }\n    };"
//@ end

//@ lift air/src/execution_step/instructions/mod.rs :: macro_rules joinable
//@ end

verus! {

use std::rc::Rc;
use core::marker::PhantomData;

pub assume_specification<T>[ <Rc<T> as core::convert::From<T>>::from ](t: T) -> (r: Rc<T>) ensures *r == t;

// ---------------------------------------------------------------- shim: opaque data (trusted)
pub struct JValue { pub x: u64 }
impl Clone for JValue { fn clone(&self) -> (r: Self) ensures r == *self { JValue { x: self.x } } }
impl PartialEq for JValue { fn eq(&self, o: &Self) -> (r: bool) ensures r == (*self == *o) { self.x == o.x } }
impl vstd::std_specs::cmp::PartialEqSpecImpl<JValue> for JValue {
    open spec fn obeys_eq_spec() -> bool { true }
    open spec fn eq_spec(&self, o: &JValue) -> bool { *self == *o }
}
pub struct SecurityTetraplet { pub x: u64 }
pub uninterp spec fn literal_tet(init_peer_id: vstd::seq::Seq<char>) -> SecurityTetraplet;
impl SecurityTetraplet {
    // real: polyplets: the tetraplet of a literal: (init_peer_id, "", "", "")
    #[verifier::external_body]
    pub fn literal_tetraplet(init_peer_id: &str) -> (r: Self) ensures r == literal_tet(init_peer_id@) { unimplemented!() }
}
pub type RcSecurityTetraplet = Rc<SecurityTetraplet>;
pub type RcSecurityTetraplets = Vec<RcSecurityTetraplet>;
pub struct Provenance { pub x: u64 }
impl Clone for Provenance { fn clone(&self) -> (r: Self) ensures r == *self { Provenance { x: self.x } } }
pub open spec fn literal_prov() -> Provenance { Provenance { x: 0 } }
impl Provenance {
    // real: interpreter-data executed_state/impls.rs:157 `Self::Literal`
    pub fn literal() -> (r: Self) ensures r == literal_prov() { Provenance { x: 0 } }
}
// shim of `Rc<String>` as far as `.as_ref()` (handed to a `&str` parameter) is concerned
pub struct RcString { pub s: String }
impl RcString {
    pub open spec fn view(&self) -> vstd::seq::Seq<char> { self.s@ }
    #[verifier::external_body]
    pub fn as_ref(&self) -> (r: &str) ensures r@ == self@ { unimplemented!() }
}
pub struct LambdaError { pub x: u8 }
pub struct ErrorObjectError { pub x: u8 }
pub struct StreamMapError { pub x: u8 }
pub struct TraceHandlerError { pub x: u8 }
pub type TraceHandlerResult<T> = Result<T, TraceHandlerError>;
#[derive(Clone, Copy)]
pub struct AirPos(pub usize);

//@ lift crates/air-lib/air-parser/src/parser/span.rs :: struct Span
//@ derive Clone Copy
//@ end

// ---------------------------------------------------------------- errors: real enums
// the variant the lifted code constructs; every other uncatchable error is `Other`
pub enum UncatchableError {
    TraceError { trace_error: TraceHandlerError, instruction: String },
    Other(u8),
}
//@ lift air/src/execution_step/errors/catchable_errors.rs :: enum CatchableError
//@ derive
//@ end
// shim (trusted): the real enum is `#[derive(Clone)]`
impl Clone for CatchableError {
    #[verifier::external_body]
    fn clone(&self) -> (r: Self) ensures r == *self { unimplemented!() }
}
//@ lift air/src/execution_step/errors/execution_errors.rs :: enum ExecutionError
//@ derive
//@ end
pub type ExecutionResult<T> = Result<T, ExecutionError>;
// the paths the lifted macros and the function-local `use` items name
pub mod execution_step {
    pub use super::{ExecutionError, UncatchableError, Joinable, InstructionError};
    pub mod execution_context { pub use super::super::error_from_raw_fields_w_peerid; }
}

impl vstd::std_specs::convert::FromSpecImpl<CatchableError> for ExecutionError {
    open spec fn obeys_from_spec() -> bool { true }
    open spec fn from_spec(c: CatchableError) -> ExecutionError { ExecutionError::Catchable(Rc::new(c)) }
}
//@ lift air/src/execution_step/errors/execution_errors.rs :: impl From<CatchableError> for ExecutionError
//@ props C01 C18
//@ end

//@ lift air/src/execution_step/errors/joinable.rs :: trait Joinable
//@ end

// "catchable" as the property statements use the word
pub open spec fn catchable(e: ExecutionError) -> bool { e is Catchable }
pub open spec fn waiting(e: CatchableError) -> bool { e is VariableNotFound }
pub open spec fn joinable_err(e: ExecutionError) -> bool {
    match e { ExecutionError::Catchable(c) => waiting(*c), ExecutionError::Uncatchable(_) => false }
}
pub open spec fn is_trace_error(e: ExecutionError) -> bool {
    e matches ExecutionError::Uncatchable(u) && u is TraceError
}
impl CatchableError {
//@ lift air/src/execution_step/errors/catchable_errors.rs :: impl Joinable for CatchableError :: fn is_joinable
//@ props C01
//@ ret r
//@ rewrite 1 "log_join!(\"  waiting for an argument with name '{}'\", var_name);" => ""
//@ spec
        ensures r == waiting(*self)
//@ end
}
impl ExecutionError {
//@ lift air/src/execution_step/errors/execution_errors.rs :: impl ExecutionError :: fn is_catchable
//@ props C01 C18
//@ ret r
//@ spec
        ensures r == catchable(*self)
//@ end
//@ lift air/src/execution_step/errors/execution_errors.rs :: impl Joinable for ExecutionError :: fn is_joinable
//@ props C01
//@ ret r
//@ spec
        ensures r == joinable_err(*self), r ==> catchable(*self)
//@ end
}

// ---------------------------------------------------------------- scope logs
// (the AST's `Seq` shadows vstd's, hence the aliases)
pub type Chars = vstd::seq::Seq<char>;
#[derive(Clone, Copy, PartialEq, Eq)]
pub enum ScopeKind { Stream, StreamMap, Scalar, CanonStream, CanonStreamMap }
pub enum ScopeEv {
    Start { kind: ScopeKind, name: Chars },
    End { kind: ScopeKind, name: Chars, ok: bool },      // ok: what the closing call returned
}
pub type Scopes = vstd::seq::Seq<ScopeEv>;
pub open spec fn delta(e: ScopeEv, kind: ScopeKind, name: Chars) -> int {
    match e {
        ScopeEv::Start { kind: k, name: n } => if k == kind && n == name { 1 } else { 0 },
        ScopeEv::End { kind: k, name: n, ok: _ } => if k == kind && n == name { -1 } else { 0 },
    }
}
// number of scopes of (kind, name) that are open
pub open spec fn depth(s: Scopes, kind: ScopeKind, name: Chars) -> int
    decreases s.len()
{
    if s.len() == 0 { 0 } else { depth(s.drop_last(), kind, name) + delta(s.last(), kind, name) }
}
pub proof fn lemma_depth_push(s: Scopes, e: ScopeEv)
    ensures forall|k: ScopeKind, n: Chars| #[trigger] depth(s.push(e), k, n) == depth(s, k, n) + delta(e, k, n)
{
    assert(s.push(e).drop_last() =~= s);
    assert(s.push(e).last() == e);
}
pub open spec fn scopes_wf(s: Scopes) -> bool { forall|k: ScopeKind, n: Chars| #[trigger] depth(s, k, n) >= 0 }
pub open spec fn same_depths(a: Scopes, b: Scopes) -> bool { forall|k: ScopeKind, n: Chars| #[trigger] depth(a, k, n) == depth(b, k, n) }

// what a child execution can observe / change of the context, as far as these contracts speak about it
pub struct Snap {
    pub complete: bool,        // ExecutionCtx::subgraph_completeness
    pub ss: Scopes,            // Streams.scopes
    pub ms: Scopes,            // StreamMaps.scopes
    pub cs: Scopes,            // Scalars.scopes
    pub peers: vstd::seq::Seq<String>, // ExecutionCtx::next_peer_pks (C19: where the particle goes next)
}
pub open spec fn snap_wf(s: Snap) -> bool { scopes_wf(s.ss) && scopes_wf(s.ms) && scopes_wf(s.cs) }
// THE inductive clause: whatever an instruction does, every scope it opened is closed again when it returns
pub open spec fn balanced(a: Snap, b: Snap) -> bool { same_depths(a.ss, b.ss) && same_depths(a.ms, b.ms) && same_depths(a.cs, b.cs) }
pub open spec fn same_scopes(a: Snap, b: Snap) -> bool { a.ss == b.ss && a.ms == b.ms && a.cs == b.cs }

// one child execution, as recorded in the ghost log
pub struct Ran {
    pub id: int,                        // which child
    pub pre: Snap,                      // the context the child was entered with
    pub res: ExecutionResult<()>,       // what it returned
    pub post: Snap,                     // the context it left behind
}
pub type Log = vstd::seq::Seq<Ran>;
// C19 frame: an executor never changes `next_peer_pks` itself. Of the children it ran (log1 beyond log0): the first starts with the
// list the instruction was entered with (`peers0`), each further one with the list its predecessor left, and the instruction ends
// with the list its last child left (`peers1`) -- with `peers0` if no child ran
pub open spec fn peers_chain(log0: Log, log1: Log, peers0: vstd::seq::Seq<String>, peers1: vstd::seq::Seq<String>) -> bool {
    let n = log0.len() as int;
    &&& log1.len() >= n
    &&& log1.len() > n ==> log1[n].pre.peers == peers0
    &&& forall|i: int| n < i < log1.len() ==> (#[trigger] log1[i]).pre.peers == log1[i - 1].post.peers
    &&& peers1 == (if log1.len() > n { log1[log1.len() - 1].post.peers } else { peers0 })
}

// ---------------------------------------------------------------- shim: trace handler (trusted): ghost log of par calls and child runs
//@ lift crates/air-lib/trace-handler/src/state_automata/par_fsm.rs :: enum SubgraphType
//@ derive Clone Copy PartialEq Eq
//@ end
pub enum TEv {
    ParStart { ok: bool },
    ParSubgraphEnd { ty: SubgraphType, ok: bool },
    Child { id: int },
}
pub type TLog = vstd::seq::Seq<TEv>;
pub struct TraceHandler { pub log: Ghost<TLog>, pub x: u8 }
impl TraceHandler {
    // real: try_merge_next_state_as_par + ParFSM::from_left_started (units mergers, par_fsm); the result depends on hostile data
    #[verifier::external_body]
    pub fn meet_par_start(&mut self) -> (r: TraceHandlerResult<()>)
        ensures final(self).log@ == old(self).log@.push(TEv::ParStart { ok: r is Ok })
    { unimplemented!() }
    // real: ParFSM::{left_completed, right_completed} (unit par_fsm)
    #[verifier::external_body]
    pub fn meet_par_subgraph_end(&mut self, subgraph_type: SubgraphType) -> (r: TraceHandlerResult<()>)
        ensures final(self).log@ == old(self).log@.push(TEv::ParSubgraphEnd { ty: subgraph_type, ok: r is Ok })
    { unimplemented!() }
}

// ---------------------------------------------------------------- shim: the context's sub-objects (trusted) with their scope logs
pub struct Streams { pub scopes: Ghost<Scopes>, pub x: u8 }
impl Streams {
    // real: pushes a fresh restricted stream descriptor under `name` (streams_variables.rs:95); `impl Into<String>` is fed a &str
    #[verifier::external_body]
    pub fn meet_scope_start(&mut self, name: &str, span: Span)
        ensures final(self).scopes@ == old(self).scopes@.push(ScopeEv::Start { kind: ScopeKind::Stream, name: name@ })
    { unimplemented!() }
    // real (streams_variables.rs:110): `self.streams.get_mut(&name).unwrap()`, `.pop().unwrap()` -- "unwraps are safe here because
    // met_scope_end must be called after met_scope_start": that is the precondition; then compactify of the popped stream
    // (unit streams), whose error is returned. The trace handler's par log is not touched (compactify only rewrites generations).
    #[verifier::external_body]
    pub fn meet_scope_end(&mut self, name: String, trace_ctx: &mut TraceHandler) -> (r: ExecutionResult<()>)
        requires depth(old(self).scopes@, ScopeKind::Stream, name@) > 0
        ensures final(self).scopes@ == old(self).scopes@.push(ScopeEv::End { kind: ScopeKind::Stream, name: name@, ok: r is Ok }),
            final(trace_ctx).log@ == old(trace_ctx).log@,
    { unimplemented!() }
}
pub struct StreamMaps { pub scopes: Ghost<Scopes>, pub x: u8 }
impl StreamMaps {
    // real: stream_maps_variables.rs:161
    #[verifier::external_body]
    pub fn meet_scope_start(&mut self, name: &str, span: Span)
        ensures final(self).scopes@ == old(self).scopes@.push(ScopeEv::Start { kind: ScopeKind::StreamMap, name: name@ })
    { unimplemented!() }
    // real: stream_maps_variables.rs:176, the same two `unwrap()`s
    #[verifier::external_body]
    pub fn meet_scope_end(&mut self, name: String, trace_ctx: &mut TraceHandler) -> (r: ExecutionResult<()>)
        requires depth(old(self).scopes@, ScopeKind::StreamMap, name@) > 0
        ensures final(self).scopes@ == old(self).scopes@.push(ScopeEv::End { kind: ScopeKind::StreamMap, name: name@, ok: r is Ok }),
            final(trace_ctx).log@ == old(trace_ctx).log@,
    { unimplemented!() }
}
pub struct Scalars<'i> { pub scopes: Ghost<Scopes>, pub ph: PhantomData<&'i u8> }
impl<'i> Scalars<'i> {
    // real: scalar_variables.rs:229..251 -> ValuesSparseMatrix::{meet_new_start, meet_new_end}; meet_new_end returns
    // ScalarsStateCorrupted instead of panicking, so no precondition
    #[verifier::external_body]
    pub fn meet_new_start_scalar(&mut self, scalar_name: String)
        ensures final(self).scopes@ == old(self).scopes@.push(ScopeEv::Start { kind: ScopeKind::Scalar, name: scalar_name@ })
    { unimplemented!() }
    #[verifier::external_body]
    pub fn meet_new_start_canon_stream(&mut self, canon_stream_name: String)
        ensures final(self).scopes@ == old(self).scopes@.push(ScopeEv::Start { kind: ScopeKind::CanonStream, name: canon_stream_name@ })
    { unimplemented!() }
    #[verifier::external_body]
    pub fn meet_new_start_canon_stream_map(&mut self, canon_stream_map_name: String)
        ensures final(self).scopes@ == old(self).scopes@.push(ScopeEv::Start { kind: ScopeKind::CanonStreamMap, name: canon_stream_map_name@ })
    { unimplemented!() }
    #[verifier::external_body]
    pub fn meet_new_end_scalar(&mut self, scalar_name: &str) -> (r: ExecutionResult<()>)
        ensures final(self).scopes@ == old(self).scopes@.push(ScopeEv::End { kind: ScopeKind::Scalar, name: scalar_name@, ok: r is Ok })
    { unimplemented!() }
    #[verifier::external_body]
    pub fn meet_new_end_canon_stream(&mut self, canon_name: &str) -> (r: ExecutionResult<()>)
        ensures final(self).scopes@ == old(self).scopes@.push(ScopeEv::End { kind: ScopeKind::CanonStream, name: canon_name@, ok: r is Ok })
    { unimplemented!() }
    #[verifier::external_body]
    pub fn meet_new_end_canon_stream_map(&mut self, canon_stream_map_name: &str) -> (r: ExecutionResult<()>)
        ensures final(self).scopes@ == old(self).scopes@.push(ScopeEv::End { kind: ScopeKind::CanonStreamMap, name: canon_stream_map_name@, ok: r is Ok })
    { unimplemented!() }
}
pub struct InstructionTracker { pub x: u8 }
impl InstructionTracker {
    // real: execution-info-collector: counts `new` executions per position (wrapping u32 arithmetic on counters is not claimed here)
    #[verifier::external_body]
    pub fn meet_new(&mut self, position: AirPos) { unimplemented!() }
}
pub struct RcRunParameters { pub init_peer_id: RcString, pub x: u8 }

// ---------------------------------------------------------------- the error descriptors: REAL structs and methods
//@ lift air/src/execution_step/execution_context/instruction_error/instruction_error_definition.rs :: struct InstructionError
//@ derive
//@ end
//@ lift air/src/execution_step/execution_context/instruction_error/errors_utils.rs :: fn get_instruction_error_from_error_object
//@ props C01 C18
//@ ret r
//@ spec
    ensures r == (InstructionError { error, tetraplet, provenance, orig_catchable: None })
//@ end
//@ lift air/src/execution_step/execution_context/instruction_error/last_error_descriptor.rs :: struct LastErrorDescriptor
//@ pub-fields
//@ derive
//@ end
impl LastErrorDescriptor {
//@ lift air/src/execution_step/execution_context/instruction_error/last_error_descriptor.rs :: impl LastErrorDescriptor :: fn set_from_error_object
//@ props C01 C18
//@ rewrite 1 "use super::get_instruction_error_from_error_object;" => ""
//@ spec
        ensures final(self).error == (InstructionError { error, tetraplet, provenance, orig_catchable: None }),
            !final(self).error_can_be_set
//@ end
//@ lift air/src/execution_step/execution_context/instruction_error/last_error_descriptor.rs :: impl LastErrorDescriptor :: fn error
//@ props C01 C18
//@ ret r
//@ spec
        ensures *r == self.error
//@ end
//@ lift air/src/execution_step/execution_context/instruction_error/last_error_descriptor.rs :: impl LastErrorDescriptor :: fn meet_par_successed_end
//@ props C01
//@ spec
        ensures final(self).error == old(self).error, final(self).error_can_be_set
//@ end
}
//@ lift air/src/execution_step/execution_context/instruction_error/error_descriptor.rs :: struct ErrorDescriptor
//@ pub-fields
//@ derive
//@ end
impl ErrorDescriptor {
//@ lift air/src/execution_step/execution_context/instruction_error/error_descriptor.rs :: impl ErrorDescriptor :: fn error
//@ props C01 C18
//@ ret r
//@ spec
        ensures *r == self.error
//@ end
//@ lift air/src/execution_step/execution_context/instruction_error/error_descriptor.rs :: impl ErrorDescriptor :: fn disable_error_setting
//@ props C01 C18
//@ spec
        ensures final(self).error == old(self).error, !final(self).error_can_be_set
//@ end
}

// ---------------------------------------------------------------- shim: the context (trusted layout; real accessors lifted)
pub struct ExecutionCtx<'i> {
    pub scalars: Scalars<'i>,
    pub streams: Streams,
    pub stream_maps: StreamMaps,
    pub run_parameters: RcRunParameters,
    pub last_error_descriptor: LastErrorDescriptor,
    pub error_descriptor: ErrorDescriptor,
    pub subgraph_completeness: bool,
    pub next_peer_pks: Vec<String>,
    pub tracker: InstructionTracker,
    pub log: Ghost<Log>,
}
impl<'i> ExecutionCtx<'i> {
    pub open spec fn snap(&self) -> Snap {
        Snap { complete: self.subgraph_completeness, ss: self.streams.scopes@, ms: self.stream_maps.scopes@, cs: self.scalars.scopes@,
               peers: self.next_peer_pks@ }
    }
    pub open spec fn wf(&self) -> bool { snap_wf(self.snap()) }
    // nothing but the completeness flag differs
    pub open spec fn same_but_complete(&self, o: &Self) -> bool {
        self.scalars == o.scalars && self.streams == o.streams && self.stream_maps == o.stream_maps && self.run_parameters == o.run_parameters
            && self.last_error_descriptor == o.last_error_descriptor && self.error_descriptor == o.error_descriptor
            && self.tracker == o.tracker && self.log@ == o.log@ && self.next_peer_pks == o.next_peer_pks
    }
}
impl ExecutionCtx<'_> {
//@ lift air/src/execution_step/execution_context/context.rs :: impl ExecutionCtx<'_> :: fn make_subgraph_incomplete
//@ props C01 C05
//@ spec
        ensures !final(self).subgraph_completeness, final(self).same_but_complete(old(self))
//@ end
//@ lift air/src/execution_step/execution_context/context.rs :: impl ExecutionCtx<'_> :: fn is_subgraph_complete
//@ props C01 C05
//@ ret r
//@ spec
        ensures r == self.subgraph_completeness
//@ end
//@ lift air/src/execution_step/execution_context/context.rs :: impl ExecutionCtx<'_> :: fn set_subgraph_completeness
//@ props C01 C05
//@ spec
        ensures final(self).subgraph_completeness == subgraph_complete, final(self).same_but_complete(old(self))
//@ end
}

// ---------------------------------------------------------------- shim: the AST. Real: the enum Instruction and the structs executed here;
// opaque: the other instruction kinds and the argument types
// (an opaque payload `x`: without it the type would have ONE value, every two `ImmutableValue`s would be equal and the
//  "values differ" path of mismatch -- the one that runs the body -- would be verified vacuously)
macro_rules! opaque_kind {
    ($name:ident) => { verus! { pub struct $name<'i> { pub x: u64, pub ph: PhantomData<&'i u8> } } };
}
opaque_kind!(Call); opaque_kind!(Ap); opaque_kind!(ApMap); opaque_kind!(Canon); opaque_kind!(CanonMap); opaque_kind!(CanonStreamMapScalar);
opaque_kind!(Seq); opaque_kind!(Xor); opaque_kind!(FoldScalar); opaque_kind!(FoldStream); opaque_kind!(FoldStreamMap); opaque_kind!(Next);
opaque_kind!(ImmutableValue); opaque_kind!(LambdaAST);

//@ lift crates/air-lib/air-parser/src/ast/values.rs :: struct Scalar
//@ derive
//@ end
//@ lift crates/air-lib/air-parser/src/ast/values.rs :: struct ScalarWithLambda
//@ derive
//@ end
//@ lift crates/air-lib/air-parser/src/ast/values.rs :: struct Stream
//@ derive
//@ end
//@ lift crates/air-lib/air-parser/src/ast/values.rs :: struct StreamMap
//@ derive
//@ end
//@ lift crates/air-lib/air-parser/src/ast/values.rs :: struct CanonStream
//@ derive
//@ end
//@ lift crates/air-lib/air-parser/src/ast/values.rs :: struct CanonStreamMap
//@ derive
//@ end
//@ lift crates/air-lib/air-parser/src/ast/values.rs :: struct CanonStreamWithLambda
//@ derive
//@ end
//@ lift crates/air-lib/air-parser/src/ast/instruction_arguments.rs :: enum NewArgument
//@ derive
//@ end
//@ lift crates/air-lib/air-parser/src/ast/instructions.rs :: enum Instruction
//@ derive
//@ end
//@ lift crates/air-lib/air-parser/src/ast/instructions.rs :: struct Par
//@ derive
//@ end
//@ lift crates/air-lib/air-parser/src/ast/instructions.rs :: struct Match
//@ derive
//@ end
//@ lift crates/air-lib/air-parser/src/ast/instructions.rs :: struct MisMatch
//@ derive
//@ end
//@ lift crates/air-lib/air-parser/src/ast/instructions.rs :: enum Fail
//@ derive
//@ end
//@ lift crates/air-lib/air-parser/src/ast/instructions.rs :: struct Never
//@ derive
//@ end
//@ lift crates/air-lib/air-parser/src/ast/instructions.rs :: struct New
//@ derive
//@ end
//@ lift crates/air-lib/air-parser/src/ast/instructions.rs :: struct Null
//@ derive
//@ end
pub mod ast { pub use super::{Scalar, ScalarWithLambda, CanonStreamWithLambda}; }

// Display of the raw instruction: only rendered into error messages / the error object's "instruction" field
pub uninterp spec fn par_text(p: Par) -> Chars;
pub uninterp spec fn fail_text(f: Fail) -> Chars;
impl<'i> Par<'i> {
    #[verifier::external_body]
    pub fn to_string(&self) -> (r: String) ensures r@ == par_text(*self) { unimplemented!() }
}
impl<'i> Fail<'i> {
    #[verifier::external_body]
    pub fn to_string(&self) -> (r: String) ensures r@ == fail_text(*self) { unimplemented!() }
}

// every instruction: scope logs well formed on entry => well formed and balanced on exit, on every path
pub trait ExecutableInstruction<'i> {
    fn execute(&self, exec_ctx: &mut ExecutionCtx<'i>, trace_ctx: &mut TraceHandler) -> (r: ExecutionResult<()>)
        requires old(exec_ctx).wf()
        ensures final(exec_ctx).wf(), balanced(old(exec_ctx).snap(), final(exec_ctx).snap());
}

impl<'i> Instruction<'i> {
    pub uninterp spec fn id(&self) -> int;
}
// the child of a compound instruction: an arbitrary instruction, known by its id (and, to `par`, by whether it is a `next`)
impl<'i> ExecutableInstruction<'i> for Instruction<'i> {
    #[verifier::external_body]
    fn execute(&self, exec_ctx: &mut ExecutionCtx<'i>, trace_ctx: &mut TraceHandler) -> (r: ExecutionResult<()>)
        ensures
            final(exec_ctx).log@ == old(exec_ctx).log@.push(
                Ran { id: self.id(), pre: old(exec_ctx).snap(), res: r, post: final(exec_ctx).snap() }),
            final(trace_ctx).log@ == old(trace_ctx).log@.push(TEv::Child { id: self.id() }),
    { unimplemented!() }
}

// ================================================================ never.rs, null.rs
impl<'i> Never {
//@ lift air/src/execution_step/instructions/never.rs :: impl<'i> super::ExecutableInstruction<'i> for Never :: fn execute
//@ name Never::execute
//@ props C01 C19
//@ ret r
//@ spec
        ensures r is Ok, !final(exec_ctx).subgraph_completeness, final(exec_ctx).same_but_complete(old(exec_ctx)),
            *final(trace_ctx) == *old(trace_ctx),
            // C19: no child, the list of next peers is left alone
            peers_chain(old(exec_ctx).log@, final(exec_ctx).log@, old(exec_ctx).next_peer_pks@, final(exec_ctx).next_peer_pks@),
            final(exec_ctx).next_peer_pks == old(exec_ctx).next_peer_pks,
//@ end
}
impl<'i> ExecutableInstruction<'i> for Never {
    fn execute(&self, exec_ctx: &mut ExecutionCtx<'i>, trace_ctx: &mut TraceHandler) -> (r: ExecutionResult<()>)
    { Never::execute(self, exec_ctx, trace_ctx) }
}
impl<'i> Null {
//@ lift air/src/execution_step/instructions/null.rs :: impl<'i> super::ExecutableInstruction<'i> for Null :: fn execute
//@ name Null::execute
//@ props C01 C19
//@ ret r
//@ spec
        ensures r is Ok, *final(exec_ctx) == *old(exec_ctx), *final(trace_ctx) == *old(trace_ctx),
            // C19: no child, the list of next peers is left alone
            peers_chain(old(exec_ctx).log@, final(exec_ctx).log@, old(exec_ctx).next_peer_pks@, final(exec_ctx).next_peer_pks@),
            final(exec_ctx).next_peer_pks == old(exec_ctx).next_peer_pks,
//@ end
}
impl<'i> ExecutableInstruction<'i> for Null {
    fn execute(&self, exec_ctx: &mut ExecutionCtx<'i>, trace_ctx: &mut TraceHandler) -> (r: ExecutionResult<()>)
    { Null::execute(self, exec_ctx, trace_ctx) }
}

// ================================================================ par.rs, par/completeness_updater.rs   (C05 / C19)
//@ lift air/src/execution_step/instructions/par/completeness_updater.rs :: struct ParCompletenessUpdater
//@ pub-fields
//@ derive
//@ end
impl ParCompletenessUpdater {
//@ lift air/src/execution_step/instructions/par/completeness_updater.rs :: impl ParCompletenessUpdater :: fn new
//@ props C01 C05
//@ ret r
//@ spec
        ensures !r.left_subgraph_complete, !r.right_subgraph_complete
//@ end
//@ lift air/src/execution_step/instructions/par/completeness_updater.rs :: impl ParCompletenessUpdater :: fn observe_completeness
//@ props C01 C05
//@ spec
        ensures
            subgraph_type is Left ==> final(self).left_subgraph_complete == exec_ctx.subgraph_completeness
                && final(self).right_subgraph_complete == old(self).right_subgraph_complete,
            subgraph_type is Right ==> final(self).right_subgraph_complete == exec_ctx.subgraph_completeness
                && final(self).left_subgraph_complete == old(self).left_subgraph_complete,
//@ end
//@ lift air/src/execution_step/instructions/par/completeness_updater.rs :: impl ParCompletenessUpdater :: fn set_completeness
//@ props C01 C05 C19
//@ spec
        ensures
            // the source's rule: "par is completed if at least one of its subgraphs is completed"
            final(exec_ctx).subgraph_completeness == (self.left_subgraph_complete || self.right_subgraph_complete),
            final(exec_ctx).same_but_complete(old(exec_ctx)),
//@ end
}

//@ lift air/src/execution_step/instructions/par.rs :: enum SubgraphResult
//@ derive
//@ rewrite 1 "enum SubgraphResult" => "pub enum SubgraphResult"
//@ end

//@ lift air/src/execution_step/instructions/par.rs :: fn determine_subgraph_complete
//@ props C01 C05
//@ ret r
//@ spec
    ensures r == !(next_instruction is Next)
//@ end

// the context a branch of `par` is entered with: the caller's, with the completeness flag preset
pub open spec fn entered_with(c0: Snap, sg: Instruction) -> Snap { Snap { complete: !(sg is Next), ..c0 } }
// did this branch finish (for the purposes of "par is complete")
pub open spec fn branch_complete(ran: Ran) -> bool { ran.res is Ok && ran.post.complete }

// one branch of a par: the branch runs exactly once; a catchable failure is recorded, not propagated; an uncatchable one
// (or a trace-handler error at the subgraph end) aborts the par
pub open spec fn subgraph_spec(sg: Instruction, ty: SubgraphType, c0: ExecutionCtx, c1: ExecutionCtx, t0: TLog, t1: TLog,
                               u0: ParCompletenessUpdater, u1: ParCompletenessUpdater, r: ExecutionResult<SubgraphResult>) -> bool {
    let n = c0.log@.len() as int;
    let ran = c1.log@[n];
    &&& c1.log@ =~= c0.log@.push(ran)
    &&& ran.id == sg.id()
    &&& ran.pre == entered_with(c0.snap(), sg)
    &&& same_scopes(ran.post, c1.snap())
    // C19: the branch starts with the list of next peers as it was and what it leaves is what execute_subgraph leaves, on every path
    &&& ran.pre.peers == c0.next_peer_pks@ && c1.next_peer_pks@ == ran.post.peers
    &&& match ran.res {
            Err(e) if !catchable(e) => {
                &&& t1 =~= t0.push(TEv::Child { id: sg.id() })
                &&& r == Err::<SubgraphResult, ExecutionError>(e)
                &&& !c1.subgraph_completeness
                &&& u1 == u0
            }
            res => {
                &&& t1 =~= t0.push(TEv::Child { id: sg.id() }).push(TEv::ParSubgraphEnd { ty, ok: r is Ok })
                &&& c1.subgraph_completeness == branch_complete(ran)
                &&& match r {
                        Err(e) => is_trace_error(e) && u1 == u0,
                        Ok(sr) => {
                            &&& (match res { Ok(_) => sr is Succeeded, Err(e) => sr == SubgraphResult::Failed(e) })
                            &&& match ty {
                                    SubgraphType::Left => u1.left_subgraph_complete == branch_complete(ran) && u1.right_subgraph_complete == u0.right_subgraph_complete,
                                    SubgraphType::Right => u1.right_subgraph_complete == branch_complete(ran) && u1.left_subgraph_complete == u0.left_subgraph_complete,
                                }
                        }
                    }
            }
        }
}

//@ lift air/src/execution_step/instructions/par.rs :: fn execute_subgraph
//@ props C01 C05 C19
//@ ret r
//@ spec
    requires old(exec_ctx).wf()
    ensures
        subgraph_spec(if subgraph_type is Left { par.0 } else { par.1 }, subgraph_type, *old(exec_ctx), *final(exec_ctx),
                      old(trace_ctx).log@, final(trace_ctx).log@, *old(completeness_updater), *final(completeness_updater), r),
        final(exec_ctx).wf(), balanced(old(exec_ctx).snap(), final(exec_ctx).snap()),
//@ end

//@ lift air/src/execution_step/instructions/par.rs :: fn prepare_par_result
//@ props C01 C05 C18 C19
//@ ret r
//@ spec
    ensures
        // a par fails only if BOTH branches failed, and then with the RIGHT branch's error
        r == (match (left_result, right_result) {
            (SubgraphResult::Failed(_), SubgraphResult::Failed(err)) => Err::<(), ExecutionError>(err),
            _ => Ok::<(), ExecutionError>(()),
        }),
        r is Ok ==> final(exec_ctx).last_error_descriptor.error_can_be_set && final(exec_ctx).last_error_descriptor.error == old(exec_ctx).last_error_descriptor.error,
        r is Err ==> final(exec_ctx).last_error_descriptor == old(exec_ctx).last_error_descriptor,
        final(exec_ctx).snap() == old(exec_ctx).snap(), final(exec_ctx).log@ == old(exec_ctx).log@,
        final(exec_ctx).next_peer_pks == old(exec_ctx).next_peer_pks,
//@ end

// C05 / C19: what a par does, as a relation between the two ghost logs before and after, the context and the result.
// "Both branches are always executed, left then right, whatever the left one returned" -- the only exits before the right
// branch are an uncatchable error of the left branch and a trace-handler (merge) error, which abort the whole run.
pub open spec fn par_spec(par: Par, c0: ExecutionCtx, c1: ExecutionCtx, t0: TLog, t1: TLog, r: ExecutionResult<()>) -> bool {
    let n = c0.log@.len() as int;
    let tn = t0.len() as int;
    let left = c1.log@[n];
    let right = c1.log@[n + 1];
    &&& t1.len() > tn && t1.subrange(0, tn) =~= t0 && t1[tn] is ParStart
    // C19: a par never touches the list of next peers itself -- the peers the left branch forwarded to are kept whatever the right
    // one does or returns: left starts with the list as it was, right with what left left behind, and the par ends with what the
    // last branch that ran left behind, on every exit (spelled out per exit below)
    &&& peers_chain(c0.log@, c1.log@, c0.next_peer_pks@, c1.next_peer_pks@)
    &&& if !t1[tn]->ParStart_ok {
            // the merger / FSM rejected the par state found in data: nothing runs
            c1.log@ == c0.log@ && t1.len() == tn + 1 && (r matches Err(e) && is_trace_error(e))
                && c1.next_peer_pks@ == c0.next_peer_pks@
        } else {
            // the left branch always runs, first, entered with completeness = "is not a next"
            &&& c1.log@.len() > n && c1.log@.subrange(0, n) =~= c0.log@
            &&& left.id == par.0.id() && left.pre == entered_with(c0.snap(), par.0) && left.pre.peers == c0.next_peer_pks@
            &&& t1.len() > tn + 1 && t1[tn + 1] == (TEv::Child { id: par.0.id() })
            &&& if (left.res matches Err(e) && !catchable(e)) {
                    c1.log@.len() == n + 1 && t1.len() == tn + 2 && r == left.res && !c1.subgraph_completeness
                        && c1.next_peer_pks@ == left.post.peers
                } else {
                    &&& t1.len() > tn + 2 && t1[tn + 2] is ParSubgraphEnd && t1[tn + 2]->ParSubgraphEnd_ty is Left
                    &&& if !t1[tn + 2]->ParSubgraphEnd_ok {
                            c1.log@.len() == n + 1 && t1.len() == tn + 3 && (r matches Err(e) && is_trace_error(e))
                                && c1.next_peer_pks@ == left.post.peers
                        } else {
                            // Ok or catchable failure of the left branch: the right branch runs, once, after it
                            &&& c1.log@.len() == n + 2
                            &&& right.id == par.1.id() && right.pre.complete == !(par.1 is Next) && same_scopes(right.pre, left.post)
                            &&& right.pre.peers == left.post.peers && c1.next_peer_pks@ == right.post.peers
                            &&& t1.len() > tn + 3 && t1[tn + 3] == (TEv::Child { id: par.1.id() })
                            &&& if (right.res matches Err(e) && !catchable(e)) {
                                    t1.len() == tn + 4 && r == right.res && !c1.subgraph_completeness
                                } else {
                                    &&& t1.len() == tn + 5 && t1[tn + 4] is ParSubgraphEnd && t1[tn + 4]->ParSubgraphEnd_ty is Right
                                    &&& if !t1[tn + 4]->ParSubgraphEnd_ok {
                                            r matches Err(e) && is_trace_error(e)
                                        } else {
                                            // the source's rule (completeness_updater.rs): complete if at least one branch is
                                            &&& c1.subgraph_completeness == (branch_complete(left) || branch_complete(right))
                                            // fails only if both failed, with the right branch's error
                                            &&& r == (if left.res is Ok || right.res is Ok { Ok::<(), ExecutionError>(()) } else { right.res })
                                            &&& r is Ok ==> c1.last_error_descriptor.error_can_be_set
                                        }
                                }
                        }
                }
        }
}

impl<'i> Par<'i> {
//@ lift air/src/execution_step/instructions/par.rs :: impl<'i> ExecutableInstruction<'i> for Par<'i> :: fn execute
//@ name Par::execute
//@ props C01 C05 C19
//@ ret r
//@ spec
        requires old(exec_ctx).wf()
        ensures par_spec(*self, *old(exec_ctx), *final(exec_ctx), old(trace_ctx).log@, final(trace_ctx).log@, r),
            final(exec_ctx).wf(), balanced(old(exec_ctx).snap(), final(exec_ctx).snap()),
//@ end
}
impl<'i> ExecutableInstruction<'i> for Par<'i> {
    fn execute(&self, exec_ctx: &mut ExecutionCtx<'i>, trace_ctx: &mut TraceHandler) -> (r: ExecutionResult<()>)
    { Par::execute(self, exec_ctx, trace_ctx) }
}

// ================================================================ new.rs
pub open spec fn scope_kind(a: NewArgument) -> ScopeKind {
    match a {
        NewArgument::Scalar(_) => ScopeKind::Scalar, NewArgument::Stream(_) => ScopeKind::Stream, NewArgument::StreamMap(_) => ScopeKind::StreamMap,
        NewArgument::CanonStream(_) => ScopeKind::CanonStream, NewArgument::CanonStreamMap(_) => ScopeKind::CanonStreamMap,
    }
}
pub open spec fn scope_name(a: NewArgument) -> Chars {
    match a {
        NewArgument::Scalar(x) => x.name@, NewArgument::Stream(x) => x.name@, NewArgument::StreamMap(x) => x.name@,
        NewArgument::CanonStream(x) => x.name@, NewArgument::CanonStreamMap(x) => x.name@,
    }
}
// the event goes to the log of the object that owns this kind of variable
pub open spec fn with_ev(s: Snap, a: NewArgument, e: ScopeEv) -> Snap {
    match a {
        NewArgument::Stream(_) => Snap { ss: s.ss.push(e), ..s },
        NewArgument::StreamMap(_) => Snap { ms: s.ms.push(e), ..s },
        _ => Snap { cs: s.cs.push(e), ..s },
    }
}
pub open spec fn opened(s: Snap, a: NewArgument) -> Snap { with_ev(s, a, ScopeEv::Start { kind: scope_kind(a), name: scope_name(a) }) }
pub open spec fn closed(s: Snap, a: NewArgument, ok: bool) -> Snap { with_ev(s, a, ScopeEv::End { kind: scope_kind(a), name: scope_name(a), ok }) }
// what the last scope call on the owning object returned, if it was a scope end
pub open spec fn end_ok(s: Snap, a: NewArgument) -> bool {
    own_log(s, a).len() > 0 && (own_log(s, a).last() matches ScopeEv::End { ok, .. } && ok)
}
pub open spec fn own_log(s: Snap, a: NewArgument) -> Scopes {
    match a { NewArgument::Stream(_) => s.ss, NewArgument::StreamMap(_) => s.ms, _ => s.cs }
}

// one scope log: a start, then anything that leaves every depth as it found it, then the matching end
pub proof fn lemma_scope_bracket(l0: Scopes, lpost: Scopes, k: ScopeKind, n: Chars, ok: bool)
    requires scopes_wf(l0), same_depths(l0.push(ScopeEv::Start { kind: k, name: n }), lpost)
    ensures
        scopes_wf(l0.push(ScopeEv::Start { kind: k, name: n })),
        depth(lpost, k, n) > 0,
        scopes_wf(lpost.push(ScopeEv::End { kind: k, name: n, ok })),
        same_depths(l0, lpost.push(ScopeEv::End { kind: k, name: n, ok })),
{
    let st = ScopeEv::Start { kind: k, name: n };
    let en = ScopeEv::End { kind: k, name: n, ok };
    lemma_depth_push(l0, st);
    lemma_depth_push(lpost, en);
    assert(depth(l0.push(st), k, n) == depth(lpost, k, n));
    assert(depth(l0, k, n) >= 0);
    assert forall|k2: ScopeKind, n2: Chars| #[trigger] depth(lpost.push(en), k2, n2) >= 0 && depth(l0, k2, n2) == depth(lpost.push(en), k2, n2) by {
        assert(depth(l0.push(st), k2, n2) == depth(lpost, k2, n2));
        assert(depth(l0, k2, n2) >= 0);
    }
    assert forall|k2: ScopeKind, n2: Chars| #[trigger] depth(l0, k2, n2) == depth(lpost.push(en), k2, n2) by {
        assert(depth(lpost.push(en), k2, n2) >= 0);
    }
}
pub proof fn lemma_opened(s: Snap, a: NewArgument)
    requires snap_wf(s)
    ensures snap_wf(opened(s, a))
{
    lemma_depth_push(own_log(s, a), ScopeEv::Start { kind: scope_kind(a), name: scope_name(a) });
}
// after a balanced body the scope opened before it is still open
pub proof fn lemma_can_close(s0: Snap, post: Snap, a: NewArgument)
    requires snap_wf(s0), balanced(opened(s0, a), post)
    ensures depth(own_log(post, a), scope_kind(a), scope_name(a)) > 0
{
    lemma_scope_bracket(own_log(s0, a), own_log(post, a), scope_kind(a), scope_name(a), true);
}
pub proof fn lemma_closed(s0: Snap, post: Snap, a: NewArgument, ok: bool)
    requires snap_wf(s0), balanced(opened(s0, a), post)
    ensures snap_wf(closed(post, a, ok)), balanced(s0, closed(post, a, ok))
{
    lemma_scope_bracket(own_log(s0, a), own_log(post, a), scope_kind(a), scope_name(a), ok);
    let c = closed(post, a, ok);
    match a {
        NewArgument::Stream(_) => {
            assert forall|k: ScopeKind, n: Chars| #[trigger] depth(c.ms, k, n) >= 0 by { assert(depth(s0.ms, k, n) == depth(post.ms, k, n)); }
            assert forall|k: ScopeKind, n: Chars| #[trigger] depth(c.cs, k, n) >= 0 by { assert(depth(s0.cs, k, n) == depth(post.cs, k, n)); }
        }
        NewArgument::StreamMap(_) => {
            assert forall|k: ScopeKind, n: Chars| #[trigger] depth(c.ss, k, n) >= 0 by { assert(depth(s0.ss, k, n) == depth(post.ss, k, n)); }
            assert forall|k: ScopeKind, n: Chars| #[trigger] depth(c.cs, k, n) >= 0 by { assert(depth(s0.cs, k, n) == depth(post.cs, k, n)); }
        }
        _ => {
            assert forall|k: ScopeKind, n: Chars| #[trigger] depth(c.ss, k, n) >= 0 by { assert(depth(s0.ss, k, n) == depth(post.ss, k, n)); }
            assert forall|k: ScopeKind, n: Chars| #[trigger] depth(c.ms, k, n) >= 0 by { assert(depth(s0.ms, k, n) == depth(post.ms, k, n)); }
        }
    }
}

//@ lift air/src/execution_step/instructions/new.rs :: fn prolog
//@ props C01 C19
//@ spec
    ensures
        // exactly one scope start, for the variable `new` names, on the object that owns it
        final(exec_ctx).snap() == opened(old(exec_ctx).snap(), new.argument),
        final(exec_ctx).log@ == old(exec_ctx).log@,
        final(exec_ctx).next_peer_pks == old(exec_ctx).next_peer_pks,
//@ end

//@ lift air/src/execution_step/instructions/new.rs :: fn epilog
//@ props C01 C19
//@ ret r
//@ spec
    requires
        // streams_variables.rs:112 / stream_maps_variables.rs:178 `unwrap()`: the scope must have been opened and not closed yet
        new.argument is Stream || new.argument is StreamMap
            ==> depth(own_log(old(exec_ctx).snap(), new.argument), scope_kind(new.argument), scope_name(new.argument)) > 0,
    ensures
        // exactly one scope end, whatever it returns
        final(exec_ctx).snap() == closed(old(exec_ctx).snap(), new.argument, r is Ok),
        final(exec_ctx).log@ == old(exec_ctx).log@, final(trace_ctx).log@ == old(trace_ctx).log@,
        final(exec_ctx).next_peer_pks == old(exec_ctx).next_peer_pks,
//@ end

// `new`: scope start, body, scope end -- the end is called exactly once per start, on EVERY path (also when the body fails,
// catchably or not); the body's error has priority over the epilog's
pub open spec fn new_spec(new: New, c0: ExecutionCtx, c1: ExecutionCtx, t0: TLog, t1: TLog, r: ExecutionResult<()>) -> bool {
    let n = c0.log@.len() as int;
    let ran = c1.log@[n];
    // the body runs exactly once
    &&& c1.log@ =~= c0.log@.push(ran) && ran.id == new.instruction.id()
    &&& t1 =~= t0.push(TEv::Child { id: new.instruction.id() })
    // entered right after the one scope start ...
    &&& ran.pre == opened(c0.snap(), new.argument)
    // ... and whatever it returned, the one scope end follows it and nothing else touches the scopes
    &&& c1.snap() == closed(ran.post, new.argument, end_ok(c1.snap(), new.argument))
    &&& (r is Ok <==> ran.res is Ok && end_ok(c1.snap(), new.argument))
    &&& ran.res is Err ==> r == ran.res
    // C19: neither the scope start nor the scope end touches the list of next peers: the body starts with the list as it was and
    // the `new` ends with what the body left behind, whatever the body and the scope end returned
    &&& ran.pre.peers == c0.next_peer_pks@ && c1.next_peer_pks@ == ran.post.peers
    &&& peers_chain(c0.log@, c1.log@, c0.next_peer_pks@, c1.next_peer_pks@)
}

impl<'i> New<'i> {
//@ lift air/src/execution_step/instructions/new.rs :: impl<'i> super::ExecutableInstruction<'i> for New<'i> :: fn execute
//@ name New::execute
//@ props C01 C19
//@ ret r
//@ after "prolog(self, exec_ctx);"
        proof { lemma_opened(old(exec_ctx).snap(), self.argument); }
//@ before "let epilog_result = epilog(self, exec_ctx, trace_ctx);"
        proof { lemma_can_close(old(exec_ctx).snap(), exec_ctx.snap(), self.argument); }
        let ghost mid = exec_ctx.snap();
//@ after "let epilog_result = epilog(self, exec_ctx, trace_ctx);"
        proof { lemma_closed(old(exec_ctx).snap(), mid, self.argument, epilog_result is Ok); }
//@ spec
        requires old(exec_ctx).wf()
        ensures new_spec(*self, *old(exec_ctx), *final(exec_ctx), old(trace_ctx).log@, final(trace_ctx).log@, r),
            final(exec_ctx).wf(), balanced(old(exec_ctx).snap(), final(exec_ctx).snap()),
//@ end
}
impl<'i> ExecutableInstruction<'i> for New<'i> {
    fn execute(&self, exec_ctx: &mut ExecutionCtx<'i>, trace_ctx: &mut TraceHandler) -> (r: ExecutionResult<()>)
    { New::execute(self, exec_ctx, trace_ctx) }
}

// ================================================================ match_.rs, mismatch.rs, compare_matchable/mod.rs
pub type Resolved = (JValue, RcSecurityTetraplets, Provenance);
// what a value clause resolves to: a function of the clause and the (read-only) context
pub uninterp spec fn resolved_imm(v: ImmutableValue, c: ExecutionCtx) -> ExecutionResult<Resolved>;
impl<'i> ImmutableValue<'i> {
    // real: resolver/resolvable_impl.rs `impl Resolvable for ast::ImmutableValue` (read-only)
    #[verifier::external_body]
    pub fn resolve(&self, ctx: &ExecutionCtx<'_>) -> (r: ExecutionResult<Resolved>)
        ensures r == resolved_imm(*self, *ctx)
    { unimplemented!() }
}
// the comparison `match` / `mismatch` make: left first, then right, then JSON equality
pub open spec fn cmp_res(l: ImmutableValue, r: ImmutableValue, c: ExecutionCtx) -> ExecutionResult<bool> {
    match resolved_imm(l, c) {
        Err(e) => Err(e),
        Ok(lv) => match resolved_imm(r, c) { Err(e) => Err(e), Ok(rv) => Ok(lv.0 == rv.0) },
    }
}
//@ lift air/src/execution_step/instructions/compare_matchable/mod.rs :: fn are_matchable_eq
//@ props C01 C18
//@ ret r
//@ sig 2 "&ast::ImmutableValue<'_>" => "&ImmutableValue<'_>"
//@ spec
    ensures r == cmp_res(*left, *right, *exec_ctx)
//@ end

// match / mismatch: the body runs iff the comparison says what the instruction wants; otherwise its own catchable error
pub open spec fn match_spec(want_equal: bool, left: ImmutableValue, right: ImmutableValue, body: Instruction,
                            c0: ExecutionCtx, c1: ExecutionCtx, t0: TLog, t1: TLog, r: ExecutionResult<()>) -> bool {
    // C19: the instruction itself never changes the list of next peers (no body run: unchanged)
    &&& peers_chain(c0.log@, c1.log@, c0.next_peer_pks@, c1.next_peer_pks@)
    &&& match cmp_res(left, right, c0) {
        // an operand is not there yet: wait (Ok, subgraph incomplete); any other resolution error is handed on; the body does not run
        Err(e) => t1 == t0 && c1.log@ == c0.log@
            && (if joinable_err(e) { r is Ok && !c1.subgraph_completeness && c1.same_but_complete(&c0) }
                else { r == Err::<(), ExecutionError>(e) && c1 == c0 }),
        Ok(eq) => if eq == want_equal {
                // the body runs exactly once, in the unchanged context, and its result is the instruction's result
                let ran = c1.log@[c0.log@.len() as int];
                &&& c1.log@ =~= c0.log@.push(ran) && ran.id == body.id() && ran.pre == c0.snap() && ran.post == c1.snap() && r == ran.res
                &&& t1 =~= t0.push(TEv::Child { id: body.id() })
                // C19: the body starts with the list of next peers as it was, the instruction ends with what the body left behind
                &&& ran.pre.peers == c0.next_peer_pks@ && c1.next_peer_pks@ == ran.post.peers
            } else {
                // the body does NOT run; the error is catchable
                &&& c1 == c0 && t1 == t0
                &&& r == Err::<(), ExecutionError>(ExecutionError::Catchable(Rc::new(
                        if want_equal { CatchableError::MatchValuesNotEqual } else { CatchableError::MismatchValuesEqual })))
            },
    }
}

impl<'i> Match<'i> {
//@ lift air/src/execution_step/instructions/match_.rs :: impl<'i> super::ExecutableInstruction<'i> for Match<'i> :: fn execute
//@ name Match::execute
//@ props C01 C18 C19
//@ ret r
//@ spec
        requires old(exec_ctx).wf()
        ensures match_spec(true, self.left_value, self.right_value, self.instruction, *old(exec_ctx), *final(exec_ctx),
                           old(trace_ctx).log@, final(trace_ctx).log@, r),
            final(exec_ctx).wf(), balanced(old(exec_ctx).snap(), final(exec_ctx).snap()),
//@ end
}
impl<'i> ExecutableInstruction<'i> for Match<'i> {
    fn execute(&self, exec_ctx: &mut ExecutionCtx<'i>, trace_ctx: &mut TraceHandler) -> (r: ExecutionResult<()>)
    { Match::execute(self, exec_ctx, trace_ctx) }
}
impl<'i> MisMatch<'i> {
//@ lift air/src/execution_step/instructions/mismatch.rs :: impl<'i> super::ExecutableInstruction<'i> for MisMatch<'i> :: fn execute
//@ name MisMatch::execute
//@ props C01 C18 C19
//@ ret r
//@ spec
        requires old(exec_ctx).wf()
        ensures match_spec(false, self.left_value, self.right_value, self.instruction, *old(exec_ctx), *final(exec_ctx),
                           old(trace_ctx).log@, final(trace_ctx).log@, r),
            final(exec_ctx).wf(), balanced(old(exec_ctx).snap(), final(exec_ctx).snap()),
//@ end
}
impl<'i> ExecutableInstruction<'i> for MisMatch<'i> {
    fn execute(&self, exec_ctx: &mut ExecutionCtx<'i>, trace_ctx: &mut TraceHandler) -> (r: ExecutionResult<()>)
    { MisMatch::execute(self, exec_ctx, trace_ctx) }
}

// ================================================================ fail.rs   (C18)
// the error object `(fail code "message")` raises: a function of exactly the given code and message, the instruction text
// and the init peer id
pub uninterp spec fn err_obj(error_code: i64, error_message: Chars, instruction: Chars, peer_id: Chars) -> JValue;
// real: instruction_error_definition.rs: the JSON object {error_code, message, instruction, peer_id} (maplit `hashmap!`)
#[verifier::external_body]
pub fn error_from_raw_fields_w_peerid(error_code: i64, error_message: &str, instruction: &str, peer_id: &str) -> (r: JValue)
    ensures r == err_obj(error_code, error_message@, instruction@, peer_id@)
{ unimplemented!() }
pub uninterp spec fn checked(scalar: JValue) -> Result<(), ErrorObjectError>;
// real: instruction_error_definition.rs: an object with a non-zero integer `error_code` and a string `message` (read-only, total)
#[verifier::external_body]
pub fn check_error_object(scalar: &JValue) -> (r: Result<(), ErrorObjectError>)
    ensures r == checked(*scalar)
{ unimplemented!() }

pub uninterp spec fn resolved_scalar(v: Scalar, c: ExecutionCtx) -> ExecutionResult<Resolved>;
pub uninterp spec fn resolved_scalar_wl(v: ScalarWithLambda, c: ExecutionCtx) -> ExecutionResult<Resolved>;
pub uninterp spec fn resolved_canon_wl(v: CanonStreamWithLambda, c: ExecutionCtx) -> ExecutionResult<Resolved>;
// real: resolver/resolvable_impl.rs (read-only). All three return EXACTLY ONE tetraplet: Scalar: `value.as_tetraplets()` of a
// ValueAggregate / IterableItem = `vec![tetraplet]` (jvaluable/{resolved_call_result,iterable_item}.rs); the two lens forms:
// `vec![tetraplet]` (resolvable_impl.rs:145,156) -- which is what `tetraplet.remove(0)` in fail.rs relies on
impl<'i> Scalar<'i> {
    #[verifier::external_body]
    pub fn resolve(&self, ctx: &ExecutionCtx<'_>) -> (r: ExecutionResult<Resolved>)
        ensures r == resolved_scalar(*self, *ctx), r matches Ok(v) ==> v.1@.len() == 1
    { unimplemented!() }
}
impl<'i> ScalarWithLambda<'i> {
    #[verifier::external_body]
    pub fn resolve(&self, ctx: &ExecutionCtx<'_>) -> (r: ExecutionResult<Resolved>)
        ensures r == resolved_scalar_wl(*self, *ctx), r matches Ok(v) ==> v.1@.len() == 1
    { unimplemented!() }
}
impl<'i> CanonStreamWithLambda<'i> {
    #[verifier::external_body]
    pub fn resolve(&self, ctx: &ExecutionCtx<'_>) -> (r: ExecutionResult<Resolved>)
        ensures r == resolved_canon_wl(*self, *ctx), r matches Ok(v) ==> v.1@.len() == 1
    { unimplemented!() }
}

// `Option::<Rc<T>>::clone`, spelled out (verified, not trusted)
pub fn clone_opt_rc<T>(o: &Option<Rc<T>>) -> (r: Option<Rc<T>>)
    ensures r == *o
{ match o { Some(t) => Some(t.clone()), None => None } }

pub open spec fn user_error(error: JValue) -> ExecutionError { ExecutionError::Catchable(Rc::new(CatchableError::UserError { error })) }
pub open spec fn invalid_error_object(e: ErrorObjectError) -> ExecutionError { ExecutionError::Catchable(Rc::new(CatchableError::InvalidErrorObjectError(e))) }
// everything `fail` never touches
pub open spec fn fail_frame(c0: ExecutionCtx, c1: ExecutionCtx) -> bool {
    c1.scalars == c0.scalars && c1.streams == c0.streams && c1.stream_maps == c0.stream_maps && c1.run_parameters == c0.run_parameters
        && c1.tracker == c0.tracker && c1.log@ == c0.log@ && c1.next_peer_pks == c0.next_peer_pks
}
// what raising an error object does to the context: %last_error% becomes exactly that object (with its tetraplet and
// provenance), further writes to it are disabled while the error bubbles, the subgraph is incomplete
pub open spec fn error_object_set(c0: ExecutionCtx, c1: ExecutionCtx, error: JValue, tetraplet: Option<RcSecurityTetraplet>, provenance: Provenance) -> bool {
    &&& c1.last_error_descriptor.error == (InstructionError { error, tetraplet, provenance, orig_catchable: None })
    &&& !c1.last_error_descriptor.error_can_be_set
    &&& !c1.subgraph_completeness
    &&& fail_frame(c0, c1)
}
// ... and the failure itself: the catchable UserError carrying exactly that object
pub open spec fn raised(c0: ExecutionCtx, c1: ExecutionCtx, error: JValue, tetraplet: Option<RcSecurityTetraplet>, provenance: Provenance, r: ExecutionResult<()>) -> bool {
    error_object_set(c0, c1, error, tetraplet, provenance) && c1.error_descriptor == c0.error_descriptor
        && r == Err::<(), ExecutionError>(user_error(error))
}
// (fail value): the value must be a well-formed error object, else the catchable InvalidErrorObjectError; a resolution error is handed on
pub open spec fn fail_with_resolved(res: ExecutionResult<Resolved>, c0: ExecutionCtx, c1: ExecutionCtx, r: ExecutionResult<()>) -> bool {
    match res {
        Err(e) => r == Err::<(), ExecutionError>(e) && c1 == c0,
        Ok(v) => match checked(v.0) {
            Err(e) => r == Err::<(), ExecutionError>(invalid_error_object(e)) && c1 == c0,
            Ok(_) => v.1@.len() == 1 && raised(c0, c1, v.0, Some(v.1@[0]), v.2, r),
        },
    }
}
// C18: what `fail` does, for every form of its argument
pub open spec fn fail_spec(fail: Fail, c0: ExecutionCtx, c1: ExecutionCtx, r: ExecutionResult<()>) -> bool {
    match fail {
        // (fail code "message"): a catchable UserError carrying exactly the object made of the given code and message
        Fail::Literal { ret_code, error_message } => raised(c0, c1,
            err_obj(ret_code, error_message@, fail_text(fail), c0.run_parameters.init_peer_id@),
            Some(Rc::new(literal_tet(c0.run_parameters.init_peer_id@))), literal_prov(), r),
        Fail::Scalar(s) => fail_with_resolved(resolved_scalar(s, c0), c0, c1, r),
        Fail::ScalarWithLambda(s) => fail_with_resolved(resolved_scalar_wl(s, c0), c0, c1, r),
        Fail::CanonStreamWithLambda(s) => fail_with_resolved(resolved_canon_wl(s, c0), c0, c1, r),
        // (fail %last_error%): re-raises the stored object unchanged, with its stored tetraplet and provenance
        Fail::LastError => { let ie = c0.last_error_descriptor.error;
            match checked(ie.error) {
                Err(e) => r == Err::<(), ExecutionError>(invalid_error_object(e)) && c1 == c0,
                Ok(_) => raised(c0, c1, ie.error, ie.tetraplet, ie.provenance, r),
            } },
        // (fail :error:): %last_error% is set from the stored :error: object; the ORIGINAL catchable error is re-raised if the
        // object still carries one (so the uncaught variant reports the same code and message), else a UserError with the object;
        // :error: itself is kept and frozen (error setting disabled) while it bubbles
        Fail::Error => { let ie = c0.error_descriptor.error;
            match checked(ie.error) {
                Err(e) => r == Err::<(), ExecutionError>(invalid_error_object(e)) && c1 == c0,
                Ok(_) => {
                    &&& error_object_set(c0, c1, ie.error, ie.tetraplet, ie.provenance)
                    &&& c1.error_descriptor.error == ie && !c1.error_descriptor.error_can_be_set
                    &&& r == Err::<(), ExecutionError>(match ie.orig_catchable {
                            Some(c) => ExecutionError::Catchable(Rc::new(c)),
                            None => user_error(ie.error),
                        })
                }
            } },
    }
}

//@ lift air/src/execution_step/instructions/fail.rs :: fn fail_with_error_object
//@ props C01 C18
//@ ret r
//@ spec
    ensures raised(*old(exec_ctx), *final(exec_ctx), error, tetraplet, provenance, r)
//@ end
// (Verus gives no meaning to the `From` conversion hidden in `?`: the rewrite used five times below spells
//  `.map_err(Ctor)?` as `.map_err(|e| Ctor(e).into())?` with an annotated closure -- the same conversion, made explicit)
//@ lift air/src/execution_step/instructions/fail.rs :: fn fail_with_scalar
//@ props C01 C18
//@ ret r
//@ rewrite 1 ".map_err(CatchableError::InvalidErrorObjectError)?" => ".map_err(|e: ErrorObjectError| -> (o: ExecutionError) ensures o == invalid_error_object(e) { CatchableError::InvalidErrorObjectError(e).into() })?"
//@ spec
    ensures fail_with_resolved(resolved_scalar(*scalar, *old(exec_ctx)), *old(exec_ctx), *final(exec_ctx), r)
//@ end
//@ lift air/src/execution_step/instructions/fail.rs :: fn fail_with_scalar_wl
//@ props C01 C18
//@ ret r
//@ rewrite 1 ".map_err(CatchableError::InvalidErrorObjectError)?" => ".map_err(|e: ErrorObjectError| -> (o: ExecutionError) ensures o == invalid_error_object(e) { CatchableError::InvalidErrorObjectError(e).into() })?"
//@ spec
    ensures fail_with_resolved(resolved_scalar_wl(*scalar, *old(exec_ctx)), *old(exec_ctx), *final(exec_ctx), r)
//@ end
//@ lift air/src/execution_step/instructions/fail.rs :: fn fail_with_canon_stream
//@ props C01 C18
//@ ret r
//@ rewrite 1 ".map_err(CatchableError::InvalidErrorObjectError)?" => ".map_err(|e: ErrorObjectError| -> (o: ExecutionError) ensures o == invalid_error_object(e) { CatchableError::InvalidErrorObjectError(e).into() })?"
//@ spec
    ensures fail_with_resolved(resolved_canon_wl(*ast_canon, *old(exec_ctx)), *old(exec_ctx), *final(exec_ctx), r)
//@ end
//@ lift air/src/execution_step/instructions/fail.rs :: fn fail_with_literals
//@ props C01 C18
//@ ret r
//@ spec
    ensures raised(*old(exec_ctx), *final(exec_ctx),
        err_obj(error_code, error_message@, fail_text(*fail), old(exec_ctx).run_parameters.init_peer_id@),
        Some(Rc::new(literal_tet(old(exec_ctx).run_parameters.init_peer_id@))), literal_prov(), r)
//@ end
// (`Option<Rc<_>>::clone` has no usable specification in vstd; `clone_opt_rc` is its definition, verified: 1 + 2 rewrites)
//@ lift air/src/execution_step/instructions/fail.rs :: fn fail_with_last_error
//@ props C01 C18
//@ ret r
//@ rewrite 1 "tetraplet.clone()" => "clone_opt_rc(tetraplet)"
//@ rewrite 1 ".map_err(CatchableError::InvalidErrorObjectError)?" => ".map_err(|e: ErrorObjectError| -> (o: ExecutionError) ensures o == invalid_error_object(e) { CatchableError::InvalidErrorObjectError(e).into() })?"
//@ spec
    ensures fail_spec(Fail::LastError, *old(exec_ctx), *final(exec_ctx), r)
//@ end
//@ lift air/src/execution_step/instructions/fail.rs :: fn fail_with_error
//@ props C01 C18
//@ ret r
//@ rewrite 2 "tetraplet.clone()" => "clone_opt_rc(tetraplet)"
//@ rewrite 1 ".map_err(CatchableError::InvalidErrorObjectError)?" => ".map_err(|e: ErrorObjectError| -> (o: ExecutionError) ensures o == invalid_error_object(e) { CatchableError::InvalidErrorObjectError(e).into() })?"
//@ spec
    ensures fail_spec(Fail::Error, *old(exec_ctx), *final(exec_ctx), r)
//@ end

// (Verus rejects the reference pattern `&Fail::Literal { .. }`: the two rewrites bind the fields by reference and dereference them at the call)
impl<'i> Fail<'i> {
//@ lift air/src/execution_step/instructions/fail.rs :: impl<'i> super::ExecutableInstruction<'i> for Fail<'i> :: fn execute
//@ name Fail::execute
//@ props C01 C18 C19
//@ ret r
//@ rewrite 1 "&Fail::Literal {" => "Fail::Literal {"
//@ rewrite 1 "fail_with_literals(ret_code, error_message, self, exec_ctx)" => "fail_with_literals(*ret_code, *error_message, self, exec_ctx)"
//@ spec
        requires old(exec_ctx).wf()
        ensures fail_spec(*self, *old(exec_ctx), *final(exec_ctx), r), *final(trace_ctx) == *old(trace_ctx),
            // C18: `fail` never succeeds and its error is always catchable, unless resolving its argument failed uncatchably
            r is Err,
            // C19: no child, the list of next peers is left alone
            peers_chain(old(exec_ctx).log@, final(exec_ctx).log@, old(exec_ctx).next_peer_pks@, final(exec_ctx).next_peer_pks@),
            final(exec_ctx).next_peer_pks == old(exec_ctx).next_peer_pks,
            (self is Literal || self is LastError || self is Error) ==> (r matches Err(e) && catchable(e)),
            final(exec_ctx).wf(), balanced(old(exec_ctx).snap(), final(exec_ctx).snap()),
//@ end
}
impl<'i> ExecutableInstruction<'i> for Fail<'i> {
    fn execute(&self, exec_ctx: &mut ExecutionCtx<'i>, trace_ctx: &mut TraceHandler) -> (r: ExecutionResult<()>)
    { Fail::execute(self, exec_ctx, trace_ctx) }
}

} // verus!
fn main() {}
