//@ unit convolution
//@ verus-flags --no-erasure-check
// (--no-erasure-check: see slider.rs -- the TracePos shim's AddAssignSpecImpl trips Verus' erasure pass after verification)
// merger/fold_merger/fold_lore_resolver.rs: compute_lens_convolution, compute_before_lens, check_subtrace_lore,
// LoresLen::new  --  C01.V7: total on arbitrary (hostile) fold lore: no overflow, no index out of bounds.
//
// Trusted part of this file: the TracePos shim (verbatim from slider.rs); GenerationIdx as a u32 newtype with the
// real `From<usize>` (`value as u32`) and derived `PartialEq`; MergeError reduced to the two variants reachable here,
// with the `From` impls thiserror's `#[from]` generates; MergeCtx::try_get_generation as an external_body stub
// (a pure read: its result is a function of (ctx, position); it is its own obligation elsewhere -- F9a lives there).
use vstd::prelude::*;
use vstd::std_specs::iter::IteratorSpec;     // `remaining()` of the ghost iterator in the reversed-range loop invariant
verus! {

// ---------------------------------------------------------------- shim: TracePos (trusted, verbatim from slider.rs)
#[derive(Copy, Clone, Default)]
pub struct TracePos(pub u32);
impl core::ops::AddAssign<u32> for TracePos { fn add_assign(&mut self, rhs: u32) { self.0 = self.0 + rhs; } }
impl From<u32> for TracePos { fn from(v: u32) -> TracePos { TracePos(v) } }
impl PartialEq for TracePos { fn eq(&self, o: &Self) -> bool { self.0 == o.0 } }
impl PartialOrd for TracePos { fn partial_cmp(&self, o: &Self) -> Option<core::cmp::Ordering> { self.0.partial_cmp(&o.0) } }
impl vstd::std_specs::ops::AddAssignSpecImpl<u32> for TracePos {
    open spec fn obeys_add_assign_spec() -> bool { true }
    open spec fn add_assign_req(&self, rhs: u32) -> bool { self.0 + rhs <= u32::MAX }
    open spec fn add_assign_spec(&self, rhs: u32) -> TracePos { TracePos((self.0 + rhs) as u32) }
}
impl vstd::std_specs::convert::FromSpecImpl<u32> for TracePos {
    open spec fn obeys_from_spec() -> bool { true }
    open spec fn from_spec(v: u32) -> TracePos { TracePos(v) }
}
impl vstd::std_specs::cmp::PartialOrdSpecImpl<TracePos> for TracePos {
    open spec fn obeys_partial_cmp_spec() -> bool { true }
    open spec fn partial_cmp_spec(&self, o: &TracePos) -> Option<core::cmp::Ordering> { if self.0 < o.0 { Some(core::cmp::Ordering::Less) } else if self.0 == o.0 { Some(core::cmp::Ordering::Equal) } else { Some(core::cmp::Ordering::Greater) } }
}
impl vstd::std_specs::cmp::PartialEqSpecImpl<TracePos> for TracePos {
    open spec fn obeys_eq_spec() -> bool { true }
    open spec fn eq_spec(&self, o: &TracePos) -> bool { self.0 == o.0 }
}
impl vstd::std_specs::ops::AddSpecImpl<u32> for TracePos {
    open spec fn obeys_add_spec() -> bool { true }
    open spec fn add_req(self, rhs: u32) -> bool { self.0 + rhs <= u32::MAX }
    open spec fn add_spec(self, rhs: u32) -> TracePos { TracePos((self.0 + rhs) as u32) }
}
impl core::ops::Add<u32> for TracePos { type Output = TracePos; fn add(self, rhs: u32) -> TracePos { TracePos(self.0 + rhs) } }
impl vstd::std_specs::ops::SubSpecImpl<TracePos> for TracePos {
    open spec fn obeys_sub_spec() -> bool { true }
    open spec fn sub_req(self, rhs: TracePos) -> bool { self.0 >= rhs.0 }
    open spec fn sub_spec(self, rhs: TracePos) -> TracePos { TracePos((self.0 - rhs.0) as u32) }
}
impl core::ops::Sub<TracePos> for TracePos { type Output = TracePos; fn sub(self, rhs: TracePos) -> TracePos { TracePos(self.0 - rhs.0) } }
impl vstd::std_specs::convert::FromSpecImpl<TracePos> for u32 {
    open spec fn obeys_from_spec() -> bool { true }
    open spec fn from_spec(v: TracePos) -> u32 { v.0 }
}
impl From<TracePos> for u32 { fn from(v: TracePos) -> u32 { v.0 } }
impl TracePos {
    // auto_checked_add![TracePos]: `self.0.checked_add(other.0).map(Self)`
    pub fn checked_add(&self, other: &TracePos) -> (r: Option<TracePos>)
        ensures r == (if self.0 + other.0 <= u32::MAX { Some(TracePos((self.0 + other.0) as u32)) } else { None })
    { match self.0.checked_add(other.0) { Some(v) => Some(TracePos(v)), None => None } }
    pub fn checked_sub(&self, other: &TracePos) -> (r: Option<TracePos>)
        ensures r == (if self.0 >= other.0 { Some(TracePos((self.0 - other.0) as u32)) } else { None })
    { match self.0.checked_sub(other.0) { Some(v) => Some(TracePos(v)), None => None } }
}

// ---------------------------------------------------------------- shim: generations, lore, errors (trusted)
#[derive(Clone, Copy)]
pub struct GenerationIdx(pub u32);
// real: `impl From<usize> for GenerationIdx { GenerationIdx(value as u32) }`
impl From<usize> for GenerationIdx { fn from(value: usize) -> GenerationIdx { GenerationIdx(value as u32) } }
impl vstd::std_specs::convert::FromSpecImpl<usize> for GenerationIdx {
    open spec fn obeys_from_spec() -> bool { true }
    open spec fn from_spec(v: usize) -> GenerationIdx { GenerationIdx(v as u32) }
}
// real: `#[derive(PartialEq)]` on the newtype
impl PartialEq for GenerationIdx { fn eq(&self, o: &Self) -> bool { self.0 == o.0 } }
impl vstd::std_specs::cmp::PartialEqSpecImpl<GenerationIdx> for GenerationIdx {
    open spec fn obeys_eq_spec() -> bool { true }
    open spec fn eq_spec(&self, o: &GenerationIdx) -> bool { self.0 == o.0 }
}

//@ lift crates/air-lib/interpreter-data/src/executed_state.rs :: struct SubTraceDesc
//@ derive Clone Copy
//@ end
//@ lift crates/air-lib/interpreter-data/src/executed_state.rs :: struct FoldSubTraceLore
//@ derive Clone
//@ end
//@ lift crates/air-lib/interpreter-data/src/executed_state.rs :: type FoldLore
//@ end
//@ lift crates/air-lib/interpreter-data/src/executed_state.rs :: struct FoldResult
//@ derive Clone
//@ end
//@ lift crates/air-lib/trace-handler/src/merger/errors.rs :: enum FoldResultError
//@ derive
//@ end
pub struct KeeperError { pub opaque: u8 }
type KeeperResult<T> = Result<T, KeeperError>;
pub enum MergeError { KeeperError(KeeperError), IncorrectFoldResult(FoldResultError) }
impl From<FoldResultError> for MergeError { fn from(e: FoldResultError) -> Self { MergeError::IncorrectFoldResult(e) } }
impl vstd::std_specs::convert::FromSpecImpl<FoldResultError> for MergeError {
    open spec fn obeys_from_spec() -> bool { true }
    open spec fn from_spec(e: FoldResultError) -> MergeError { MergeError::IncorrectFoldResult(e) }
}
impl From<KeeperError> for MergeError { fn from(e: KeeperError) -> Self { MergeError::KeeperError(e) } }
impl vstd::std_specs::convert::FromSpecImpl<KeeperError> for MergeError {
    open spec fn obeys_from_spec() -> bool { true }
    open spec fn from_spec(e: KeeperError) -> MergeError { MergeError::KeeperError(e) }
}
type MergeResult<T> = Result<T, MergeError>;

pub struct MergeCtx { pub opaque: u8 }
impl MergeCtx {
    // the generation the trace of this context records at `position`, if it records one
    pub uninterp spec fn gen_at(&self, position: TracePos) -> Option<GenerationIdx>;
    #[verifier::external_body]
    pub fn try_get_generation(&self, position: TracePos) -> (r: KeeperResult<GenerationIdx>)
        ensures r is Ok <==> self.gen_at(position) is Some,
            r matches Ok(g) ==> self.gen_at(position) == Some(g),
    { unimplemented!() }
}

//@ lift crates/air-lib/trace-handler/src/merger/fold_merger/fold_lore_resolver.rs :: type FoldStatesCount
//@ end
//@ lift crates/air-lib/trace-handler/src/merger/fold_merger/fold_lore_resolver.rs :: struct LoresLen
//@ derive Clone Copy
//@ end

impl LoresLen {
//@ lift crates/air-lib/trace-handler/src/merger/fold_merger/fold_lore_resolver.rs :: impl LoresLen :: fn new
//@ props C01
//@ ret r
//@ spec
        ensures r.before_len == before_len, r.after_len == after_len
//@ end
}

// ---------------------------------------------------------------- specs: sums over the lore and over the lens
// a sublore is usable iff it has exactly two descriptors (check_subtrace_lore)
pub open spec fn lore_ok(l: FoldSubTraceLore) -> bool { l.subtraces_desc@.len() == 2 }
pub open spec fn bl(l: FoldSubTraceLore) -> int { if lore_ok(l) { l.subtraces_desc@[0].subtrace_len as int } else { 0 } }
pub open spec fn al(l: FoldSubTraceLore) -> int { if lore_ok(l) { l.subtraces_desc@[1].subtrace_len as int } else { 0 } }
pub open spec fn sum_b(l: Seq<FoldSubTraceLore>, lo: int, hi: int) -> int
    decreases hi - lo
{ if lo >= hi { 0 } else { sum_b(l, lo, hi - 1) + bl(l[hi - 1]) } }
pub open spec fn sum_a(l: Seq<FoldSubTraceLore>, lo: int, hi: int) -> int
    decreases hi - lo
{ if lo >= hi { 0 } else { sum_a(l, lo, hi - 1) + al(l[hi - 1]) } }
spec fn sum_bl(l: Seq<LoresLen>, lo: int, hi: int) -> int
    decreases hi - lo
{ if lo >= hi { 0 } else { sum_bl(l, lo, hi - 1) + l[hi - 1].before_len as int } }

proof fn lemma_sum_b_split(l: Seq<FoldSubTraceLore>, lo: int, mid: int, hi: int)
    requires lo <= mid <= hi
    ensures sum_b(l, lo, hi) == sum_b(l, lo, mid) + sum_b(l, mid, hi), sum_b(l, lo, hi) >= 0
    decreases hi - mid
{ if mid < hi { lemma_sum_b_split(l, lo, mid, hi - 1); } else { lemma_sum_b_nonneg(l, lo, hi); } lemma_sum_b_nonneg(l, lo, hi); }
proof fn lemma_sum_b_nonneg(l: Seq<FoldSubTraceLore>, lo: int, hi: int)
    ensures sum_b(l, lo, hi) >= 0
    decreases hi - lo
{ if lo < hi { lemma_sum_b_nonneg(l, lo, hi - 1); } }
proof fn lemma_sum_a_split(l: Seq<FoldSubTraceLore>, lo: int, mid: int, hi: int)
    requires lo <= mid <= hi
    ensures sum_a(l, lo, hi) == sum_a(l, lo, mid) + sum_a(l, mid, hi), sum_a(l, lo, hi) >= 0
    decreases hi - mid
{ if mid < hi { lemma_sum_a_split(l, lo, mid, hi - 1); } lemma_sum_a_nonneg(l, lo, hi); }
proof fn lemma_sum_a_nonneg(l: Seq<FoldSubTraceLore>, lo: int, hi: int)
    ensures sum_a(l, lo, hi) >= 0
    decreases hi - lo
{ if lo < hi { lemma_sum_a_nonneg(l, lo, hi - 1); } }
proof fn lemma_sum_bl_split(l: Seq<LoresLen>, lo: int, mid: int, hi: int)
    requires lo <= mid <= hi
    ensures sum_bl(l, lo, hi) == sum_bl(l, lo, mid) + sum_bl(l, mid, hi), sum_bl(l, lo, hi) >= 0
    decreases hi - mid
{ if mid < hi { lemma_sum_bl_split(l, lo, mid, hi - 1); } lemma_sum_bl_nonneg(l, lo, hi); }
proof fn lemma_sum_bl_nonneg(l: Seq<LoresLen>, lo: int, hi: int)
    ensures sum_bl(l, lo, hi) >= 0
    decreases hi - lo
{ if lo < hi { lemma_sum_bl_nonneg(l, lo, hi - 1); } }
// the lens' before_len still are the raw lore values on [lo, hi)  ==>  equal sums
proof fn lemma_sum_bl_is_sum_b(lens: Seq<LoresLen>, l: Seq<FoldSubTraceLore>, lo: int, hi: int)
    requires forall|k: int| lo <= k < hi ==> (#[trigger] lens[k]).before_len == bl(l[k])
    ensures sum_bl(lens, lo, hi) == sum_b(l, lo, hi)
    decreases hi - lo
{ if lo < hi { lemma_sum_bl_is_sum_b(lens, l, lo, hi - 1); } }
proof fn lemma_sum_bl_ext(a: Seq<LoresLen>, b: Seq<LoresLen>, lo: int, hi: int)
    requires forall|k: int| lo <= k < hi ==> (#[trigger] a[k]).before_len == b[k].before_len
    ensures sum_bl(a, lo, hi) == sum_bl(b, lo, hi)
    decreases hi - lo
{ if lo < hi { lemma_sum_bl_ext(a, b, lo, hi - 1); } }

// ---------------------------------------------------------------- the lifted functions
//@ lift crates/air-lib/trace-handler/src/merger/fold_merger/fold_lore_resolver.rs :: fn check_subtrace_lore
//@ props C01
//@ ret r
//@ rewrite 1 ".map_err(Into::into)" => ".map_err(|e: FoldResultError| -> (o: MergeError) { e.into() })"
//@ spec
    ensures r is Ok <==> lore_ok(*subtrace_lore)
//@ end

//@ lift crates/air-lib/trace-handler/src/merger/fold_merger/fold_lore_resolver.rs :: fn compute_before_lens
//@ props C01
//@ rewrite 1 "for subtrace_id in (begin_pos..=end_pos).rev()" => "for subtrace_id in it: (begin_pos..=end_pos).rev()"
//@ spec
    requires
        begin_pos <= end_pos < old(lore_lens)@.len(),
        // call-site fact: the group's raw before lens plus its cumulated after len were overflow-checked
        sum_bl(old(lore_lens)@, begin_pos as int, end_pos + 1) + old(lore_lens)@[end_pos as int].after_len <= u32::MAX,
    ensures
        final(lore_lens)@.len() == old(lore_lens)@.len(),
        forall|i: int| 0 <= i < old(lore_lens)@.len() && !(begin_pos <= i <= end_pos) ==> final(lore_lens)@[i] == old(lore_lens)@[i],
        forall|i: int| begin_pos <= i <= end_pos ==> (#[trigger] final(lore_lens)@[i]).after_len == old(lore_lens)@[i].after_len,
        // the convolution: everything from i to the end of the group, plus the group's whole after len
        forall|i: int| begin_pos <= i <= end_pos ==> (#[trigger] final(lore_lens)@[i]).before_len
            == sum_bl(old(lore_lens)@, i, end_pos + 1) + old(lore_lens)@[end_pos as int].after_len,
//@ loop 0
        invariant
            begin_pos <= end_pos < lore_lens@.len(),
            lore_lens@.len() == old(lore_lens)@.len(),
            after_len == old(lore_lens)@[end_pos as int].after_len,
            sum_bl(old(lore_lens)@, begin_pos as int, end_pos + 1) + after_len <= u32::MAX,
            it.snapshot@.remaining().len() == end_pos - begin_pos + 1,
            forall|k: int| 0 <= k < end_pos - begin_pos + 1 ==> it.snapshot@.remaining()[k] == end_pos - k,
            cum_before_len == sum_bl(old(lore_lens)@, end_pos + 1 - it.index@, end_pos + 1),
            // not yet visited (and everything outside the group): untouched
            forall|i: int| 0 <= i < lore_lens@.len() && !(end_pos - it.index@ < i <= end_pos) ==> lore_lens@[i] == old(lore_lens)@[i],
            // visited: final
            forall|i: int| end_pos - it.index@ < i <= end_pos ==> (#[trigger] lore_lens@[i]).after_len == old(lore_lens)@[i].after_len
                && lore_lens@[i].before_len == sum_bl(old(lore_lens)@, i, end_pos + 1) + after_len,
//@ before "let before_len = &mut lore_lens[subtrace_id].before_len;"
        proof {
            lemma_sum_bl_split(old(lore_lens)@, begin_pos as int, subtrace_id as int, end_pos + 1);
            lemma_sum_bl_split(old(lore_lens)@, subtrace_id as int, subtrace_id + 1, end_pos + 1);
            assert(sum_bl(old(lore_lens)@, subtrace_id as int, subtrace_id + 1) == old(lore_lens)@[subtrace_id as int].before_len) by {
                assert(sum_bl(old(lore_lens)@, subtrace_id as int, subtrace_id as int) == 0);
            }
            lemma_sum_bl_nonneg(old(lore_lens)@, begin_pos as int, subtrace_id as int);
            assert(subtrace_id == end_pos - it.index@);
            assert(lore_lens@[subtrace_id as int] == old(lore_lens)@[subtrace_id as int]);
            assert(cum_before_len as int + old(lore_lens)@[subtrace_id as int].before_len + after_len <= u32::MAX);
        }
//@ end

// typed views: they fix the types of `lens` / `cum_after_len` for the invariants (rustc infers them only from later uses)
spec fn lv(v: Vec<LoresLen>) -> Seq<LoresLen> { v@ }
pub open spec fn u32v(x: u32) -> int { x as int }

// ---- the functional meaning of the convolution (the function's doc comment, as a spec)
// generation of the k-th sublore's value
pub open spec fn gen_of(l: Seq<FoldSubTraceLore>, c: MergeCtx, k: int) -> GenerationIdx {
    match c.gen_at(l[k].value_pos) { Some(g) => g, None => GenerationIdx(0) }
}
// a group is a maximal run of sublores with the same generation: its first index ...
pub open spec fn gs(l: Seq<FoldSubTraceLore>, c: MergeCtx, k: int) -> int
    decreases k
{ if k <= 0 { 0 } else if gen_of(l, c, k) != gen_of(l, c, k - 1) { k } else { gs(l, c, k - 1) } }
// ... and its end (exclusive)
pub open spec fn ge(l: Seq<FoldSubTraceLore>, c: MergeCtx, k: int) -> int
    decreases l.len() - k
{ if k + 1 >= l.len() { l.len() as int } else if gen_of(l, c, k + 1) != gen_of(l, c, k) { k + 1 } else { ge(l, c, k + 1) } }
// [1, 1] [2, 2] [3, 3] => [12, 1] [11, 3] [9, 6]: after = the after lens of the group up to and including k;
// before = the before lens from k to the end of the group plus the after lens of the whole group
pub open spec fn conv_after(l: Seq<FoldSubTraceLore>, c: MergeCtx, k: int) -> int { sum_a(l, gs(l, c, k), k + 1) }
pub open spec fn conv_before(l: Seq<FoldSubTraceLore>, c: MergeCtx, k: int) -> int {
    sum_b(l, k, ge(l, c, k)) + sum_a(l, gs(l, c, k), ge(l, c, k))
}
spec fn convoluted(x: LoresLen, l: Seq<FoldSubTraceLore>, c: MergeCtx, k: int) -> bool {
    x.after_len == conv_after(l, c, k) && x.before_len == conv_before(l, c, k)
}

// a run [k, e) of equal generations that ends at e (end of the lore or a different generation) is k's group tail
proof fn lemma_ge(l: Seq<FoldSubTraceLore>, c: MergeCtx, k: int, e: int)
    requires 0 <= k < e <= l.len(),
        forall|j: int| k <= j < e ==> gen_of(l, c, j) == gen_of(l, c, k),
        e == l.len() || gen_of(l, c, e) != gen_of(l, c, e - 1),
    ensures ge(l, c, k) == e
    decreases e - k
{ if k + 1 < e { lemma_ge(l, c, k + 1, e); } }

// closing the open group [g, i): compute_before_lens turns the raw lens into the convoluted ones
proof fn lemma_group_final(o: Seq<LoresLen>, n: Seq<LoresLen>, l: Seq<FoldSubTraceLore>, c: MergeCtx, g: int, i: int)
    requires 0 <= g < i <= l.len(), o.len() == n.len(), i <= o.len(),
        forall|k: int| g <= k < i ==> (#[trigger] o[k]).before_len == bl(l[k]) && o[k].after_len == sum_a(l, g, k + 1),
        forall|k: int| g <= k < i ==> (#[trigger] n[k]).after_len == o[k].after_len,
        forall|k: int| g <= k < i ==> (#[trigger] n[k]).before_len == sum_bl(o, k, i) + o[i - 1].after_len,
        forall|k: int| g <= k < i ==> gs(l, c, k) == g && gen_of(l, c, k) == gen_of(l, c, g),
        i == l.len() || gen_of(l, c, i) != gen_of(l, c, i - 1),
    ensures forall|k: int| g <= k < i ==> convoluted(#[trigger] n[k], l, c, k)
{
    assert forall|k: int| g <= k < i implies convoluted(#[trigger] n[k], l, c, k) by {
        lemma_sum_bl_is_sum_b(o, l, k, i);
        lemma_ge(l, c, k, i);
    }
}

// every sublore is usable and its value position resolves to a generation
pub open spec fn lore_resolvable(fold: FoldResult, merge_ctx: MergeCtx) -> bool {
    forall|k: int| 0 <= k < fold.lore@.len() ==> lore_ok(#[trigger] fold.lore@[k]) && merge_ctx.gen_at(fold.lore@[k].value_pos) is Some
}
pub open spec fn lore_total(fold: FoldResult) -> int {
    sum_b(fold.lore@, 0, fold.lore@.len() as int) + sum_a(fold.lore@, 0, fold.lore@.len() as int)
}

//@ lift crates/air-lib/trace-handler/src/merger/fold_merger/fold_lore_resolver.rs :: fn compute_lens_convolution
//@ props C01
//@ ret r
//@ rewrite 1 ".and_then(|v| v.checked_add(after_len))" => ".and_then(|v: u32| -> (o: Option<u32>) ensures o == (if v + after_len <= u32::MAX { Some((v + after_len) as u32) } else { None::<u32> }) { v.checked_add(after_len) })"
//@ spec
    // no precondition: `fold` is hostile
    ensures
        r is Ok <==> (lore_resolvable(*fold, *merge_ctx) && lore_total(*fold) <= u32::MAX),
        r matches Ok((count, lens)) ==> count == lore_total(*fold) && lv(lens).len() == fold.lore@.len(),
        // the functional contract: every element is the convolution within its generation group
        r matches Ok((count, lens)) ==> forall|k: int| 0 <= k < fold.lore@.len() ==> convoluted(#[trigger] lv(lens)[k], fold.lore@, *merge_ctx, k),
//@ loop 0
        invariant
            subtraces_count == fold.lore@.len(),
            lv(lens).len() == subtrace_id,
            last_seen_generation_pos <= subtrace_id,
            subtrace_id > 0 ==> last_seen_generation_pos < subtrace_id,
            forall|k: int| 0 <= k < subtrace_id ==> lore_ok(#[trigger] fold.lore@[k]) && merge_ctx.gen_at(fold.lore@[k].value_pos) is Some,
            fold_states_count == sum_b(fold.lore@, 0, subtrace_id as int) + sum_a(fold.lore@, 0, subtrace_id as int),
            u32v(cum_after_len) == sum_a(fold.lore@, last_seen_generation_pos as int, subtrace_id as int),
            // the open group still holds the raw before lens and the after lens cumulated from the group start
            forall|k: int| last_seen_generation_pos <= k < subtrace_id ==> (#[trigger] lv(lens)[k]).before_len == bl(fold.lore@[k])
                && lv(lens)[k].after_len == sum_a(fold.lore@, last_seen_generation_pos as int, k + 1),
            // the open group is the group of its members; the closed groups are final
            subtrace_id == 0 ==> last_seen_generation_pos == 0,
            subtrace_id > 0 ==> last_seen_generation == gen_of(fold.lore@, *merge_ctx, subtrace_id - 1),
            forall|k: int| last_seen_generation_pos <= k < subtrace_id ==> gs(fold.lore@, *merge_ctx, k) == last_seen_generation_pos
                && gen_of(fold.lore@, *merge_ctx, k) == last_seen_generation,
            forall|k: int| 0 <= k < last_seen_generation_pos ==> convoluted(#[trigger] lv(lens)[k], fold.lore@, *merge_ctx, k),
//@ before "compute_before_lens(&mut lens, last_seen_generation_pos, subtrace_id - 1);"
                let ghost open_lens = lv(lens);
                proof {
                    let (g, i) = (last_seen_generation_pos as int, subtrace_id as int);
                    lemma_sum_bl_is_sum_b(lv(lens), fold.lore@, g, i);
                    lemma_sum_b_split(fold.lore@, 0, g, i); lemma_sum_a_split(fold.lore@, 0, g, i);
                    lemma_sum_b_nonneg(fold.lore@, 0, g); lemma_sum_a_nonneg(fold.lore@, 0, g);
                }
//@ after "compute_before_lens(&mut lens, last_seen_generation_pos, subtrace_id - 1);"
                proof { lemma_group_final(open_lens, lv(lens), fold.lore@, *merge_ctx, last_seen_generation_pos as int, subtrace_id as int); }
//@ before "fold_states_count = fold_states_count"
        proof {
            let (g, i, n) = (last_seen_generation_pos as int, subtrace_id as int, subtraces_count as int);
            assert(before_len == bl(fold.lore@[i]) && after_len == al(fold.lore@[i]));
            lemma_sum_b_split(fold.lore@, 0, i + 1, n); lemma_sum_a_split(fold.lore@, 0, i + 1, n);
            lemma_sum_b_nonneg(fold.lore@, i + 1, n); lemma_sum_a_nonneg(fold.lore@, i + 1, n);
            lemma_sum_a_split(fold.lore@, 0, g, i + 1);
            lemma_sum_b_nonneg(fold.lore@, 0, i + 1); lemma_sum_a_nonneg(fold.lore@, 0, g);
        }
//@ after "compute_before_lens(&mut lens, last_seen_generation_pos, subtraces_count - 1);"
        proof { lemma_group_final(open_lens, lv(lens), fold.lore@, *merge_ctx, last_seen_generation_pos as int, subtraces_count as int); }
//@ before "compute_before_lens(&mut lens, last_seen_generation_pos, subtraces_count - 1);"
        let ghost open_lens = lv(lens);
        proof {
            let (g, n) = (last_seen_generation_pos as int, subtraces_count as int);
            lemma_sum_bl_is_sum_b(lv(lens), fold.lore@, g, n);
            lemma_sum_b_split(fold.lore@, 0, g, n); lemma_sum_a_split(fold.lore@, 0, g, n);
            lemma_sum_b_nonneg(fold.lore@, 0, g); lemma_sum_a_nonneg(fold.lore@, 0, g);
        }
//@ end

// the spec above against the two examples of the function's doc comment (also its unit tests convolution_test_1/2):
// [1, 1] [2, 2] [3, 3] [4, 4] [5, 5] [1, 1] => [12, 1] [11, 3] [9, 6] [18, 4] [14, 9] [2, 1]
//   g0     g0     g0     g1     g1     g2
//@ lemma conv_spec_matches_doc_example props C01
proof fn conv_spec_matches_doc_example(l: Seq<FoldSubTraceLore>, c: MergeCtx)
    requires l.len() == 6,
        forall|k: int| 0 <= k < 6 ==> lore_ok(#[trigger] l[k]),
        bl(l[0]) == 1 && al(l[0]) == 1, bl(l[1]) == 2 && al(l[1]) == 2, bl(l[2]) == 3 && al(l[2]) == 3,
        bl(l[3]) == 4 && al(l[3]) == 4, bl(l[4]) == 5 && al(l[4]) == 5, bl(l[5]) == 1 && al(l[5]) == 1,
        gen_of(l, c, 0) == gen_of(l, c, 1), gen_of(l, c, 1) == gen_of(l, c, 2), gen_of(l, c, 2) != gen_of(l, c, 3),
        gen_of(l, c, 3) == gen_of(l, c, 4), gen_of(l, c, 4) != gen_of(l, c, 5),
    ensures
        conv_before(l, c, 0) == 12 && conv_after(l, c, 0) == 1,
        conv_before(l, c, 1) == 11 && conv_after(l, c, 1) == 3,
        conv_before(l, c, 2) == 9 && conv_after(l, c, 2) == 6,
        conv_before(l, c, 3) == 18 && conv_after(l, c, 3) == 4,
        conv_before(l, c, 4) == 14 && conv_after(l, c, 4) == 9,
        conv_before(l, c, 5) == 2 && conv_after(l, c, 5) == 1,
{
    reveal_with_fuel(gs, 7); reveal_with_fuel(ge, 7); reveal_with_fuel(sum_a, 7); reveal_with_fuel(sum_b, 7);
}
//@ end

// ---------------------------------------------------------------- resolve_fold_lore: NOT lifted
// Verus rejects its `fold.lore.iter().zip(lens).try_fold(..)` (`Zip::try_fold` has no specification; closure
// parameters must be plain variables). It stays with the bounded engine (C01.K1). Its two panic sites are the indexings
// `lore.subtraces_desc[0]` / `[1]` inside the closure; they are safe exactly because compute_lens_convolution returned
// Ok, which by the contract above implies lore_ok for every sublore (and lens.len() == lore.len() for the zip).
// The constructors its closure calls are lifted here:
//@ lift crates/air-lib/trace-handler/src/merger/fold_merger/fold_lore_resolver.rs :: struct ResolvedSubTraceDescs
//@ derive Clone
//@ end
impl SubTraceDesc {
//@ lift crates/air-lib/interpreter-data/src/executed_state/impls.rs :: impl SubTraceDesc :: fn new
//@ props C01
//@ ret r
//@ spec
        ensures r.begin_pos == begin_pos, r.subtrace_len == subtrace_len as u32      // `as _` truncates, never panics
//@ end
}
impl ResolvedSubTraceDescs {
//@ lift crates/air-lib/trace-handler/src/merger/fold_merger/fold_lore_resolver.rs :: impl ResolvedSubTraceDescs :: fn new
//@ props C01
//@ ret r
//@ spec
        ensures r.before_subtrace == before_subtrace, r.after_subtrace == after_subtrace
//@ end
}

} // verus!
fn main() {}
