//@ unit posmap
// crates/air-lib/trace-handler/src/merger/position_mapping.rs  prepare_positions_mapping   (C09, C01)
// The two bimaps record, for every merged state, where it came from in the previous and in the current trace; FoldFSM
// resolves a fold lore's value_pos through them, so a wrong entry makes a later run skip or misplace merged states.
// Trusted part: BiHashMap<TracePos, TracePos> as a ghost Map with `insert`; TraceSlider::position / result_trace_next_pos stubs
// (contracts proved in units slider and par_builder).
use vstd::prelude::*;
verus! {

#[derive(Copy, Clone)]
pub struct TracePos(pub u32);
// NewtypeSub! { (PosType) pub struct TracePos(PosType); }: `TracePos - u32`, panics on underflow (overflow-checks = true)
impl vstd::std_specs::ops::SubSpecImpl<u32> for TracePos {
    open spec fn obeys_sub_spec() -> bool { true }
    open spec fn sub_req(self, rhs: u32) -> bool { self.0 >= rhs }
    open spec fn sub_spec(self, rhs: u32) -> TracePos { TracePos((self.0 - rhs) as u32) }
}
impl core::ops::Sub<u32> for TracePos { type Output = TracePos; fn sub(self, rhs: u32) -> TracePos { TracePos(self.0 - rhs) } }

pub struct TraceSlider { pub pos: Ghost<nat> }
impl TraceSlider {
    pub open spec fn pos(&self) -> nat { self.pos@ }
    // proved in unit slider (TraceSlider::position): `r.0 == self.pos()`
    #[verifier::external_body]
    pub fn position(&self) -> (r: TracePos) ensures r.0 == self.pos() { unimplemented!() }
}
pub struct MergeCtx { pub slider: TraceSlider }
// bimap::BiHashMap: insert overwrites any pair that shares the left or the right value
pub struct BiHashMap { pub m: Ghost<Map<u32, u32>> }
impl BiHashMap {
    pub open spec fn view(&self) -> Map<u32, u32> { self.m@ }
    #[verifier::external_body]
    pub fn insert(&mut self, left: TracePos, right: TracePos)
        ensures final(self)@.contains_pair(left.0, right.0),
            // no other left value maps to `right` afterwards, every untouched pair stays
            forall|l: u32, r: u32| l != left.0 && r != right.0 && old(self)@.contains_pair(l, r) ==> #[trigger] final(self)@.contains_pair(l, r),
            forall|l: u32, r: u32| final(self)@.contains_pair(l, r) && l != left.0 ==> #[trigger] old(self)@.contains_pair(l, r) && r != right.0,
    { unimplemented!() }
}
pub struct ExecutionTrace { pub len: Ghost<nat> }
pub struct DataKeeper {
    pub prev_ctx: MergeCtx,
    pub current_ctx: MergeCtx,
    pub new_to_prev_pos: BiHashMap,
    pub new_to_current_pos: BiHashMap,
    pub result_trace: ExecutionTrace,
}
impl DataKeeper {
    pub open spec fn rlen(&self) -> nat { self.result_trace.len@ }
    // proved in unit par_builder (DataKeeper::result_trace_next_pos)
    #[verifier::external_body]
    pub fn result_trace_next_pos(&self) -> (r: TracePos)
        requires self.rlen() <= u32::MAX
        ensures r.0 == self.rlen()
    { unimplemented!() }
    pub fn prev_slider(&self) -> (r: &TraceSlider) ensures *r == self.prev_ctx.slider { &self.prev_ctx.slider }
    pub fn current_slider(&self) -> (r: &TraceSlider) ensures *r == self.current_ctx.slider { &self.current_ctx.slider }
}

//@ lift crates/air-lib/trace-handler/src/merger/position_mapping.rs :: enum PreparationScheme
//@ derive Copy Clone
//@ end

pub open spec fn uses_prev(s: PreparationScheme) -> bool { s is Previous || s is Both }
pub open spec fn uses_current(s: PreparationScheme) -> bool { s is Current || s is Both }

//@ lift crates/air-lib/trace-handler/src/merger/position_mapping.rs :: fn prepare_positions_mapping
//@ props C09 C01
//@ spec
    requires
        old(data_keeper).rlen() <= u32::MAX,
        // "it's safe to sub 1 from positions here iff scheme was set correctly": the slider a state was taken from has advanced
        uses_prev(scheme) ==> old(data_keeper).prev_ctx.slider.pos() >= 1,
        uses_current(scheme) ==> old(data_keeper).current_ctx.slider.pos() >= 1,
    ensures
        // C09: the state about to be pushed at `new_pos` is linked to the state just consumed from THAT trace, and to nothing else
        uses_prev(scheme) ==> final(data_keeper).new_to_prev_pos@.contains_pair(
            old(data_keeper).rlen() as u32, (old(data_keeper).prev_ctx.slider.pos() - 1) as u32),
        uses_current(scheme) ==> final(data_keeper).new_to_current_pos@.contains_pair(
            old(data_keeper).rlen() as u32, (old(data_keeper).current_ctx.slider.pos() - 1) as u32),
        !uses_prev(scheme) ==> final(data_keeper).new_to_prev_pos@ == old(data_keeper).new_to_prev_pos@,
        !uses_current(scheme) ==> final(data_keeper).new_to_current_pos@ == old(data_keeper).new_to_current_pos@,
        // frame: sliders and the result trace are not touched
        final(data_keeper).prev_ctx == old(data_keeper).prev_ctx, final(data_keeper).current_ctx == old(data_keeper).current_ctx,
        final(data_keeper).result_trace == old(data_keeper).result_trace,
        // entries of other positions survive unless they pointed at the same source position
        forall|l: u32, r: u32| l != old(data_keeper).rlen() as u32 && r != (old(data_keeper).prev_ctx.slider.pos() - 1) as u32
            && old(data_keeper).new_to_prev_pos@.contains_pair(l, r) ==> #[trigger] final(data_keeper).new_to_prev_pos@.contains_pair(l, r),
        forall|l: u32, r: u32| l != old(data_keeper).rlen() as u32 && r != (old(data_keeper).current_ctx.slider.pos() - 1) as u32
            && old(data_keeper).new_to_current_pos@.contains_pair(l, r) ==> #[trigger] final(data_keeper).new_to_current_pos@.contains_pair(l, r),
//@ end

} // verus!
fn main() {}
