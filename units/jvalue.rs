#![feature(allocator_api)]
#![feature(const_destruct)]
//@ unit jvalue
// crates/air-lib/interpreter-value (C26): the crate's OWN code -- a thin structural layer over serde's data model and
// serde_json::Number -- against the JSON value (`Json`, `jview`) a `JValue` stands for:
//   mod.rs accessors, partial_eq.rs scalar comparisons, index.rs, from.rs scalar conversions,
//   ser.rs `Serialize for JValue` (emits exactly the serde data-model rendering `ser_data` of the value),
//   de.rs `ValueVisitor` / `KeyClassifier` (each callback builds the JSON value `json_of` the datum stands for),
//   and the round trip over the two contracts: reading back `ser_data(v)` gives `jview(v)`.
// The TEXT layer (serde_json printer/parser, ryu/itoa, escaping) is not here: native job C26.roundtrip (bounded).
//
// Trusted part of this file:
//  * serde_json::Number: opaque, one uninterpreted `kind()` = PosInt(u64) | NegInt(i64) | Float(f64) (number.rs without `arbitrary_precision`);
//    as_i64/as_u64/as_f64/is_* are the functions of it that serde_json implements; axioms: a NegInt is negative, a Float is finite,
//    `From<u64>`/`From<i64>`/`from_f64` build the kinds serde_json builds; `Number::serialize` emits serialize_u64 / _i64 / _f64 by kind.
//    f64 values are opaque (`f64_is_finite`, `u64_as_f64`, .. uninterpreted).
//  * crate::Map<K, V> (= BTreeMap, feature preserve_order off): a shim struct whose ghost content is the entry list in iteration
//    order; `mview` = the entries folded into a map (a later duplicate would win); `new`, `len`, `get::<str>`, `insert`, `&map` iteration
//    and `Rc::from(map)` have the BTreeMap contracts over it. The real `enum JValue` and `type JsonString` are LIFTED, not shimmed.
//  * serde shim (traits `Serializer`, `SerializeMap`, `Serialize`, `Deserializer`, `Visitor`, `SeqAccess`, `MapAccess`, `DeserializeSeed`,
//    `Deserialize`): same methods as serde 1.0 for the part the crate uses, each with the ghost contract "this call emits / consumes this
//    datum" (`Data` = serde data model as a tree; `rendered(ok)` = the datum an `S::Ok` certifies). serde's traits are mutually recursive
//    (Serialize <-> Serializer, Deserialize <-> Deserializer <-> Visitor), which Verus rejects as a definition cycle: the callbacks a
//    serializer/deserializer makes on NESTED values are therefore bounded by spec-only traits (`HasData`, `FromData`, `SeedData`) whose
//    contract is the one being proved here for JValue -- an induction on the (finite) depth of the value that Verus does not check.
//    `visit_some` lives in a separate trait `VisitorOption` for the same reason. Default `visit_*` bodies = serde's "invalid type" error.
//  * serde's blanket `Serialize for Rc<[T]>`: a seq of the elements in order.
//  * std facts vstd lacks: `Option::map_or`, `Rc<[T]>: From<Vec<T>>` (same elements), `Rc<T>: From<T>`, `Rc<str>: From<String>`, `mem::replace`;
//    `json_string_from_str` stands for `<Rc<str> as From<&str>>::from` (Verus rejects an assume_specification for it, as in unit lambda).
//  * serde_json::Value / serde_json::Map<String, Value>: shim enum / entry list (only `From<&serde_json::Value>` uses them).
// Rewrites (15, all local):
//    4x `|i| i == other` / `|i| &**i == other` -> the annotated closure form (a closure's result is unknown to Verus otherwise);
//    3x `, JValue::Number)` -> an annotated closure (Verus rejects a datatype constructor used as a function value);
//    4x `x.into()` for `&str -> Rc<str>` -> `json_string_from_str(x)`;
//    serialize: `in &**m` -> `in it: &**m` (names the loop iterator for the invariant), `::serde::Serializer` -> `serde::Serializer` (the shim module);
//    From<&serde_json::Value>: its two iterator chains -> the stubs `jvalues_of_array` / `jmap_of_object` whose contracts are ASSUMED (see there).
// `tri!` is lifted as the crate defines it (lib.rs) and expanded by rustc: `match e { Ok(v) => v, Err(e) => return Err(e) }`, no `From` conversion.
// NOT lifted (native job C26.roundtrip covers them inside its bound): `JValue::deserialize` (nested items; its one statement is repeated by hand
//    below as a composition check, not an obligation), macro-generated impls (`from_integer!`, `partialeq_numeric!`: Verus ignores macro-expanded
//    items), `From<()>` (pattern parameter), `From<Option<T>>`, `From<Cow<str>>`, `From<Vec<T>>` / `From<&[T]>` / `FromIterator` / `From<HashMap>` /
//    `array_from_iter` / `object_from_pairs` (iterator chains), `Index for String` (`self[..]`), `pointer` / `parse_index` (string code),
//    `Display` / `Debug` (fmt), `string` / `array` / `object` constructors (`impl Into<..>` arguments), the derived `Clone` / `PartialEq`.
// Floats: Verus gives `==` and `as` on f32/f64 no meaning, so eq_f32 / eq_f64 / From<f32> only get "not a number => false" / "null or float".
use vstd::prelude::*;
use vstd::std_specs::iter::IteratorSpec;
verus! {

pub type Rc<T> = std::rc::Rc<T>;
use core::result;
use core::mem;

// ---------------------------------------------------------------- shim: serde_json::Number (trusted)
pub mod serde_json {
    use vstd::prelude::*;
    #[verifier::external_body]
    pub struct Number { _opaque: () }
    pub enum NumKind { U(u64), I(i64), F(f64) }
    // serde_json::Value and serde_json::Map<String, Value> (a BTreeMap; ghost content: the entries in iteration order)
    pub struct SMap { pub entries: Vec<(String, Value)> }
    pub enum Value { Null, Bool(bool), Number(Number), String(String), Array(Vec<Value>), Object(SMap) }
    pub uninterp spec fn f64_is_finite(f: f64) -> bool;
    pub uninterp spec fn u64_as_f64(u: u64) -> f64;     // `u as f64`
    pub uninterp spec fn i64_as_f64(i: i64) -> f64;     // `i as f64`
    pub uninterp spec fn from_u64_spec(u: u64) -> Number;
    pub uninterp spec fn from_i64_spec(i: i64) -> Number;
    pub uninterp spec fn from_f64_spec(f: f64) -> Option<Number>;
    pub open spec fn kind_as_i64(k: NumKind) -> Option<i64> {
        match k { NumKind::U(u) => if u <= i64::MAX as u64 { Some(u as i64) } else { None }, NumKind::I(i) => Some(i), NumKind::F(_) => None }
    }
    pub open spec fn kind_as_u64(k: NumKind) -> Option<u64> {
        match k { NumKind::U(u) => Some(u), _ => None }
    }
    pub open spec fn kind_as_f64(k: NumKind) -> Option<f64> {
        match k { NumKind::U(u) => Some(u64_as_f64(u)), NumKind::I(i) => Some(i64_as_f64(i)), NumKind::F(f) => Some(f) }
    }
    impl Number {
        pub uninterp spec fn kind(&self) -> NumKind;
        #[verifier::external_body]
        pub fn as_u64(&self) -> (r: Option<u64>) ensures r == kind_as_u64(self.kind()) { unimplemented!() }
        #[verifier::external_body]
        pub fn as_i64(&self) -> (r: Option<i64>) ensures r == kind_as_i64(self.kind()) { unimplemented!() }
        #[verifier::external_body]
        pub fn as_f64(&self) -> (r: Option<f64>) ensures r == kind_as_f64(self.kind()) { unimplemented!() }
        #[verifier::external_body]
        pub fn is_u64(&self) -> (r: bool) ensures r == kind_as_u64(self.kind()) is Some { unimplemented!() }
        #[verifier::external_body]
        pub fn is_i64(&self) -> (r: bool) ensures r == kind_as_i64(self.kind()) is Some { unimplemented!() }
        #[verifier::external_body]
        pub fn is_f64(&self) -> (r: bool) ensures r == self.kind() is F { unimplemented!() }
        #[verifier::external_body]
        pub fn from_f64(f: f64) -> (r: Option<Number>) ensures r == from_f64_spec(f) { unimplemented!() }
    }
    impl Clone for Number {
        #[verifier::external_body]
        fn clone(&self) -> (r: Self) ensures r == *self { unimplemented!() }
    }
    impl From<u64> for Number { #[verifier::external_body] fn from(u: u64) -> Number { unimplemented!() } }
    impl vstd::std_specs::convert::FromSpecImpl<u64> for Number {
        open spec fn obeys_from_spec() -> bool { true }
        open spec fn from_spec(u: u64) -> Number { from_u64_spec(u) }
    }
    impl From<i64> for Number { #[verifier::external_body] fn from(i: i64) -> Number { unimplemented!() } }
    impl vstd::std_specs::convert::FromSpecImpl<i64> for Number {
        open spec fn obeys_from_spec() -> bool { true }
        open spec fn from_spec(i: i64) -> Number { from_i64_spec(i) }
    }
    // type invariant of serde_json::Number: NegInt holds negatives only (`From<i64>` puts the others into PosInt), Float is finite (`from_f64`)
    #[verifier::external_body]
    pub broadcast proof fn axiom_number(n: Number)
        ensures
            #[trigger] n.kind() matches NumKind::I(i) ==> i < 0,
            n.kind() matches NumKind::F(f) ==> f64_is_finite(f),
    {}
    #[verifier::external_body]
    pub broadcast proof fn axiom_from_u64(u: u64) ensures (#[trigger] from_u64_spec(u)).kind() == NumKind::U(u) {}
    #[verifier::external_body]
    pub broadcast proof fn axiom_from_i64(i: i64)
        ensures (#[trigger] from_i64_spec(i)).kind() == (if i >= 0 { NumKind::U(i as u64) } else { NumKind::I(i) }) {}
    #[verifier::external_body]
    pub broadcast proof fn axiom_from_f64(f: f64)
        ensures (#[trigger] from_f64_spec(f)) is Some <==> f64_is_finite(f), from_f64_spec(f) matches Some(n) ==> n.kind() == NumKind::F(f) {}
}
pub use serde_json::{Number, NumKind, f64_is_finite, kind_as_i64, kind_as_u64, kind_as_f64, from_u64_spec, from_i64_spec, from_f64_spec};
broadcast use {serde_json::axiom_number, serde_json::axiom_from_u64, serde_json::axiom_from_i64, serde_json::axiom_from_f64, ax::axiom_json_string_of};

// ---------------------------------------------------------------- std facts vstd lacks (trusted)
#[verifier::allow(undeclared_external_trait)]
pub assume_specification<T, U, F> [Option::<T>::map_or] (o: Option<T>, default: U, f: F) -> (r: U)
    where F: FnOnce(T) -> U + core::marker::Destruct, U: core::marker::Destruct
    requires o matches Some(t) ==> f.requires((t,))
    ensures o is None ==> r == default, o matches Some(t) ==> f.ensures((t,), r);
pub assume_specification<T, A: core::alloc::Allocator> [<std::rc::Rc<[T], A> as From<Vec<T, A>>>::from] (v: Vec<T, A>) -> (r: std::rc::Rc<[T], A>)
    ensures r@ == v@;
pub assume_specification<T> [<std::rc::Rc<T> as From<T>>::from] (v: T) -> (r: std::rc::Rc<T>)
    ensures *r == v, r == Rc::new(v);
pub assume_specification [<std::rc::Rc<str> as From<String>>::from] (s: String) -> (r: std::rc::Rc<str>)
    ensures r@ == s@;
pub assume_specification<T> [core::mem::replace] (dest: &mut T, src: T) -> (r: T)
    ensures *final(dest) == src, r == *old(dest);
// `<Rc<str> as From<&str>>::from`: Verus rejects an assume_specification for it (see unit lambda)
pub mod ax {
    use vstd::prelude::*;
    pub uninterp spec fn json_string_of(s: &str) -> super::JsonString;
    #[verifier::external_body]
    pub broadcast proof fn axiom_json_string_of(s: &str) ensures (#[trigger] json_string_of(s))@ == s@ {}
}
pub use ax::json_string_of;
#[verifier::external_body]
pub fn json_string_from_str(s: &str) -> (r: JsonString) ensures r == json_string_of(s) { unimplemented!() }

// ---------------------------------------------------------------- shim: crate::Map (trusted)
// ghost content: the entries in iteration order
pub struct Map<K, V> { pub entries: Vec<(K, V)> }
// the entries as a map: a later entry with the same key wins (what inserting them one after the other gives)
pub open spec fn fold_entries<V>(s: Seq<(Seq<char>, V)>) -> vstd::map::Map<Seq<char>, V> decreases s.len() {
    if s.len() == 0 { vstd::map::Map::empty() } else { fold_entries(s.drop_last()).insert(s.last().0, s.last().1) }
}
impl<K, V> Map<K, V> {
    pub open spec fn ents(&self) -> Seq<(K, V)> { self.entries@ }
    #[verifier::external_body]
    pub fn new() -> (r: Self) ensures r.ents() == Seq::<(K, V)>::empty() { unimplemented!() }
    #[verifier::external_body]
    pub fn len(&self) -> (r: usize) ensures r == self.ents().len() { unimplemented!() }
}
impl<V> Map<JsonString, V> {
    pub open spec fn kv_seq(&self) -> Seq<(Seq<char>, V)> { Seq::new(self.ents().len(), |i: int| (self.ents()[i].0@, self.ents()[i].1)) }
    pub open spec fn mview(&self) -> vstd::map::Map<Seq<char>, V> { fold_entries(self.kv_seq()) }
    // BTreeMap::<Rc<str>, V>::get::<str>
    #[verifier::external_body]
    pub fn get(&self, k: &str) -> (r: Option<&V>)
        ensures r == (if self.mview().dom().contains(k@) { Some(&self.mview()[k@]) } else { None::<&V> })
    { unimplemented!() }
    #[verifier::external_body]
    pub fn insert(&mut self, k: JsonString, v: V) -> (r: Option<V>)
        ensures final(self).mview() == old(self).mview().insert(k@, v)
    { unimplemented!() }
}
#[verifier::external_body]
#[verifier::reject_recursive_types(K)]
#[verifier::reject_recursive_types(V)]
pub struct MapIter<'a, K, V> { _p: core::marker::PhantomData<&'a (K, V)> }
impl<'a, K, V> Iterator for MapIter<'a, K, V> {
    type Item = (&'a K, &'a V);
    #[verifier::external_body]
    fn next(&mut self) -> (r: Option<(&'a K, &'a V)>) { unimplemented!() }
}
impl<'a, K, V> vstd::std_specs::iter::IteratorSpecImpl for MapIter<'a, K, V> {
    open spec fn obeys_prophetic_iter_laws(&self) -> bool { true }
    #[verifier::prophetic]
    uninterp spec fn remaining(&self) -> Seq<(&'a K, &'a V)>;
    #[verifier::prophetic]
    open spec fn will_return_none(&self) -> bool { true }
    uninterp spec fn decrease(&self) -> Option<nat>;
    uninterp spec fn peek(&self, index: int) -> Option<(&'a K, &'a V)>;
}
impl<'a, K, V> IntoIterator for &'a Map<K, V> {
    type Item = (&'a K, &'a V);
    type IntoIter = MapIter<'a, K, V>;
    // `(&map).into_iter()`: every entry once, in iteration order
    #[verifier::external_body]
    fn into_iter(self) -> (r: MapIter<'a, K, V>)
        ensures r.decrease() is Some,
            r.remaining().len() == self.ents().len(),
            forall|i: int| 0 <= i < self.ents().len() ==> *(#[trigger] r.remaining()[i]).0 == self.ents()[i].0 && *r.remaining()[i].1 == self.ents()[i].1,
    { unimplemented!() }
}

//@ lift crates/air-lib/interpreter-value/src/lib.rs :: type JsonString
//@ end

//@ lift crates/air-lib/interpreter-value/src/value/mod.rs :: enum JValue
//@ derive
//@ end

// ---------------------------------------------------------------- the JSON value a JValue stands for (from the property statement)
pub enum Json { Null, Bool(bool), Number(NumKind), String(Seq<char>), Array(Seq<Json>), Object(vstd::map::Map<Seq<char>, Json>) }
pub open spec fn jview(v: JValue) -> Json decreases v {
    match v {
        JValue::Null => Json::Null,
        JValue::Bool(b) => Json::Bool(b),
        JValue::Number(n) => Json::Number(n.kind()),
        JValue::String(s) => Json::String(s@),
        JValue::Array(a) => Json::Array(Seq::new(a@.len(), |i: int| if 0 <= i < a@.len() { jview(a@[i]) } else { Json::Null })),
        JValue::Object(m) => Json::Object(fold_entries(jview_entries(&*m))),
    }
}
pub open spec fn jview_entries(m: &Map<JsonString, JValue>) -> Seq<(Seq<char>, Json)> decreases m {
    Seq::new(m.ents().len(), |i: int| if 0 <= i < m.ents().len() { (m.ents()[i].0@, jview(m.ents()[i].1)) } else { (Seq::<char>::empty(), Json::Null) })
}

// ================================================================ mod.rs: accessors
impl JValue {
//@ lift crates/air-lib/interpreter-value/src/value/mod.rs :: impl JValue :: fn as_bool
//@ props C26
//@ ret r
//@ spec
        ensures r == (match jview(*self) { Json::Bool(b) => Some(b), _ => None::<bool> })
//@ end
//@ lift crates/air-lib/interpreter-value/src/value/mod.rs :: impl JValue :: fn is_boolean
//@ props C26
//@ ret r
//@ spec
        ensures r == jview(*self) is Bool
//@ end
//@ lift crates/air-lib/interpreter-value/src/value/mod.rs :: impl JValue :: fn as_null
//@ props C26
//@ ret r
//@ spec
        ensures r is Some <==> jview(*self) is Null
//@ end
//@ lift crates/air-lib/interpreter-value/src/value/mod.rs :: impl JValue :: fn is_null
//@ props C26
//@ ret r
//@ spec
        ensures r == jview(*self) is Null
//@ end
//@ lift crates/air-lib/interpreter-value/src/value/mod.rs :: impl JValue :: fn as_i64
//@ props C26
//@ ret r
//@ spec
        ensures r == (match jview(*self) { Json::Number(k) => kind_as_i64(k), _ => None::<i64> })
//@ end
//@ lift crates/air-lib/interpreter-value/src/value/mod.rs :: impl JValue :: fn as_u64
//@ props C26
//@ ret r
//@ spec
        ensures r == (match jview(*self) { Json::Number(k) => kind_as_u64(k), _ => None::<u64> })
//@ end
//@ lift crates/air-lib/interpreter-value/src/value/mod.rs :: impl JValue :: fn as_f64
//@ props C26
//@ ret r
//@ spec
        ensures r == (match jview(*self) { Json::Number(k) => kind_as_f64(k), _ => None::<f64> })
//@ end
//@ lift crates/air-lib/interpreter-value/src/value/mod.rs :: impl JValue :: fn is_i64
//@ props C26
//@ ret r
//@ spec
        ensures r == (jview(*self) matches Json::Number(k) && kind_as_i64(k) is Some)
//@ end
//@ lift crates/air-lib/interpreter-value/src/value/mod.rs :: impl JValue :: fn is_u64
//@ props C26
//@ ret r
//@ spec
        ensures r == (jview(*self) matches Json::Number(k) && kind_as_u64(k) is Some)
//@ end
//@ lift crates/air-lib/interpreter-value/src/value/mod.rs :: impl JValue :: fn is_f64
//@ props C26
//@ ret r
//@ spec
        ensures r == (jview(*self) matches Json::Number(k) && k is F)
//@ end
//@ lift crates/air-lib/interpreter-value/src/value/mod.rs :: impl JValue :: fn is_number
//@ props C26
//@ ret r
//@ spec
        ensures r == jview(*self) is Number
//@ end
//@ lift crates/air-lib/interpreter-value/src/value/mod.rs :: impl JValue :: fn as_number
//@ props C26
//@ ret r
//@ spec
        ensures r == (match *self { JValue::Number(n) => Some(&n), _ => None::<&Number> })
//@ end
//@ lift crates/air-lib/interpreter-value/src/value/mod.rs :: impl JValue :: fn as_str
//@ props C26
//@ ret r
//@ spec
        ensures r == (match *self { JValue::String(s) => Some(&s), _ => None::<&JsonString> }),
            r is Some <==> jview(*self) is String,
            r matches Some(s) ==> jview(*self) == Json::String(s@),
//@ end
//@ lift crates/air-lib/interpreter-value/src/value/mod.rs :: impl JValue :: fn is_string
//@ props C26
//@ ret r
//@ spec
        ensures r == jview(*self) is String
//@ end
//@ lift crates/air-lib/interpreter-value/src/value/mod.rs :: impl JValue :: fn as_array
//@ props C26
//@ ret r
//@ spec
        ensures r is Some <==> jview(*self) is Array,
            r matches Some(s) ==> (*self matches JValue::Array(a) && s@ == a@),
//@ end
//@ lift crates/air-lib/interpreter-value/src/value/mod.rs :: impl JValue :: fn is_array
//@ props C26
//@ ret r
//@ spec
        ensures r == jview(*self) is Array
//@ end
//@ lift crates/air-lib/interpreter-value/src/value/mod.rs :: impl JValue :: fn as_object
//@ props C26
//@ ret r
//@ spec
        ensures r is Some <==> jview(*self) is Object,
            r matches Some(m) ==> (*self matches JValue::Object(o) && *m == *o),
//@ end
//@ lift crates/air-lib/interpreter-value/src/value/mod.rs :: impl JValue :: fn is_object
//@ props C26
//@ ret r
//@ spec
        ensures r == jview(*self) is Object
//@ end
//@ lift crates/air-lib/interpreter-value/src/value/mod.rs :: impl JValue :: fn take
//@ props C26
//@ ret r
//@ spec
        ensures r == *old(self), *final(self) == JValue::Null
//@ end
//@ lift crates/air-lib/interpreter-value/src/value/mod.rs :: impl JValue :: fn get
//@ props C26
//@ ret r
//@ spec
        ensures r == (match index.idx(*self) { Some(x) => Some(&x), None => None::<&JValue> })
//@ end
}
impl Default for JValue {
//@ lift crates/air-lib/interpreter-value/src/value/mod.rs :: impl Default for JValue :: fn default
//@ props C26
//@ ret r
//@ no-canary
//@ spec
        ensures r == JValue::Null
//@ end
}

// ================================================================ partial_eq.rs: comparing a value with a scalar
// `JValue == 5i64` iff the value is a JSON number whose i64 reading is 5, etc. (the macro-generated `PartialEq<$ty>` impls
// forward to these functions with `*other as _`; macro output is not lifted)
//@ lift crates/air-lib/interpreter-value/src/value/partial_eq.rs :: fn eq_i64
//@ props C26
//@ ret r
//@ rewrite 1 "|i| i == other" => "|i: i64| -> (o: bool) ensures o == (i == other) { i == other }"
//@ spec
    ensures r == (jview(*value) matches Json::Number(k) && kind_as_i64(k) == Some(other))
//@ end
//@ lift crates/air-lib/interpreter-value/src/value/partial_eq.rs :: fn eq_u64
//@ props C26
//@ ret r
//@ rewrite 1 "|i| i == other" => "|i: u64| -> (o: bool) ensures o == (i == other) { i == other }"
//@ spec
    ensures r == (jview(*value) matches Json::Number(k) && kind_as_u64(k) == Some(other))
//@ end
//@ lift crates/air-lib/interpreter-value/src/value/partial_eq.rs :: fn eq_bool
//@ props C26
//@ ret r
//@ rewrite 1 "|i| i == other" => "|i: bool| -> (o: bool) ensures o == (i == other) { i == other }"
//@ spec
    ensures r == (jview(*value) == Json::Bool(other))
//@ end
// floats are opaque here (Verus gives `==` on f64 no meaning): only "not a number => not equal" is stated
//@ lift crates/air-lib/interpreter-value/src/value/partial_eq.rs :: fn eq_f64
//@ props C26
//@ ret r
//@ spec
    ensures !(jview(*value) is Number) ==> !r
//@ end
//@ lift crates/air-lib/interpreter-value/src/value/partial_eq.rs :: fn eq_f32
//@ props C26
//@ ret r
//@ spec
    ensures !(jview(*value) is Number) ==> !r
//@ end
//@ lift crates/air-lib/interpreter-value/src/value/partial_eq.rs :: fn eq_str
//@ props C26
//@ ret r
//@ rewrite 1 "|i| &**i == other" => "|i: &JsonString| -> (o: bool) ensures o == (i@ == other@) { &**i == other }"
//@ spec
    ensures r == (jview(*value) == Json::String(other@))
//@ end

// ================================================================ index.rs
// arrays by position, objects by key, everything else None
pub open spec fn index_by_pos(v: JValue, i: usize) -> Option<JValue> {
    match v { JValue::Array(a) => if (i as int) < a@.len() { Some(a@[i as int]) } else { None }, _ => None }
}
pub open spec fn index_by_key(v: JValue, k: Seq<char>) -> Option<JValue> {
    match v { JValue::Object(m) => if m.mview().dom().contains(k) { Some(m.mview()[k]) } else { None }, _ => None }
}
// real: `pub trait Index: private::Sealed { fn index_into<'v>(&self, v: &'v JValue) -> Option<&'v JValue>; }`
pub trait Index {
    spec fn idx(&self, v: JValue) -> Option<JValue>;
    fn index_into<'v>(&self, v: &'v JValue) -> (r: Option<&'v JValue>)
        ensures r == (match self.idx(*v) { Some(x) => Some(&x), None => None::<&JValue> });
}
impl Index for usize {
    open spec fn idx(&self, v: JValue) -> Option<JValue> { index_by_pos(v, *self) }
//@ lift crates/air-lib/interpreter-value/src/value/index.rs :: impl Index for usize :: fn index_into
//@ props C26
//@ name usize::index_into
//@ end
}
impl Index for str {
    open spec fn idx(&self, v: JValue) -> Option<JValue> { index_by_key(v, self@) }
//@ lift crates/air-lib/interpreter-value/src/value/index.rs :: impl Index for str :: fn index_into
//@ props C26
//@ name str::index_into
//@ end
}
impl<T> Index for &T
where
    T: ?Sized + Index,
{
    open spec fn idx(&self, v: JValue) -> Option<JValue> { (**self).idx(v) }
//@ lift crates/air-lib/interpreter-value/src/value/index.rs :: impl<T> Index for &T where T: ?Sized + Index, :: fn index_into
//@ props C26
//@ name ref::index_into
//@ end
}

impl<I> core::ops::Index<I> for JValue
where
    I: Index,
{
    type Output = JValue;
//@ lift crates/air-lib/interpreter-value/src/value/index.rs :: impl<I> ops::Index<I> for JValue where I: Index, :: fn index
//@ props C26
//@ name JValue::index
//@ ret r
//@ no-canary
//@ spec
        ensures *r == (match index.idx(*self) { Some(x) => x, None => JValue::Null })
//@ end
}

// ================================================================ from.rs: scalar conversions
impl From<bool> for JValue {
//@ lift crates/air-lib/interpreter-value/src/value/from.rs :: impl From<bool> for JValue :: fn from
//@ props C26
//@ name JValue::from_bool
//@ no-canary
//@ end
}
impl vstd::std_specs::convert::FromSpecImpl<bool> for JValue {
    open spec fn obeys_from_spec() -> bool { true }
    open spec fn from_spec(f: bool) -> Self { JValue::Bool(f) }
}
// a float becomes a JSON number when it is finite, null otherwise
pub open spec fn jvalue_of_f64(f: f64) -> JValue {
    match from_f64_spec(f) { Some(n) => JValue::Number(n), None => JValue::Null }
}
impl From<f64> for JValue {
//@ lift crates/air-lib/interpreter-value/src/value/from.rs :: impl From<f64> for JValue :: fn from
//@ props C26
//@ name JValue::from_f64
//@ no-canary
//@ rewrite 1 ", JValue::Number)" => ", |n: Number| -> (o: JValue) ensures o == JValue::Number(n) { JValue::Number(n) })"
//@ end
}
impl vstd::std_specs::convert::FromSpecImpl<f64> for JValue {
    open spec fn obeys_from_spec() -> bool { true }
    open spec fn from_spec(f: f64) -> Self { jvalue_of_f64(f) }
}
impl From<f32> for JValue {
//@ lift crates/air-lib/interpreter-value/src/value/from.rs :: impl From<f32> for JValue :: fn from
//@ props C26
//@ name JValue::from_f32
//@ ret r
//@ no-canary
//@ rewrite 1 ", JValue::Number)" => ", |n: Number| -> (o: JValue) ensures o == JValue::Number(n) { JValue::Number(n) })"
//@ spec
        ensures jview(r) is Null || (jview(r) matches Json::Number(k) && k is F)
//@ end
}
// (`f as f64` has no meaning in Verus: the conversion is not a function of `f` here; the contract is the `ensures` above)
impl vstd::std_specs::convert::FromSpecImpl<f32> for JValue {
    open spec fn obeys_from_spec() -> bool { false }
    open spec fn from_spec(f: f32) -> Self { JValue::Null }
}
impl From<String> for JValue {
//@ lift crates/air-lib/interpreter-value/src/value/from.rs :: impl From<String> for JValue :: fn from
//@ props C26
//@ name JValue::from_string
//@ ret r
//@ no-canary
//@ spec
        ensures jview(r) == Json::String(f@)
//@ end
}
impl vstd::std_specs::convert::FromSpecImpl<String> for JValue {
    open spec fn obeys_from_spec() -> bool { false }
    open spec fn from_spec(f: String) -> Self { JValue::Null }
}
impl From<JsonString> for JValue {
//@ lift crates/air-lib/interpreter-value/src/value/from.rs :: impl From<JsonString> for JValue :: fn from
//@ props C26
//@ name JValue::from_json_string
//@ no-canary
//@ end
}
impl vstd::std_specs::convert::FromSpecImpl<JsonString> for JValue {
    open spec fn obeys_from_spec() -> bool { true }
    open spec fn from_spec(f: JsonString) -> Self { JValue::String(f) }
}
impl From<&str> for JValue {
//@ lift crates/air-lib/interpreter-value/src/value/from.rs :: impl From<&str> for JValue :: fn from
//@ props C26
//@ name JValue::from_str
//@ no-canary
//@ rewrite 1 "f.into()" => "json_string_from_str(f)"
//@ end
}
impl<'a> vstd::std_specs::convert::FromSpecImpl<&'a str> for JValue {
    open spec fn obeys_from_spec() -> bool { true }
    open spec fn from_spec(f: &'a str) -> Self { JValue::String(json_string_of(f)) }     // jview: Json::String(f@)
}
impl From<Number> for JValue {
//@ lift crates/air-lib/interpreter-value/src/value/from.rs :: impl From<Number> for JValue :: fn from
//@ props C26
//@ name JValue::from_number
//@ no-canary
//@ end
}
impl vstd::std_specs::convert::FromSpecImpl<Number> for JValue {
    open spec fn obeys_from_spec() -> bool { true }
    open spec fn from_spec(f: Number) -> Self { JValue::Number(f) }
}
impl From<Map<JsonString, JValue>> for JValue {
//@ lift crates/air-lib/interpreter-value/src/value/from.rs :: impl From<Map<JsonString, JValue>> for JValue :: fn from
//@ props C26
//@ name JValue::from_map
//@ no-canary
//@ end
}
impl vstd::std_specs::convert::FromSpecImpl<Map<JsonString, JValue>> for JValue {
    open spec fn obeys_from_spec() -> bool { true }
    open spec fn from_spec(f: Map<JsonString, JValue>) -> Self { JValue::Object(Rc::new(f)) }
}

// ---------------------------------------------------------------- From<&serde_json::Value>
// the JSON value a serde_json::Value stands for
pub open spec fn vjson(v: serde_json::Value) -> Json decreases v {
    match v {
        serde_json::Value::Null => Json::Null,
        serde_json::Value::Bool(b) => Json::Bool(b),
        serde_json::Value::Number(n) => Json::Number(n.kind()),
        serde_json::Value::String(s) => Json::String(s@),
        serde_json::Value::Array(a) => Json::Array(Seq::new(a@.len(), |i: int| if 0 <= i < a@.len() { vjson(a@[i]) } else { Json::Null })),
        serde_json::Value::Object(o) => Json::Object(fold_entries(vjson_entries(&o))),
    }
}
pub open spec fn vjson_entries(o: &serde_json::SMap) -> Seq<(Seq<char>, Json)> decreases o {
    Seq::new(o.entries@.len(), |i: int| if 0 <= i < o.entries@.len() { (o.entries@[i].0@, vjson(o.entries@[i].1)) } else { (Seq::<char>::empty(), Json::Null) })
}
// The two iterator chains of `From<&serde_json::Value>` are outside Verus (declared rewrites below): they are replaced by these stubs, whose
// contracts ASSUME what the chains do -- this very conversion applied to every element / entry, in order (structural induction + iterator
// semantics, not checked here; native job C26.roundtrip checks them inside its bound).
// `a.iter().map(Into::into).collect()`
#[verifier::external_body]
pub fn jvalues_of_array(a: &Vec<serde_json::Value>) -> (r: Rc<[JValue]>)
    ensures r@.len() == a@.len(), forall|i: int| 0 <= i < a@.len() ==> jview(#[trigger] r@[i]) == vjson(a@[i])
{ unimplemented!() }
// `Map::from_iter(o.into_iter().map(|(k, v)| (k.as_str().into(), v.into())))`
#[verifier::external_body]
pub fn jmap_of_object(o: &serde_json::SMap) -> (r: Map<JsonString, JValue>)
    ensures mjson(&r) == fold_entries(vjson_entries(o))
{ unimplemented!() }
pub proof fn lemma_from_value(value: &serde_json::Value)
    ensures
        value matches serde_json::Value::Array(a) ==> forall|x: Rc<[JValue]>| (x@.len() == a@.len() && forall|i: int| 0 <= i < a@.len() ==> jview(#[trigger] x@[i]) == vjson(a@[i]))
            ==> #[trigger] jview(JValue::Array(x)) == vjson(*value),
        value matches serde_json::Value::Object(o) ==> forall|rc: Rc<Map<JsonString, JValue>>| mjson(&*rc) == fold_entries(vjson_entries(&o))
            ==> #[trigger] jview(JValue::Object(rc)) == vjson(*value),
{
    match value {
        serde_json::Value::Array(a) => {
            assert forall|x: Rc<[JValue]>| (x@.len() == a@.len() && forall|i: int| 0 <= i < a@.len() ==> jview(#[trigger] x@[i]) == vjson(a@[i]))
                implies #[trigger] jview(JValue::Array(x)) == vjson(*value) by {
                assert(jview(JValue::Array(x))->Array_0 =~= vjson(*value)->Array_0);
            }
        },
        serde_json::Value::Object(o) => {
            assert forall|rc: Rc<Map<JsonString, JValue>>| mjson(&*rc) == fold_entries(vjson_entries(o))
                implies #[trigger] jview(JValue::Object(rc)) == vjson(*value) by { lemma_jobj(rc); }
        },
        _ => {},
    }
}
impl From<&serde_json::Value> for JValue {
//@ lift crates/air-lib/interpreter-value/src/value/from.rs :: impl From<&serde_json::Value> for JValue :: fn from
//@ props C26
//@ name JValue::from_value_ref
//@ ret r
//@ no-canary
//@ rewrite 1 "s.as_str().into()" => "json_string_from_str(s.as_str())"
//@ rewrite 1 "a.iter().map(Into::into).collect()" => "jvalues_of_array(a)"
//@ rewrite 1 "Map::from_iter(o.into_iter().map(|(k, v)| (k.as_str().into(), v.into())))" => "jmap_of_object(o)"
//@ before "match value {"
        proof { lemma_from_value(value); }
//@ spec
        ensures jview(r) == vjson(*value)
//@ end
}
impl From<serde_json::Value> for JValue {
//@ lift crates/air-lib/interpreter-value/src/value/from.rs :: impl From<serde_json::Value> for JValue :: fn from
//@ props C26
//@ name JValue::from_value
//@ ret r
//@ no-canary
//@ spec
        ensures jview(r) == vjson(value)
//@ end
}
impl vstd::std_specs::convert::FromSpecImpl<serde_json::Value> for JValue {
    open spec fn obeys_from_spec() -> bool { false }
    open spec fn from_spec(f: serde_json::Value) -> Self { JValue::Null }
}
impl<'a> vstd::std_specs::convert::FromSpecImpl<&'a serde_json::Value> for JValue {
    open spec fn obeys_from_spec() -> bool { false }
    open spec fn from_spec(f: &'a serde_json::Value) -> Self { JValue::Null }
}

// ================================================================ serde shim (trusted, see header)
// the serde data model, as a tree
pub enum Data { Unit, None, Some(Box<Data>), Bool(bool), U64(u64), I64(i64), F64(f64), Str(Seq<char>), Seq(Seq<Data>), Map(Seq<(Data, Data)>) }
// the datum an `S::Ok` certifies to have been rendered
pub uninterp spec fn rendered<T>(ok: &T) -> Data;
pub mod fmt {
    pub struct Error;
    pub type Result = core::result::Result<(), Error>;
    pub struct Formatter { _p: () }
    impl Formatter {
        #[verifier::external_body]
        pub fn write_str(&mut self, s: &str) -> Result { unimplemented!() }
    }
}
pub mod ser {
    use vstd::prelude::*;
    use super::Data;
    use super::rendered;
    // spec-only part of Serialize: the datum a value presents to a serializer
    pub trait HasData {
        spec fn data(&self) -> Data;
    }
    pub trait Serializer: Sized {
        type Ok;
        type Error;
        type SerializeMap: SerializeMap<Ok = Self::Ok, Error = Self::Error>;
        fn serialize_unit(self) -> (r: Result<Self::Ok, Self::Error>)
            ensures r matches Ok(o) ==> rendered(&o) == Data::Unit;
        fn serialize_none(self) -> (r: Result<Self::Ok, Self::Error>)
            ensures r matches Ok(o) ==> rendered(&o) == Data::None;
        fn serialize_bool(self, v: bool) -> (r: Result<Self::Ok, Self::Error>)
            ensures r matches Ok(o) ==> rendered(&o) == Data::Bool(v);
        fn serialize_u64(self, v: u64) -> (r: Result<Self::Ok, Self::Error>)
            ensures r matches Ok(o) ==> rendered(&o) == Data::U64(v);
        fn serialize_i64(self, v: i64) -> (r: Result<Self::Ok, Self::Error>)
            ensures r matches Ok(o) ==> rendered(&o) == Data::I64(v);
        fn serialize_f64(self, v: f64) -> (r: Result<Self::Ok, Self::Error>)
            ensures r matches Ok(o) ==> rendered(&o) == Data::F64(v);
        fn serialize_str(self, v: &str) -> (r: Result<Self::Ok, Self::Error>)
            ensures r matches Ok(o) ==> rendered(&o) == Data::Str(v@);
        fn serialize_map(self, len: Option<usize>) -> (r: Result<Self::SerializeMap, Self::Error>)
            ensures r matches Ok(m) ==> m.ents() == Seq::<(Data, Data)>::empty() && m.hint() == len;
    }
    pub trait SerializeMap: Sized {
        type Ok;
        type Error;
        spec fn ents(&self) -> Seq<(Data, Data)>;
        spec fn hint(&self) -> Option<usize>;
        fn serialize_entry<K: HasData + ?Sized, V: HasData + ?Sized>(&mut self, key: &K, value: &V) -> (r: Result<(), Self::Error>)
            ensures r is Ok ==> final(self).ents() == old(self).ents().push((key.data(), value.data())) && final(self).hint() == old(self).hint();
        // a length-prefixed format (msgpack) writes the hint: the rendering is a map of the entries only when the hint was right
        fn end(self) -> (r: Result<Self::Ok, Self::Error>)
            ensures r matches Ok(o) ==> ((self.hint() matches Some(n) ==> n == self.ents().len()) ==> rendered(&o) == Data::Map(self.ents()));
    }
    pub trait Serialize: HasData {
        fn serialize<S: Serializer>(&self, serializer: S) -> (r: Result<S::Ok, S::Error>)
            ensures r matches Ok(o) ==> rendered(&o) == self.data();
    }
}
pub mod de {
    use vstd::prelude::*;
    use super::Data;
    use super::fmt;
    // spec-only parts of Deserialize / DeserializeSeed: "value v is a reading of datum d"
    pub trait FromData: Sized { spec fn denotes(v: &Self, d: Data) -> bool; }
    pub trait SeedData: Sized { type Value; spec fn seed_reads(d: Data, v: &Self::Value) -> bool; }
    pub trait Error: Sized { fn invalid_type() -> Self; }
    pub trait Visitor<'de>: Sized {
        type Value;
        spec fn reads(d: Data, v: &Self::Value) -> bool;
        fn expecting(&self, formatter: &mut fmt::Formatter) -> fmt::Result;
        fn visit_bool<E: Error>(self, v: bool) -> (r: Result<Self::Value, E>) ensures r matches Ok(x) ==> Self::reads(Data::Bool(v), &x) { Err(E::invalid_type()) }
        fn visit_i64<E: Error>(self, v: i64) -> (r: Result<Self::Value, E>) ensures r matches Ok(x) ==> Self::reads(Data::I64(v), &x) { Err(E::invalid_type()) }
        fn visit_u64<E: Error>(self, v: u64) -> (r: Result<Self::Value, E>) ensures r matches Ok(x) ==> Self::reads(Data::U64(v), &x) { Err(E::invalid_type()) }
        fn visit_f64<E: Error>(self, v: f64) -> (r: Result<Self::Value, E>) ensures r matches Ok(x) ==> Self::reads(Data::F64(v), &x) { Err(E::invalid_type()) }
        fn visit_str<E: Error>(self, v: &str) -> (r: Result<Self::Value, E>) ensures r matches Ok(x) ==> Self::reads(Data::Str(v@), &x) { Err(E::invalid_type()) }
        fn visit_none<E: Error>(self) -> (r: Result<Self::Value, E>) ensures r matches Ok(x) ==> Self::reads(Data::None, &x) { Err(E::invalid_type()) }
        fn visit_unit<E: Error>(self) -> (r: Result<Self::Value, E>) ensures r matches Ok(x) ==> Self::reads(Data::Unit, &x) { Err(E::invalid_type()) }
        // (type and value parameter names as in the crate's impls: Verus mis-translates a trait contract whose generic is renamed by the impl)
        fn visit_seq<V: SeqAccess<'de>>(self, visitor: V) -> (r: Result<Self::Value, V::Error>)
            ensures r matches Ok(x) ==> Self::reads(Data::Seq(visitor.rest()), &x)
        { Err(V::Error::invalid_type()) }
        fn visit_map<V: MapAccess<'de>>(self, visitor: V) -> (r: Result<Self::Value, V::Error>)
            requires visitor.pending() is None
            ensures r matches Ok(x) ==> Self::reads(Data::Map(visitor.rest()), &x)
        { Err(V::Error::invalid_type()) }
    }
    pub trait SeqAccess<'de>: Sized {
        type Error: Error;
        spec fn rest(&self) -> Seq<Data>;       // the elements not yet handed out
        fn next_element<T: FromData>(&mut self) -> (r: Result<Option<T>, Self::Error>)
            ensures
                r matches Ok(None) ==> old(self).rest().len() == 0 && final(self).rest() == old(self).rest(),
                r matches Ok(Some(t)) ==> old(self).rest().len() > 0 && T::denotes(&t, old(self).rest()[0]) && final(self).rest() == old(self).rest().skip(1);
    }
    pub trait MapAccess<'de>: Sized {
        type Error: Error;
        spec fn rest(&self) -> Seq<(Data, Data)>;   // the entries whose key has not been handed out
        spec fn pending(&self) -> Option<Data>;     // the value of the key handed out last, if not yet read
        fn next_key_seed<K: SeedData>(&mut self, seed: K) -> (r: Result<Option<K::Value>, Self::Error>)
            requires old(self).pending() is None
            ensures
                r matches Ok(None) ==> old(self).rest().len() == 0 && final(self).rest() == old(self).rest() && final(self).pending() is None,
                r matches Ok(Some(k)) ==> old(self).rest().len() > 0 && K::seed_reads(old(self).rest()[0].0, &k)
                    && final(self).rest() == old(self).rest().skip(1) && final(self).pending() == Some(old(self).rest()[0].1);
        fn next_value<T: FromData>(&mut self) -> (r: Result<T, Self::Error>)
            requires old(self).pending() is Some
            ensures r matches Ok(t) ==> T::denotes(&t, old(self).pending()->0) && final(self).rest() == old(self).rest() && final(self).pending() is None;
        fn next_entry<K: FromData, T: FromData>(&mut self) -> (r: Result<Option<(K, T)>, Self::Error>)
            requires old(self).pending() is None
            ensures
                r matches Ok(None) ==> old(self).rest().len() == 0 && final(self).rest() == old(self).rest() && final(self).pending() is None,
                r matches Ok(Some(e)) ==> old(self).rest().len() > 0 && K::denotes(&e.0, old(self).rest()[0].0) && T::denotes(&e.1, old(self).rest()[0].1)
                    && final(self).rest() == old(self).rest().skip(1) && final(self).pending() is None;
    }
    pub trait Deserializer<'de>: Sized {
        type Error: Error;
        spec fn input(&self) -> Data;
        // the driver calls the visit_ method that matches the datum
        fn deserialize_any<V: Visitor<'de>>(self, visitor: V) -> (r: Result<V::Value, Self::Error>)
            ensures r matches Ok(v) ==> V::reads(self.input(), &v);
        // a string is demanded: anything else ends in the visitor's "invalid type" error
        fn deserialize_str<V: Visitor<'de>>(self, visitor: V) -> (r: Result<V::Value, Self::Error>)
            ensures r matches Ok(v) ==> self.input() is Str && V::reads(self.input(), &v);
    }
    pub trait DeserializeSeed<'de>: SeedData {
        fn deserialize<D: Deserializer<'de>>(self, deserializer: D) -> (r: Result<Self::Value, D::Error>)
            ensures r matches Ok(v) ==> Self::seed_reads(deserializer.input(), &v);
    }
    pub trait Deserialize<'de>: FromData {
        fn deserialize<D: Deserializer<'de>>(deserializer: D) -> (r: Result<Self, D::Error>)
            ensures r matches Ok(v) ==> Self::denotes(&v, deserializer.input());
    }
    pub trait VisitorOption<'de>: Visitor<'de> {
        fn visit_some<D: Deserializer<'de>>(self, deserializer: D) -> (r: Result<Self::Value, D::Error>)
            ensures r matches Ok(v) ==> Self::reads(Data::Some(Box::new(deserializer.input())), &v);
    }
}
pub mod serde {
    pub use super::ser::Serializer;
    pub use super::de::Deserializer;
    pub mod ser { pub use super::super::ser::*; }
    pub mod de { pub use super::super::de::*; }
}
use ser::{HasData, Serialize};
use serde::de::{Deserialize, DeserializeSeed, MapAccess, SeqAccess, Visitor, FromData, SeedData, VisitorOption};

//@ lift crates/air-lib/interpreter-value/src/lib.rs :: macro_rules tri
//@ end

// ================================================================ ser.rs
// serde_json's `Number::serialize`: serialize_u64 / serialize_i64 / serialize_f64 by kind (external; assumption)
pub open spec fn num_data(k: NumKind) -> Data {
    match k { NumKind::U(u) => Data::U64(u), NumKind::I(i) => Data::I64(i), NumKind::F(f) => Data::F64(f) }
}
impl HasData for Number { open spec fn data(&self) -> Data { num_data(self.kind()) } }
impl Serialize for Number {
    #[verifier::external_body]
    fn serialize<S: serde::Serializer>(&self, serializer: S) -> (r: Result<S::Ok, S::Error>) { unimplemented!() }
}
impl HasData for JsonString { open spec fn data(&self) -> Data { Data::Str(self@) } }
// serde's blanket impls for Rc<T> and [T]: a seq of the elements in order (external; assumption)
impl<T: HasData> HasData for Rc<[T]> {
    open spec fn data(&self) -> Data { Data::Seq(Seq::new(self@.len(), |i: int| if 0 <= i < self@.len() { self@[i].data() } else { Data::Unit })) }
}
impl<T: HasData> Serialize for Rc<[T]> {
    #[verifier::external_body]
    fn serialize<S: serde::Serializer>(&self, serializer: S) -> (r: Result<S::Ok, S::Error>) { unimplemented!() }
}
// the serde data-model rendering of a JSON value, from the property statement: null -> unit, bool -> bool, number -> the number's own
// rendering, string -> str, array -> seq of the elements in order, object -> map of (key string, value) in the map's iteration order
pub open spec fn ser_data(v: JValue) -> Data decreases v {
    match v {
        JValue::Null => Data::Unit,
        JValue::Bool(b) => Data::Bool(b),
        JValue::Number(n) => num_data(n.kind()),
        JValue::String(s) => Data::Str(s@),
        JValue::Array(a) => Data::Seq(Seq::new(a@.len(), |i: int| if 0 <= i < a@.len() { ser_data(a@[i]) } else { Data::Unit })),
        JValue::Object(m) => Data::Map(Seq::new(m.ents().len(),
            |i: int| if 0 <= i < m.ents().len() { (Data::Str(m.ents()[i].0@), ser_data(m.ents()[i].1)) } else { (Data::Unit, Data::Unit) })),
    }
}
impl HasData for JValue { open spec fn data(&self) -> Data { ser_data(*self) } }
pub proof fn lemma_array_data(a: Rc<[JValue]>)
    ensures a.data() == ser_data(JValue::Array(a))
{
    assert(a.data()->Seq_0 =~= ser_data(JValue::Array(a))->Seq_0);
}

impl Serialize for JValue {
//@ lift crates/air-lib/interpreter-value/src/value/ser.rs :: impl Serialize for JValue :: fn serialize
//@ props C26
//@ name JValue::serialize
//@ no-canary
//@ sig 1 "::serde::Serializer" => "serde::Serializer"
//@ rewrite 1 "in &**m" => "in it: &**m"
//@ before "match self {"
        proof { if self is Array { lemma_array_data(self->Array_0); } }
//@ before "for (k, v) in &**m"
                let ghost want = ser_data(*self)->Map_0;
//@ loop 0
                    invariant
                        *self == JValue::Object(*m),
                        want == ser_data(*self)->Map_0,
                        want.len() == m.ents().len(),
                        map.hint() matches Some(n) ==> n == want.len(),
                        it.seq().len() == m.ents().len(),
                        forall|i: int| 0 <= i < m.ents().len() ==> *(#[trigger] it.seq()[i]).0 == m.ents()[i].0 && *it.seq()[i].1 == m.ents()[i].1,
                        0 <= it.index() <= it.seq().len(),
                        map.ents() == want.take(it.index()),
//@ before "tri!(map.serialize_entry("
                    assert(it.seq()[it.index()] == (k, v));
                    assert(want.take(it.index() + 1) =~= want.take(it.index()).push(want[it.index()]));
//@ before "map.end()"
                assert(want.take(want.len() as int) =~= want);
                assert(Data::Map(want) == ser_data(*self));
//@ end
}

// ================================================================ de.rs
// the JSON value a datum stands for (None: not a JSON value -- a map with a non-string key)
pub open spec fn json_of(d: Data) -> Option<Json> decreases d {
    match d {
        Data::Unit => Some(Json::Null),
        Data::None => Some(Json::Null),
        Data::Some(x) => json_of(*x),
        Data::Bool(b) => Some(Json::Bool(b)),
        Data::U64(u) => Some(Json::Number(NumKind::U(u))),
        Data::I64(i) => Some(Json::Number(if i >= 0 { NumKind::U(i as u64) } else { NumKind::I(i) })),
        // a float that is not finite is not a JSON number: it reads as null
        Data::F64(f) => Some(if f64_is_finite(f) { Json::Number(NumKind::F(f)) } else { Json::Null }),
        Data::Str(s) => Some(Json::String(s)),
        Data::Seq(s) => if forall|i: int| 0 <= i < s.len() ==> json_of(#[trigger] s[i]) is Some {
                Some(Json::Array(Seq::new(s.len(), |i: int| if 0 <= i < s.len() { json_of(s[i])->0 } else { Json::Null })))
            } else { None },
        // entries in order, a later duplicate key overwrites
        Data::Map(s) => if forall|i: int| 0 <= i < s.len() ==> ((#[trigger] s[i]).0 is Str && json_of(s[i].1) is Some) {
                Some(Json::Object(fold_entries(json_entries(s))))
            } else { None },
    }
}
pub open spec fn json_entries(s: Seq<(Data, Data)>) -> Seq<(Seq<char>, Json)> decreases s {
    Seq::new(s.len(), |i: int| if 0 <= i < s.len() { (s[i].0->Str_0, json_of(s[i].1)->0) } else { (Seq::<char>::empty(), Json::Null) })
}
impl FromData for JValue { open spec fn denotes(v: &Self, d: Data) -> bool { json_of(d) == Some(jview(*v)) } }
impl FromData for JsonString { open spec fn denotes(v: &Self, d: Data) -> bool { d == Data::Str(v@) } }

//@ lift crates/air-lib/interpreter-value/src/value/de.rs :: struct KeyClassifier
//@ end
//@ lift crates/air-lib/interpreter-value/src/value/de.rs :: enum KeyClass
//@ derive
//@ end
//@ lift crates/air-lib/interpreter-value/src/value/de.rs :: impl<'de> Deserialize<'de> for JValue :: fn deserialize :: struct ValueVisitor
//@ end

impl SeedData for KeyClassifier {
    type Value = KeyClass;
    closed spec fn seed_reads(d: Data, v: &KeyClass) -> bool { v matches KeyClass::Map(k) && d == Data::Str(k@) }
}
impl<'de> Visitor<'de> for KeyClassifier {
    type Value = KeyClass;
    closed spec fn reads(d: Data, v: &KeyClass) -> bool { d is Str ==> (v matches KeyClass::Map(k) && d == Data::Str(k@)) }
//@ lift crates/air-lib/interpreter-value/src/value/de.rs :: impl<'de> Visitor<'de> for KeyClassifier :: fn expecting
//@ props C26
//@ name KeyClassifier::expecting
//@ end
//@ lift crates/air-lib/interpreter-value/src/value/de.rs :: impl<'de> Visitor<'de> for KeyClassifier :: fn visit_str
//@ props C26
//@ name KeyClassifier::visit_str
//@ rewrite 1 "s.into()" => "json_string_from_str(s)"
//@ end
}
impl<'de> DeserializeSeed<'de> for KeyClassifier {
//@ lift crates/air-lib/interpreter-value/src/value/de.rs :: impl<'de> DeserializeSeed<'de> for KeyClassifier :: fn deserialize
//@ props C26
//@ name KeyClassifier::deserialize
//@ end
}

// ---- proof vocabulary of visit_map
pub open spec fn jview_fn() -> spec_fn(JValue) -> Json { |v: JValue| jview(v) }
pub open spec fn mjson(m: &Map<JsonString, JValue>) -> vstd::map::Map<Seq<char>, Json> { m.mview().map_values(jview_fn()) }
pub open spec fn entries_ok(s: Seq<(Data, Data)>, n: int) -> bool {
    forall|i: int| 0 <= i < n ==> ((#[trigger] s[i]).0 is Str && json_of(s[i].1) is Some)
}
pub proof fn lemma_fold_map<V, W>(s: Seq<(Seq<char>, V)>, t: Seq<(Seq<char>, W)>, f: spec_fn(V) -> W)
    requires t.len() == s.len(), forall|i: int| 0 <= i < s.len() ==> #[trigger] t[i] == (s[i].0, f(s[i].1))
    ensures fold_entries(t) =~= fold_entries(s).map_values(f)
    decreases s.len()
{
    if s.len() > 0 {
        lemma_fold_map(s.drop_last(), t.drop_last(), f);
    }
}
// the JSON object of a map value is its map view, value by value
pub proof fn lemma_jobj(rc: Rc<Map<JsonString, JValue>>)
    ensures jview(JValue::Object(rc)) == Json::Object(mjson(&*rc))
{
    lemma_fold_map(rc.kv_seq(), jview_entries(&*rc), jview_fn());
}
pub proof fn lemma_visit_map_step(all: Seq<(Data, Data)>, n: int, m0: &Map<JsonString, JValue>, m1: &Map<JsonString, JValue>, k: JsonString, v: JValue)
    requires
        0 <= n < all.len(), entries_ok(all, n), mjson(m0) == fold_entries(json_entries(all).take(n)),
        m1.mview() == m0.mview().insert(k@, v),
        all[n].0 == Data::Str(k@), json_of(all[n].1) == Some(jview(v)),
    ensures entries_ok(all, n + 1), mjson(m1) == fold_entries(json_entries(all).take(n + 1))
{
    assert(json_entries(all).take(n + 1).drop_last() =~= json_entries(all).take(n));
    assert(mjson(m1) =~= mjson(m0).insert(k@, jview(v)));
}
pub proof fn lemma_visit_map_empty(all: Seq<(Data, Data)>)
    requires all.len() == 0
    ensures forall|rc: Rc<Map<JsonString, JValue>>| rc.ents().len() == 0 ==> json_of(Data::Map(all)) == Some(#[trigger] jview(JValue::Object(rc)))
{
    assert(json_entries(all).len() == 0);
    assert(json_of(Data::Map(all)) == Some(Json::Object(vstd::map::Map::empty())));
    assert forall|rc: Rc<Map<JsonString, JValue>>| rc.ents().len() == 0 implies json_of(Data::Map(all)) == Some(#[trigger] jview(JValue::Object(rc))) by {
        assert(jview_entries(&*rc).len() == 0);
    }
}
pub proof fn lemma_visit_map_end(all: Seq<(Data, Data)>, m: &Map<JsonString, JValue>)
    requires entries_ok(all, all.len() as int), mjson(m) == fold_entries(json_entries(all).take(all.len() as int))
    ensures forall|rc: Rc<Map<JsonString, JValue>>| *rc == *m ==> json_of(Data::Map(all)) == Some(#[trigger] jview(JValue::Object(rc)))
{
    assert(json_entries(all).take(all.len() as int) =~= json_entries(all));
    assert forall|rc: Rc<Map<JsonString, JValue>>| *rc == *m implies json_of(Data::Map(all)) == Some(#[trigger] jview(JValue::Object(rc))) by {
        lemma_jobj(rc);
    }
}

impl<'de> Visitor<'de> for ValueVisitor {
    type Value = JValue;
    // every callback builds the JSON value its datum stands for
    open spec fn reads(d: Data, v: &JValue) -> bool { json_of(d) == Some(jview(*v)) }
//@ lift crates/air-lib/interpreter-value/src/value/de.rs :: impl<'de> Deserialize<'de> for JValue :: fn deserialize :: impl<'de> Visitor<'de> for ValueVisitor :: fn expecting
//@ props C26
//@ name ValueVisitor::expecting
//@ end
//@ lift crates/air-lib/interpreter-value/src/value/de.rs :: impl<'de> Deserialize<'de> for JValue :: fn deserialize :: impl<'de> Visitor<'de> for ValueVisitor :: fn visit_bool
//@ props C26
//@ name ValueVisitor::visit_bool
//@ end
//@ lift crates/air-lib/interpreter-value/src/value/de.rs :: impl<'de> Deserialize<'de> for JValue :: fn deserialize :: impl<'de> Visitor<'de> for ValueVisitor :: fn visit_i64
//@ props C26
//@ name ValueVisitor::visit_i64
//@ end
//@ lift crates/air-lib/interpreter-value/src/value/de.rs :: impl<'de> Deserialize<'de> for JValue :: fn deserialize :: impl<'de> Visitor<'de> for ValueVisitor :: fn visit_u64
//@ props C26
//@ name ValueVisitor::visit_u64
//@ end
//@ lift crates/air-lib/interpreter-value/src/value/de.rs :: impl<'de> Deserialize<'de> for JValue :: fn deserialize :: impl<'de> Visitor<'de> for ValueVisitor :: fn visit_f64
//@ props C26
//@ name ValueVisitor::visit_f64
//@ rewrite 1 ", JValue::Number)" => ", |n: Number| -> (o: JValue) ensures o == JValue::Number(n) { JValue::Number(n) })"
//@ end
//@ lift crates/air-lib/interpreter-value/src/value/de.rs :: impl<'de> Deserialize<'de> for JValue :: fn deserialize :: impl<'de> Visitor<'de> for ValueVisitor :: fn visit_str
//@ props C26
//@ name ValueVisitor::visit_str
//@ rewrite 1 "value.into()" => "json_string_from_str(value)"
//@ end
//@ lift crates/air-lib/interpreter-value/src/value/de.rs :: impl<'de> Deserialize<'de> for JValue :: fn deserialize :: impl<'de> Visitor<'de> for ValueVisitor :: fn visit_none
//@ props C26
//@ name ValueVisitor::visit_none
//@ end
//@ lift crates/air-lib/interpreter-value/src/value/de.rs :: impl<'de> Deserialize<'de> for JValue :: fn deserialize :: impl<'de> Visitor<'de> for ValueVisitor :: fn visit_unit
//@ props C26
//@ name ValueVisitor::visit_unit
//@ end
#[verifier::loop_isolation(false)]
//@ lift crates/air-lib/interpreter-value/src/value/de.rs :: impl<'de> Deserialize<'de> for JValue :: fn deserialize :: impl<'de> Visitor<'de> for ValueVisitor :: fn visit_seq
//@ props C26
//@ name ValueVisitor::visit_seq
//@ before "let mut vec = Vec::new();"
                let ghost all = visitor.rest();
//@ loop 0
                    invariant
                        vec@.len() <= all.len(),
                        visitor.rest() == all.skip(vec@.len() as int),
                        forall|i: int| 0 <= i < vec@.len() ==> json_of(all[i]) == Some(jview(#[trigger] vec@[i])),
                    decreases visitor.rest().len()
//@ before "Ok(JValue::Array("
                proof {
                    assert(vec@.len() == all.len());
                    assert forall|i: int| 0 <= i < all.len() implies json_of(#[trigger] all[i]) is Some by { let _ = vec@[i]; }
                    assert forall|a: Rc<[JValue]>| a@ == vec@ implies #[trigger] jview(JValue::Array(a)) == json_of(Data::Seq(all))->0 by {
                        assert(jview(JValue::Array(a))->Array_0 =~= json_of(Data::Seq(all))->0->Array_0);
                    }
                }
//@ end
#[verifier::loop_isolation(false)]
//@ lift crates/air-lib/interpreter-value/src/value/de.rs :: impl<'de> Deserialize<'de> for JValue :: fn deserialize :: impl<'de> Visitor<'de> for ValueVisitor :: fn visit_map
//@ props C26
//@ name ValueVisitor::visit_map
//@ before "match tri!(visitor.next_key_seed(KeyClassifier)) {"
                let ghost all = visitor.rest();
                proof { if all.len() == 0 { lemma_visit_map_empty(all); } }
//@ before "values.insert(first_key,"
                        let ghost m0 = values;
                        proof { assert(mjson(&m0) =~= fold_entries(json_entries(all).take(0))); }
//@ after "values.insert(first_key,"
                        proof {
                            let v0 = values.mview()[first_key@];
                            assert(values.mview() == m0.mview().insert(first_key@, v0));
                            lemma_visit_map_step(all, 0, &m0, &values, first_key, v0);
                        }
//@ loop 0
                            invariant
                                visitor.pending() is None,
                                visitor.rest().len() <= all.len(),
                                visitor.rest() == all.skip(all.len() - visitor.rest().len()),
                                entries_ok(all, all.len() - visitor.rest().len()),
                                mjson(&values) == fold_entries(json_entries(all).take(all.len() - visitor.rest().len())),
                            decreases visitor.rest().len()
//@ before "values.insert(key,"
                            let ghost m0 = values;
                            let ghost n = all.len() - visitor.rest().len() - 1;
//@ after "values.insert(key,"
                            proof { lemma_visit_map_step(all, n, &m0, &values, key, value); }
//@ before "Ok(JValue::Object("
                        proof { lemma_visit_map_end(all, &values); }
//@ end
}
// `JValue::deserialize` is NOT lifted: its body nests `struct ValueVisitor` and the whole `impl Visitor` (lifted method by method above), and the
// extractor cannot drop nested items. Its one own statement is repeated here by hand -- not an obligation, only a check that the shim
// contracts compose (deserialize_any + ValueVisitor::reads give FromData::denotes); the real statement is exercised by native job C26.roundtrip.
impl<'de> Deserialize<'de> for JValue {
    fn deserialize<D>(deserializer: D) -> Result<JValue, D::Error>
    where
        D: serde::Deserializer<'de>,
    {
        deserializer.deserialize_any(ValueVisitor)
    }
}
impl<'de> VisitorOption<'de> for ValueVisitor {
//@ lift crates/air-lib/interpreter-value/src/value/de.rs :: impl<'de> Deserialize<'de> for JValue :: fn deserialize :: impl<'de> Visitor<'de> for ValueVisitor :: fn visit_some
//@ props C26
//@ name ValueVisitor::visit_some
//@ end
}

// ================================================================ round trip over the two contracts
// reading back what `serialize` emits gives the same JSON value: json_of(ser_data(v)) = jview(v)
//@ lemma ser_then_de_is_identity props C26
pub proof fn ser_then_de_is_identity(v: JValue)
    ensures json_of(ser_data(v)) == Some(jview(v))
    decreases v
{
    match v {
        JValue::Array(a) => {
            let s = ser_data(v)->Seq_0;
            assert forall|i: int| 0 <= i < s.len() implies json_of(#[trigger] s[i]) == Some(jview(a@[i])) by { ser_then_de_is_identity(a@[i]); }
            assert(json_of(ser_data(v))->0->Array_0 =~= jview(v)->Array_0);
        },
        JValue::Object(m) => {
            let s = ser_data(v)->Map_0;
            assert forall|i: int| 0 <= i < s.len() implies (#[trigger] s[i]).0 == Data::Str(m.ents()[i].0@) && json_of(s[i].1) == Some(jview(m.ents()[i].1)) by {
                ser_then_de_is_identity(m.ents()[i].1);
            }
            assert(json_entries(s) =~= jview_entries(&*m));
        },
        _ => {},
    }
}
//@ end
// hence: whatever `JValue::deserialize` accepts from a deserializer that replays the serializer's output is the value that was serialized
//@ lemma round_trip props C26
pub proof fn round_trip(v: JValue, w: JValue)
    requires <JValue as FromData>::denotes(&w, ser_data(v))
    ensures jview(w) == jview(v)
{
    ser_then_de_is_identity(v);
}
//@ end

} // verus!
fn main() {}
