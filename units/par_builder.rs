//@ unit par_builder
//@ verus-flags --no-erasure-check
// (--no-erasure-check: see slider.rs -- the TracePos shim's AddAssignSpecImpl trips Verus' erasure pass after verification)
// ParBuilder (state_automata/par_fsm/par_builder.rs), StateInserter (state_automata/state_inserter.rs),
// DataKeeper::{result_states_count, result_trace_next_pos} (data_keeper/keeper.rs), ExecutedState::par
// (interpreter-data executed_state/impls.rs)  --  C10.V1 / C10.V2, C01 (panic freedom under the stated preconditions).
//
// Trusted part of this file: the TracePos shim (verbatim from slider.rs), the ExecutionTrace shim (a Vec newtype whose `set_at`
// stands for `IndexMut<TracePos>` = `&mut self.0[usize::from(index)]`, panicking out of range, hence a
// precondition), opaque payload types of the ExecutedState variants that are not touched here, opaque
// MergeCtx / BiHashMap (fields of DataKeeper that the lifted code never mentions: kept for the frame).
use vstd::prelude::*;
verus! {

// ---------------------------------------------------------------- shim: TracePos (trusted, verbatim from slider.rs)
#[derive(Copy, Clone, Default)]
pub struct TracePos(pub u32);
impl core::ops::AddAssign<u32> for TracePos { fn add_assign(&mut self, rhs: u32) { self.0 = self.0 + rhs; } }
impl From<u32> for TracePos { fn from(v: u32) -> TracePos { TracePos(v) } }
impl PartialEq for TracePos { fn eq(&self, o: &Self) -> bool { self.0 == o.0 } }
impl PartialOrd for TracePos { fn partial_cmp(&self, o: &Self) -> Option<core::cmp::Ordering> { self.0.partial_cmp(&o.0) } }
impl vstd::std_specs::ops::AddAssignSpecImpl<u32> for TracePos {
    open spec fn obeys_add_assign_spec() -> bool { true }
    open spec fn add_assign_req(&self, rhs: u32) -> bool { self.0 + rhs <= u32::MAX }
    open spec fn add_assign_spec(&self, rhs: u32) -> TracePos { TracePos((self.0 + rhs) as u32) }
}
impl vstd::std_specs::convert::FromSpecImpl<u32> for TracePos {
    open spec fn obeys_from_spec() -> bool { true }
    open spec fn from_spec(v: u32) -> TracePos { TracePos(v) }
}
impl vstd::std_specs::cmp::PartialOrdSpecImpl<TracePos> for TracePos {
    open spec fn obeys_partial_cmp_spec() -> bool { true }
    open spec fn partial_cmp_spec(&self, o: &TracePos) -> Option<core::cmp::Ordering> { if self.0 < o.0 { Some(core::cmp::Ordering::Less) } else if self.0 == o.0 { Some(core::cmp::Ordering::Equal) } else { Some(core::cmp::Ordering::Greater) } }
}
impl vstd::std_specs::cmp::PartialEqSpecImpl<TracePos> for TracePos {
    open spec fn obeys_eq_spec() -> bool { true }
    open spec fn eq_spec(&self, o: &TracePos) -> bool { self.0 == o.0 }
}
impl vstd::std_specs::ops::AddSpecImpl<u32> for TracePos {
    open spec fn obeys_add_spec() -> bool { true }
    open spec fn add_req(self, rhs: u32) -> bool { self.0 + rhs <= u32::MAX }
    open spec fn add_spec(self, rhs: u32) -> TracePos { TracePos((self.0 + rhs) as u32) }
}
impl core::ops::Add<u32> for TracePos { type Output = TracePos; fn add(self, rhs: u32) -> TracePos { TracePos(self.0 + rhs) } }
impl vstd::std_specs::ops::SubSpecImpl<TracePos> for TracePos {
    open spec fn obeys_sub_spec() -> bool { true }
    open spec fn sub_req(self, rhs: TracePos) -> bool { self.0 >= rhs.0 }
    open spec fn sub_spec(self, rhs: TracePos) -> TracePos { TracePos((self.0 - rhs.0) as u32) }
}
impl core::ops::Sub<TracePos> for TracePos { type Output = TracePos; fn sub(self, rhs: TracePos) -> TracePos { TracePos(self.0 - rhs.0) } }
impl vstd::std_specs::convert::FromSpecImpl<TracePos> for u32 {
    open spec fn obeys_from_spec() -> bool { true }
    open spec fn from_spec(v: TracePos) -> u32 { v.0 }
}
impl From<TracePos> for u32 { fn from(v: TracePos) -> u32 { v.0 } }
impl TracePos {
    // auto_checked_add![TracePos]: `self.0.checked_add(other.0).map(Self)`
    pub fn checked_add(&self, other: &TracePos) -> (r: Option<TracePos>)
        ensures r == (if self.0 + other.0 <= u32::MAX { Some(TracePos((self.0 + other.0) as u32)) } else { None })
    { match self.0.checked_add(other.0) { Some(v) => Some(TracePos(v)), None => None } }
    pub fn checked_sub(&self, other: &TracePos) -> (r: Option<TracePos>)
        ensures r == (if self.0 >= other.0 { Some(TracePos((self.0 - other.0) as u32)) } else { None })
    { match self.0.checked_sub(other.0) { Some(v) => Some(TracePos(v)), None => None } }
}

// ---------------------------------------------------------------- shim: executed states, trace (trusted)
pub type TraceLen = u32;
pub struct CallResult { pub opaque: u8 }
pub struct ApResult { pub opaque: u8 }
pub struct CanonResult { pub opaque: u8 }

//@ lift crates/air-lib/interpreter-data/src/executed_state.rs :: struct ParResult
//@ derive
//@ end
//@ lift crates/air-lib/interpreter-data/src/executed_state.rs :: struct SubTraceDesc
//@ derive
//@ end
//@ lift crates/air-lib/interpreter-data/src/executed_state.rs :: struct FoldSubTraceLore
//@ derive
//@ end
//@ lift crates/air-lib/interpreter-data/src/executed_state.rs :: type FoldLore
//@ end
//@ lift crates/air-lib/interpreter-data/src/executed_state.rs :: struct FoldResult
//@ derive
//@ end
//@ lift crates/air-lib/interpreter-data/src/executed_state.rs :: enum ExecutedState
//@ derive
//@ end

impl ExecutedState {
//@ lift crates/air-lib/interpreter-data/src/executed_state/impls.rs :: impl ExecutedState :: fn par
//@ props C10 C01 C08
//@ ret r
//@ spec
        // `as _` is `as u32`: it truncates silently (never panics); exactness is par_protocol's business
        ensures r == ExecutedState::Par(ParResult { left_size: left_subgraph_size as u32, right_size: right_subgraph_size as u32 })
//@ end
}

pub struct ExecutionTrace(pub Vec<ExecutedState>);
impl ExecutionTrace {
    pub open spec fn tr(&self) -> Seq<ExecutedState> { self.0@ }
    // real: `Deref<Target = [ExecutedState]>` + slice `len`
    pub fn len(&self) -> (r: usize) ensures r == self.tr().len() { self.0.len() }
    pub fn push(&mut self, value: ExecutedState) ensures final(self).tr() == old(self).tr().push(value) { self.0.push(value); }
    // real: `self.0.len().try_into().expect(..)` -- panics above u32::MAX states
    #[verifier::external_body]
    pub fn trace_states_count(&self) -> (r: TraceLen)
        requires self.tr().len() <= u32::MAX
        ensures r == self.tr().len()
    { unimplemented!() }
    // real: `impl IndexMut<TracePos> for ExecutionTrace` = `&mut self.0[usize::from(index)]`, used as `trace[pos] = state`
    pub fn set_at(&mut self, index: TracePos, value: ExecutedState)
        requires index.0 < old(self).tr().len()
        ensures final(self).tr() == old(self).tr().update(index.0 as int, value)
    { self.0.set(index.0 as usize, value); }
}

pub struct MergeCtx { pub opaque: u8 }
#[verifier::external_body]
#[verifier::reject_recursive_types(K)]
#[verifier::reject_recursive_types(V)]
pub struct BiHashMap<K, V> { k: core::marker::PhantomData<(K, V)> }

//@ lift crates/air-lib/trace-handler/src/data_keeper/keeper.rs :: struct DataKeeper
//@ derive
//@ end

impl DataKeeper {
    pub open spec fn rlen(&self) -> nat { self.result_trace.tr().len() }
    // everything but the result trace
    pub open spec fn rest_eq(&self, o: &DataKeeper) -> bool {
        self.prev_ctx == o.prev_ctx && self.current_ctx == o.current_ctx
            && self.new_to_prev_pos == o.new_to_prev_pos && self.new_to_current_pos == o.new_to_current_pos
    }

//@ lift crates/air-lib/trace-handler/src/data_keeper/keeper.rs :: impl DataKeeper :: fn result_states_count
//@ props C10 C01 C08
//@ ret r
//@ spec
        ensures r == self.rlen()
//@ end

//@ lift crates/air-lib/trace-handler/src/data_keeper/keeper.rs :: impl DataKeeper :: fn result_trace_next_pos
//@ props C10 C01 C08
//@ ret r
//@ spec
        requires self.rlen() <= u32::MAX     // the real trace_states_count() `expect`s this
        ensures r.0 == self.rlen()
//@ end
}

//@ lift crates/air-lib/trace-handler/src/state_automata/par_fsm.rs :: enum SubgraphType
//@ derive Clone Copy
//@ end

// ---------------------------------------------------------------- StateInserter (C10.V2)
//@ lift crates/air-lib/trace-handler/src/state_automata/state_inserter.rs :: struct StateInserter
//@ derive
//@ end

impl StateInserter {
    pub closed spec fn pos(&self) -> nat { self.position.0 as nat }

//@ lift crates/air-lib/trace-handler/src/state_automata/state_inserter.rs :: impl StateInserter :: fn from_keeper
//@ props C10 C01 C08
//@ ret r
//@ spec
        requires old(data_keeper).rlen() <= u32::MAX
        ensures
            // the placeholder is appended at the end: its index is the par/fold's own position
            r.pos() == old(data_keeper).rlen(),
            final(data_keeper).result_trace.tr() == old(data_keeper).result_trace.tr().push(
                ExecutedState::Par(ParResult { left_size: 0, right_size: 0 })),
            final(data_keeper).rest_eq(old(data_keeper)),
//@ end

//@ lift crates/air-lib/trace-handler/src/state_automata/state_inserter.rs :: impl StateInserter :: fn insert
//@ props C10 C01 C08
//@ rewrite 1 "data_keeper.result_trace[self.position] = state;" => "data_keeper.result_trace.set_at(self.position, state);"
//@ spec
        requires self.pos() < old(data_keeper).rlen()      // the result trace never shrinks below the placeholder
        ensures
            // overwrites the placeholder and nothing else
            final(data_keeper).result_trace.tr() == old(data_keeper).result_trace.tr().update(self.pos() as int, state),
            final(data_keeper).rlen() == old(data_keeper).rlen(),
            forall|i: int| 0 <= i < old(data_keeper).rlen() && i != self.pos()
                ==> final(data_keeper).result_trace.tr()[i] == old(data_keeper).result_trace.tr()[i],
            final(data_keeper).result_trace.tr()[self.pos() as int] == state,
            final(data_keeper).rest_eq(old(data_keeper)),
//@ end
}

// ---------------------------------------------------------------- ParBuilder (C10.V1)
//@ lift crates/air-lib/trace-handler/src/state_automata/par_fsm/par_builder.rs :: struct ParBuilder
//@ derive
//@ end

impl ParBuilder {
    pub closed spec fn saved(&self) -> nat { self.saved_states_count as nat }
    pub closed spec fn left(&self) -> nat { self.left_subgraph_size as nat }
    pub closed spec fn right(&self) -> nat { self.right_subgraph_size as nat }
}
// the builder as a transition system over the observed result-trace lengths (n: usize because it is a Vec length)
pub open spec fn pb_started(b: ParBuilder, n: nat) -> bool { b.saved() == n && b.left() == 0 && b.right() == 0 }
pub open spec fn pb_tracked(b: ParBuilder, a: ParBuilder, n: nat, t: SubgraphType) -> bool {
    &&& a.saved() == n
    &&& t is Left ==> a.left() == n - b.saved() && a.right() == b.right()
    &&& t is Right ==> a.right() == n - b.saved() && a.left() == b.left()
}
pub open spec fn pb_built(b: ParBuilder, r: ExecutedState) -> bool {
    r == ExecutedState::Par(ParResult { left_size: b.left() as u32, right_size: b.right() as u32 })
}

impl ParBuilder {
//@ lift crates/air-lib/trace-handler/src/state_automata/par_fsm/par_builder.rs :: impl ParBuilder :: fn from_keeper
//@ props C10 C01 C08
//@ ret r
//@ spec
        ensures pb_started(r, data_keeper.rlen())
//@ end

//@ lift crates/air-lib/trace-handler/src/state_automata/par_fsm/par_builder.rs :: impl ParBuilder :: fn track
//@ props C10 C01 C08
//@ spec
        // call-order precondition (assumed from ParFSM / the executor, listed): the result trace only grows
        requires old(self).saved() <= data_keeper.rlen()
        ensures pb_tracked(*old(self), *final(self), data_keeper.rlen(), subgraph_type)
//@ end

//@ lift crates/air-lib/trace-handler/src/state_automata/par_fsm/par_builder.rs :: impl ParBuilder :: fn build
//@ props C10 C01 C08
//@ ret r
//@ spec
        ensures pb_built(self, r)
//@ end
}

// C10.V1: with n0 <= n1 <= n2 the result-trace lengths at from_keeper / track(Left) / track(Right),
// build() is exactly Par(n1 - n0, n2 - n1): no underflow in either track (their preconditions hold),
// no truncation in the `as u32` casts provided n2 < 2^32.
//@ lemma par_protocol props C10
proof fn par_protocol(b0: ParBuilder, b1: ParBuilder, b2: ParBuilder, r: ExecutedState, n0: nat, n1: nat, n2: nat)
    requires
        n0 <= n1 <= n2 < 0x1_0000_0000,
        pb_started(b0, n0),
        pb_tracked(b0, b1, n1, SubgraphType::Left),
        pb_tracked(b1, b2, n2, SubgraphType::Right),
        pb_built(b2, r),
    ensures
        b0.saved() <= n1, b1.saved() <= n2,          // the preconditions of the two track calls
        r matches ExecutedState::Par(p) && p.left_size == n1 - n0 && p.right_size == n2 - n1,
{ }
//@ end

// C10.V2 + C10.V1 together, in the order ParFSM::{from_left_started, left_completed, right_completed} calls them:
// the placeholder sits at position p, the builder starts at p + 1; the Par written back at p covers exactly
// the entries p+1 .. n1 (left) and n1 .. n2 (right).
//@ lemma par_covers props C10
proof fn par_covers(b0: ParBuilder, b1: ParBuilder, b2: ParBuilder, r: ExecutedState, p: nat, n1: nat, n2: nat)
    requires
        p + 1 <= n1 <= n2 < 0x1_0000_0000,
        pb_started(b0, p + 1),
        pb_tracked(b0, b1, n1, SubgraphType::Left),
        pb_tracked(b1, b2, n2, SubgraphType::Right),
        pb_built(b2, r),
    ensures
        r matches ExecutedState::Par(q) && p + 1 + q.left_size == n1 && n1 + q.right_size == n2,
{ }
//@ end

} // verus!
fn main() {}
