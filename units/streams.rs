//@ unit streams
// air/src/execution_step/value_types/stream/{values_matrix.rs, stream_definition.rs},
// crates/air-lib/interpreter-data/src/generation_idx.rs.   Properties C01 (F3), C10, C12, C13.
//
// Trusted part: the TiVec shim (typed_index_collections::TiVec<K, V> is a Vec<V> indexed by K: From<usize> + Into<usize>),
// the opaque slice iterators, the ghost log on TraceHandler.
use vstd::prelude::*;
use core::cmp::Ordering;
verus! {

// ---------------------------------------------------------------- GenerationIdx (lifted)
//@ lift crates/air-lib/interpreter-data/src/generation_idx.rs :: type GenerationIdxType
//@ end
//@ lift crates/air-lib/interpreter-data/src/generation_idx.rs :: struct GenerationIdx
//@ derive Copy Clone
//@ rewrite 1 "GenerationIdx(GenerationIdxType)" => "GenerationIdx(pub GenerationIdxType)"
//@ end

impl vstd::std_specs::convert::FromSpecImpl<usize> for GenerationIdx {
    open spec fn obeys_from_spec() -> bool { true }
    open spec fn from_spec(v: usize) -> GenerationIdx { GenerationIdx(v as u32) }
}
impl vstd::std_specs::convert::FromSpecImpl<GenerationIdx> for usize {
    open spec fn obeys_from_spec() -> bool { true }
    open spec fn from_spec(v: GenerationIdx) -> usize { v.0 as usize }
}
//@ lift crates/air-lib/interpreter-data/src/generation_idx.rs :: impl From<usize> for GenerationIdx
//@ props C01 C12
//@ end
//@ lift crates/air-lib/interpreter-data/src/generation_idx.rs :: impl From<GenerationIdx> for usize
//@ props C01 C12
//@ end
impl vstd::std_specs::cmp::PartialOrdSpecImpl<usize> for GenerationIdx {
    open spec fn obeys_partial_cmp_spec() -> bool { true }
    open spec fn partial_cmp_spec(&self, o: &usize) -> Option<core::cmp::Ordering> {
        if (self.0 as usize) < *o { Some(core::cmp::Ordering::Less) } else if self.0 as usize == *o { Some(core::cmp::Ordering::Equal) } else { Some(core::cmp::Ordering::Greater) }
    }
}
impl vstd::std_specs::cmp::PartialEqSpecImpl<usize> for GenerationIdx {
    open spec fn obeys_eq_spec() -> bool { true }
    open spec fn eq_spec(&self, o: &usize) -> bool { self.0 as usize == *o }
}
//@ lift crates/air-lib/interpreter-data/src/generation_idx.rs :: impl PartialOrd<usize> for GenerationIdx
//@ props C01 C12
//@ end
//@ lift crates/air-lib/interpreter-data/src/generation_idx.rs :: impl PartialEq<usize> for GenerationIdx
//@ props C01 C12
//@ end

impl GenerationIdx {
//@ lift crates/air-lib/interpreter-data/src/generation_idx.rs :: impl GenerationIdx :: fn checked_add
//@ props C01 C12
//@ ret r
//@ rewrite 1 "self.0.checked_add(other.0).map(Self)" => "match self.0.checked_add(other.0) { Some(v) => Some(Self(v)), None => None }"
//@ spec
        ensures r == (if self.0 + other.0 <= u32::MAX { Some(GenerationIdx((self.0 + other.0) as u32)) } else { None })
//@ end
//@ lift crates/air-lib/interpreter-data/src/generation_idx.rs :: impl GenerationIdx :: fn stub
//@ props C10
//@ ret r
//@ spec
        ensures r.0 == 0xCAFEBABEu32
//@ end
}

// ---------------------------------------------------------------- shim: TiVec<K, Vec<T>> (trusted)
pub struct TiVec<K, V> { pub v: Vec<V>, pub k: core::marker::PhantomData<K> }
impl<K, V> TiVec<K, V> {
    pub open spec fn view(&self) -> Seq<V> { self.v@ }
    pub fn new() -> (r: Self) ensures r@.len() == 0 { TiVec { v: Vec::new(), k: core::marker::PhantomData } }
    pub fn len(&self) -> (r: usize) ensures r == self@.len() { self.v.len() }
    pub fn is_empty(&self) -> (r: bool) ensures r == (self@.len() == 0) { self.v.len() == 0 }
    pub fn push(&mut self, x: V) ensures final(self)@ == old(self)@.push(x) { self.v.push(x) }
    pub fn pop(&mut self) -> (r: Option<V>)
        ensures old(self)@.len() == 0 ==> final(self)@ == old(self)@,
            old(self)@.len() > 0 ==> final(self)@ == old(self)@.drop_last()
    { self.v.pop() }
}
impl<T> TiVec<GenerationIdx, Vec<T>> {
    // TiVec::resize(new_len, Vec::new()): Vec::resize with clones of an empty vector.
    // The allocation is proportional to new_len: `requires` states the C01 memory bound.
    #[verifier::external_body]
    pub fn resize(&mut self, new_len: usize, value: Vec<T>)
        requires value@.len() == 0,
            new_len <= STREAM_MAX_SIZE,        // C01: never allocate out of proportion to the input
        ensures final(self)@.len() == new_len,
            forall|i: int| 0 <= i < new_len && i < old(self)@.len() ==> final(self)@[i] == old(self)@[i],
            forall|i: int| old(self)@.len() <= i < new_len ==> (#[trigger] final(self)@[i])@.len() == 0,
    { unimplemented!() }
    // `self.values[idx]` (Index<GenerationIdx>): panics out of range
    #[verifier::external_body]
    pub fn at(&self, idx: GenerationIdx) -> (r: &Vec<T>)
        requires (idx.0 as int) < self@.len()
        ensures *r == self@[idx.0 as int]
    { unimplemented!() }
    // `self.values[idx].push(value)` (IndexMut<GenerationIdx> then Vec::push)
    #[verifier::external_body]
    pub fn push_at(&mut self, idx: GenerationIdx, value: T)
        requires (idx.0 as int) < old(self)@.len()
        ensures final(self)@.len() == old(self)@.len(),
            final(self)@[idx.0 as int]@ == old(self)@[idx.0 as int]@.push(value),
            forall|i: int| 0 <= i < old(self)@.len() && i != idx.0 ==> final(self)@[i] == old(self)@[i],
    { unimplemented!() }
    // `retain(|generation| !generation.is_empty())`
    #[verifier::external_body]
    pub fn retain_non_empty(&mut self)
        ensures gens(final(self)@) == gens(old(self)@).filter(|g: Seq<T>| g.len() != 0)
    { unimplemented!() }
}

// ---------------------------------------------------------------- abstract view of a matrix
pub open spec fn gens<T>(m: Seq<Vec<T>>) -> Seq<Seq<T>> { m.map_values(|v: Vec<T>| v@) }
pub open spec fn flat<T>(m: Seq<Seq<T>>) -> Seq<T>
    decreases m.len()
{
    if m.len() == 0 { Seq::empty() } else { flat(m.drop_last()) + m.last() }
}
pub open spec fn non_empty<T>(m: Seq<Seq<T>>) -> Seq<Seq<T>> { m.filter(|g: Seq<T>| g.len() != 0) }

pub proof fn lemma_flat_push<T>(m: Seq<Seq<T>>, g: Seq<T>)
    ensures flat(m.push(g)) == flat(m) + g
{
    assert(m.push(g).drop_last() == m);
}
pub proof fn lemma_flat_split<T>(m: Seq<Seq<T>>, k: int)
    requires 0 <= k <= m.len()
    ensures flat(m) == flat(m.take(k)) + flat(m.skip(k))
    decreases m.len() - k
{
    if k == m.len() {
        assert(m.take(k) == m);
        assert(m.skip(k).len() == 0);
    } else {
        lemma_flat_split(m, k + 1);
        // flat(m) == flat(take(k+1)) + flat(skip(k+1)); take(k+1) == take(k).push(m[k]); skip(k) == [m[k]] + skip(k+1)
        assert(m.take(k + 1) == m.take(k).push(m[k]));
        lemma_flat_push(m.take(k), m[k]);
        lemma_flat_cons(m.skip(k));
        assert(m.skip(k).skip(1) == m.skip(k + 1));
        assert(m.skip(k)[0] == m[k]);
    }
}
pub proof fn lemma_flat_cons<T>(m: Seq<Seq<T>>)
    requires m.len() > 0
    ensures flat(m) == m[0] + flat(m.skip(1))
    decreases m.len()
{
    if m.len() == 1 {
        assert(m.drop_last().len() == 0);
        assert(m.skip(1).len() == 0);
        assert(flat(m.drop_last()) == Seq::<T>::empty());
        assert(flat(m) == Seq::<T>::empty() + m.last());
        assert(m.last() == m[0]);
        assert(flat(m.skip(1)) == Seq::<T>::empty());
        assert(Seq::<T>::empty() + m[0] == m[0] + Seq::<T>::empty());
    } else {
        lemma_flat_cons(m.drop_last());
        assert(m.drop_last()[0] == m[0]);
        assert(m.drop_last().skip(1) == m.skip(1).drop_last());
        assert(m.skip(1).last() == m.last());
        assert(flat(m.skip(1)) == flat(m.skip(1).drop_last()) + m.last());
        assert((m[0] + flat(m.skip(1).drop_last())) + m.last() == m[0] + (flat(m.skip(1).drop_last()) + m.last()));
    }
}
// C13: appending v to generation g inserts v right after the values of generations <= g; nothing else moves
pub proof fn lemma_flat_update_push<T>(m: Seq<Seq<T>>, g: int, v: T)
    requires 0 <= g < m.len()
    ensures flat(m.update(g, m[g].push(v))) == flat(m.take(g + 1)).push(v) + flat(m.skip(g + 1))
{
    let m2 = m.update(g, m[g].push(v));
    lemma_flat_split(m2, g + 1);
    assert(m2.skip(g + 1) == m.skip(g + 1));
    assert(m2.take(g + 1) == m.take(g).push(m[g].push(v)));
    lemma_flat_push(m.take(g), m[g].push(v));
    assert(m.take(g + 1) == m.take(g).push(m[g]));
    lemma_flat_push(m.take(g), m[g]);
    assert(flat(m.take(g)) + m[g].push(v) == (flat(m.take(g)) + m[g]).push(v));
}
// padding with empty generations does not change the flattened view
pub proof fn lemma_flat_pad<T>(m: Seq<Seq<T>>, m2: Seq<Seq<T>>)
    requires m2.len() >= m.len(),
        forall|i: int| 0 <= i < m.len() ==> m2[i] == m[i],
        forall|i: int| m.len() <= i < m2.len() ==> (#[trigger] m2[i]).len() == 0,
    ensures flat(m2) == flat(m), forall|k: int| 0 <= k <= m.len() ==> flat(m2.take(k)) == flat(m.take(k)),
    decreases m2.len() - m.len()
{
    assert forall|k: int| 0 <= k <= m.len() implies flat(m2.take(k)) == flat(m.take(k)) by {
        assert(m2.take(k) == m.take(k));
    }
    if m2.len() == m.len() {
        assert(m2 == m);
    } else {
        lemma_flat_pad(m, m2.drop_last());
        assert(m2.last().len() == 0);
        assert(flat(m2) == flat(m2.drop_last()) + m2.last());
        assert(flat(m2.drop_last()) + m2.last() == flat(m2.drop_last()));
    }
}

pub const STREAM_MAX_SIZE: usize = 1024;

// ---------------------------------------------------------------- ValuesMatrix (lifted)
//@ lift air/src/execution_step/value_types/stream/values_matrix.rs :: struct ValuesMatrix
//@ pub-fields
//@ derive
//@ end
impl<T> ValuesMatrix<T> {
    pub open spec fn view(&self) -> Seq<Seq<T>> { gens(self.values@) }
    pub open spec fn wf(&self) -> bool { self.size == flat(self@).len() }
}
impl<T> ValuesMatrix<T> {
//@ lift air/src/execution_step/value_types/stream/values_matrix.rs :: impl<T> ValuesMatrix<T> :: fn new
//@ props C13
//@ ret r
//@ spec
        ensures r@.len() == 0, r.wf()
//@ end
//@ lift air/src/execution_step/value_types/stream/values_matrix.rs :: impl<T> ValuesMatrix<T> :: fn remove_empty_generations
//@ props C12 C13
//@ rewrite 1 "self.values.retain(|generation| !generation.is_empty())" => "self.values.retain_non_empty()"
//@ spec
        ensures final(self)@ == non_empty(old(self)@), final(self).size == old(self).size
//@ end
//@ lift air/src/execution_step/value_types/stream/values_matrix.rs :: impl<T> ValuesMatrix<T> :: fn generations_count
//@ props C12
//@ ret r
//@ spec
        requires self@.len() <= u32::MAX
        ensures r.0 == self@.len()
//@ end
//@ lift air/src/execution_step/value_types/stream/values_matrix.rs :: impl<T> ValuesMatrix<T> :: fn get_size
//@ props C13
//@ ret r
//@ spec
        ensures r == self.size
//@ end
}
impl<T: Clone> ValuesMatrix<T> {
//@ lift air/src/execution_step/value_types/stream/values_matrix.rs :: impl<T: Clone> ValuesMatrix<T> :: fn add_value_to_generation
//@ props C01 C12 C13
//@ rewrite 1 "self.values[generation_idx].push(value);" => "self.values.push_at(generation_idx, value);"
//@ after "self.size += 1;"
        proof {
            let g = generation_idx.0 as int;
            let m0 = old(self)@;
            let m1 = if g >= m0.len() { gens(mid_values@) } else { m0 };
            if g >= m0.len() { lemma_flat_pad(m0, m1); }
            assert(final(self)@ =~= m1.update(g, m1[g].push(value)));
            lemma_flat_update_push(m1, g, value);
            lemma_flat_split(m1, g + 1);
        }
//@ before "self.values[generation_idx].push(value);"
        let ghost mid_values = self.values;
//@ spec
        requires old(self).wf(), old(self).size < usize::MAX,
            // generation_idx comes from (untrusted) data: the caller must have bounded it (F3)
            (generation_idx.0 as int) < STREAM_MAX_SIZE,
        ensures final(self).wf(), final(self).size == old(self).size + 1,
            // C13: exactly one value more, at the end of its generation, nothing else moved
            ({
                let g = generation_idx.0 as int;
                let m0 = old(self)@;
                let upto = if g < m0.len() { flat(m0.take(g + 1)) } else { flat(m0) };
                let rest = if g < m0.len() { flat(m0.skip(g + 1)) } else { Seq::<T>::empty() };
                flat(final(self)@) == upto.push(value) + rest
            }),
            // C12: generations keep their order; only generation g grows; padding is empty
            final(self)@.len() == (if (generation_idx.0 as int) < old(self)@.len() { old(self)@.len() as int } else { generation_idx.0 as int + 1 }),
            forall|i: int| 0 <= i < old(self)@.len() && i != generation_idx.0 ==> final(self)@[i] == old(self)@[i],
            // C01: the matrix never grows beyond max(old length, STREAM_MAX_SIZE) generations
            final(self)@.len() <= (if old(self)@.len() > STREAM_MAX_SIZE { old(self)@.len() } else { STREAM_MAX_SIZE as nat }),
//@ end
}


// non-empty generations: same flattened view, and there are at most as many as there are values
pub proof fn lemma_non_empty<T>(m: Seq<Seq<T>>)
    ensures flat(non_empty(m)) == flat(m), non_empty(m).len() <= flat(m).len(),
        forall|i: int| 0 <= i < non_empty(m).len() ==> (#[trigger] non_empty(m)[i]).len() != 0,
    decreases m.len()
{
    let p = |g: Seq<T>| g.len() != 0;
    if m.len() == 0 {
        assert(m.filter(p).len() == 0) by { reveal(Seq::filter); }
    } else {
        lemma_non_empty(m.drop_last());
        assert(m == m.drop_last().push(m.last()));
        assert(m.filter(p) == (if p(m.last()) { m.drop_last().filter(p).push(m.last()) } else { m.drop_last().filter(p) })) by { reveal(Seq::filter); }
        if p(m.last()) {
            lemma_flat_push(m.drop_last().filter(p), m.last());
        } else {
            assert(flat(m.drop_last()) + m.last() == flat(m.drop_last()));
        }
    }
}

pub proof fn lemma_non_empty_id<T>(m: Seq<Seq<T>>)
    requires forall|i: int| 0 <= i < m.len() ==> (#[trigger] m[i]).len() != 0
    ensures non_empty(m) == m
    decreases m.len()
{
    let p = |g: Seq<T>| g.len() != 0;
    if m.len() == 0 {
        assert(m.filter(p).len() == 0) by { reveal(Seq::filter); }
        assert(m.filter(p) =~= m);
    } else {
        lemma_non_empty_id(m.drop_last());
        assert(m == m.drop_last().push(m.last()));
        assert(m.filter(p) == m.drop_last().filter(p).push(m.last())) by { reveal(Seq::filter); }
    }
}

// ---------------------------------------------------------------- NewValuesMatrix (lifted)
//@ lift air/src/execution_step/value_types/stream/values_matrix.rs :: struct NewValuesMatrix
//@ derive
//@ rewrite 1 "(ValuesMatrix<T>)" => "(pub ValuesMatrix<T>)"
//@ end
impl<T> NewValuesMatrix<T> {
    pub open spec fn view(&self) -> Seq<Seq<T>> { self.0@ }
    pub open spec fn wf(&self) -> bool { self.0.wf() }
//@ lift air/src/execution_step/value_types/stream/values_matrix.rs :: impl<T> NewValuesMatrix<T> :: fn new
//@ props C13
//@ ret r
//@ spec
        ensures r@.len() == 0, r.wf()
//@ end
//@ lift air/src/execution_step/value_types/stream/values_matrix.rs :: impl<T> NewValuesMatrix<T> :: fn add_new_empty_generation
//@ props C13
//@ rewrite 1 "vec![]" => "Vec::new()"
//@ after "self.0.values.push"
        proof {
            assert(final(self)@ =~= old(self)@.push(Seq::<T>::empty()));
            lemma_flat_push(old(self)@, Seq::<T>::empty());
        }
//@ spec
        requires old(self).wf()
        ensures final(self).wf(), final(self)@ == old(self)@.push(Seq::<T>::empty()), flat(final(self)@) == flat(old(self)@)
//@ end
//@ lift air/src/execution_step/value_types/stream/values_matrix.rs :: impl<T> NewValuesMatrix<T> :: fn last_non_empty_generation_idx
//@ props C01 C13
//@ ret r
//@ spec
        requires self@.len() <= u32::MAX
        ensures r.0 == (if self@.len() == 0 { 0int } else { self@.len() - 1 })
//@ end
//@ lift air/src/execution_step/value_types/stream/values_matrix.rs :: impl<T> NewValuesMatrix<T> :: fn last_generation_is_empty
//@ props C01 C13
//@ ret r
//@ rewrite 1 "self.0.values[self.last_non_empty_generation_idx()].is_empty()" => "self.0.values.at(self.last_non_empty_generation_idx()).is_empty()"
//@ spec
        requires old(self)@.len() <= u32::MAX
        ensures *final(self) == *old(self), r == (old(self)@.len() == 0 || old(self)@.last().len() == 0)
//@ end
//@ lift air/src/execution_step/value_types/stream/values_matrix.rs :: impl<T> NewValuesMatrix<T> :: fn remove_last_generation
//@ props C13
//@ spec
        ensures old(self)@.len() > 0 ==> final(self)@ =~= old(self)@.drop_last(),
            old(self)@.len() == 0 ==> final(self)@ =~= old(self)@,
            final(self).0.size == old(self).0.size,
//@ end
//@ lift air/src/execution_step/value_types/stream/values_matrix.rs :: impl<T> NewValuesMatrix<T> :: fn remove_empty_generations
//@ props C12 C13
//@ spec
        ensures final(self)@ == non_empty(old(self)@), final(self).0.size == old(self).0.size
//@ end
//@ lift air/src/execution_step/value_types/stream/values_matrix.rs :: impl<T> NewValuesMatrix<T> :: fn generations_count
//@ props C12
//@ ret r
//@ spec
        requires self@.len() <= u32::MAX
        ensures r.0 == self@.len()
//@ end
//@ lift air/src/execution_step/value_types/stream/values_matrix.rs :: impl<T> NewValuesMatrix<T> :: fn get_size
//@ props C13
//@ ret r
//@ spec
        ensures r == self.0.size
//@ end
}
impl<T: Clone> NewValuesMatrix<T> {
//@ lift air/src/execution_step/value_types/stream/values_matrix.rs :: impl<T: Clone> NewValuesMatrix<T> :: fn add_to_last_generation
//@ props C01 C13
//@ spec
        requires old(self).wf(), old(self).0.size < usize::MAX,
            old(self)@.len() <= STREAM_MAX_SIZE,    // new generations are opened by the recursive cursor, one per fold iteration
        ensures final(self).wf(), final(self).0.size == old(self).0.size + 1,
            // C13: a new value goes to the end of the whole stream
            flat(final(self)@) == flat(old(self)@).push(value),
            final(self)@.len() == (if old(self)@.len() == 0 { 1 } else { old(self)@.len() }),
//@ after "self.0.add_value_to_generation"
        proof {
            let m0 = old(self)@;
            if m0.len() > 0 {
                assert(m0.take(m0.len() as int) == m0);
                assert(m0.skip(m0.len() as int).len() == 0);
                assert(flat(m0.skip(m0.len() as int)) == Seq::<T>::empty());
                assert(flat(m0).push(value) + Seq::<T>::empty() == flat(m0).push(value));
            } else {
                assert(flat(m0) == Seq::<T>::empty());
                assert(flat(m0).push(value) + Seq::<T>::empty() == flat(m0).push(value));
            }
        }
//@ end
}

// ---------------------------------------------------------------- Stream (lifted)
//@ lift air/src/execution_step/value_types/stream/stream_definition.rs :: enum Generation
//@ derive Clone Copy
//@ end
pub enum UncatchableError { StreamSizeLimitExceeded, GenerationCompactificationError }
pub enum ExecutionError { Uncatchable(UncatchableError), Catchable(u8) }
pub type ExecutionResult<T> = Result<T, ExecutionError>;

//@ lift air/src/execution_step/value_types/stream/stream_definition.rs :: struct Stream
//@ pub-fields
//@ derive
//@ end
impl<T> Stream<T> {
    pub open spec fn wf(&self) -> bool { self.previous_values.wf() && self.current_values.wf() && self.new_values.wf() }
    pub open spec fn total(&self) -> int { self.previous_values.size + self.current_values.size + self.new_values.0.size }
    // C13/C12: the stream as a peer sees it: previous, then current, then new values, each in generation order
    pub open spec fn view(&self) -> Seq<T> { flat(self.previous_values@) + flat(self.current_values@) + flat(self.new_values@) }
//@ lift air/src/execution_step/value_types/stream/stream_definition.rs :: impl<'value, T: 'value> Stream<T> :: fn new
//@ props C13
//@ ret r
//@ spec
        ensures r.wf(), r@.len() == 0
//@ end
//@ lift air/src/execution_step/value_types/stream/stream_definition.rs :: impl<'value, T: 'value> Stream<T> :: fn check_stream_size_limit
//@ props C01 C13
//@ ret r
//@ rewrite 1 "use crate::execution_step::ExecutionError;" => ""
//@ rewrite 1 "use crate::UncatchableError;" => ""
//@ spec
        requires self.total() <= usize::MAX
        ensures r is Err <==> self.total() >= STREAM_MAX_SIZE
//@ end
}
impl<T: Clone> Stream<T> {
//@ lift air/src/execution_step/value_types/stream/stream_definition.rs :: impl<'value, T: 'value + Clone + fmt::Display> Stream<T> :: fn add_value
//@ props C01 C12 C13
//@ ret r
//@ rewrite 1 "use crate::execution_step::ExecutionError;" => ""
//@ rewrite 1 "use crate::UncatchableError;" => ""
//@ spec
        requires old(self).wf(), old(self).total() < usize::MAX,
            old(self).new_values@.len() <= STREAM_MAX_SIZE,
            // NOTHING about the generation carried by `generation`: it is read from untrusted data
        ensures
            // C13: the size limit errs exactly at >= STREAM_MAX_SIZE values (counting the one just added)
            (r is Err <==> (old(self).total() + 1 >= STREAM_MAX_SIZE || generation_out_of_range(generation))),
            r is Ok ==> final(self).wf() && final(self).total() == old(self).total() + 1,
            // C13: exactly one more value, inserted at the end of its generation (New: at the very end), nothing else moved
            r is Ok ==> (match generation {
                Generation::Previous(g) => final(self).current_values@ == old(self).current_values@ && final(self).new_values@ == old(self).new_values@
                    && flat(final(self).previous_values@) == inserted(old(self).previous_values@, g.0 as int, value),
                Generation::Current(g) => final(self).previous_values@ == old(self).previous_values@ && final(self).new_values@ == old(self).new_values@
                    && flat(final(self).current_values@) == inserted(old(self).current_values@, g.0 as int, value),
                Generation::New => final(self).previous_values@ == old(self).previous_values@ && final(self).current_values@ == old(self).current_values@
                    && final(self)@ == old(self)@.push(value),
            }),
//@ end
}
// a generation index that cannot occur in well-formed (densely numbered, size-limited) data
pub open spec fn generation_out_of_range(g: Generation) -> bool {
    match g { Generation::Previous(i) => i.0 >= STREAM_MAX_SIZE, Generation::Current(i) => i.0 >= STREAM_MAX_SIZE, Generation::New => false }
}
pub open spec fn inserted<T>(m0: Seq<Seq<T>>, g: int, value: T) -> Seq<T> {
    let upto = if g < m0.len() { flat(m0.take(g + 1)) } else { flat(m0) };
    let rest = if g < m0.len() { flat(m0.skip(g + 1)) } else { Seq::<T>::empty() };
    upto.push(value) + rest
}

// ---------------------------------------------------------------- compactify (C12.V1, C10.V4)
// `slice_iter(skip)` returns `impl Iterator<Item = &[T]>` (skip `skip` generations -- a cursor counts the empty ones too --, then
// filter non-empty, map as_ref): opaque here;
// its behaviour against this view is the bounded native job C12.slice_iter
pub struct SliceIter<T> { pub g: Ghost<Seq<Seq<T>>> }
impl<T> ValuesMatrix<T> {
    #[verifier::external_body]
    pub fn slice_iter(&self, skip: GenerationIdx) -> (r: SliceIter<T>)
        ensures r.g@ == non_empty(self@.skip(skip.0 as int))
    { unimplemented!() }
}
impl<T> NewValuesMatrix<T> {
//@ lift air/src/execution_step/value_types/stream/values_matrix.rs :: impl<T> NewValuesMatrix<T> :: fn slice_iter
//@ props C12
//@ ret r
//@ sig 1 "impl Iterator<Item = &[T]>" => "SliceIter<T>"
//@ spec
        ensures r.g@ == non_empty(self@.skip(skip.0 as int))
//@ end
}
#[derive(Clone, Copy)]
pub struct TracePos(pub u32);
pub trait TracePosOperate { fn get_trace_pos(&self) -> TracePos; }
// ghost log of the generation numbers written into the result trace: (first generation, number of generations)
pub struct TraceHandler { pub log: Ghost<Seq<(int, int)>> }

impl<T: TracePosOperate> Stream<T> {
    // `update_generations(values, start_idx, trace_ctx)`: for the k-th slice every value gets generation start_idx + k
    // written at its trace position (bounded native job C12.update_generations checks exactly this on the real function)
    #[verifier::external_body]
    pub fn update_generations(values: SliceIter<T>, start_idx: GenerationIdx, trace_ctx: &mut TraceHandler) -> (r: ExecutionResult<()>)
        requires start_idx.0 + values.g@.len() <= u32::MAX     // the real one `unwrap`s checked_add(position)
        ensures r is Ok ==> final(trace_ctx).log@ == old(trace_ctx).log@.push((start_idx.0 as int, values.g@.len() as int)),
    { unimplemented!() }

//@ lift air/src/execution_step/value_types/stream/stream_definition.rs :: impl<'value, T: 'value + TracePosOperate + fmt::Display> Stream<T> :: fn compactify
//@ props C01 C10 C12
//@ ret r
//@ before "let start_idx = 0.into();"
        proof {
            lemma_non_empty(old(self).previous_values@);
            lemma_non_empty(old(self).current_values@);
            lemma_non_empty(old(self).new_values@);
            lemma_non_empty_id(non_empty(old(self).previous_values@));
            lemma_non_empty_id(non_empty(old(self).current_values@));
            lemma_non_empty_id(non_empty(old(self).new_values@));
            assert(non_empty(old(self).previous_values@).skip(0) =~= non_empty(old(self).previous_values@));
            assert(non_empty(old(self).current_values@).skip(0) =~= non_empty(old(self).current_values@));
            assert(non_empty(old(self).new_values@).skip(0) =~= non_empty(old(self).new_values@));
        }
//@ spec
        requires old(self).wf(), old(self).total() <= u32::MAX
        ensures
            // empty generations are dropped, nothing else changes: same values in the same order
            final(self).previous_values@ == non_empty(old(self).previous_values@),
            final(self).current_values@ == non_empty(old(self).current_values@),
            final(self).new_values@ == non_empty(old(self).new_values@),
            final(self)@ == old(self)@,
            // C12: generations are renumbered densely, previous < current < new, never swapped
            r is Ok ==> ({
                let p = non_empty(old(self).previous_values@).len() as int;
                let c = non_empty(old(self).current_values@).len() as int;
                let n = non_empty(old(self).new_values@).len() as int;
                final(trace_ctx).log@ == old(trace_ctx).log@.push((0int, p)).push((p, c)).push((p + c, n))
                // C10.V4: every generation number written is below the number of values, hence never the 0xCAFEBABE stub
                && p + c + n <= old(self).total()
            }),
//@ end
}

// ---------------------------------------------------------------- Generation::from_data (C12.V2)
#[derive(Clone, Copy)]
pub enum ValueSource { PreviousData, CurrentData }
impl Generation {
//@ lift air/src/execution_step/value_types/stream/stream_definition.rs :: impl Generation :: fn from_data
//@ props C12
//@ ret r
//@ spec
        ensures data_type is PreviousData ==> r == Generation::Previous(generation),
            data_type is CurrentData ==> r == Generation::Current(generation),
//@ end
//@ lift air/src/execution_step/value_types/stream/stream_definition.rs :: impl Generation :: fn new
//@ props C12
//@ ret r
//@ spec
        ensures r is New
//@ end
}
} // verus!
fn main() {}
