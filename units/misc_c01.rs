//@ unit misc_c01
// Panic-freedom (C01) of two small functions that read untrusted data / arbitrary scripts:
//   crates/air-lib/trace-handler/src/data_keeper/merge_ctx.rs   MergeCtx::try_get_generation   (F9a)
//   air/src/execution_step/execution_context/scalar_variables.rs Scalars::get_value            (F7)
// Trusted part: opaque shims of the trace, the slider lookups and the two variable tables.
use vstd::prelude::*;
verus! {

// std: Option<&T>::copied (no vstd spec in this Verus version)
pub assume_specification<'a, T: Copy>[ Option::<&'a T>::copied ](o: Option<&'a T>) -> (r: Option<T>)
    ensures r == (match o { Some(x) => Some(*x), None => None });

#[derive(Clone, Copy)]
pub struct TracePos(pub u32);
#[derive(Clone, Copy)]
pub struct GenerationIdx(pub u32);
pub type TraceLen = u32;

pub mod air_interpreter_data {
    pub use super::ExecutedState;
    pub use super::CallResult;
    pub use super::ValueRef;
}

// the shapes of interpreter-data's ExecutedState that the function matches on (payloads it does not read are opaque)
pub struct Opaque { pub x: u8 }
pub enum ValueRef { Scalar(Opaque), Unused(Opaque), Stream { cid: Opaque, generation: GenerationIdx } }
pub enum CallResult { RequestSentBy(Opaque), Executed(ValueRef), Failed(Opaque) }
// ApResult.res_generations is a Vec read from data: ANY length, including 0
pub struct ApResult { pub res_generations: Vec<GenerationIdx> }
pub enum ExecutedState { Par(Opaque), Call(CallResult), Fold(Opaque), Ap(ApResult), Canon(Opaque) }
impl Clone for ExecutedState { #[verifier::external_body] fn clone(&self) -> (r: Self) ensures r == *self { unimplemented!() } }

pub enum KeeperError {
    NoElementAtPosition { position: TracePos, trace_len: TraceLen },
    NoStreamState { state: ExecutedState },
}
pub type KeeperResult<T> = Result<T, KeeperError>;

pub struct TraceSlider { pub x: u8 }
impl TraceSlider {
    // proved in unit slider: `r.is_some() <==> position < trace length`; nothing is known about the state found there
    #[verifier::external_body]
    pub fn state_at_position(&self, position: TracePos) -> (r: Option<&ExecutedState>) { unimplemented!() }
    #[verifier::external_body]
    pub fn trace_len(&self) -> TraceLen { unimplemented!() }
}
//@ lift crates/air-lib/trace-handler/src/data_keeper/merge_ctx.rs :: struct MergeCtx
//@ derive
//@ end
impl MergeCtx {
//@ lift crates/air-lib/trace-handler/src/data_keeper/merge_ctx.rs :: impl MergeCtx :: fn try_get_generation
//@ props C01
//@ ret r
//@ spec
        // total for every trace content: no requires
        ensures true
//@ end
}

// ---------------------------------------------------------------- Scalars::get_value
pub struct ValueAggregate { pub x: u8 }
pub struct FoldState { pub x: u8 }
pub enum ScalarRef<'i> { Value(&'i ValueAggregate), IterableValue(&'i FoldState) }
pub enum CatchableError { VariableNotFound(String), VariableWasNotInitializedAfterNew(String) }
pub enum UncatchableError { FoldStateNotFound(String), IterableShadowing(String) }
pub enum ExecutionError { Catchable(CatchableError), Uncatchable(UncatchableError) }
impl From<CatchableError> for ExecutionError { fn from(e: CatchableError) -> Self { ExecutionError::Catchable(e) } }
impl From<UncatchableError> for ExecutionError { fn from(e: UncatchableError) -> Self { ExecutionError::Uncatchable(e) } }
impl vstd::std_specs::convert::FromSpecImpl<CatchableError> for ExecutionError {
    open spec fn obeys_from_spec() -> bool { true }
    open spec fn from_spec(e: CatchableError) -> ExecutionError { ExecutionError::Catchable(e) }
}
impl vstd::std_specs::convert::FromSpecImpl<UncatchableError> for ExecutionError {
    open spec fn obeys_from_spec() -> bool { true }
    open spec fn from_spec(e: UncatchableError) -> ExecutionError { ExecutionError::Uncatchable(e) }
}
pub type ExecutionResult<T> = Result<T, ExecutionError>;
pub struct NameStr { pub s: String }
impl NameStr { #[verifier::external_body] pub fn to_string(&self) -> String { unimplemented!() } }
pub struct IterableTable { pub x: u8 }
impl IterableTable {
    // HashMap<String, FoldState>::get: any outcome, for any name
    #[verifier::external_body]
    pub fn get(&self, name: &NameStr) -> (r: Option<&FoldState>) { unimplemented!() }
}
pub struct Scalars { pub iterable_variables: IterableTable, pub non_iterable: u8 }
impl Scalars {
    // ValuesSparseMatrix::get_value: Err (not declared), Ok(None) (declared by `new`, not set), Ok(Some) -- any of them
    #[verifier::external_body]
    pub fn get_non_iterable_scalar(&self, name: &NameStr) -> (r: ExecutionResult<Option<&ValueAggregate>>) { unimplemented!() }

//@ lift air/src/execution_step/execution_context/scalar_variables.rs :: impl<'i> Scalars<'i> :: fn get_value
//@ props C01
//@ ret r
//@ sig 1 "&'i self, name: &str" => "&self, name: &NameStr"
//@ sig 1 "ExecutionResult<ScalarRef<'i>>" => "ExecutionResult<ScalarRef<'_>>"
//@ spec
        // total for every script: a scalar and a fold iterator may carry the same name (the parser accepts
        // `(seq (call .. [] i) (fold i i ..))`), so no combination of the two lookups may panic
        ensures true
//@ end
}

} // verus!
fn main() {}
