//@ unit appends
// The callers of `Stream::add_value` (property C13: "exactly one entry for each append replayed or performed"):
//   air/src/execution_step/execution_context/streams_variables.rs      Streams::add_stream_value (+ StreamDescriptor::global,
//                                                                      StreamValueDescriptor::new)
//   air/src/execution_step/execution_context/stream_maps_variables.rs  StreamMaps::add_stream_map_value (+ descriptors)
//   air/src/execution_step/value_types/stream_map.rs                   StreamMap::insert, StreamMap::new
//   air/src/execution_step/instructions/ap.rs, ap/utils.rs, ap_map.rs  Ap::execute, ApMap::execute and their helpers
//   air/src/execution_step/instructions/call/call_result_setter.rs     the stream arms of populate_context_from_*
//   air/src/execution_step/value_types/stream/stream_definition.rs     Generation::{from_met_result, from_data}
//
// Ghost logs: `Stream.calls` is the sequence of `add_value(value, generation)` calls made on that stream object (one entry
// per call, whatever the call returned); `TraceHandler.pushed_ap` the sequence of states given to `meet_ap_end`,
// `TraceHandler.started` the number of `meet_ap_start` calls.
//
// Finding F12 (fixed): the two `/nothing-lost` obligations failed before the fix of `add_stream_value` / `add_stream_map_value`
// (a new global stream replaced the restricted descriptors bound to the name); replay/appends_f12_end_to_end.rs holds the
// end-to-end regression tests.
//
// Trusted part of this file:
//  * `Stream` (value_types::Stream = stream::Stream<ValueAggregate>): opaque; `new` returns the fresh stream (empty log),
//    `add_value` appends its arguments to the log and returns `add_value_res(old stream, value, generation)`. What
//    `add_value` does to the stream's *content* is unit `streams`.
//  * `HashMap<String, Vec<D>>` (the two lookup tables): opaque, ghost view `Map<Seq<char>, Seq<D>>`, `insert` = `Map::insert`
//    under the key's contents, `get_mut(name)` = a mutable borrow of exactly that entry.
//  * `Streams::get_mut` / `StreamMaps::get_mut` (`.get_mut(name).and_then(|ds| find_closest_mut(ds.iter_mut(), position))`:
//    closures returning `&mut`, `iter_mut().rev()` -- outside Verus): hand-written contract "the last descriptor under that
//    name whose span strictly contains the position, as a mutable borrow of exactly that slot; None otherwise".
//  * ValueAggregate (opaque; constructors and getters are uninterpreted functions of their arguments), `from_key_value`
//    (maplit) = `kv_object(key, value)`, JValue/CID clones are identities, `From<T> for T` is the identity.
//  * the context's other sub-objects: Scalars::set_scalar_value, ExecutionCidState::{track_service_result,
//    resolve_service_info}, PeerCidTracker::register -- `&mut` of their own field only, results uninterpreted;
//    apply_to_arg / resolve_key_if_needed: read-only on the context, results uninterpreted (`applied`, `resolved_key`);
//    TraceHandler::{meet_ap_start (returns `next_ap()`), meet_ap_end}.
//  * verify_call: contract imported mechanically from unit call_verifier.
use vstd::prelude::*;

//@ lift air/src/execution_step/errors/execution_errors.rs :: macro_rules trace_to_exec_err
//@ end

//@ lift air/src/execution_step/instructions/mod.rs :: macro_rules joinable
//@ end

verus! {

use std::rc::Rc;
use core::marker::PhantomData;

pub assume_specification<T>[ <T as core::convert::From<T>>::from ](t: T) -> (r: T) ensures r == t;

// ---------------------------------------------------------------- shim: opaque data (trusted)
pub struct CID<T> { pub id: u64, pub ph: PhantomData<T> }
impl<T> Clone for CID<T> { fn clone(&self) -> (r: Self) ensures r == *self { CID { id: self.id, ph: PhantomData } } }
pub struct JValue { pub x: u8 }
impl Clone for JValue { fn clone(&self) -> (r: Self) ensures r == *self { JValue { x: self.x } } }
#[derive(Clone, Copy)]
pub struct TracePos(pub u32);
#[derive(Clone, Copy)]
pub struct AirPos(pub usize);
impl From<usize> for AirPos { fn from(value: usize) -> (r: Self) ensures r.0 == value { AirPos(value) } }
impl vstd::std_specs::convert::FromSpecImpl<usize> for AirPos {
    open spec fn obeys_from_spec() -> bool { true }
    open spec fn from_spec(v: usize) -> AirPos { AirPos(v) }
}
pub struct SecurityTetraplet { pub peer_pk: String, pub service_id: String, pub function_name: String, pub lens: String }
pub type RcSecurityTetraplet = Rc<SecurityTetraplet>;
pub struct Provenance { pub x: u8 }
pub struct ServiceResultCidAggregate { pub argument_hash: Rc<str> }
pub struct ServiceResultAggregate { pub result: JValue, pub tetraplet: RcSecurityTetraplet, pub trace_pos: TracePos }
impl ServiceResultAggregate {
    pub fn new(result: JValue, tetraplet: RcSecurityTetraplet, trace_pos: TracePos) -> (r: Self)
        ensures r == (ServiceResultAggregate { result, tetraplet, trace_pos })
    { Self { result, tetraplet, trace_pos } }
}

//@ lift crates/air-lib/interpreter-data/src/generation_idx.rs :: type GenerationIdxType
//@ end
//@ lift crates/air-lib/interpreter-data/src/generation_idx.rs :: struct GenerationIdx
//@ derive Copy Clone
//@ rewrite 1 "GenerationIdx(GenerationIdxType)" => "GenerationIdx(pub GenerationIdxType)"
//@ end
impl GenerationIdx {
//@ lift crates/air-lib/interpreter-data/src/generation_idx.rs :: impl GenerationIdx :: fn stub
//@ name GenerationIdx::stub
//@ props C13
//@ ret r
//@ spec
        ensures r.0 == 0xCAFEBABEu32
//@ end
}

// the value put into a stream: opaque; its constructors / getters are uninterpreted functions of their arguments
pub struct ValueAggregate { pub x: u64 }
impl Clone for ValueAggregate { fn clone(&self) -> (r: Self) ensures r == *self { ValueAggregate { x: self.x } } }
pub uninterp spec fn va_new(result: JValue, tetraplet: RcSecurityTetraplet, trace_pos: TracePos, provenance: Provenance) -> ValueAggregate;
pub uninterp spec fn va_from_service(service_result: ServiceResultAggregate, cid: CID<ServiceResultCidAggregate>) -> ValueAggregate;
impl ValueAggregate {
    pub uninterp spec fn result(&self) -> JValue;
    pub uninterp spec fn tetraplet(&self) -> RcSecurityTetraplet;
    pub uninterp spec fn trace_pos(&self) -> TracePos;
    pub uninterp spec fn provenance(&self) -> Provenance;
    #[verifier::external_body]
    pub fn new(result: JValue, tetraplet: RcSecurityTetraplet, trace_pos: TracePos, provenance: Provenance) -> (r: Self)
        ensures r == va_new(result, tetraplet, trace_pos, provenance)
    { unimplemented!() }
    #[verifier::external_body]
    pub fn from_service_result(service_result: ServiceResultAggregate, service_result_agg_cid: CID<ServiceResultCidAggregate>) -> (r: Self)
        ensures r == va_from_service(service_result, service_result_agg_cid)
    { unimplemented!() }
    #[verifier::external_body]
    pub fn get_result(&self) -> (r: &JValue) ensures *r == self.result() { unimplemented!() }
    #[verifier::external_body]
    pub fn get_tetraplet(&self) -> (r: RcSecurityTetraplet) ensures r == self.tetraplet() { unimplemented!() }
    // real: `impl TracePosOperate for ValueAggregate`
    #[verifier::external_body]
    pub fn get_trace_pos(&self) -> (r: TracePos) ensures r == self.trace_pos() { unimplemented!() }
    #[verifier::external_body]
    pub fn get_provenance(&self) -> (r: Provenance) ensures r == self.provenance() { unimplemented!() }
}

// ---------------------------------------------------------------- Generation (lifted)
//@ lift crates/air-lib/trace-handler/src/merger/mod.rs :: enum ValueSource
//@ derive Clone Copy
//@ end
//@ lift crates/air-lib/trace-handler/src/merger/ap_merger.rs :: struct MetApResult
//@ derive
//@ end
//@ lift crates/air-lib/trace-handler/src/merger/ap_merger.rs :: enum MergerApResult
//@ derive
//@ end
//@ lift air/src/execution_step/value_types/stream/stream_definition.rs :: enum Generation
//@ derive Clone Copy
//@ end
pub open spec fn gen_from_data(data_type: ValueSource, generation: GenerationIdx) -> Generation {
    match data_type { ValueSource::PreviousData => Generation::Previous(generation), ValueSource::CurrentData => Generation::Current(generation) }
}
// the generation an `ap` state found in data (or its absence) stands for
pub open spec fn gen_of_ap(m: MergerApResult) -> Generation {
    match m { MergerApResult::NotMet => Generation::New, MergerApResult::Met(x) => gen_from_data(x.value_source, x.generation) }
}
impl Generation {
//@ lift air/src/execution_step/value_types/stream/stream_definition.rs :: impl Generation :: fn from_data
//@ name Generation::from_data
//@ props C13
//@ ret r
//@ spec
        ensures r == gen_from_data(data_type, generation)
//@ end
//@ lift air/src/execution_step/value_types/stream/stream_definition.rs :: impl Generation :: fn from_met_result
//@ name Generation::from_met_result
//@ props C13
//@ ret r
//@ spec
        ensures r == gen_from_data(result.value_source, result.generation)
//@ end
}

//@ lift crates/air-lib/interpreter-data/src/executed_state.rs :: enum ValueRef
//@ derive Clone
//@ end

// ---------------------------------------------------------------- errors
pub struct LambdaError { pub x: u8 }
pub struct ErrorObjectError { pub x: u8 }
pub struct StreamMapError { pub x: u8 }
pub struct TraceHandlerError { pub x: u8 }
pub type TraceHandlerResult<T> = Result<T, TraceHandlerError>;
// the variants the lifted code constructs / the imported contract of verify_call names; every other one is `Other`
pub enum UncatchableError {
    TraceError { trace_error: TraceHandlerError, instruction: String },
    InstructionParametersMismatch { param: &'static str, expected_value: String, stored_value: String },
    CallResultNotCorrespondToInstr(ValueRef),
    Other(u8),
}
//@ lift air/src/execution_step/errors/catchable_errors.rs :: enum CatchableError
//@ derive
//@ end
//@ lift air/src/execution_step/errors/execution_errors.rs :: enum ExecutionError
//@ derive
//@ end
pub type ExecutionResult<T> = Result<T, ExecutionError>;
pub mod execution_step { pub use super::{ExecutionError, UncatchableError}; }
// real: generated by thiserror's #[from]
impl From<UncatchableError> for ExecutionError { fn from(e: UncatchableError) -> Self { ExecutionError::Uncatchable(e) } }
impl vstd::std_specs::convert::FromSpecImpl<UncatchableError> for ExecutionError {
    open spec fn obeys_from_spec() -> bool { true }
    open spec fn from_spec(e: UncatchableError) -> ExecutionError { ExecutionError::Uncatchable(e) }
}
pub open spec fn waiting(e: CatchableError) -> bool { e is VariableNotFound }
pub open spec fn joinable_err(e: ExecutionError) -> bool {
    match e { ExecutionError::Catchable(c) => waiting(*c), ExecutionError::Uncatchable(_) => false }
}
impl ExecutionError {
    // real: errors/execution_errors.rs `impl Joinable for ExecutionError` (proved in unit resolved_call)
    #[verifier::external_body]
    pub fn is_joinable(&self) -> (r: bool) ensures r == joinable_err(*self) { unimplemented!() }
}

// ---------------------------------------------------------------- shim: value_types::Stream with the ghost log of add_value calls (trusted)
pub struct Stream { pub calls: Ghost<Seq<(ValueAggregate, Generation)>>, pub x: u8 }
// what `add_value` returns: a function of the stream and the arguments (its meaning is unit `streams`)
pub uninterp spec fn add_value_res(s: Stream, value: ValueAggregate, generation: Generation) -> ExecutionResult<()>;
pub uninterp spec fn fresh_stream() -> Stream;
impl Stream {
    #[verifier::external_body]
    pub fn new() -> (r: Self)
        ensures r == fresh_stream(), r.calls@ =~= Seq::<(ValueAggregate, Generation)>::empty()
    { unimplemented!() }
    #[verifier::external_body]
    pub fn add_value(&mut self, value: ValueAggregate, generation: Generation) -> (r: ExecutionResult<()>)
        ensures final(self).calls@ == old(self).calls@.push((value, generation)),
            r == add_value_res(*old(self), value, generation),
    { unimplemented!() }
}
// s1 is s0 after exactly one more `add_value(value, generation)`
pub open spec fn one_more(s0: Stream, s1: Stream, value: ValueAggregate, generation: Generation) -> bool {
    s1.calls@ == s0.calls@.push((value, generation))
}

// ---------------------------------------------------------------- shim: the lookup tables HashMap<String, Vec<D>> (trusted, opaque)
#[verifier::external_body]
#[verifier::reject_recursive_types(K)]
#[verifier::reject_recursive_types(V)]
pub struct HashMap<K, V> { m: std::collections::HashMap<K, V> }
impl<D> HashMap<String, Vec<D>> {
    pub uninterp spec fn view(&self) -> Map<Seq<char>, Seq<D>>;
    #[verifier::external_body]
    pub fn insert(&mut self, k: String, v: Vec<D>) -> (r: Option<Vec<D>>)
        ensures final(self)@ == old(self)@.insert(k@, v@)
    { unimplemented!() }
    // HashMap::get_mut::<str>: a mutable borrow of exactly the entry under that key
    #[verifier::external_body]
    pub fn get_mut(&mut self, k: &str) -> (r: Option<&mut Vec<D>>)
        ensures
            old(self)@.contains_key(k@) ==> (r matches Some(v) && v@ == old(self)@[k@] && final(self)@ == old(self)@.insert(k@, final(v)@)),
            !old(self)@.contains_key(k@) ==> r is None && final(self)@ == old(self)@,
    { unimplemented!() }
}

//@ lift crates/air-lib/air-parser/src/parser/span.rs :: struct Span
//@ derive Clone Copy
//@ end
impl Span {
//@ lift crates/air-lib/air-parser/src/parser/span.rs :: impl Span :: fn new
//@ name Span::new
//@ props C13
//@ ret r
//@ spec
        ensures r == (Span { left, right })
//@ end
}
// real: Span::contains_position `self.left < position && position < self.right` (derived PartialOrd of the newtype AirPos(usize))
pub open spec fn span_contains(s: Span, p: AirPos) -> bool { s.left.0 < p.0 && p.0 < s.right.0 }
pub open spec fn global_span() -> Span { Span { left: AirPos(0), right: AirPos(usize::MAX) } }

// ================================================================ streams_variables.rs
//@ lift air/src/execution_step/execution_context/streams_variables/stream_descriptor.rs :: struct StreamDescriptor
//@ derive
//@ end
impl StreamDescriptor {
//@ lift air/src/execution_step/execution_context/streams_variables/stream_descriptor.rs :: impl StreamDescriptor :: fn global
//@ name StreamDescriptor::global
//@ props C13
//@ ret r
//@ spec
        ensures r == (StreamDescriptor { span: global_span(), stream })
//@ end
}
//@ lift air/src/execution_step/execution_context/streams_variables/stream_value_descriptor.rs :: struct StreamValueDescriptor
//@ derive
//@ end
impl<'stream_name> StreamValueDescriptor<'stream_name> {
//@ lift air/src/execution_step/execution_context/streams_variables/stream_value_descriptor.rs :: impl<'stream_name> StreamValueDescriptor<'stream_name> :: fn new
//@ name StreamValueDescriptor::new
//@ props C13
//@ ret r
//@ spec
        ensures r == (StreamValueDescriptor { value, name, generation, position })
//@ end
}

// find_closest / find_closest_mut: descriptors are ordered by decreasing scope, the last one containing the position wins
pub open spec fn closest(spans: Seq<Span>, p: AirPos) -> Option<int>
    decreases spans.len()
{
    if spans.len() == 0 { None }
    else if span_contains(spans.last(), p) { Some(spans.len() - 1) }
    else { closest(spans.drop_last(), p) }
}
pub proof fn lemma_closest(spans: Seq<Span>, p: AirPos)
    ensures closest(spans, p) matches Some(i) ==> 0 <= i < spans.len() && span_contains(spans[i], p)
    decreases spans.len()
{
    if spans.len() > 0 && !span_contains(spans.last(), p) { lemma_closest(spans.drop_last(), p); }
}
pub type StreamTable = Map<Seq<char>, Seq<StreamDescriptor>>;
pub open spec fn stream_spans(ds: Seq<StreamDescriptor>) -> Seq<Span> { ds.map_values(|d: StreamDescriptor| d.span) }
// which stream a (name, position) pair denotes
pub open spec fn lookup(t: StreamTable, name: Seq<char>, p: AirPos) -> Option<int> {
    if t.contains_key(name) { closest(stream_spans(t[name]), p) } else { None }
}
// a global stream that has seen exactly the one add_value(value, generation)
pub open spec fn is_new_global(d: StreamDescriptor, value: ValueAggregate, generation: Generation) -> bool {
    d.span == global_span() && one_more(fresh_stream(), d.stream, value, generation)
}
// the descriptors bound to a name (none if the name is unbound)
pub open spec fn bound_to(t: StreamTable, name: Seq<char>) -> Seq<StreamDescriptor> {
    if t.contains_key(name) { t[name] } else { Seq::empty() }
}
// what the one `add_value` call of an append returns
pub open spec fn append_res(t0: StreamTable, name: Seq<char>, p: AirPos, value: ValueAggregate, generation: Generation) -> ExecutionResult<()> {
    match lookup(t0, name, p) {
        Some(i) => add_value_res(t0[name][i].stream, value, generation),
        None => add_value_res(fresh_stream(), value, generation),
    }
}
// C13, the contract of every append to a stream: the stream denoted by (name, position) got exactly one more
// `add_value(value, generation)` -- it is created (as a global one) if there is none
pub open spec fn one_append(t0: StreamTable, t1: StreamTable, name: Seq<char>, p: AirPos, value: ValueAggregate, generation: Generation) -> bool {
    match lookup(t0, name, p) {
        Some(i) => {
            &&& t1.dom() =~= t0.dom()
            &&& forall|n: Seq<char>| n != name && t0.contains_key(n) ==> t1[n] == t0[n]
            &&& t1[name].len() == t0[name].len()
            &&& forall|j: int| 0 <= j < t0[name].len() && j != i ==> t1[name][j] == t0[name][j]
            &&& t1[name][i].span == t0[name][i].span
            &&& one_more(t0[name][i].stream, t1[name][i].stream, value, generation)
        }
        // the one call went to a fresh stream; the stream is kept only if the call succeeded
        None => if append_res(t0, name, p, value, generation) is Err { t1 == t0 } else {
            &&& t1.dom() =~= t0.dom().insert(name)
            &&& forall|n: Seq<char>| n != name && t0.contains_key(n) ==> t1[n] == t0[n]
            // the new global stream comes first (widest scope); restricted streams already bound to the name -- scopes that do
            // not contain the position, e.g. a `next` run from inside a `new` -- are all kept, in their order, after it (F12)
            &&& t1[name].len() == bound_to(t0, name).len() + 1
            &&& is_new_global(t1[name][0], value, generation)
            &&& t1[name].skip(1) =~= bound_to(t0, name)
        },
    }
}
// the append's error is handed on unchanged; otherwise Ok
pub open spec fn propagated(res: ExecutionResult<()>, r: ExecutionResult<()>) -> bool {
    match res { Err(e) => r == Err::<(), ExecutionError>(e), Ok(_) => r is Ok }
}
// C13 "nothing lost": every stream that existed still exists, under the same name and with the same span, and still
// holds (at least) the appends it held
pub open spec fn still_there(d0: StreamDescriptor, d1: StreamDescriptor) -> bool {
    d1.span == d0.span && d0.stream.calls@.is_prefix_of(d1.stream.calls@)
}
// "there is a k with still_there(d0, ds1[k])"; the first two disjuncts (k = the old index j, k = j + 1) are implied by the
// third and only help the solver
pub open spec fn kept_in(d0: StreamDescriptor, j: int, ds1: Seq<StreamDescriptor>) -> bool {
    ||| (0 <= j < ds1.len() && still_there(d0, ds1[j]))
    ||| (0 <= j + 1 < ds1.len() && still_there(d0, ds1[j + 1]))
    ||| exists|k: int| 0 <= k < ds1.len() && still_there(d0, #[trigger] ds1[k])
}
pub open spec fn no_stream_lost(t0: StreamTable, t1: StreamTable) -> bool {
    forall|n: Seq<char>, j: int| #![trigger t0[n][j]] t0.contains_key(n) && 0 <= j < t0[n].len() ==> t1.contains_key(n) && kept_in(t0[n][j], j, t1[n])
}

//@ lift air/src/execution_step/execution_context/streams_variables.rs :: struct Streams
//@ pub-fields
//@ derive
//@ end
impl Streams {
    pub open spec fn view(&self) -> StreamTable { self.streams@ }
    // real: self.streams.get_mut(name).and_then(|descriptors| find_closest_mut(descriptors.iter_mut(), position))
    #[verifier::external_body]
    pub fn get_mut(&mut self, name: &str, position: AirPos) -> (r: Option<&mut Stream>)
        ensures match lookup(old(self)@, name@, position) {
            Some(i) => r matches Some(s) && *s == old(self)@[name@][i].stream
                && final(self)@ == old(self)@.insert(name@, old(self)@[name@].update(i,
                        StreamDescriptor { span: old(self)@[name@][i].span, stream: *final(s) })),
            None => r is None && final(self)@ == old(self)@,
        }
    { unimplemented!() }

//@ lift air/src/execution_step/execution_context/streams_variables.rs :: impl Streams :: fn add_stream_value
//@ name Streams::add_stream_value
//@ props C13
//@ ret r
//@ before "match self.get_mut(name, position)"
        proof { lemma_closest(stream_spans(old(self)@[name@]), position); }
//@ spec
        ensures
            // exactly one add_value(value, generation), on the stream (name, position) denotes, created if absent
            one_append(old(self)@, final(self)@, value_descriptor.name@, value_descriptor.position, value_descriptor.value, value_descriptor.generation),
            propagated(append_res(old(self)@, value_descriptor.name@, value_descriptor.position, value_descriptor.value, value_descriptor.generation), r),
//@ end

// C13 "nothing lost by an append", from the property statement. Failed before the F12 fix: when the name is bound only to
// restricted streams whose scopes do not contain the position -- an instruction of a later fold iteration run by `next` from
// inside `(new $s ..)` -- `get_mut` finds nothing, and `self.streams.insert(name, vec![global])` *replaced* the restricted
// descriptors; the scope end then popped the new global stream together with the value just appended.
// (no canary of its own: same body and (empty) precondition as the obligation above, which has one)
//@ lift air/src/execution_step/execution_context/streams_variables.rs :: impl Streams :: fn add_stream_value
//@ name Streams::add_stream_value/nothing-lost
//@ props C13
//@ sig 1 "fn add_stream_value" => "fn add_stream_value__nothing_lost"
//@ no-canary
//@ before "match self.get_mut(name, position)"
        proof { lemma_closest(stream_spans(old(self)@[name@]), position); }
//@ spec
        ensures no_stream_lost(old(self)@, final(self)@)
//@ end
}

// ================================================================ stream_map.rs, stream_maps_variables.rs
pub struct StreamMapKey { pub x: u8 }
// real: maplit::hashmap!{ "value" => value.clone(), "key" => key.into() }.into()
pub uninterp spec fn kv_object(key: StreamMapKey, value: JValue) -> JValue;
#[verifier::external_body]
pub fn from_key_value(key: StreamMapKey, value: &JValue) -> (r: JValue)
    ensures r == kv_object(key, *value)
{ unimplemented!() }
// the value a stream map stores for (key, value): the key/value object with the value's tetraplet, position and provenance
pub open spec fn kv_aggregate(key: StreamMapKey, value: ValueAggregate) -> ValueAggregate {
    va_new(kv_object(key, value.result()), value.tetraplet(), value.trace_pos(), value.provenance())
}

//@ lift air/src/execution_step/value_types/stream_map.rs :: struct StreamMap
//@ pub-fields
//@ derive
//@ end
impl StreamMap {
//@ lift air/src/execution_step/value_types/stream_map.rs :: impl StreamMap :: fn new
//@ name StreamMap::new
//@ props C13
//@ ret r
//@ spec
        ensures r.stream == fresh_stream()
//@ end
//@ lift air/src/execution_step/value_types/stream_map.rs :: impl StreamMap :: fn insert
//@ name StreamMap::insert
//@ props C13
//@ ret r
//@ spec
        ensures
            // exactly one add_value, of the key/value object, with the generation given
            one_more(old(self).stream, final(self).stream, kv_aggregate(key, *value), generation),
            r == add_value_res(old(self).stream, kv_aggregate(key, *value), generation),
//@ end
}

//@ lift air/src/execution_step/execution_context/stream_maps_variables.rs :: struct StreamMapValueDescriptor
//@ derive
//@ end
impl<'stream_name> StreamMapValueDescriptor<'stream_name> {
//@ lift air/src/execution_step/execution_context/stream_maps_variables.rs :: impl<'stream_name> StreamMapValueDescriptor<'stream_name> :: fn new
//@ name StreamMapValueDescriptor::new
//@ props C13
//@ ret r
//@ spec
        ensures r == (StreamMapValueDescriptor { value, name, generation, position })
//@ end
}
//@ lift air/src/execution_step/execution_context/stream_maps_variables.rs :: struct StreamMapDescriptor
//@ derive
//@ end
impl StreamMapDescriptor {
//@ lift air/src/execution_step/execution_context/stream_maps_variables.rs :: impl StreamMapDescriptor :: fn global
//@ name StreamMapDescriptor::global
//@ props C13
//@ ret r
//@ spec
        ensures r == (StreamMapDescriptor { span: global_span(), stream_map })
//@ end
}

// the table of stream maps seen as a table of their underlying streams
pub type StreamMapTable = Map<Seq<char>, Seq<StreamMapDescriptor>>;
pub open spec fn as_stream_descriptor(d: StreamMapDescriptor) -> StreamDescriptor { StreamDescriptor { span: d.span, stream: d.stream_map.stream } }
pub open spec fn as_streams(t: StreamMapTable) -> StreamTable {
    t.map_values(|ds: Seq<StreamMapDescriptor>| ds.map_values(|d: StreamMapDescriptor| as_stream_descriptor(d)))
}

//@ lift air/src/execution_step/execution_context/stream_maps_variables.rs :: struct StreamMaps
//@ pub-fields
//@ derive
//@ end
impl StreamMaps {
    pub open spec fn view(&self) -> StreamMapTable { self.stream_maps@ }
    // real: self.stream_maps.get_mut(name).and_then(|descriptors| find_closest_mut(descriptors.iter_mut(), position))
    // (this find_closest_mut is `.rev().find(|d| d.span.contains_position(position)).map(|d| &mut d.stream_map)`)
    #[verifier::external_body]
    pub fn get_mut(&mut self, name: &str, position: AirPos) -> (r: Option<&mut StreamMap>)
        ensures match lookup(as_streams(old(self)@), name@, position) {
            Some(i) => r matches Some(s) && *s == old(self)@[name@][i].stream_map
                && final(self)@ == old(self)@.insert(name@, old(self)@[name@].update(i,
                        StreamMapDescriptor { span: old(self)@[name@][i].span, stream_map: *final(s) })),
            None => r is None && final(self)@ == old(self)@,
        }
    { unimplemented!() }

//@ lift air/src/execution_step/execution_context/stream_maps_variables.rs :: impl StreamMaps :: fn add_stream_map_value
//@ name StreamMaps::add_stream_map_value
//@ props C13
//@ ret r
//@ before "match self.get_mut(name, position)"
        proof { lemma_closest(stream_spans(as_streams(old(self)@)[name@]), position); }
//@ spec
        ensures
            // exactly one add_value(key/value object, generation) on the stream of the map (name, position) denotes, created if absent
            one_append(as_streams(old(self)@), as_streams(final(self)@), value_descriptor.name@, value_descriptor.position,
                kv_aggregate(key, value_descriptor.value), value_descriptor.generation),
            propagated(append_res(as_streams(old(self)@), value_descriptor.name@, value_descriptor.position,
                kv_aggregate(key, value_descriptor.value), value_descriptor.generation), r),
//@ end

// C13 "nothing lost by an append": failed before the F12 fix for the same reason as Streams::add_stream_value
//@ lift air/src/execution_step/execution_context/stream_maps_variables.rs :: impl StreamMaps :: fn add_stream_map_value
//@ name StreamMaps::add_stream_map_value/nothing-lost
//@ props C13
//@ sig 1 "fn add_stream_map_value" => "fn add_stream_map_value__nothing_lost"
//@ no-canary
//@ before "match self.get_mut(name, position)"
        proof { lemma_closest(stream_spans(as_streams(old(self)@)[name@]), position); }
//@ spec
        ensures no_stream_lost(as_streams(old(self)@), as_streams(final(self)@))
//@ end
}

// ================================================================ the instructions that append
// ---------------------------------------------------------------- shim: AST (real structs lifted, argument clauses opaque)
pub mod ast {
    use super::*;
//@ lift crates/air-lib/air-parser/src/ast/values.rs :: struct Scalar
//@ derive
//@ end
//@ lift crates/air-lib/air-parser/src/ast/values.rs :: struct Stream
//@ derive
//@ end
//@ lift crates/air-lib/air-parser/src/ast/values.rs :: struct StreamMap
//@ derive
//@ end
//@ lift crates/air-lib/air-parser/src/ast/instruction_arguments.rs :: enum ApResult
//@ derive
//@ end
//@ lift crates/air-lib/air-parser/src/ast/instruction_arguments.rs :: enum CallOutputValue
//@ derive
//@ end
    pub struct ApArgument<'i> { pub opaque_payload: u64, pub ph: PhantomData<&'i u8> }
    pub struct StreamMapKeyClause<'i> { pub opaque_payload: u64, pub ph: PhantomData<&'i u8> }
//@ lift crates/air-lib/air-parser/src/ast/instructions.rs :: struct Ap
//@ derive
//@ end
//@ lift crates/air-lib/air-parser/src/ast/instructions.rs :: struct ApMap
//@ derive
//@ end
    // Display of the raw instruction: only rendered into an error message
    impl<'i> Ap<'i> {
        #[verifier::external_body]
        pub fn to_string(&self) -> String { unimplemented!() }
    }
    impl<'i> ApMap<'i> {
        #[verifier::external_body]
        pub fn to_string(&self) -> String { unimplemented!() }
    }
}
use ast::CallOutputValue;

// ---------------------------------------------------------------- shim: the context's other sub-objects (trusted, opaque)
pub struct Scalars<'i> { pub opaque_payload: u64, pub ph: PhantomData<&'i u8> }
impl<'i> Scalars<'i> {
    #[verifier::external_body]
    pub fn set_scalar_value(&mut self, name: &str, value: ValueAggregate) -> ExecutionResult<bool> { unimplemented!() }
}
pub struct LastErrorDescriptor { pub x: u8 }
pub struct ErrorDescriptor { pub x: u8 }
pub struct InstructionTracker { pub x: u8 }
pub struct SignatureStore { pub x: u8 }
pub struct CallResults { pub x: u8 }
pub struct CallRequests { pub x: u8 }
pub struct PeerCidTracker { pub x: u8 }
impl PeerCidTracker {
    #[verifier::external_body]
    pub fn register<T>(&mut self, peer: &str, cid: &CID<T>) { unimplemented!() }
}
pub struct ResolvedServiceInfo { pub value: JValue, pub tetraplet: RcSecurityTetraplet, pub service_result_aggregate: Rc<ServiceResultCidAggregate> }
pub struct ExecutionCidState { pub x: u8 }
// what the CID store answers: functions of the store and the arguments
pub uninterp spec fn tracked(st: ExecutionCidState, value: JValue, tetraplet: RcSecurityTetraplet, argument_hash: Rc<str>) -> Result<CID<ServiceResultCidAggregate>, UncatchableError>;
pub uninterp spec fn resolved_info(st: ExecutionCidState, cid: CID<ServiceResultCidAggregate>) -> Result<ResolvedServiceInfo, UncatchableError>;
impl ExecutionCidState {
    #[verifier::external_body]
    pub fn resolve_service_info(&self, service_result_agg_cid: &CID<ServiceResultCidAggregate>) -> (r: Result<ResolvedServiceInfo, UncatchableError>)
        ensures r == resolved_info(*self, *service_result_agg_cid)
    { unimplemented!() }
    #[verifier::external_body]
    pub fn track_service_result(&mut self, value: JValue, tetraplet: RcSecurityTetraplet, argument_hash: Rc<str>)
        -> (r: Result<CID<ServiceResultCidAggregate>, UncatchableError>)
        ensures r == tracked(*old(self), value, tetraplet, argument_hash)
    { unimplemented!() }
}

//@ lift air/src/execution_step/execution_context/context.rs :: struct RcRunParameters
//@ derive
//@ end

//@ lift air/src/execution_step/execution_context/context.rs :: struct ExecutionCtx
//@ end

impl<'i> ExecutionCtx<'i> {
    // spec views (the struct has a private field, so Verus treats it as opaque in public contracts)
    pub closed spec fn streams_view(&self) -> StreamTable { self.streams@ }
    pub closed spec fn maps_view(&self) -> StreamMapTable { self.stream_maps@ }
    pub closed spec fn complete(&self) -> bool { self.subgraph_completeness }
    pub closed spec fn cid(&self) -> ExecutionCidState { self.cid_state }
    pub open spec fn same_streams(&self, o: &Self) -> bool { self.streams_view() == o.streams_view() && self.maps_view() == o.maps_view() }

//@ lift air/src/execution_step/execution_context/context.rs :: impl <'i> ExecutionCtx<'i> :: fn record_call_cid
//@ name ExecutionCtx::record_call_cid
//@ props C13
//@ spec
        ensures final(self).same_streams(old(self)), final(self).complete() == old(self).complete(), final(self).cid() == old(self).cid(),
//@ end
}
impl ExecutionCtx<'_> {
//@ lift air/src/execution_step/execution_context/context.rs :: impl ExecutionCtx<'_> :: fn make_subgraph_incomplete
//@ name ExecutionCtx::make_subgraph_incomplete
//@ props C13
//@ spec
        ensures final(self).same_streams(old(self)), !final(self).complete(), final(self).cid() == old(self).cid(),
//@ end
}

// ---------------------------------------------------------------- shim: trace handler (trusted)
//@ lift crates/air-lib/interpreter-data/src/executed_state.rs :: struct ApResult
//@ derive
//@ end
pub mod air_interpreter_data { pub use super::ApResult; }
// the placeholder state an `ap` leaves in the trace; compactify later writes the real generation into it
pub open spec fn is_ap_stub(a: ApResult) -> bool { a.res_generations@.len() == 1 && a.res_generations@[0].0 == 0xCAFEBABEu32 }
impl ApResult {
//@ lift crates/air-lib/interpreter-data/src/executed_state/impls.rs :: impl ApResult :: fn stub
//@ name ApResult::stub
//@ props C13
//@ ret r
//@ spec
        ensures is_ap_stub(r)
//@ end
}
pub struct TraceHandler { pub pushed_ap: Ghost<Seq<ApResult>>, pub started: Ghost<int>, pub x: u8 }
impl TraceHandler {
    // what the merger will deliver for the next ap instruction: a function of the handler's state
    pub uninterp spec fn next_ap(&self) -> TraceHandlerResult<MergerApResult>;
    // real: try_merge_next_state_as_ap(&mut self.data_keeper)
    #[verifier::external_body]
    pub fn meet_ap_start(&mut self) -> (r: TraceHandlerResult<MergerApResult>)
        ensures r == old(self).next_ap(), final(self).pushed_ap@ == old(self).pushed_ap@, final(self).started@ == old(self).started@ + 1
    { unimplemented!() }
    // real: self.data_keeper.result_trace.push(ExecutedState::Ap(ap_result))
    #[verifier::external_body]
    pub fn meet_ap_end(&mut self, ap_result: ApResult)
        ensures final(self).pushed_ap@ == old(self).pushed_ap@.push(ap_result), final(self).started@ == old(self).started@
    { unimplemented!() }
}
// exactly one `ap` state (the stub) was appended to the result trace
pub open spec fn one_ap_end(p0: Seq<ApResult>, p1: Seq<ApResult>) -> bool {
    p1.len() == p0.len() + 1 && p1.drop_last() =~= p0 && is_ap_stub(p1.last())
}

// the value an `ap` appends: a function of the argument clause and the (read-only) context
pub uninterp spec fn applied(argument: ast::ApArgument, exec_ctx: ExecutionCtx, trace_ctx: TraceHandler, should_touch_trace: bool) -> ExecutionResult<ValueAggregate>;
// real: instructions/ap/apply_to_arguments.rs (resolves scalars / canon streams / literals; read-only)
#[verifier::external_body]
pub fn apply_to_arg(argument: &ast::ApArgument<'_>, exec_ctx: &ExecutionCtx<'_>, trace_ctx: &TraceHandler, should_touch_trace: bool)
    -> (r: ExecutionResult<ValueAggregate>)
    ensures r == applied(*argument, *exec_ctx, *trace_ctx, should_touch_trace)
{ unimplemented!() }

// ---------------------------------------------------------------- ap.rs, ap/utils.rs
// nothing was appended anywhere, no state was taken from or given to the trace
pub open spec fn untouched(c0: ExecutionCtx, c1: ExecutionCtx, t0: TraceHandler, t1: TraceHandler) -> bool {
    c1.same_streams(&c0) && t1.pushed_ap@ == t0.pushed_ap@ && t1.started@ == t0.started@
}
// the argument could not be resolved: wait if it may still arrive, fail otherwise; nothing is appended either way
pub open spec fn not_resolved(e: ExecutionError, c0: ExecutionCtx, c1: ExecutionCtx, t0: TraceHandler, t1: TraceHandler, r: ExecutionResult<()>) -> bool {
    &&& untouched(c0, c1, t0, t1)
    &&& if joinable_err(e) { r is Ok && !c1.complete() } else { r == Err::<(), ExecutionError>(e) }
}
// C13: (ap arg $stream) is exactly one append -- one add_value of the resolved value, with the generation the state in data
// carries (Generation::from_met_result) or New if there is none, and one `ap` state in the trace; (ap arg scalar) is none
pub open spec fn ap_table(ap: ast::Ap, c0: ExecutionCtx, c1: ExecutionCtx, t0: TraceHandler, t1: TraceHandler, r: ExecutionResult<()>) -> bool {
    match applied(ap.argument, c0, t0, ap.result is Stream) {
        Err(e) => not_resolved(e, c0, c1, t0, t1, r),
        Ok(v) => match ap.result {
            ast::ApResult::Scalar(_) => untouched(c0, c1, t0, t1),
            ast::ApResult::Stream(s) => {
                &&& t1.started@ == t0.started@ + 1
                &&& c1.maps_view() == c0.maps_view()
                &&& match t0.next_ap() {
                    Err(_) => r is Err && c1.streams_view() == c0.streams_view() && t1.pushed_ap@ == t0.pushed_ap@,
                    Ok(m) => {
                        &&& one_append(c0.streams_view(), c1.streams_view(), s.name@, s.position, v, gen_of_ap(m))
                        &&& propagated(append_res(c0.streams_view(), s.name@, s.position, v, gen_of_ap(m)), r)
                        &&& if r is Ok { one_ap_end(t0.pushed_ap@, t1.pushed_ap@) } else { t1.pushed_ap@ == t0.pushed_ap@ }
                    }
                }
            }
        },
    }
}

pub mod ap {
    use super::*;
    use super::ast::Ap;

//@ lift air/src/execution_step/instructions/ap/utils.rs :: fn generate_value_descriptor
//@ props C13
//@ ret r
//@ spec
        ensures r == (StreamValueDescriptor { value, name: stream.name, generation: gen_of_ap(*ap_result), position: stream.position })
//@ end

//@ lift air/src/execution_step/instructions/ap/utils.rs :: fn generate_map_value_descriptor
//@ props C13
//@ ret r
//@ spec
        ensures r == (StreamMapValueDescriptor { value, name: stream.name, generation: gen_of_ap(*ap_result), position: stream.position })
//@ end

//@ lift air/src/execution_step/instructions/ap.rs :: fn should_touch_trace
//@ props C13
//@ ret r
//@ spec
        ensures r == (ap.result is Stream)
//@ end

//@ lift air/src/execution_step/instructions/ap.rs :: fn to_merger_ap_result
//@ props C13
//@ ret r
//@ spec
        ensures
            // a scalar target has no state in the trace: the merger is not asked
            instr.result is Scalar ==> r == Ok::<MergerApResult, ExecutionError>(MergerApResult::NotMet) && *final(trace_ctx) == *old(trace_ctx),
            instr.result is Stream ==> final(trace_ctx).started@ == old(trace_ctx).started@ + 1 && final(trace_ctx).pushed_ap@ == old(trace_ctx).pushed_ap@
                && (match old(trace_ctx).next_ap() { Ok(m) => r == Ok::<MergerApResult, ExecutionError>(m), Err(_) => r is Err }),
//@ end

//@ lift air/src/execution_step/instructions/ap.rs :: fn populate_context
//@ name ap::populate_context
//@ props C13
//@ ret r
//@ rewrite 1 ".map(|_| ())" => ".map(|_b: bool| ())"
//@ spec
        ensures
            final(exec_ctx).complete() == old(exec_ctx).complete(),
            match *ap_result {
                ast::ApResult::Scalar(_) => final(exec_ctx).same_streams(old(exec_ctx)),
                ast::ApResult::Stream(s) => final(exec_ctx).maps_view() == old(exec_ctx).maps_view()
                    && one_append(old(exec_ctx).streams_view(), final(exec_ctx).streams_view(), s.name@, s.position, result, gen_of_ap(*merger_ap_result))
                    && propagated(append_res(old(exec_ctx).streams_view(), s.name@, s.position, result, gen_of_ap(*merger_ap_result)), r),
            },
//@ end

//@ lift air/src/execution_step/instructions/ap.rs :: fn maybe_update_trace
//@ props C13
//@ spec
        ensures final(trace_ctx).started@ == old(trace_ctx).started@,
            should_touch_trace ==> one_ap_end(old(trace_ctx).pushed_ap@, final(trace_ctx).pushed_ap@),
            !should_touch_trace ==> final(trace_ctx).pushed_ap@ == old(trace_ctx).pushed_ap@,
//@ end

impl<'i> Ap<'i> {
//@ lift air/src/execution_step/instructions/ap.rs :: impl<'i> super::ExecutableInstruction<'i> for Ap<'i> :: fn execute
//@ name Ap::execute
//@ props C13
//@ ret r
//@ spec
        ensures ap_table(*self, *old(exec_ctx), *final(exec_ctx), *old(trace_ctx), *final(trace_ctx), r)
//@ end
}
} // mod ap

// ---------------------------------------------------------------- ap_map.rs
// the key of (ap key value %map): a function of the key clause and the (read-only) context
pub uninterp spec fn resolved_key(key: ast::StreamMapKeyClause, exec_ctx: ExecutionCtx, map_name: Seq<char>) -> Result<StreamMapKey, ExecutionError>;
// C13: (ap key value %map) is exactly one append to the map's stream -- one add_value of the key/value object with the
// generation of the state in data (or New) -- and one `ap` state in the trace; an unresolvable argument or key appends nothing
pub open spec fn ap_map_table(ap: ast::ApMap, c0: ExecutionCtx, c1: ExecutionCtx, t0: TraceHandler, t1: TraceHandler, r: ExecutionResult<()>) -> bool {
    match applied(ap.value, c0, t0, true) {
        Err(e) => not_resolved(e, c0, c1, t0, t1, r),
        Ok(v) => {
            &&& t1.started@ == t0.started@ + 1
            &&& c1.streams_view() == c0.streams_view()
            &&& match t0.next_ap() {
                Err(_) => r is Err && c1.maps_view() == c0.maps_view() && t1.pushed_ap@ == t0.pushed_ap@,
                Ok(m) => match resolved_key(ap.key, c0, ap.map.name@) {
                    Err(e) => c1.maps_view() == c0.maps_view() && t1.pushed_ap@ == t0.pushed_ap@
                        && (if joinable_err(e) { r is Ok && !c1.complete() } else { r == Err::<(), ExecutionError>(e) }),
                    Ok(k) => {
                        &&& one_append(as_streams(c0.maps_view()), as_streams(c1.maps_view()), ap.map.name@, ap.map.position, kv_aggregate(k, v), gen_of_ap(m))
                        &&& propagated(append_res(as_streams(c0.maps_view()), ap.map.name@, ap.map.position, kv_aggregate(k, v), gen_of_ap(m)), r)
                        &&& if r is Ok { one_ap_end(t0.pushed_ap@, t1.pushed_ap@) } else { t1.pushed_ap@ == t0.pushed_ap@ }
                    }
                },
            }
        },
    }
}

pub mod ap_map {
    use super::*;
    use super::ast::ApMap;
    use super::ast::StreamMap;
    use super::ast::StreamMapKeyClause;
    use super::ap::generate_map_value_descriptor;

    // real: resolves a scalar / lens / canon-stream key against the context (trait `Resolvable`; read-only)
    #[verifier::external_body]
    pub fn resolve_key_if_needed<'ctx>(key: &StreamMapKeyClause<'ctx>, exec_ctx: &ExecutionCtx<'ctx>, map_name: &str)
        -> (r: Result<StreamMapKey, ExecutionError>)
        ensures r == resolved_key(*key, *exec_ctx, map_name@)
    { unimplemented!() }

//@ lift air/src/execution_step/instructions/ap_map.rs :: fn to_merger_ap_map_result
//@ props C13
//@ ret r
//@ sig 1 "&impl ToString" => "&&ApMap<'_>"
//@ spec
        ensures final(trace_ctx).started@ == old(trace_ctx).started@ + 1, final(trace_ctx).pushed_ap@ == old(trace_ctx).pushed_ap@,
            match old(trace_ctx).next_ap() { Ok(m) => r == Ok::<MergerApResult, ExecutionError>(m), Err(_) => r is Err },
//@ end

//@ lift air/src/execution_step/instructions/ap_map.rs :: fn populate_context
//@ name ap_map::populate_context
//@ props C13
//@ ret r
//@ spec
        ensures
            final(exec_ctx).complete() == old(exec_ctx).complete(),
            final(exec_ctx).streams_view() == old(exec_ctx).streams_view(),
            one_append(as_streams(old(exec_ctx).maps_view()), as_streams(final(exec_ctx).maps_view()), ap_map_result.name@, ap_map_result.position,
                kv_aggregate(key, result), gen_of_ap(*merger_ap_result)),
            propagated(append_res(as_streams(old(exec_ctx).maps_view()), ap_map_result.name@, ap_map_result.position,
                kv_aggregate(key, result), gen_of_ap(*merger_ap_result)), r),
//@ end

impl<'i> ApMap<'i> {
//@ lift air/src/execution_step/instructions/ap_map.rs :: impl<'i> super::ExecutableInstruction<'i> for ApMap<'i> :: fn execute
//@ name ApMap::execute
//@ props C13
//@ ret r
//@ rewrite 1 "use crate::execution_step::Joinable;" => ""
//@ rewrite 1 "use crate::joinable;" => ""
//@ spec
        ensures ap_map_table(*self, *old(exec_ctx), *final(exec_ctx), *old(trace_ctx), *final(trace_ctx), r)
//@ end
}
} // mod ap_map

// ---------------------------------------------------------------- call/call_result_setter.rs (stream arms)
//@ lift crates/air-lib/interpreter-data/src/executed_state.rs :: enum Sender
//@ derive Clone
//@ end
//@ lift crates/air-lib/interpreter-data/src/executed_state.rs :: enum CallResult
//@ derive Clone
//@ end
impl CallResult {
//@ lift crates/air-lib/interpreter-data/src/executed_state/impls.rs :: impl CallResult :: fn executed_service_result
//@ name CallResult::executed_service_result
//@ props C13
//@ end
//@ lift crates/air-lib/interpreter-data/src/executed_state/impls.rs :: impl CallResult :: fn executed_scalar
//@ name CallResult::executed_scalar
//@ props C13
//@ end
//@ lift crates/air-lib/interpreter-data/src/executed_state/impls.rs :: impl CallResult :: fn executed_stream_stub
//@ name CallResult::executed_stream_stub
//@ props C13
//@ end
//@ lift crates/air-lib/interpreter-data/src/executed_state/impls.rs :: impl CallResult :: fn executed_unused
//@ name CallResult::executed_unused
//@ props C13
//@ end
}
pub struct CidCalculationError { pub x: u8 }
#[verifier::external_body]
pub fn value_to_json_cid(value: &JValue) -> Result<CID<JValue>, CidCalculationError> { unimplemented!() }
impl From<CidCalculationError> for UncatchableError { fn from(e: CidCalculationError) -> Self { UncatchableError::Other(1) } }
impl vstd::std_specs::convert::FromSpecImpl<CidCalculationError> for UncatchableError {
    open spec fn obeys_from_spec() -> bool { true }
    open spec fn from_spec(e: CidCalculationError) -> UncatchableError { UncatchableError::Other(1) }
}

//@ import-spec call_verifier :: tet_eq
//@ stub call_verifier :: verify_call

// C13 (performed append): a service result bound to a stream is exactly one add_value(result, Generation::New)
//@ lift air/src/execution_step/instructions/call/call_result_setter.rs :: fn populate_context_from_peer_service_result
//@ props C13
//@ ret r
//@ spec
    ensures
        final(exec_ctx).maps_view() == old(exec_ctx).maps_view(),
        match *output {
            CallOutputValue::Stream(s) => match tracked(old(exec_ctx).cid(), executed_result.result, tetraplet, argument_hash) {
                // the result could not be recorded in the CID store: nothing is appended
                Err(_) => r is Err && final(exec_ctx).streams_view() == old(exec_ctx).streams_view(),
                Ok(cid) => {
                    &&& one_append(old(exec_ctx).streams_view(), final(exec_ctx).streams_view(), s.name@, s.position,
                            va_from_service(executed_result, cid), Generation::New)
                    &&& (r is Err <==> append_res(old(exec_ctx).streams_view(), s.name@, s.position, va_from_service(executed_result, cid), Generation::New) is Err)
                }
            },
            // a scalar / unused output appends to no stream
            _ => final(exec_ctx).streams_view() == old(exec_ctx).streams_view(),
        },
//@ end

// C13 (replayed append): a stream value found in data is exactly one add_value(value, Generation::from_data(source, generation)),
// C14: and only after the stored argument hash and tetraplet passed verify_call
//@ lift air/src/execution_step/instructions/call/call_result_setter.rs :: fn populate_context_from_data
//@ props C13 C14
//@ ret r
//@ rewrite 2 "verifier::verify_call(" => "verify_call("
//@ spec
    ensures
        final(exec_ctx).maps_view() == old(exec_ctx).maps_view(),
        match (*output, value) {
            (CallOutputValue::Stream(s), ValueRef::Stream { cid, generation }) => match resolved_info(old(exec_ctx).cid(), cid) {
                Err(_) => r is Err && final(exec_ctx).streams_view() == old(exec_ctx).streams_view(),
                Ok(info) => if !(argument_hash@ == info.service_result_aggregate.argument_hash@ && tet_eq(&*tetraplet, &*info.tetraplet)) {
                    // C14: a state whose parameters do not match the instruction is rejected and nothing is appended
                    r is Err && final(exec_ctx).streams_view() == old(exec_ctx).streams_view()
                } else {
                    let v = va_from_service(ServiceResultAggregate { result: info.value, tetraplet, trace_pos }, cid);
                    &&& one_append(old(exec_ctx).streams_view(), final(exec_ctx).streams_view(), s.name@, s.position, v, gen_from_data(value_source, generation))
                    &&& propagated(append_res(old(exec_ctx).streams_view(), s.name@, s.position, v, gen_from_data(value_source, generation)), r)
                },
            },
            _ => final(exec_ctx).streams_view() == old(exec_ctx).streams_view(),
        },
//@ end

} // verus!
fn main() {}
