#![feature(allocator_api)]
//@ unit validator
// The scoping half of C23 on the real crates/air-lib/air-parser/src/parser/validator.rs (+ span.rs, the name()/lambda() accessors of ast/):
//   RECORDING side: the `met_*` callbacks of VariableValidator, which the generated parser calls once per instruction with the instruction's
//     span (children before parents, left before right);
//   DECIDING side: ValidatorErrorBuilder::{new, check_undefined_variables, check_undefined_iterables, find_closest_fold_span,
//     check_new_on_iterators, check_after_next_instr, build}, add_to_errors and VariableValidator::finalize.
//
// Reading of the property ("every variable used in an accepted script is defined earlier in the text or is an enclosing fold iterator,
// and every next refers to an enclosing fold") on the validator's state:
//   * a use / definition / fold / next is the pair (name, span of its instruction); `a` is earlier in the text than `b` iff
//     `span_before(a, b)` (a starts before b); a fold encloses a use iff `span_encloses(fold span, use span)`;
//   * `resolved(name, span)`    = defined_before(name, span) || enclosing_iterator(name, span)  -- what the property asks of a use;
//   * `use_covered(name, span)` = resolved(name, span) || the pair is in `unresolved_variables`  -- what a callback must establish for
//     EVERY variable operand of its instruction (`*_uses` predicates, written from the instruction definitions in ast/, not from the
//     callbacks); every output is recorded (`def_recorded`, `iterator_recorded`, `next_recorded`); `extends` says that later callbacks
//     keep all of that (lemmas use_covered_is_stable, records_are_stable);
//   * finalize returns no error ==> `all_recorded_uses_resolved` and (KNOWN FINDING b apart) `all_nexts_enclosed`;
//   * lemma accepted_script_is_well_scoped puts the two sides together.
// NOT here: that the generated LALR driver calls the callback of every instruction with that instruction's span, and that an accepted
// tree has no error node (native jobs C23.scope.*); the lexers (C01.parse_total).
//
// KNOWN FINDINGS, each an obligation of its own that fails on the pinned tree and on nothing else:
//   (b)      ValidatorErrorBuilder::check_undefined_iterables/all-spans   only the first `next` of every iterator name is checked
//   (d-fail) VariableValidator::met_fail_literal/operand-route            the operand of `fail` is never inspected
//   (VariableValidator::finalize/every-next-enclosed is the full statement about next, proved FROM the contract of (b).)
//
// Trusted part of this file:
//  * AirPos shim: `struct AirPos(usize)` with the derived PartialEq/Eq/PartialOrd/Ord of a usize newtype (lexer/text_pos.rs);
//    `derive(PartialEq)` of Span is structural equality; `std::cmp::min(a, b)` = `if b < a { b } else { a }` (std's definition);
//  * MultiMap shim (multimap 0.9.1): view Map<K, Seq<V>>; `insert` pushes to the key's vector or creates `[v]`; `get_vec` is the lookup;
//    `iter()` yields ONE pair per key, with the FIRST value; `flat_iter()` every (key, value) pair; every stored vector is non-empty;
//  * `&str` obeys the hash-table key model and `Borrow<str> for &str` is the identity (a `&str`-keyed map looked up by `&str`);
//    Rc::deref is the identity on the pointee; `Iterator::last` returns the last remaining element (`verif_last`);
//  * LambdaAST / NonEmpty (air-lambda-ast, non_empty_vec): LambdaAST, ValueAccessor, Functor are lifted, NonEmpty is `NonEmpty(Vec<T>)`
//    whose `iter()` is the slice iterator;
//  * AfterNextCheckMachine is opaque (`met_instruction_kind` has no contract: it only touches the machine, an extra rule of the
//    validator that the property does not mention); Instruction is opaque (the callbacks only test `last_instruction` for Some/None);
//    ParserError / ParseError / ErrorRecovery / Token: shims, payloads irrelevant; the derived Default of the validator = all fields empty;
//  * ASSUMED callees (outside the property; stubs with the contract "only ADD errors"): check_multiple_next_in_fold,
//    check_iterator_for_multiple_definitions, check_for_unsupported_map_keys, check_for_unsupported_literal_errcodes; and
//    sort_iterator_definitions ("permutes the folds of every iterator, nothing else": `iter_all_mut` + `sort`, outside Verus).
// Rewrites (all local): closures get their annotated header; the receiver of `.any` is let-bound (ghost code must name the iterator);
//    `.last()` -> `.verif_last()`; `for x in c` -> `for x in it: c.iter()`; `match accessor { &P => ..` -> `match *accessor { P => ..`;
//    `fn f(mut self)` -> `fn f(self)` + `let mut this = self;` with `self` -> `this` in the body (Verus has no `mut self` parameter).
use vstd::prelude::*;
use vstd::std_specs::iter::IteratorSpec;
use std::collections::HashMap;
verus! {
broadcast use {vstd::std_specs::hash::group_hash_axioms, key_model::axiom_str_ref_obeys_key_model, key_model::axiom_str_ref_borrows_str,
    key_model::axiom_str_ref_borrows_str_value, seq_lemmas::lemma_push_contains};

pub mod key_model {
    use vstd::prelude::*;
    #[verifier::external_body]
    pub broadcast proof fn axiom_str_ref_obeys_key_model()
        ensures #[trigger] vstd::std_specs::hash::obeys_key_model::<&str>()
    {}
    // `impl Borrow<str> for &str` is the identity on the text: looking a `&str` key up by a `&str` is the plain lookup
    #[verifier::external_body]
    pub broadcast proof fn axiom_str_ref_borrows_str<V>(m: Map<&str, V>, k: &str)
        ensures #[trigger] vstd::std_specs::hash::contains_borrowed_key::<&str, V, str>(m, k) <==> m.contains_key(k)
    {}
    #[verifier::external_body]
    pub broadcast proof fn axiom_str_ref_borrows_str_value<V>(m: Map<&str, V>, k: &str, v: V)
        ensures #[trigger] vstd::std_specs::hash::maps_borrowed_key_to_value::<&str, V, str>(m, k, v) <==> (m.contains_key(k) && m[k] == v)
    {}
}
pub mod seq_lemmas {
    use vstd::prelude::*;
    // membership in a pushed sequence
    pub broadcast proof fn lemma_push_contains<T>(s: Seq<T>, v: T, x: T)
        ensures #[trigger] s.push(v).contains(x) <==> (s.contains(x) || x == v)
    {
        if s.push(v).contains(x) {
            let k = choose|k: int| 0 <= k < s.push(v).len() && s.push(v)[k] == x;
            if k < s.len() { assert(s[k] == x); }
        }
        if s.contains(x) {
            let k = choose|k: int| 0 <= k < s.len() && s[k] == x;
            assert(s.push(v)[k] == x);
        }
        if x == v { assert(s.push(v)[s.len() as int] == x); }
    }
}
use std::cmp::Ordering;
pub type Rc<T> = std::rc::Rc<T>;
// std: Rc::deref is the identity on the pointee
pub assume_specification<T: ?Sized, A: core::alloc::Allocator> [<std::rc::Rc<T, A> as core::ops::Deref>::deref] (r: &std::rc::Rc<T, A>) -> (o: &T) ensures o == &**r;

// ---------------------------------------------------------------- shim: AirPos (trusted; derives of a usize newtype)
#[derive(Clone, Copy)]
pub struct AirPos(pub usize);
pub open spec fn ord_of(a: int, b: int) -> Ordering { if a < b { Ordering::Less } else if a == b { Ordering::Equal } else { Ordering::Greater } }
impl PartialEq for AirPos { fn eq(&self, o: &Self) -> bool { self.0 == o.0 } }
impl Eq for AirPos {}
impl PartialOrd for AirPos { fn partial_cmp(&self, o: &Self) -> Option<Ordering> { self.0.partial_cmp(&o.0) } }
impl Ord for AirPos { fn cmp(&self, o: &Self) -> Ordering { self.0.cmp(&o.0) } }
impl vstd::std_specs::cmp::PartialEqSpecImpl<AirPos> for AirPos {
    open spec fn obeys_eq_spec() -> bool { true }
    open spec fn eq_spec(&self, o: &AirPos) -> bool { self.0 == o.0 }
}
impl vstd::std_specs::cmp::PartialOrdSpecImpl<AirPos> for AirPos {
    open spec fn obeys_partial_cmp_spec() -> bool { true }
    open spec fn partial_cmp_spec(&self, o: &AirPos) -> Option<Ordering> { Some(ord_of(self.0 as int, o.0 as int)) }
}
impl vstd::std_specs::cmp::OrdSpecImpl for AirPos {
    open spec fn obeys_cmp_spec() -> bool { true }
    open spec fn cmp_spec(&self, o: &AirPos) -> Ordering { ord_of(self.0 as int, o.0 as int) }
}
// std: `pub fn min<T: Ord>(v1: T, v2: T) -> T { v1.min(v2) }`, `Ord::min` = `if other < self { other } else { self }`
pub assume_specification<T: Ord> [std::cmp::min] (a: T, b: T) -> (r: T)
    ensures
        vstd::std_specs::cmp::OrdSpec::cmp_spec(&b, &a) == Ordering::Less ==> r == b,
        vstd::std_specs::cmp::OrdSpec::cmp_spec(&b, &a) != Ordering::Less ==> r == a;

// ---------------------------------------------------------------- Span (span.rs, lifted)
//@ lift crates/air-lib/air-parser/src/parser/span.rs :: struct Span
//@ derive Clone Copy PartialEq Eq
//@ end
// derive(PartialEq) of Span: structural (trusted, see header)
impl vstd::std_specs::cmp::PartialEqSpecImpl<Span> for Span {
    open spec fn obeys_eq_spec() -> bool { true }
    open spec fn eq_spec(&self, o: &Span) -> bool { *self == *o }
}
// where an instruction starts in the text
pub open spec fn start(s: Span) -> int { if s.right.0 < s.left.0 { s.right.0 as int } else { s.left.0 as int } }
// "earlier in the text"
pub open spec fn span_before(a: Span, b: Span) -> bool { start(a) < start(b) }
// "encloses": both ends of `b` lie strictly inside `a`
pub open spec fn span_encloses(a: Span, b: Span) -> bool {
    a.left.0 < b.left.0 && b.left.0 < a.right.0 && a.left.0 < b.right.0 && b.right.0 < a.right.0
}
// the order of spans: by start, equal only if identical
pub open spec fn span_cmp(a: Span, b: Span) -> Ordering {
    if start(a) < start(b) { Ordering::Less } else if a == b { Ordering::Equal } else { Ordering::Greater }
}
impl vstd::std_specs::cmp::PartialOrdSpecImpl<Span> for Span {
    open spec fn obeys_partial_cmp_spec() -> bool { true }
    open spec fn partial_cmp_spec(&self, o: &Span) -> Option<Ordering> { Some(span_cmp(*self, *o)) }
}
impl vstd::std_specs::cmp::OrdSpecImpl for Span {
    open spec fn obeys_cmp_spec() -> bool { true }
    open spec fn cmp_spec(&self, o: &Span) -> Ordering { span_cmp(*self, *o) }
}

impl Span {
//@ lift crates/air-lib/air-parser/src/parser/span.rs :: impl Span :: fn new
//@ props C23
//@ ret r
//@ spec
        ensures r.left == left, r.right == right
//@ end

//@ lift crates/air-lib/air-parser/src/parser/span.rs :: impl Span :: fn contains_position
//@ props C23
//@ ret r
//@ spec
        ensures r == (self.left.0 < position.0 && position.0 < self.right.0)
//@ end

//@ lift crates/air-lib/air-parser/src/parser/span.rs :: impl Span :: fn contains_span
//@ props C23
//@ ret r
//@ spec
        ensures r == span_encloses(*self, span)
//@ end
}

impl PartialOrd for Span {
//@ lift crates/air-lib/air-parser/src/parser/span.rs :: impl PartialOrd for Span :: fn partial_cmp
//@ props C23
//@ name Span::partial_cmp
//@ no-canary
//@ end
}
impl Ord for Span {
//@ lift crates/air-lib/air-parser/src/parser/span.rs :: impl Ord for Span :: fn cmp
//@ props C23
//@ name Span::cmp
//@ no-canary
//@ end
}

// ---------------------------------------------------------------- shim: MultiMap (multimap 0.9.1; trusted)
#[verifier::external_body]
#[verifier::reject_recursive_types(K)]
#[verifier::accept_recursive_types(V)]
pub struct MultiMap<K, V> { inner: std::collections::HashMap<K, Vec<V>> }
impl<K, V> MultiMap<K, V> {
    pub uninterp spec fn view(&self) -> Map<K, Seq<V>>;
}
// the values stored under a key (none: the empty sequence)
pub open spec fn values_of<K, V>(m: Map<K, Seq<V>>, k: K) -> Seq<V> { if m.contains_key(k) { m[k] } else { Seq::empty() } }
impl<'i, V> MultiMap<&'i str, V> {
    #[verifier::external_body]
    pub fn new() -> (r: Self) ensures r@ == Map::<&'i str, Seq<V>>::empty() { unimplemented!() }
    // real: `match self.entry(k) { Occupied(e) => e.get_vec_mut().push(v), Vacant(e) => e.insert_vec(vec![v]) }`
    #[verifier::external_body]
    pub fn insert(&mut self, k: &'i str, v: V)
        ensures final(self)@ == old(self)@.insert(k, values_of(old(self)@, k).push(v))
    { unimplemented!() }
    // real: `self.inner.get(k)`
    #[verifier::external_body]
    pub fn get_vec(&self, k: &str) -> (r: Option<&Vec<V>>)
        ensures
            r is Some <==> self@.contains_key(k),
            r matches Some(v) ==> v@ == self@[k],
    { unimplemented!() }
}

// the three iterators of a MultiMap (multimap 0.9.1 src/lib.rs):
//   iter()      = inner.iter().map(|(k, v)| (k, &v[0]))       -- ONE pair per key: the FIRST value stored under it
//   flat_iter() = iter_all().flat_map(|(k, v)| v.iter().map(move |i| (k, i)))     -- every (key, value) pair
//   iter_all()  = inner.iter()                                 -- (key, vector) pairs
// assumed as for HashMap::iter in vstd: they yield every such pair and only such pairs, and terminate; every stored vector has
// at least one value (`insert` creates `vec![v]` or pushes; nothing here removes).
#[verifier::external_body]
#[verifier::reject_recursive_types(K)]
#[verifier::accept_recursive_types(V)]
pub struct MultiIter<'a, K, V> { inner: std::collections::hash_map::Iter<'a, K, Vec<V>> }
impl<'a, K, V> Iterator for MultiIter<'a, K, V> {
    type Item = (&'a K, &'a V);
    #[verifier::external_body]
    fn next(&mut self) -> (r: Option<(&'a K, &'a V)>) { unimplemented!() }
}
impl<'a, K, V> vstd::std_specs::iter::IteratorSpecImpl for MultiIter<'a, K, V> {
    open spec fn obeys_prophetic_iter_laws(&self) -> bool { true }
    #[verifier::prophetic]
    uninterp spec fn remaining(&self) -> Seq<(&'a K, &'a V)>;
    #[verifier::prophetic]
    open spec fn will_return_none(&self) -> bool { true }
    uninterp spec fn decrease(&self) -> Option<nat>;
    uninterp spec fn peek(&self, index: int) -> Option<(&'a K, &'a V)>;
}
#[verifier::external_body]
#[verifier::reject_recursive_types(K)]
#[verifier::accept_recursive_types(V)]
pub struct MultiFlatIter<'a, K, V> { inner: std::collections::hash_map::Iter<'a, K, Vec<V>> }
impl<'a, K, V> Iterator for MultiFlatIter<'a, K, V> {
    type Item = (&'a K, &'a V);
    #[verifier::external_body]
    fn next(&mut self) -> (r: Option<(&'a K, &'a V)>) { unimplemented!() }
}
impl<'a, K, V> vstd::std_specs::iter::IteratorSpecImpl for MultiFlatIter<'a, K, V> {
    open spec fn obeys_prophetic_iter_laws(&self) -> bool { true }
    #[verifier::prophetic]
    uninterp spec fn remaining(&self) -> Seq<(&'a K, &'a V)>;
    #[verifier::prophetic]
    open spec fn will_return_none(&self) -> bool { true }
    uninterp spec fn decrease(&self) -> Option<nat>;
    uninterp spec fn peek(&self, index: int) -> Option<(&'a K, &'a V)>;
}
impl<'i, V> MultiMap<&'i str, V> {
    #[verifier::external_body]
    pub fn iter<'a>(&'a self) -> (r: MultiIter<'a, &'i str, V>)
        ensures
            r.decrease() is Some,
            forall|k: &'i str| #[trigger] self@.contains_key(k) ==> self@[k].len() > 0 && r.remaining().contains((&k, &self@[k][0])),
            forall|j: int| 0 <= j < r.remaining().len() ==> self@.contains_key(*(#[trigger] r.remaining()[j]).0)
                && self@[*r.remaining()[j].0].len() > 0 && *r.remaining()[j].1 == self@[*r.remaining()[j].0][0],
    { unimplemented!() }
    #[verifier::external_body]
    pub fn flat_iter<'a>(&'a self) -> (r: MultiFlatIter<'a, &'i str, V>)
        ensures
            r.decrease() is Some,
            forall|k: &'i str, m: int| self@.contains_key(k) && 0 <= m < self@[k].len() ==> r.remaining().contains((&k, &#[trigger] self@[k][m])),
            forall|j: int| 0 <= j < r.remaining().len() ==> self@.contains_key(*(#[trigger] r.remaining()[j]).0)
                && self@[*r.remaining()[j].0].contains(*r.remaining()[j].1),
    { unimplemented!() }
}

// ---------------------------------------------------------------- shim: errors (lalrpop_util, parser/errors.rs, lexer Token; payloads irrelevant)
pub enum ParseError<L, T, E> { InvalidToken { location: L }, ExtraToken { token: (L, T, L) }, User { error: E } }
pub struct ErrorRecovery<L, T, E> { pub error: ParseError<L, T, E>, pub dropped_tokens: Vec<(L, T, L)> }
pub enum Token<'i> { Call, New, Next, Fold, StringLiteral(&'i str) }
pub struct ParserError { pub span: Span }
impl ParserError {
    #[verifier::external_body]
    pub fn undefined_variable(span: Span, variable_name: &str) -> Self { unimplemented!() }
    #[verifier::external_body]
    pub fn undefined_iterable(span: Span, variable_name: &str) -> Self { unimplemented!() }
    #[verifier::external_body]
    pub fn invalid_iterator_restriction(span: Span, iterator_name: &str) -> Self { unimplemented!() }
    #[verifier::external_body]
    pub fn fold_has_instruction_after_next(span: Span) -> Self { unimplemented!() }
}
impl<'name> AfterNextCheckMachine<'name> {
    #[verifier::external_body]
    pub fn malformed_spans_iter(&self) -> (r: core::slice::Iter<'_, Span>)
        ensures r.obeys_prophetic_iter_laws(), r.decrease() is Some
    { unimplemented!() }
}
// `Iterator::last` (a provided method, which Verus cannot be given a specification for): the last of the remaining elements
pub trait VerifLast: Iterator + Sized {
    fn verif_last(self) -> (r: Option<Self::Item>)
        ensures r == (if self.remaining().len() == 0 { None::<Self::Item> } else { Some(self.remaining().last()) });
}
impl<I: Iterator> VerifLast for I {
    #[verifier::external_body]
    fn verif_last(self) -> (r: Option<I::Item>) { self.last() }
}

// ---------------------------------------------------------------- shim: the after-next machine (opaque), instructions (opaque)
//@ lift crates/air-lib/air-parser/src/parser/validator.rs :: enum CheckInstructionKind
//@ derive Clone Copy
//@ end
pub struct AfterNextCheckMachine<'name> { pub _p: core::marker::PhantomData<&'name ()> }
impl<'name> AfterNextCheckMachine<'name> {
    #[verifier::external_body]
    pub fn met_instruction_kind(&mut self, instr_kind: CheckInstructionKind<'name>, span: Span) { unimplemented!() }
}
pub struct Instruction<'i> { pub _p: core::marker::PhantomData<&'i ()> }

// ---------------------------------------------------------------- shim: lambda AST (air-lambda-ast; same variants)
//@ lift crates/air-lib/lambda/ast/src/ast.rs :: enum ValueAccessor
//@ derive Clone Copy
//@ end
//@ lift crates/air-lib/lambda/ast/src/ast.rs :: enum Functor
//@ derive Clone Copy
//@ end
pub struct NonEmpty<T>(pub Vec<T>);
impl<T> NonEmpty<T> {
    // non_empty_vec: Deref<Target = [T]>
    pub fn iter(&self) -> (r: core::slice::Iter<'_, T>)
        ensures r.remaining().len() == self.0@.len(), forall|k: int| 0 <= k < self.0@.len() ==> *r.remaining()[k] == self.0@[k],
            r.obeys_prophetic_iter_laws(), r.decrease() is Some,
    { self.0.iter() }
}
//@ lift crates/air-lib/lambda/ast/src/ast.rs :: enum LambdaAST
//@ derive
//@ end
pub type JsonString = Rc<str>;

// ---------------------------------------------------------------- the AST the callbacks read (ast/values.rs, ast/instruction_arguments.rs, ast/instructions.rs; lifted)
//@ lift crates/air-lib/air-parser/src/ast/values.rs :: struct Scalar
//@ derive
//@ end
//@ lift crates/air-lib/air-parser/src/ast/values.rs :: struct ScalarWithLambda
//@ derive
//@ end
//@ lift crates/air-lib/air-parser/src/ast/values.rs :: struct Stream
//@ derive
//@ end
//@ lift crates/air-lib/air-parser/src/ast/values.rs :: struct CanonStream
//@ derive
//@ end
//@ lift crates/air-lib/air-parser/src/ast/values.rs :: struct CanonStreamMap
//@ derive
//@ end
//@ lift crates/air-lib/air-parser/src/ast/values.rs :: struct CanonStreamWithLambda
//@ derive
//@ end
//@ lift crates/air-lib/air-parser/src/ast/values.rs :: struct CanonStreamMapWithLambda
//@ derive
//@ end
//@ lift crates/air-lib/air-parser/src/ast/values.rs :: enum ImmutableVariable
//@ derive
//@ end
//@ lift crates/air-lib/air-parser/src/ast/values.rs :: enum ImmutableVariableWithLambda
//@ derive
//@ end
//@ lift crates/air-lib/air-parser/src/ast/values.rs :: struct StreamMap
//@ derive
//@ end
//@ lift crates/air-lib/air-parser/src/ast/values.rs :: struct InstructionErrorAST
//@ derive
//@ end
//@ lift crates/air-lib/air-parser/src/ast/instruction_arguments.rs :: enum ResolvableToPeerIdVariable
//@ derive
//@ end
//@ lift crates/air-lib/air-parser/src/ast/instruction_arguments.rs :: enum ResolvableToStringVariable
//@ derive
//@ end
//@ lift crates/air-lib/air-parser/src/ast/instruction_arguments.rs :: struct Triplet
//@ derive
//@ end
//@ lift crates/air-lib/air-parser/src/ast/instruction_arguments.rs :: enum Number
//@ derive
//@ end
//@ lift crates/air-lib/air-parser/src/ast/instruction_arguments.rs :: enum ImmutableValue
//@ derive
//@ end
//@ lift crates/air-lib/air-parser/src/ast/instruction_arguments.rs :: enum CallOutputValue
//@ derive
//@ end
//@ lift crates/air-lib/air-parser/src/ast/instruction_arguments.rs :: enum ApArgument
//@ derive
//@ end
//@ lift crates/air-lib/air-parser/src/ast/instruction_arguments.rs :: enum ApResult
//@ derive
//@ end
//@ lift crates/air-lib/air-parser/src/ast/instruction_arguments.rs :: enum StreamMapKeyClause
//@ derive
//@ end
//@ lift crates/air-lib/air-parser/src/ast/instruction_arguments.rs :: enum FoldScalarIterable
//@ derive
//@ end
//@ lift crates/air-lib/air-parser/src/ast/instruction_arguments.rs :: enum NewArgument
//@ derive
//@ end
//@ lift crates/air-lib/air-parser/src/ast/instructions.rs :: struct Call
//@ derive
//@ end
//@ lift crates/air-lib/air-parser/src/ast/instructions.rs :: struct Ap
//@ derive
//@ end
//@ lift crates/air-lib/air-parser/src/ast/instructions.rs :: struct ApMap
//@ derive
//@ end
//@ lift crates/air-lib/air-parser/src/ast/instructions.rs :: struct Canon
//@ derive
//@ end
//@ lift crates/air-lib/air-parser/src/ast/instructions.rs :: struct CanonMap
//@ derive
//@ end
//@ lift crates/air-lib/air-parser/src/ast/instructions.rs :: struct CanonStreamMapScalar
//@ derive
//@ end
//@ lift crates/air-lib/air-parser/src/ast/instructions.rs :: struct Match
//@ derive
//@ end
//@ lift crates/air-lib/air-parser/src/ast/instructions.rs :: struct MisMatch
//@ derive
//@ end
//@ lift crates/air-lib/air-parser/src/ast/instructions.rs :: enum Fail
//@ derive
//@ end
//@ lift crates/air-lib/air-parser/src/ast/instructions.rs :: struct FoldScalar
//@ derive
//@ end
//@ lift crates/air-lib/air-parser/src/ast/instructions.rs :: struct FoldStream
//@ derive
//@ end
//@ lift crates/air-lib/air-parser/src/ast/instructions.rs :: struct FoldStreamMap
//@ derive
//@ end
//@ lift crates/air-lib/air-parser/src/ast/instructions.rs :: struct Next
//@ derive
//@ end
//@ lift crates/air-lib/air-parser/src/ast/instructions.rs :: struct New
//@ derive
//@ end

// ---------------------------------------------------------------- the validator (validator.rs)
//@ lift crates/air-lib/air-parser/src/parser/validator.rs :: struct VariableValidator
//@ derive
//@ pub-fields
//@ end
//@ lift crates/air-lib/air-parser/src/parser/validator.rs :: struct ValidatorErrorBuilder
//@ derive
//@ pub-fields
//@ end

// the derived Default (every field's Default); `new()` below is `<_>::default()`
impl<'i> Default for AfterNextCheckMachine<'i> {
    fn default() -> Self { AfterNextCheckMachine { _p: core::marker::PhantomData } }
}
impl<'i> Default for VariableValidator<'i> {
    fn default() -> (r: Self)
        ensures r.is_empty()
    {
        VariableValidator {
            met_variable_definitions: HashMap::new(),
            met_iterator_definitions: MultiMap::new(),
            unresolved_variables: MultiMap::new(),
            unresolved_iterables: MultiMap::new(),
            multiple_next_candidates: MultiMap::new(),
            not_iterators_candidates: Vec::new(),
            unsupported_map_keys: Vec::new(),
            unsupported_literal_errcodes: Vec::new(),
            after_next_machine: Default::default(),
        }
    }
}

// ---------------------------------------------------------------- vocabulary of the contracts
impl<'i> VariableValidator<'i> {
    // name -> span of its left-most defining instruction (call / ap / canon output, new)
    pub open spec fn defs(&self) -> Map<&'i str, Span> { self.met_variable_definitions@ }
    // iterator name -> spans of the folds that declare it
    pub open spec fn iter_defs(&self) -> Map<&'i str, Seq<Span>> { self.met_iterator_definitions@ }
    // uses that were not resolved when met: name -> spans of the using instructions
    pub open spec fn unresolved(&self) -> Map<&'i str, Seq<Span>> { self.unresolved_variables@ }
    // next instructions: iterator name -> spans
    pub open spec fn nexts(&self) -> Map<&'i str, Seq<Span>> { self.unresolved_iterables@ }

    pub open spec fn is_empty(&self) -> bool {
        &&& self.defs() == Map::<&'i str, Span>::empty()
        &&& self.iter_defs() == Map::<&'i str, Seq<Span>>::empty()
        &&& self.unresolved() == Map::<&'i str, Seq<Span>>::empty()
        &&& self.nexts() == Map::<&'i str, Seq<Span>>::empty()
        &&& self.multiple_next_candidates@ == Map::<&'i str, Seq<Span>>::empty()
        &&& self.not_iterators_candidates@.len() == 0
    }

    // ---- the property's two ways of being in scope
    // "defined earlier in the text": some instruction that starts before `span` defines `name`
    pub open spec fn defined_before(&self, name: &str, span: Span) -> bool {
        self.defs().contains_key(name) && span_before(self.defs()[name], span)
    }
    // "is an enclosing fold iterator": some fold with iterator `name` encloses `span`
    pub open spec fn enclosing_iterator(&self, name: &str, span: Span) -> bool {
        self.iter_defs().contains_key(name)
            && exists|k: int| 0 <= k < self.iter_defs()[name].len() && span_encloses(#[trigger] self.iter_defs()[name][k], span)
    }
    pub open spec fn resolved(&self, name: &str, span: Span) -> bool {
        self.defined_before(name, span) || self.enclosing_iterator(name, span)
    }
    // the use (name, span) is on the list that finalize checks
    pub open spec fn recorded_use(&self, name: &str, span: Span) -> bool {
        self.unresolved().contains_key(name) && self.unresolved()[name].contains(span)
    }
    // what every callback owes for every variable operand of its instruction
    pub open spec fn use_covered(&self, name: &str, span: Span) -> bool {
        self.resolved(name, span) || self.recorded_use(name, span)
    }
    // `name` has a definition that starts no later than the instruction at `span`
    pub open spec fn def_recorded(&self, name: &str, span: Span) -> bool {
        self.defs().contains_key(name) && start(self.defs()[name]) <= start(span)
    }
    // the fold at `span` is a fold with iterator `name`
    pub open spec fn iterator_recorded(&self, name: &str, span: Span) -> bool {
        self.iter_defs().contains_key(name) && self.iter_defs()[name].contains(span)
    }
    // the next at `span` is on the list that finalize checks
    pub open spec fn next_recorded(&self, name: &str, span: Span) -> bool {
        self.nexts().contains_key(name) && self.nexts()[name].contains(span)
    }

    // what finalize must have established when it reports nothing (C23, on the recorded lists):
    // every recorded use is in scope ...
    pub open spec fn all_recorded_uses_resolved(&self) -> bool {
        forall|n: &'i str, s: Span| #[trigger] self.recorded_use(n, s) ==> self.resolved(n, s)
    }
    // ... and every next lies inside a fold that declares its iterator
    pub open spec fn all_nexts_enclosed(&self) -> bool {
        forall|n: &'i str, s: Span| #[trigger] self.next_recorded(n, s) ==> self.enclosing_iterator(n, s)
    }
    // what the code does guarantee about next today (KNOWN FINDING b): the FIRST next recorded for every iterator name
    pub open spec fn first_nexts_enclosed(&self) -> bool {
        forall|n: &'i str| #[trigger] self.nexts().contains_key(n) && self.nexts()[n].len() > 0 ==> self.enclosing_iterator(n, self.nexts()[n][0])
    }
    // the folds are the same set (sorting permutes them) and nothing else differs
    pub open spec fn same_but_fold_order(&self, o: &VariableValidator<'i>) -> bool {
        &&& forall|n: &'i str, s: Span| #[trigger] self.iterator_recorded(n, s) <==> o.iterator_recorded(n, s)
        &&& self.met_variable_definitions == o.met_variable_definitions
        &&& self.unresolved_variables == o.unresolved_variables
        &&& self.unresolved_iterables == o.unresolved_iterables
        &&& self.multiple_next_candidates == o.multiple_next_candidates
        &&& self.not_iterators_candidates == o.not_iterators_candidates
    }

    // `self` is a later state of `o`: definitions only move to the left, the three lists only grow
    #[verifier::opaque]
    pub open spec fn extends(&self, o: &VariableValidator<'i>) -> bool {
        &&& forall|n: &'i str| #[trigger] o.defs().contains_key(n) ==> self.defs().contains_key(n) && start(self.defs()[n]) <= start(o.defs()[n])
        &&& forall|n: &'i str, s: Span| #[trigger] o.iterator_recorded(n, s) ==> self.iterator_recorded(n, s)
        &&& forall|n: &'i str, s: Span| #[trigger] o.recorded_use(n, s) ==> self.recorded_use(n, s)
        &&& forall|n: &'i str, s: Span| #[trigger] o.next_recorded(n, s) ==> self.next_recorded(n, s)
    }
    // only uses were recorded (and the after-next machine may have moved)
    pub open spec fn only_uses_added(&self, o: &VariableValidator<'i>) -> bool {
        &&& self.met_variable_definitions == o.met_variable_definitions
        &&& self.met_iterator_definitions == o.met_iterator_definitions
        &&& self.unresolved_iterables == o.unresolved_iterables
        &&& self.multiple_next_candidates == o.multiple_next_candidates
        &&& self.not_iterators_candidates == o.not_iterators_candidates
        &&& self.unsupported_map_keys == o.unsupported_map_keys
        &&& self.unsupported_literal_errcodes == o.unsupported_literal_errcodes
    }
    // no fold iterator, no next was recorded
    pub open spec fn no_fold_or_next_added(&self, o: &VariableValidator<'i>) -> bool {
        &&& self.met_iterator_definitions == o.met_iterator_definitions
        &&& self.unresolved_iterables == o.unresolved_iterables
        &&& self.multiple_next_candidates == o.multiple_next_candidates
        &&& self.not_iterators_candidates == o.not_iterators_candidates
    }
    pub open spec fn only_uses_added_but_errcodes(&self, o: &VariableValidator<'i>) -> bool {
        &&& self.met_variable_definitions == o.met_variable_definitions
        &&& self.met_iterator_definitions == o.met_iterator_definitions
        &&& self.unresolved_iterables == o.unresolved_iterables
        &&& self.multiple_next_candidates == o.multiple_next_candidates
        &&& self.not_iterators_candidates == o.not_iterators_candidates
    }
    // everything but the after-next machine is the same
    pub open spec fn same_scoping_state(&self, o: &VariableValidator<'i>) -> bool {
        &&& self.met_variable_definitions == o.met_variable_definitions
        &&& self.met_iterator_definitions == o.met_iterator_definitions
        &&& self.unresolved_variables == o.unresolved_variables
        &&& self.unresolved_iterables == o.unresolved_iterables
        &&& self.multiple_next_candidates == o.multiple_next_candidates
        &&& self.not_iterators_candidates == o.not_iterators_candidates
        &&& self.unsupported_map_keys == o.unsupported_map_keys
        &&& self.unsupported_literal_errcodes == o.unsupported_literal_errcodes
    }
}


// ---------------------------------------------------------------- "n is a variable operand of ..." (from the definitions in ast/)
// a lens uses the scalars it takes field names / indices from
pub open spec fn accessor_uses<'i>(a: ValueAccessor<'i>, n: &'i str) -> bool { a == (ValueAccessor::FieldAccessByScalar { scalar_name: n }) }
pub open spec fn lambda_uses<'i>(l: &LambdaAST<'i>, n: &'i str) -> bool {
    match *l {
        LambdaAST::ValuePath(p) => exists|k: int| 0 <= k < p.0@.len() && accessor_uses(#[trigger] p.0@[k], n),
        LambdaAST::Functor(_) => false,
    }
}
pub open spec fn opt_lambda_uses<'i>(l: &Option<LambdaAST<'i>>, n: &'i str) -> bool {
    match *l { Some(l) => lambda_uses(&l, n), None => false }
}
pub open spec fn scalar_uses<'i>(s: &Scalar<'i>, n: &'i str) -> bool { s.name == n }
pub open spec fn scalar_wl_uses<'i>(s: &ScalarWithLambda<'i>, n: &'i str) -> bool { s.name == n || lambda_uses(&s.lambda, n) }
pub open spec fn canon_stream_uses<'i>(s: &CanonStream<'i>, n: &'i str) -> bool { s.name == n }
pub open spec fn canon_stream_map_uses<'i>(s: &CanonStreamMap<'i>, n: &'i str) -> bool { s.name == n }
pub open spec fn canon_stream_wl_uses<'i>(s: &CanonStreamWithLambda<'i>, n: &'i str) -> bool { s.name == n || lambda_uses(&s.lambda, n) }
pub open spec fn canon_stream_map_wl_uses<'i>(s: &CanonStreamMapWithLambda<'i>, n: &'i str) -> bool { s.name == n || lambda_uses(&s.lambda, n) }
pub open spec fn variable_name<'i>(v: &ImmutableVariable<'i>) -> &'i str {
    match *v { ImmutableVariable::Scalar(s) => s.name, ImmutableVariable::CanonStream(s) => s.name, ImmutableVariable::CanonStreamMap(s) => s.name }
}
pub open spec fn variable_wl_name<'i>(v: &ImmutableVariableWithLambda<'i>) -> &'i str {
    match *v { ImmutableVariableWithLambda::Scalar(s) => s.name, ImmutableVariableWithLambda::CanonStream(s) => s.name, ImmutableVariableWithLambda::CanonStreamMap(s) => s.name }
}
pub open spec fn variable_wl_lambda<'i>(v: &ImmutableVariableWithLambda<'i>) -> LambdaAST<'i> {
    match *v { ImmutableVariableWithLambda::Scalar(s) => s.lambda, ImmutableVariableWithLambda::CanonStream(s) => s.lambda, ImmutableVariableWithLambda::CanonStreamMap(s) => s.lambda }
}
pub open spec fn variable_uses<'i>(v: &ImmutableVariable<'i>, n: &'i str) -> bool { variable_name(v) == n }
pub open spec fn variable_wl_uses<'i>(v: &ImmutableVariableWithLambda<'i>, n: &'i str) -> bool {
    variable_wl_name(v) == n || lambda_uses(&variable_wl_lambda(v), n)
}
pub open spec fn peer_uses<'i>(p: &ResolvableToPeerIdVariable<'i>, n: &'i str) -> bool {
    match *p {
        ResolvableToPeerIdVariable::InitPeerId | ResolvableToPeerIdVariable::Literal(_) => false,
        ResolvableToPeerIdVariable::Scalar(s) => scalar_uses(&s, n),
        ResolvableToPeerIdVariable::ScalarWithLambda(s) => scalar_wl_uses(&s, n),
        ResolvableToPeerIdVariable::CanonStreamWithLambda(s) => canon_stream_wl_uses(&s, n),
        ResolvableToPeerIdVariable::CanonStreamMapWithLambda(s) => canon_stream_map_wl_uses(&s, n),
    }
}
pub open spec fn string_uses<'i>(p: &ResolvableToStringVariable<'i>, n: &'i str) -> bool {
    match *p {
        ResolvableToStringVariable::Literal(_) => false,
        ResolvableToStringVariable::Scalar(s) => scalar_uses(&s, n),
        ResolvableToStringVariable::ScalarWithLambda(s) => scalar_wl_uses(&s, n),
        ResolvableToStringVariable::CanonStreamWithLambda(s) => canon_stream_wl_uses(&s, n),
        ResolvableToStringVariable::CanonStreamMapWithLambda(s) => canon_stream_map_wl_uses(&s, n),
    }
}
// an argument of call / an operand of match: a variable, a variable with a lens, or the lens of %last_error% / :error:
pub open spec fn value_uses<'i>(v: &ImmutableValue<'i>, n: &'i str) -> bool {
    match *v {
        ImmutableValue::Variable(var) => variable_uses(&var, n),
        ImmutableValue::VariableWithLambda(var) => variable_wl_uses(&var, n),
        ImmutableValue::LastError(l) => opt_lambda_uses(&l, n),
        ImmutableValue::Error(e) => opt_lambda_uses(&e.lens, n),
        _ => false,
    }
}
pub open spec fn args_use<'i>(args: Seq<ImmutableValue<'i>>, n: &'i str) -> bool {
    exists|k: int| 0 <= k < args.len() && value_uses(&#[trigger] args[k], n)
}
pub open spec fn ap_argument_uses<'i>(a: &ApArgument<'i>, n: &'i str) -> bool {
    match *a {
        ApArgument::Scalar(s) => scalar_uses(&s, n),
        ApArgument::ScalarWithLambda(s) => scalar_wl_uses(&s, n),
        ApArgument::CanonStream(s) => canon_stream_uses(&s, n),
        ApArgument::CanonStreamMap(s) => canon_stream_map_uses(&s, n),
        ApArgument::CanonStreamWithLambda(s) => canon_stream_wl_uses(&s, n),
        ApArgument::CanonStreamMapWithLambda(s) => canon_stream_map_wl_uses(&s, n),
        ApArgument::LastError(l) => opt_lambda_uses(&l, n),
        ApArgument::Error(e) => opt_lambda_uses(&e.lens, n),
        _ => false,
    }
}
pub open spec fn map_key_uses<'i>(k: &StreamMapKeyClause<'i>, n: &'i str) -> bool {
    match *k {
        StreamMapKeyClause::Literal(_) | StreamMapKeyClause::Int(_) => false,
        StreamMapKeyClause::Scalar(s) => scalar_uses(&s, n),
        StreamMapKeyClause::ScalarWithLambda(s) => scalar_wl_uses(&s, n),
        StreamMapKeyClause::CanonStreamWithLambda(s) => canon_stream_wl_uses(&s, n),
    }
}
pub open spec fn fold_scalar_iterable_uses<'i>(it: &FoldScalarIterable<'i>, n: &'i str) -> bool {
    match *it {
        FoldScalarIterable::Scalar(s) => scalar_uses(&s, n),
        FoldScalarIterable::ScalarWithLambda(s) => scalar_wl_uses(&s, n),
        FoldScalarIterable::CanonStream(s) => canon_stream_uses(&s, n),
        FoldScalarIterable::CanonStreamMap(s) => canon_stream_map_uses(&s, n),
        FoldScalarIterable::CanonStreamMapWithLambda(s) => canon_stream_map_wl_uses(&s, n),
        FoldScalarIterable::EmptyArray => false,
    }
}
// ---- whole instructions: their variable operands (uses) ...
pub open spec fn call_uses<'i>(c: &Call<'i>, n: &'i str) -> bool {
    peer_uses(&c.triplet.peer_id, n) || string_uses(&c.triplet.service_id, n) || string_uses(&c.triplet.function_name, n) || args_use(c.args@, n)
}
// canon: the peer; the source stream / map is deliberately not a checked use ("empty streams are considered to be empty")
pub open spec fn canon_uses<'i>(c: &Canon<'i>, n: &'i str) -> bool { peer_uses(&c.peer_id, n) }
pub open spec fn canon_map_uses<'i>(c: &CanonMap<'i>, n: &'i str) -> bool { peer_uses(&c.peer_id, n) }
pub open spec fn canon_map_scalar_uses<'i>(c: &CanonStreamMapScalar<'i>, n: &'i str) -> bool { peer_uses(&c.peer_id, n) }
pub open spec fn match_uses<'i>(m: &Match<'i>, n: &'i str) -> bool { value_uses(&m.left_value, n) || value_uses(&m.right_value, n) }
pub open spec fn mismatch_uses<'i>(m: &MisMatch<'i>, n: &'i str) -> bool { value_uses(&m.left_value, n) || value_uses(&m.right_value, n) }
pub open spec fn ap_uses<'i>(a: &Ap<'i>, n: &'i str) -> bool { ap_argument_uses(&a.argument, n) }
pub open spec fn ap_map_uses<'i>(a: &ApMap<'i>, n: &'i str) -> bool { map_key_uses(&a.key, n) || ap_argument_uses(&a.value, n) }
pub open spec fn fold_scalar_uses<'i>(f: &FoldScalar<'i>, n: &'i str) -> bool { fold_scalar_iterable_uses(&f.iterable, n) }
pub open spec fn fold_stream_uses<'i>(f: &FoldStream<'i>, n: &'i str) -> bool { f.iterable.name == n }
pub open spec fn fold_stream_map_uses<'i>(f: &FoldStreamMap<'i>, n: &'i str) -> bool { f.iterable.name == n }
pub open spec fn fail_uses<'i>(f: &Fail<'i>, n: &'i str) -> bool {
    match *f {
        Fail::Scalar(s) => scalar_uses(&s, n),
        Fail::ScalarWithLambda(s) => scalar_wl_uses(&s, n),
        Fail::CanonStreamWithLambda(s) => canon_stream_wl_uses(&s, n),
        _ => false,
    }
}
// ---- ... and the names they define
pub open spec fn new_argument_name<'i>(a: &NewArgument<'i>) -> &'i str {
    match *a {
        NewArgument::Scalar(s) => s.name, NewArgument::Stream(s) => s.name, NewArgument::StreamMap(s) => s.name,
        NewArgument::CanonStream(s) => s.name, NewArgument::CanonStreamMap(s) => s.name,
    }
}
pub open spec fn ap_result_name<'i>(a: &ApResult<'i>) -> &'i str {
    match *a { ApResult::Scalar(s) => s.name, ApResult::Stream(s) => s.name }
}


// ---------------------------------------------------------------- name() / lambda() of the AST (ast/values/impls.rs, ast/instruction_arguments/impls.rs; lifted)
impl<'i> ImmutableVariable<'i> {
//@ lift crates/air-lib/air-parser/src/ast/values/impls.rs :: impl<'i> ImmutableVariable<'i> :: fn name
//@ props C23
//@ ret r
//@ spec
        ensures r == variable_name(self)
//@ end
}
impl<'i> ImmutableVariableWithLambda<'i> {
//@ lift crates/air-lib/air-parser/src/ast/values/impls.rs :: impl<'i> ImmutableVariableWithLambda<'i> :: fn name
//@ props C23
//@ ret r
//@ spec
        ensures r == variable_wl_name(self)
//@ end

//@ lift crates/air-lib/air-parser/src/ast/values/impls.rs :: impl<'i> ImmutableVariableWithLambda<'i> :: fn lambda
//@ props C23
//@ ret r
//@ spec
        ensures *r == variable_wl_lambda(self)
//@ end
}
impl<'i> NewArgument<'i> {
//@ lift crates/air-lib/air-parser/src/ast/instruction_arguments/impls.rs :: impl<'i> NewArgument<'i> :: fn name
//@ props C23
//@ ret r
//@ spec
        ensures r == new_argument_name(self)
//@ end
}
impl<'i> ApResult<'i> {
//@ lift crates/air-lib/air-parser/src/ast/instruction_arguments/impls.rs :: impl<'i> ApResult<'i> :: fn name
//@ props C23
//@ ret r
//@ spec
        ensures r == ap_result_name(self)
//@ end
}

// ---------------------------------------------------------------- lemmas (broadcast in module `callbacks`)
pub mod lemmas {
    use vstd::prelude::*;
    use super::*;

//@ lemma extends_is_reflexive props C23
    pub broadcast proof fn extends_is_reflexive<'i>(a: &VariableValidator<'i>)
        ensures #[trigger] a.extends(a)
    { reveal(VariableValidator::extends); }
//@ end

//@ lemma extends_is_transitive props C23
    pub broadcast proof fn extends_is_transitive<'i>(a: &VariableValidator<'i>, b: &VariableValidator<'i>, c: &VariableValidator<'i>)
        requires #[trigger] c.extends(b), #[trigger] b.extends(a)
        ensures c.extends(a)
    { reveal(VariableValidator::extends); }
//@ end

    // a change of the after-next machine alone is an extension
//@ lemma same_scoping_state_extends props C23
    pub broadcast proof fn same_scoping_state_extends<'i>(a: &VariableValidator<'i>, b: &VariableValidator<'i>)
        requires #[trigger] b.same_scoping_state(a)
        ensures b.extends(a)
    { reveal(VariableValidator::extends); }
//@ end

    // a use that is covered stays covered whatever is recorded later
//@ lemma use_covered_is_stable props C23
    pub broadcast proof fn use_covered_is_stable<'i>(old_v: &VariableValidator<'i>, new_v: &VariableValidator<'i>, name: &'i str, span: Span)
        requires #[trigger] new_v.extends(old_v), #[trigger] old_v.use_covered(name, span)
        ensures new_v.use_covered(name, span)
    {
        reveal(VariableValidator::extends);
        if old_v.defined_before(name, span) {
            assert(old_v.defs().contains_key(name));
        } else if old_v.enclosing_iterator(name, span) {
            let k = choose|k: int| 0 <= k < old_v.iter_defs()[name].len() && span_encloses(#[trigger] old_v.iter_defs()[name][k], span);
            let s = old_v.iter_defs()[name][k];
            assert(old_v.iterator_recorded(name, s));
            assert(new_v.iterator_recorded(name, s));
            let k2 = choose|k2: int| 0 <= k2 < new_v.iter_defs()[name].len() && new_v.iter_defs()[name][k2] == s;
            assert(span_encloses(new_v.iter_defs()[name][k2], span));
        } else {
            assert(old_v.recorded_use(name, span));
        }
    }
//@ end

    // the order of the folds of one iterator is irrelevant to scoping
//@ lemma fold_order_is_irrelevant props C23
    pub proof fn fold_order_is_irrelevant<'i>(a: &VariableValidator<'i>, b: &VariableValidator<'i>, name: &'i str, span: Span)
        requires b.same_but_fold_order(a)
        ensures b.enclosing_iterator(name, span) == a.enclosing_iterator(name, span), b.resolved(name, span) == a.resolved(name, span),
            b.recorded_use(name, span) == a.recorded_use(name, span), b.next_recorded(name, span) == a.next_recorded(name, span),
    {
        if a.enclosing_iterator(name, span) {
            let k = choose|k: int| 0 <= k < a.iter_defs()[name].len() && span_encloses(#[trigger] a.iter_defs()[name][k], span);
            let s = a.iter_defs()[name][k];
            assert(a.iterator_recorded(name, s));
            assert(b.iterator_recorded(name, s));
            let k2 = choose|k2: int| 0 <= k2 < b.iter_defs()[name].len() && b.iter_defs()[name][k2] == s;
            assert(span_encloses(b.iter_defs()[name][k2], span));
        }
        if b.enclosing_iterator(name, span) {
            let k = choose|k: int| 0 <= k < b.iter_defs()[name].len() && span_encloses(#[trigger] b.iter_defs()[name][k], span);
            let s = b.iter_defs()[name][k];
            assert(b.iterator_recorded(name, s));
            assert(a.iterator_recorded(name, s));
            let k2 = choose|k2: int| 0 <= k2 < a.iter_defs()[name].len() && a.iter_defs()[name][k2] == s;
            assert(span_encloses(a.iter_defs()[name][k2], span));
        }
    }
//@ end

//@ lemma fold_order_keeps_the_verdicts props C23
    pub broadcast proof fn fold_order_keeps_the_verdicts<'i>(a: &VariableValidator<'i>, b: &VariableValidator<'i>)
        requires #[trigger] b.same_but_fold_order(a)
        ensures
            b.all_recorded_uses_resolved() == a.all_recorded_uses_resolved(),
            b.all_nexts_enclosed() == a.all_nexts_enclosed(),
            b.first_nexts_enclosed() == a.first_nexts_enclosed(),
    {
        assert forall|n: &'i str, s: Span| b.resolved(n, s) == a.resolved(n, s) && b.enclosing_iterator(n, s) == a.enclosing_iterator(n, s)
            && b.recorded_use(n, s) == a.recorded_use(n, s) && b.next_recorded(n, s) == a.next_recorded(n, s) by {
            fold_order_is_irrelevant(a, b, n, s);
        }
        assert(b.nexts() == a.nexts());
    }
//@ end

    // THE TWO SIDES TOGETHER. `at_callback` is the state right after the callback of an instruction at `span` returned, `at_end` the state
    // finalize is called on; if finalize reported nothing (its postconditions), then every operand the callback covered is in scope and
    // every next it recorded lies inside a fold declaring its iterator -- judged on the final lists of definitions and folds.
//@ lemma accepted_script_is_well_scoped props C23
    pub proof fn accepted_script_is_well_scoped<'i>(at_callback: &VariableValidator<'i>, at_end: &VariableValidator<'i>, name: &'i str, span: Span)
        requires at_end.extends(at_callback)
        ensures
            at_callback.use_covered(name, span) && at_end.all_recorded_uses_resolved() ==> at_end.resolved(name, span),
            at_callback.next_recorded(name, span) && at_end.all_nexts_enclosed() ==> at_end.enclosing_iterator(name, span),
    {
        if at_callback.use_covered(name, span) { use_covered_is_stable(at_callback, at_end, name, span); }
        if at_callback.next_recorded(name, span) { next_recorded_is_stable(at_callback, at_end, name, span); }
    }
//@ end

    // so do a recorded definition, a recorded fold iterator and a recorded next
//@ lemma records_are_stable props C23
    pub broadcast proof fn def_recorded_is_stable<'i>(old_v: &VariableValidator<'i>, new_v: &VariableValidator<'i>, name: &'i str, span: Span)
        requires #[trigger] new_v.extends(old_v), #[trigger] old_v.def_recorded(name, span)
        ensures new_v.def_recorded(name, span)
    { reveal(VariableValidator::extends); }
//@ end
    pub broadcast proof fn iterator_recorded_is_stable<'i>(old_v: &VariableValidator<'i>, new_v: &VariableValidator<'i>, name: &'i str, span: Span)
        requires #[trigger] new_v.extends(old_v), #[trigger] old_v.iterator_recorded(name, span)
        ensures new_v.iterator_recorded(name, span)
    { reveal(VariableValidator::extends); }
    pub broadcast proof fn next_recorded_is_stable<'i>(old_v: &VariableValidator<'i>, new_v: &VariableValidator<'i>, name: &'i str, span: Span)
        requires #[trigger] new_v.extends(old_v), #[trigger] old_v.next_recorded(name, span)
        ensures new_v.next_recorded(name, span)
    { reveal(VariableValidator::extends); }
}

// ---------------------------------------------------------------- the callbacks (validator.rs, lifted)
pub mod callbacks {
    use vstd::prelude::*;
    use vstd::std_specs::iter::IteratorSpec;
    use std::collections::HashMap;
    use std::ops::Deref;
    use super::*;
    broadcast use {vstd::std_specs::hash::group_hash_axioms, super::key_model::axiom_str_ref_obeys_key_model, super::key_model::axiom_str_ref_borrows_str,
        super::key_model::axiom_str_ref_borrows_str_value, super::seq_lemmas::lemma_push_contains,
        super::lemmas::extends_is_reflexive, super::lemmas::extends_is_transitive, super::lemmas::same_scoping_state_extends,
        super::lemmas::use_covered_is_stable, super::lemmas::def_recorded_is_stable, super::lemmas::iterator_recorded_is_stable,
        super::lemmas::next_recorded_is_stable, super::lemmas::fold_order_keeps_the_verdicts};

impl<'i> VariableValidator<'i> {
//@ lift crates/air-lib/air-parser/src/parser/validator.rs :: impl<'i> VariableValidator<'i> :: fn new
//@ props C23
//@ ret r
//@ spec
        ensures r.is_empty()
//@ end

// C23: a use counts as resolved only by a definition that starts earlier or by a fold with that iterator that ENCLOSES it
// rewrite: the closure gets its annotated form (result = what `contains_span` computes), and the receiver of `.any` is let-bound so that
// ghost code can name the iterator (`it.remaining()[k]` is the k-th element of the vector)
//@ lift crates/air-lib/air-parser/src/parser/validator.rs :: impl<'i> VariableValidator<'i> :: fn contains_variable
//@ props C23
//@ ret r
//@ rewrite 1 "found_spans.iter().any(|s| s.contains_span(key_span))" => "{ let mut it = found_spans.iter(); proof { assert(forall|k: int| 0 <= k < found_spans@.len() ==> *it.remaining()[k] == found_spans@[k]); } it.any(|s: &Span| -> (b: bool) ensures b == span_encloses(*s, key_span) { s.contains_span(key_span) }) }"
//@ spec
        ensures
            // C23: whatever is taken for resolved is in scope in the property's sense
            r ==> self.resolved(key, key_span),
            // and nothing in scope is reported
            self.resolved(key, key_span) ==> r,
//@ end

//@ lift crates/air-lib/air-parser/src/parser/validator.rs :: impl<'i> VariableValidator<'i> :: fn met_variable_name
//@ props C23
//@ before "if !self.contains_variable(name, span)"
        proof { reveal(VariableValidator::extends); }
//@ spec
        ensures
            final(self).use_covered(name, span),
            // exactly: nothing happens if the use is resolved already, else it is appended to the list of `name`
            old(self).resolved(name, span) ==> *final(self) == *old(self),
            !old(self).resolved(name, span) ==> final(self).unresolved() == old(self).unresolved().insert(name, values_of(old(self).unresolved(), name).push(span)),
            final(self).only_uses_added(old(self)),
            final(self).extends(old(self)),
//@ end

// keeps the LEFT-MOST definition
//@ lift crates/air-lib/air-parser/src/parser/validator.rs :: impl<'i> VariableValidator<'i> :: fn met_variable_name_definition
//@ props C23
//@ before "use std::collections::hash_map::Entry;"
        proof { reveal(VariableValidator::extends); }
//@ spec
        ensures
            final(self).def_recorded(name, span),
            final(self).defs() == (if old(self).defs().contains_key(name) && span_cmp(old(self).defs()[name], span) != Ordering::Greater { old(self).defs() } else { old(self).defs().insert(name, span) }),
            final(self).met_iterator_definitions == old(self).met_iterator_definitions,
            final(self).unresolved_variables == old(self).unresolved_variables,
            final(self).unresolved_iterables == old(self).unresolved_iterables,
            final(self).multiple_next_candidates == old(self).multiple_next_candidates,
            final(self).not_iterators_candidates == old(self).not_iterators_candidates,
            final(self).extends(old(self)),
//@ end

//@ lift crates/air-lib/air-parser/src/parser/validator.rs :: impl<'i> VariableValidator<'i> :: fn met_iterator_definition
//@ props C23
//@ before "self.met_iterator_definitions.insert(iterator.name, span);"
        proof { reveal(VariableValidator::extends); }
//@ spec
        ensures
            final(self).iterator_recorded(iterator.name, span),
            final(self).iter_defs() == old(self).iter_defs().insert(iterator.name, values_of(old(self).iter_defs(), iterator.name).push(span)),
            final(self).met_variable_definitions == old(self).met_variable_definitions,
            final(self).unresolved_variables == old(self).unresolved_variables,
            final(self).unresolved_iterables == old(self).unresolved_iterables,
            final(self).multiple_next_candidates == old(self).multiple_next_candidates,
            final(self).not_iterators_candidates == old(self).not_iterators_candidates,
            final(self).extends(old(self)),
//@ end

// ---- the after-next machine's inputs: nothing about scoping changes

//@ lift crates/air-lib/air-parser/src/parser/validator.rs :: impl<'i> VariableValidator<'i> :: fn met_merging_instr
//@ props C23
//@ spec
        ensures final(self).same_scoping_state(old(self))
//@ end

//@ lift crates/air-lib/air-parser/src/parser/validator.rs :: impl<'i> VariableValidator<'i> :: fn met_pivotalnext_instr
//@ props C23
//@ spec
        ensures final(self).same_scoping_state(old(self))
//@ end

//@ lift crates/air-lib/air-parser/src/parser/validator.rs :: impl<'i> VariableValidator<'i> :: fn met_popstack_instr
//@ props C23
//@ spec
        ensures final(self).same_scoping_state(old(self))
//@ end

//@ lift crates/air-lib/air-parser/src/parser/validator.rs :: impl<'i> VariableValidator<'i> :: fn met_popstack_replacing_with_check_instr
//@ props C23
//@ spec
        ensures final(self).same_scoping_state(old(self))
//@ end

//@ lift crates/air-lib/air-parser/src/parser/validator.rs :: impl<'i> VariableValidator<'i> :: fn met_replacing_instr
//@ props C23
//@ spec
        ensures final(self).same_scoping_state(old(self))
//@ end

//@ lift crates/air-lib/air-parser/src/parser/validator.rs :: impl<'i> VariableValidator<'i> :: fn met_replacing_with_check_instr
//@ props C23
//@ spec
        ensures final(self).same_scoping_state(old(self))
//@ end

//@ lift crates/air-lib/air-parser/src/parser/validator.rs :: impl<'i> VariableValidator<'i> :: fn met_xoring_instr
//@ props C23
//@ spec
        ensures final(self).same_scoping_state(old(self))
//@ end

//@ lift crates/air-lib/air-parser/src/parser/validator.rs :: impl<'i> VariableValidator<'i> :: fn met_simple_instr
//@ props C23
//@ spec
        ensures final(self).same_scoping_state(old(self))
//@ end

// ---- routers: every variable operand of the argument is covered as a use at `span`; nothing but uses is recorded

//@ lift crates/air-lib/air-parser/src/parser/validator.rs :: impl<'i> VariableValidator<'i> :: fn met_scalar
//@ props C23
//@ spec
        ensures
            forall|n: &'i str| #[trigger] scalar_uses(scalar, n) ==> final(self).use_covered(n, span),
            final(self).extends(old(self)), final(self).only_uses_added(old(self)),
//@ end

//@ lift crates/air-lib/air-parser/src/parser/validator.rs :: impl<'i> VariableValidator<'i> :: fn met_scalar_wl
//@ props C23
//@ spec
        ensures
            forall|n: &'i str| #[trigger] scalar_wl_uses(scalar, n) ==> final(self).use_covered(n, span),
            final(self).extends(old(self)), final(self).only_uses_added(old(self)),
//@ end

//@ lift crates/air-lib/air-parser/src/parser/validator.rs :: impl<'i> VariableValidator<'i> :: fn met_canon_stream
//@ props C23
//@ spec
        ensures
            forall|n: &'i str| #[trigger] canon_stream_uses(stream, n) ==> final(self).use_covered(n, span),
            final(self).extends(old(self)), final(self).only_uses_added(old(self)),
//@ end

//@ lift crates/air-lib/air-parser/src/parser/validator.rs :: impl<'i> VariableValidator<'i> :: fn met_canon_stream_map
//@ props C23
//@ spec
        ensures
            forall|n: &'i str| #[trigger] canon_stream_map_uses(canon_stream_map, n) ==> final(self).use_covered(n, span),
            final(self).extends(old(self)), final(self).only_uses_added(old(self)),
//@ end

//@ lift crates/air-lib/air-parser/src/parser/validator.rs :: impl<'i> VariableValidator<'i> :: fn met_canon_stream_wl
//@ props C23
//@ spec
        ensures
            forall|n: &'i str| #[trigger] canon_stream_wl_uses(stream, n) ==> final(self).use_covered(n, span),
            final(self).extends(old(self)), final(self).only_uses_added(old(self)),
//@ end

//@ lift crates/air-lib/air-parser/src/parser/validator.rs :: impl<'i> VariableValidator<'i> :: fn met_canon_stream_map_wl
//@ props C23
//@ spec
        ensures
            forall|n: &'i str| #[trigger] canon_stream_map_wl_uses(stream_map, n) ==> final(self).use_covered(n, span),
            final(self).extends(old(self)), final(self).only_uses_added(old(self)),
//@ end

//@ lift crates/air-lib/air-parser/src/parser/validator.rs :: impl<'i> VariableValidator<'i> :: fn met_variable
//@ props C23
//@ spec
        ensures
            forall|n: &'i str| #[trigger] variable_uses(variable, n) ==> final(self).use_covered(n, span),
            final(self).extends(old(self)), final(self).only_uses_added(old(self)),
//@ end

//@ lift crates/air-lib/air-parser/src/parser/validator.rs :: impl<'i> VariableValidator<'i> :: fn met_variable_wl
//@ props C23
//@ spec
        ensures
            forall|n: &'i str| #[trigger] variable_wl_uses(variable, n) ==> final(self).use_covered(n, span),
            final(self).extends(old(self)), final(self).only_uses_added(old(self)),
//@ end

//@ lift crates/air-lib/air-parser/src/parser/validator.rs :: impl<'i> VariableValidator<'i> :: fn met_optional_lambda
//@ props C23
//@ spec
        ensures
            forall|n: &'i str| #[trigger] opt_lambda_uses(lambda, n) ==> final(self).use_covered(n, span),
            final(self).extends(old(self)), final(self).only_uses_added(old(self)),
//@ end

//@ lift crates/air-lib/air-parser/src/parser/validator.rs :: impl<'i> VariableValidator<'i> :: fn met_peer_id_resolvable_value
//@ props C23
//@ spec
        ensures
            forall|n: &'i str| #[trigger] peer_uses(variable, n) ==> final(self).use_covered(n, span),
            final(self).extends(old(self)), final(self).only_uses_added(old(self)),
//@ end

//@ lift crates/air-lib/air-parser/src/parser/validator.rs :: impl<'i> VariableValidator<'i> :: fn met_string_resolvable_value
//@ props C23
//@ spec
        ensures
            forall|n: &'i str| #[trigger] string_uses(variable, n) ==> final(self).use_covered(n, span),
            final(self).extends(old(self)), final(self).only_uses_added(old(self)),
//@ end

//@ lift crates/air-lib/air-parser/src/parser/validator.rs :: impl<'i> VariableValidator<'i> :: fn met_instr_arg_value
//@ props C23
//@ spec
        ensures
            forall|n: &'i str| #[trigger] value_uses(instr_arg_value, n) ==> final(self).use_covered(n, span),
            final(self).extends(old(self)), final(self).only_uses_added(old(self)),
//@ end

//@ lift crates/air-lib/air-parser/src/parser/validator.rs :: impl<'i> VariableValidator<'i> :: fn met_matchable
//@ props C23
//@ spec
        ensures
            forall|n: &'i str| #[trigger] value_uses(matchable, n) ==> final(self).use_covered(n, span),
            final(self).extends(old(self)), final(self).only_uses_added(old(self)),
//@ end

//@ lift crates/air-lib/air-parser/src/parser/validator.rs :: impl<'i> VariableValidator<'i> :: fn met_ap_argument
//@ props C23
//@ spec
        ensures
            forall|n: &'i str| #[trigger] ap_argument_uses(argument, n) ==> final(self).use_covered(n, span),
            final(self).extends(old(self)), final(self).only_uses_added(old(self)),
//@ end

//@ lift crates/air-lib/air-parser/src/parser/validator.rs :: impl<'i> VariableValidator<'i> :: fn met_map_key
//@ props C23
//@ spec
        ensures
            forall|n: &'i str| #[trigger] map_key_uses(key, n) ==> final(self).use_covered(n, span),
            final(self).extends(old(self)), final(self).only_uses_added(old(self)),
//@ end

//@ lift crates/air-lib/air-parser/src/parser/validator.rs :: impl<'i> VariableValidator<'i> :: fn met_lambda
//@ props C23
//@ rewrite 1 "for accessor in accessors.iter()" => "for accessor in it: accessors.iter()"
//@ rewrite 1 "match accessor {" => "match *accessor {"
//@ before "match accessor {"
            assert(it.seq()[it.index()] == accessor);
//@ rewrite 1 "&ValueAccessor::FieldAccessByScalar { scalar_name } =>" => "ValueAccessor::FieldAccessByScalar { scalar_name } =>"
//@ spec
        ensures
            forall|n: &'i str| #[trigger] lambda_uses(lambda, n) ==> final(self).use_covered(n, span),
            final(self).extends(old(self)), final(self).only_uses_added(old(self)),
//@ loop 0
            invariant
                it.seq().len() == accessors.0@.len(),
                forall|k: int| 0 <= k < it.seq().len() ==> *it.seq()[k] == accessors.0@[k],
                forall|k: int, n: &'i str| 0 <= k < it.index() && #[trigger] accessor_uses(accessors.0@[k], n) ==> self.use_covered(n, span),
                self.extends(old(self)), self.only_uses_added(old(self)),
//@ end

//@ lift crates/air-lib/air-parser/src/parser/validator.rs :: impl<'i> VariableValidator<'i> :: fn met_args
//@ props C23
//@ rewrite 1 "for arg in args" => "for arg in it: args.iter()"
//@ before "self.met_instr_arg_value(arg, span);"
            assert(it.seq()[it.index()] == arg);
//@ spec
        ensures
            forall|n: &'i str| #[trigger] args_use(args@, n) ==> final(self).use_covered(n, span),
            final(self).extends(old(self)), final(self).only_uses_added(old(self)),
//@ loop 0
            invariant
                it.seq().len() == args@.len(),
                forall|k: int| 0 <= k < it.seq().len() ==> *it.seq()[k] == args@[k],
                forall|k: int, n: &'i str| 0 <= k < it.index() && #[trigger] value_uses(&args@[k], n) ==> self.use_covered(n, span),
                self.extends(old(self)), self.only_uses_added(old(self)),
//@ end

// ---- the callbacks of the grammar actions (one per instruction; air.lalrpop calls them with the instruction's span):
//      every variable operand is covered as a use at `span`, every output is recorded as a definition / fold iterator / next at `span`

//@ lift crates/air-lib/air-parser/src/parser/validator.rs :: impl<'i> VariableValidator<'i> :: fn met_call
//@ props C23
//@ spec
        ensures
            forall|n: &'i str| #[trigger] call_uses(call, n) ==> final(self).use_covered(n, span),
            call.output matches CallOutputValue::Scalar(s) ==> final(self).def_recorded(s.name, span),
            call.output matches CallOutputValue::Stream(s) ==> final(self).def_recorded(s.name, span),
            final(self).extends(old(self)), final(self).no_fold_or_next_added(old(self)),
//@ end

//@ lift crates/air-lib/air-parser/src/parser/validator.rs :: impl<'i> VariableValidator<'i> :: fn met_canon
//@ props C23
//@ spec
        ensures
            forall|n: &'i str| #[trigger] canon_uses(canon, n) ==> final(self).use_covered(n, span),
            final(self).def_recorded(canon.canon_stream.name, span),
            final(self).extends(old(self)), final(self).no_fold_or_next_added(old(self)),
//@ end

//@ lift crates/air-lib/air-parser/src/parser/validator.rs :: impl<'i> VariableValidator<'i> :: fn met_canon_map
//@ props C23
//@ spec
        ensures
            forall|n: &'i str| #[trigger] canon_map_uses(canon_map, n) ==> final(self).use_covered(n, span),
            final(self).def_recorded(canon_map.canon_stream_map.name, span),
            final(self).extends(old(self)), final(self).no_fold_or_next_added(old(self)),
//@ end

//@ lift crates/air-lib/air-parser/src/parser/validator.rs :: impl<'i> VariableValidator<'i> :: fn met_canon_map_scalar
//@ props C23
//@ spec
        ensures
            forall|n: &'i str| #[trigger] canon_map_scalar_uses(canon_stream_map_scalar, n) ==> final(self).use_covered(n, span),
            final(self).def_recorded(canon_stream_map_scalar.scalar.name, span),
            final(self).extends(old(self)), final(self).no_fold_or_next_added(old(self)),
//@ end

//@ lift crates/air-lib/air-parser/src/parser/validator.rs :: impl<'i> VariableValidator<'i> :: fn met_match
//@ props C23
//@ spec
        ensures
            forall|n: &'i str| #[trigger] match_uses(match_, n) ==> final(self).use_covered(n, span),
            final(self).extends(old(self)), final(self).only_uses_added(old(self)),
//@ end

//@ lift crates/air-lib/air-parser/src/parser/validator.rs :: impl<'i> VariableValidator<'i> :: fn met_mismatch
//@ props C23
//@ spec
        ensures
            forall|n: &'i str| #[trigger] mismatch_uses(mismatch, n) ==> final(self).use_covered(n, span),
            final(self).extends(old(self)), final(self).only_uses_added(old(self)),
//@ end

//@ lift crates/air-lib/air-parser/src/parser/validator.rs :: impl<'i> VariableValidator<'i> :: fn met_fold_scalar
//@ props C23
//@ spec
        ensures
            // the iterable is a use, the iterator is declared by the fold at `span`
            forall|n: &'i str| #[trigger] fold_scalar_uses(fold, n) ==> final(self).use_covered(n, span),
            final(self).iterator_recorded(fold.iterator.name, span),
            final(self).iter_defs() == old(self).iter_defs().insert(fold.iterator.name, values_of(old(self).iter_defs(), fold.iterator.name).push(span)),
            final(self).extends(old(self)),
            final(self).met_variable_definitions == old(self).met_variable_definitions, final(self).unresolved_iterables == old(self).unresolved_iterables,
//@ end

//@ lift crates/air-lib/air-parser/src/parser/validator.rs :: impl<'i> VariableValidator<'i> :: fn meet_fold_stream
//@ props C23
//@ spec
        ensures
            // the iterable is a use, the iterator is declared by the fold at `span`
            forall|n: &'i str| #[trigger] fold_stream_uses(fold, n) ==> final(self).use_covered(n, span),
            final(self).iterator_recorded(fold.iterator.name, span),
            final(self).iter_defs() == old(self).iter_defs().insert(fold.iterator.name, values_of(old(self).iter_defs(), fold.iterator.name).push(span)),
            final(self).extends(old(self)),
            final(self).met_variable_definitions == old(self).met_variable_definitions, final(self).unresolved_iterables == old(self).unresolved_iterables,
//@ end

//@ lift crates/air-lib/air-parser/src/parser/validator.rs :: impl<'i> VariableValidator<'i> :: fn meet_fold_stream_map
//@ props C23
//@ spec
        ensures
            // the iterable is a use, the iterator is declared by the fold at `span`
            forall|n: &'i str| #[trigger] fold_stream_map_uses(fold, n) ==> final(self).use_covered(n, span),
            final(self).iterator_recorded(fold.iterator.name, span),
            final(self).iter_defs() == old(self).iter_defs().insert(fold.iterator.name, values_of(old(self).iter_defs(), fold.iterator.name).push(span)),
            final(self).extends(old(self)),
            final(self).met_variable_definitions == old(self).met_variable_definitions, final(self).unresolved_iterables == old(self).unresolved_iterables,
//@ end

//@ lift crates/air-lib/air-parser/src/parser/validator.rs :: impl<'i> VariableValidator<'i> :: fn met_new
//@ props C23
//@ before "self.not_iterators_candidates"
        proof { reveal(VariableValidator::extends); }
//@ spec
        ensures
            // new defines its argument from its own start on, and the name goes on the list of names that must not be iterators
            final(self).def_recorded(new_argument_name(&new.argument), span),
            final(self).not_iterators_candidates@ == old(self).not_iterators_candidates@.push((new_argument_name(&new.argument), span)),
            final(self).extends(old(self)),
            final(self).unresolved_variables == old(self).unresolved_variables, final(self).met_iterator_definitions == old(self).met_iterator_definitions,
            final(self).unresolved_iterables == old(self).unresolved_iterables,
//@ end

//@ lift crates/air-lib/air-parser/src/parser/validator.rs :: impl<'i> VariableValidator<'i> :: fn met_next
//@ props C23
//@ before "let iterable_name = next.iterator.name;"
        proof { reveal(VariableValidator::extends); }
//@ spec
        ensures
            // a next is always recorded: its fold is reduced later
            final(self).next_recorded(next.iterator.name, span),
            final(self).nexts() == old(self).nexts().insert(next.iterator.name, values_of(old(self).nexts(), next.iterator.name).push(span)),
            final(self).multiple_next_candidates@ == old(self).multiple_next_candidates@.insert(next.iterator.name, values_of(old(self).multiple_next_candidates@, next.iterator.name).push(span)),
            final(self).extends(old(self)),
            final(self).unresolved_variables == old(self).unresolved_variables, final(self).met_iterator_definitions == old(self).met_iterator_definitions,
            final(self).met_variable_definitions == old(self).met_variable_definitions,
//@ end

//@ lift crates/air-lib/air-parser/src/parser/validator.rs :: impl<'i> VariableValidator<'i> :: fn met_ap
//@ props C23
//@ spec
        ensures
            forall|n: &'i str| #[trigger] ap_uses(ap, n) ==> final(self).use_covered(n, span),
            final(self).def_recorded(ap_result_name(&ap.result), span),
            final(self).extends(old(self)), final(self).no_fold_or_next_added(old(self)),
//@ end

//@ lift crates/air-lib/air-parser/src/parser/validator.rs :: impl<'i> VariableValidator<'i> :: fn met_ap_map
//@ props C23
//@ spec
        ensures
            forall|n: &'i str| #[trigger] ap_map_uses(ap_map, n) ==> final(self).use_covered(n, span),
            final(self).def_recorded(ap_map.map.name, span),
            final(self).extends(old(self)), final(self).no_fold_or_next_added(old(self)),
//@ end

//@ lift crates/air-lib/air-parser/src/parser/validator.rs :: impl<'i> VariableValidator<'i> :: fn met_fail_literal
//@ props C23
//@ before "match fail {"
        proof { reveal(VariableValidator::extends); }
//@ spec
        ensures
            final(self).extends(old(self)),
            final(self).only_uses_added_but_errcodes(old(self)),
//@ end

// KNOWN FINDING (d-fail), kept failing: the operand of `(fail x)` / `(fail x.$.a)` / `(fail #c.$.[0])` is a variable use like any other, but the
// grammar action hands the instruction to met_fail_literal only, which looks at the literal form: `(fail x)` with x undefined is accepted
// (pinned upstream by ast::tests::instructions::display_fail_scalar and the beautifier's fail_expr, which parse exactly that)
//@ lift crates/air-lib/air-parser/src/parser/validator.rs :: impl<'i> VariableValidator<'i> :: fn met_fail_literal
//@ name VariableValidator::met_fail_literal/operand-route
//@ props C23
//@ no-canary
//@ sig 1 "fn met_fail_literal" => "fn met_fail_literal__operand_route"
//@ spec
        ensures
            forall|n: &'i str| #[trigger] fail_uses(fail, n) ==> final(self).use_covered(n, span),
//@ end
}

// ================================================================ the deciding side: ValidatorErrorBuilder and finalize
//@ lift crates/air-lib/air-parser/src/parser/validator.rs :: fn add_to_errors
//@ props C23
//@ spec
    ensures final(errors)@.len() == old(errors)@.len() + 1
//@ end

// assumed (callees outside the property: extra rules of the validator, and the sort): they only ADD errors and keep the set of folds
impl<'i> ValidatorErrorBuilder<'i> {
    // real: `for (_, spans) in self.validator.met_iterator_definitions.iter_all_mut() { spans.sort() }`
    #[verifier::external_body]
    fn sort_iterator_definitions(&mut self)
        ensures final(self).errors == old(self).errors, final(self).validator.same_but_fold_order(&old(self).validator)
    { unimplemented!() }
    #[verifier::external_body]
    fn check_multiple_next_in_fold(self) -> (r: Self)
        ensures r.errors@.len() >= self.errors@.len()
    { unimplemented!() }
    #[verifier::external_body]
    fn check_iterator_for_multiple_definitions(self) -> (r: Self)
        ensures r.errors@.len() >= self.errors@.len()
    { unimplemented!() }
    #[verifier::external_body]
    fn check_for_unsupported_map_keys(self) -> (r: Self)
        ensures r.errors@.len() >= self.errors@.len()
    { unimplemented!() }
    #[verifier::external_body]
    fn check_for_unsupported_literal_errcodes(self) -> (r: Self)
        ensures r.errors@.len() >= self.errors@.len()
    { unimplemented!() }

//@ lift crates/air-lib/air-parser/src/parser/validator.rs :: impl<'i> ValidatorErrorBuilder<'i> :: fn new
//@ props C23
//@ ret r
//@ spec
        ensures r.errors@.len() == 0, r.validator.same_but_fold_order(&validator)
//@ end

// the fold that encloses `key_span` and declares `key`, if the search finds one. (That it finds one whenever there is one -- no false
// "undefined iterable" -- is not stated: vstd's Filter says what the filtered elements satisfy, not that none is dropped.)
//@ lift crates/air-lib/air-parser/src/parser/validator.rs :: impl<'i> ValidatorErrorBuilder<'i> :: fn find_closest_fold_span
//@ props C23
//@ ret r
//@ rewrite 1 ".filter(|&s| s.contains_span(key_span))" => ".filter(|s: &&Span| -> (b: bool) ensures b == span_encloses(**s, key_span) { s.contains_span(key_span) })"
//@ rewrite 1 ".last()" => ".verif_last()"
//@ spec
        ensures
            r matches Some(s) ==> self.validator.iterator_recorded(key, s) && span_encloses(s, key_span),
            r is Some ==> self.validator.enclosing_iterator(key, key_span),
//@ end

// C23: no error added ==> EVERY recorded use is in scope
//@ lift crates/air-lib/air-parser/src/parser/validator.rs :: impl<'i> ValidatorErrorBuilder<'i> :: fn check_undefined_variables
//@ props C23
//@ ret r
//@ sig 1 "mut self" => "self"
//@ rewrite 1 "for (name, span) in self.validator.unresolved_variables.flat_iter()" => "let mut this = self; for (name, span) in it: this.validator.unresolved_variables.flat_iter()"
//@ rewrite 1 "if !self.validator.contains_variable(name, *span)" => "if !this.validator.contains_variable(name, *span)"
//@ rewrite 1 "add_to_errors(&mut self.errors, *span, Token::Call, error);" => "add_to_errors(&mut this.errors, *span, Token::Call, error);"
//@ rewrite 1 "}\n\n        self" => "}\n\n        this"
//@ spec
        ensures
            r.validator == self.validator, r.errors@.len() >= self.errors@.len(),
            r.errors@.len() == self.errors@.len() ==> self.validator.all_recorded_uses_resolved(),
//@ loop 0
            invariant
                this.validator == self.validator, this.errors@.len() >= self.errors@.len(),
                forall|k: &'i str, m: int| self.validator.unresolved().contains_key(k) && 0 <= m < self.validator.unresolved()[k].len()
                    ==> it.seq().contains((&k, &#[trigger] self.validator.unresolved()[k][m])),
                this.errors@.len() == self.errors@.len() ==> forall|j: int| 0 <= j < it.index() ==> self.validator.resolved(*(#[trigger] it.seq()[j]).0, *it.seq()[j].1),
//@ before "if !self.validator.contains_variable(name, *span)"
            assert(it.seq()[it.index() as int] == (name, span));
//@ end

// what holds today of next: no error added ==> the FIRST recorded next of every iterator name lies inside a fold declaring it
//@ lift crates/air-lib/air-parser/src/parser/validator.rs :: impl<'i> ValidatorErrorBuilder<'i> :: fn check_undefined_iterables
//@ props C23
//@ ret r
//@ sig 1 "mut self" => "self"
//@ rewrite 1 "for (name, span) in self.validator.unresolved_iterables.iter()" => "let mut this = self; for (name, span) in it: this.validator.unresolved_iterables.iter()"
//@ rewrite 1 "if self.find_closest_fold_span(name, *span).is_none()" => "if this.find_closest_fold_span(name, *span).is_none()"
//@ rewrite 1 "add_to_errors(&mut self.errors, *span, Token::New, error);" => "add_to_errors(&mut this.errors, *span, Token::New, error);"
//@ rewrite 1 "}\n\n        self" => "}\n\n        this"
//@ spec
        ensures
            r.validator == self.validator, r.errors@.len() >= self.errors@.len(),
            r.errors@.len() == self.errors@.len() ==> self.validator.first_nexts_enclosed(),
//@ loop 0
            invariant
                this.validator == self.validator, this.errors@.len() >= self.errors@.len(),
                forall|k: &'i str| #[trigger] self.validator.nexts().contains_key(k) ==> self.validator.nexts()[k].len() > 0 && it.seq().contains((&k, &self.validator.nexts()[k][0])),
                this.errors@.len() == self.errors@.len() ==> forall|j: int| 0 <= j < it.index() ==> self.validator.enclosing_iterator(*(#[trigger] it.seq()[j]).0, *it.seq()[j].1),
//@ before "if self.find_closest_fold_span(name, *span).is_none()"
            assert(it.seq()[it.index() as int] == (name, span));
//@ end

// KNOWN FINDING (b), kept failing: C23 asks this of EVERY next. `unresolved_iterables.iter()` is multimap's `iter()`, which yields the first value
// of every key only: a second `next i` outside every fold, e.g. `(seq (fold [] i (next i)) (next i))`, is never looked at (pinned upstream by
// negative_tests::uncatchable_trace_unrelated::fold_state_not_found, which needs that script to reach the run-time error)
//@ lift crates/air-lib/air-parser/src/parser/validator.rs :: impl<'i> ValidatorErrorBuilder<'i> :: fn check_undefined_iterables
//@ name ValidatorErrorBuilder::check_undefined_iterables/all-spans
//@ props C23
//@ no-canary
//@ ret r
//@ sig 1 "fn check_undefined_iterables" => "fn check_undefined_iterables__all_spans"
//@ sig 1 "mut self" => "self"
//@ rewrite 1 "for (name, span) in self.validator.unresolved_iterables.iter()" => "let mut this = self; for (name, span) in it: this.validator.unresolved_iterables.iter()"
//@ rewrite 1 "if self.find_closest_fold_span(name, *span).is_none()" => "if this.find_closest_fold_span(name, *span).is_none()"
//@ rewrite 1 "add_to_errors(&mut self.errors, *span, Token::New, error);" => "add_to_errors(&mut this.errors, *span, Token::New, error);"
//@ rewrite 1 "}\n\n        self" => "}\n\n        this"
//@ spec
        ensures
            r.validator == self.validator, r.errors@.len() >= self.errors@.len(),
            r.errors@.len() == self.errors@.len() ==> self.validator.all_nexts_enclosed(),
//@ loop 0
            invariant
                this.validator == self.validator, this.errors@.len() >= self.errors@.len(),
                forall|k: &'i str| #[trigger] self.validator.nexts().contains_key(k) ==> self.validator.nexts()[k].len() > 0 && it.seq().contains((&k, &self.validator.nexts()[k][0])),
                this.errors@.len() == self.errors@.len() ==> forall|j: int| 0 <= j < it.index() ==> self.validator.enclosing_iterator(*(#[trigger] it.seq()[j]).0, *it.seq()[j].1),
//@ before "if self.find_closest_fold_span(name, *span).is_none()"
            assert(it.seq()[it.index() as int] == (name, span));
//@ end

//@ lift crates/air-lib/air-parser/src/parser/validator.rs :: impl<'i> ValidatorErrorBuilder<'i> :: fn check_new_on_iterators
//@ props C23
//@ ret r
//@ sig 1 "mut self" => "self"
//@ rewrite 1 "for (name, span) in self.validator.not_iterators_candidates.iter()" => "let mut this = self; for (name, span) in it: this.validator.not_iterators_candidates.iter()"
//@ rewrite 1 "if self.find_closest_fold_span(name, *span).is_some()" => "if this.find_closest_fold_span(name, *span).is_some()"
//@ rewrite 1 "add_to_errors(&mut self.errors, *span, Token::New, error);" => "add_to_errors(&mut this.errors, *span, Token::New, error);"
//@ rewrite 1 "}\n\n        self" => "}\n\n        this"
//@ spec
        ensures r.validator == self.validator, r.errors@.len() >= self.errors@.len()
//@ loop 0
            invariant this.validator == self.validator, this.errors@.len() >= self.errors@.len()
//@ end

//@ lift crates/air-lib/air-parser/src/parser/validator.rs :: impl<'i> ValidatorErrorBuilder<'i> :: fn check_after_next_instr
//@ props C23
//@ ret r
//@ sig 1 "mut self" => "self"
//@ rewrite 1 "for span in self.validator.after_next_machine.malformed_spans_iter()" => "let mut this = self; for span in it: this.validator.after_next_machine.malformed_spans_iter()"
//@ rewrite 1 "add_to_errors(&mut self.errors, *span, Token::Next, error);" => "add_to_errors(&mut this.errors, *span, Token::Next, error);"
//@ rewrite 1 "}\n        self" => "}\n        this"
//@ spec
        ensures r.errors@.len() >= self.errors@.len()
//@ loop 0
            invariant this.errors@.len() >= self.errors@.len()
//@ end

//@ lift crates/air-lib/air-parser/src/parser/validator.rs :: impl<'i> ValidatorErrorBuilder<'i> :: fn build
//@ props C23
//@ ret r
//@ spec
        ensures r == self.errors
//@ end
}

impl<'i> VariableValidator<'i> {
// C23 on the recorded lists: finalize reports nothing ==> every recorded use is defined earlier or inside a fold that declares it,
// and (today: the first recorded next of every iterator; KNOWN FINDING b for the others) lies inside a fold that declares its iterator
//@ lift crates/air-lib/air-parser/src/parser/validator.rs :: impl<'i> VariableValidator<'i> :: fn finalize
//@ props C23
//@ ret r
//@ spec
        ensures
            r@.len() == 0 ==> self.all_recorded_uses_resolved(),
            r@.len() == 0 ==> self.first_nexts_enclosed(),
//@ end

// the full statement about next, proved from check_undefined_iterables/all-spans (which is the KNOWN FINDING b and fails alone)
//@ lift crates/air-lib/air-parser/src/parser/validator.rs :: impl<'i> VariableValidator<'i> :: fn finalize
//@ name VariableValidator::finalize/every-next-enclosed
//@ props C23
//@ no-canary
//@ ret r
//@ sig 1 "fn finalize" => "fn finalize__every_next_enclosed"
//@ rewrite 1 ".check_undefined_iterables()" => ".check_undefined_iterables__all_spans()"
//@ spec
        ensures
            r@.len() == 0 ==> self.all_nexts_enclosed(),
//@ end
}

} // mod callbacks

} // verus!
fn main() {}
