//@ unit validator
// The scoping half of C23 on the real crates/air-lib/air-parser/src/parser/validator.rs: the RECORDING side of VariableValidator
// (the `met_*` callbacks the generated parser calls once per instruction, children before parents, left before right) and Span
// (span.rs). The DECIDING side (ValidatorErrorBuilder, finalize) is unit validator_finalize; both share the vocabulary below.
//
// Reading of the property ("every variable used in an accepted script is defined earlier in the text or is an enclosing fold
// iterator, and every next refers to an enclosing fold") on the validator's state:
//   * a use / definition / fold / next is the pair (name, span of its instruction); `a` is earlier in the text than `b` iff
//     `span_before(a, b)` (a starts before b); a fold encloses a use iff `span_encloses(fold span, use span)`;
//   * `resolved(name, span)`   = defined_before(name, span) || enclosing_iterator(name, span)   -- what the property asks of a use;
//   * `use_covered(name, span)` = resolved(name, span) || the pair is in `unresolved_variables`  -- what a callback must establish for
//     EVERY variable operand of its instruction (`*_uses` predicates below, written from the instruction definitions in ast/, not from
//     the callbacks); `extends` says that later callbacks keep every earlier use covered (lemma use_covered_is_stable);
//   * unit validator_finalize: finalize returns no error ==> every pair in `unresolved_variables` is resolved and every recorded
//     next lies inside a fold with its iterator. Together: accepted ==> every use handed to a callback is resolved.
// NOT here: that the generated LALR driver calls the callback of every instruction with that instruction's span (native jobs C23.scope.*).
//
// Trusted part of this file:
//  * AirPos shim: `struct AirPos(usize)` with the derived PartialEq/Eq/PartialOrd/Ord of a usize newtype (lexer/text_pos.rs);
//    `derive(PartialEq)` of Span is structural equality; `std::cmp::min(a, b)` = `if b < a { b } else { a }` (std's definition);
//  * MultiMap shim (multimap 0.9.1): view Map<K, Seq<V>>; `insert` pushes to the key's vector or creates `[v]`; `get_vec` is the lookup;
//  * `&str` obeys the hash-table key model and `Borrow<str> for &str` is the identity (a `&str`-keyed map looked up by `&str`); Rc<Vec<T>>::deref gives the vector;
//  * LambdaAST / NonEmpty (air-lambda-ast, non_empty_vec) shims: same variants; `iter()` of a NonEmpty is the slice iterator;
//  * AfterNextCheckMachine is opaque (`met_instruction_kind` has no contract: it only touches the machine, an extra rule of the
//    validator that the property does not mention); Instruction is opaque (the callbacks only test `last_instruction` for Some/None);
//  * JsonString, Number payloads irrelevant.
// Rewrites: see each lift (closure headers get their annotated form; `&ValueAccessor::..` pattern).
use vstd::prelude::*;
use vstd::std_specs::iter::IteratorSpec;
use std::collections::HashMap;
verus! {
broadcast use {vstd::std_specs::hash::group_hash_axioms, key_model::axiom_str_ref_obeys_key_model, key_model::axiom_str_ref_borrows_str,
    key_model::axiom_str_ref_borrows_str_value, seq_lemmas::lemma_push_contains};

pub mod key_model {
    use vstd::prelude::*;
    #[verifier::external_body]
    pub broadcast proof fn axiom_str_ref_obeys_key_model()
        ensures #[trigger] vstd::std_specs::hash::obeys_key_model::<&str>()
    {}
    // `impl Borrow<str> for &str` is the identity on the text: looking a `&str` key up by a `&str` is the plain lookup
    #[verifier::external_body]
    pub broadcast proof fn axiom_str_ref_borrows_str<V>(m: Map<&str, V>, k: &str)
        ensures #[trigger] vstd::std_specs::hash::contains_borrowed_key::<&str, V, str>(m, k) <==> m.contains_key(k)
    {}
    #[verifier::external_body]
    pub broadcast proof fn axiom_str_ref_borrows_str_value<V>(m: Map<&str, V>, k: &str, v: V)
        ensures #[trigger] vstd::std_specs::hash::maps_borrowed_key_to_value::<&str, V, str>(m, k, v) <==> (m.contains_key(k) && m[k] == v)
    {}
}
pub mod seq_lemmas {
    use vstd::prelude::*;
    // membership in a pushed sequence
    pub broadcast proof fn lemma_push_contains<T>(s: Seq<T>, v: T, x: T)
        ensures #[trigger] s.push(v).contains(x) <==> (s.contains(x) || x == v)
    {
        if s.push(v).contains(x) {
            let k = choose|k: int| 0 <= k < s.push(v).len() && s.push(v)[k] == x;
            if k < s.len() { assert(s[k] == x); }
        }
        if s.contains(x) {
            let k = choose|k: int| 0 <= k < s.len() && s[k] == x;
            assert(s.push(v)[k] == x);
        }
        if x == v { assert(s.push(v)[s.len() as int] == x); }
    }
}
use std::cmp::Ordering;
pub type Rc<T> = std::rc::Rc<T>;

// ---------------------------------------------------------------- shim: AirPos (trusted; derives of a usize newtype)
#[derive(Clone, Copy)]
pub struct AirPos(pub usize);
pub open spec fn ord_of(a: int, b: int) -> Ordering { if a < b { Ordering::Less } else if a == b { Ordering::Equal } else { Ordering::Greater } }
impl PartialEq for AirPos { fn eq(&self, o: &Self) -> bool { self.0 == o.0 } }
impl Eq for AirPos {}
impl PartialOrd for AirPos { fn partial_cmp(&self, o: &Self) -> Option<Ordering> { self.0.partial_cmp(&o.0) } }
impl Ord for AirPos { fn cmp(&self, o: &Self) -> Ordering { self.0.cmp(&o.0) } }
impl vstd::std_specs::cmp::PartialEqSpecImpl<AirPos> for AirPos {
    open spec fn obeys_eq_spec() -> bool { true }
    open spec fn eq_spec(&self, o: &AirPos) -> bool { self.0 == o.0 }
}
impl vstd::std_specs::cmp::PartialOrdSpecImpl<AirPos> for AirPos {
    open spec fn obeys_partial_cmp_spec() -> bool { true }
    open spec fn partial_cmp_spec(&self, o: &AirPos) -> Option<Ordering> { Some(ord_of(self.0 as int, o.0 as int)) }
}
impl vstd::std_specs::cmp::OrdSpecImpl for AirPos {
    open spec fn obeys_cmp_spec() -> bool { true }
    open spec fn cmp_spec(&self, o: &AirPos) -> Ordering { ord_of(self.0 as int, o.0 as int) }
}
// std: `pub fn min<T: Ord>(v1: T, v2: T) -> T { v1.min(v2) }`, `Ord::min` = `if other < self { other } else { self }`
pub assume_specification<T: Ord> [std::cmp::min] (a: T, b: T) -> (r: T)
    ensures
        vstd::std_specs::cmp::OrdSpec::cmp_spec(&b, &a) == Ordering::Less ==> r == b,
        vstd::std_specs::cmp::OrdSpec::cmp_spec(&b, &a) != Ordering::Less ==> r == a;

// ---------------------------------------------------------------- Span (span.rs, lifted)
//@ lift crates/air-lib/air-parser/src/parser/span.rs :: struct Span
//@ derive Clone Copy PartialEq Eq
//@ end
// derive(PartialEq) of Span: structural (trusted, see header)
impl vstd::std_specs::cmp::PartialEqSpecImpl<Span> for Span {
    open spec fn obeys_eq_spec() -> bool { true }
    open spec fn eq_spec(&self, o: &Span) -> bool { *self == *o }
}
// where an instruction starts in the text
pub open spec fn start(s: Span) -> int { if s.right.0 < s.left.0 { s.right.0 as int } else { s.left.0 as int } }
// "earlier in the text"
pub open spec fn span_before(a: Span, b: Span) -> bool { start(a) < start(b) }
// "encloses": both ends of `b` lie strictly inside `a`
pub open spec fn span_encloses(a: Span, b: Span) -> bool {
    a.left.0 < b.left.0 && b.left.0 < a.right.0 && a.left.0 < b.right.0 && b.right.0 < a.right.0
}
// the order of spans: by start, equal only if identical
pub open spec fn span_cmp(a: Span, b: Span) -> Ordering {
    if start(a) < start(b) { Ordering::Less } else if a == b { Ordering::Equal } else { Ordering::Greater }
}
impl vstd::std_specs::cmp::PartialOrdSpecImpl<Span> for Span {
    open spec fn obeys_partial_cmp_spec() -> bool { true }
    open spec fn partial_cmp_spec(&self, o: &Span) -> Option<Ordering> { Some(span_cmp(*self, *o)) }
}
impl vstd::std_specs::cmp::OrdSpecImpl for Span {
    open spec fn obeys_cmp_spec() -> bool { true }
    open spec fn cmp_spec(&self, o: &Span) -> Ordering { span_cmp(*self, *o) }
}

impl Span {
//@ lift crates/air-lib/air-parser/src/parser/span.rs :: impl Span :: fn new
//@ props C23
//@ ret r
//@ spec
        ensures r.left == left, r.right == right
//@ end

//@ lift crates/air-lib/air-parser/src/parser/span.rs :: impl Span :: fn contains_position
//@ props C23
//@ ret r
//@ spec
        ensures r == (self.left.0 < position.0 && position.0 < self.right.0)
//@ end

//@ lift crates/air-lib/air-parser/src/parser/span.rs :: impl Span :: fn contains_span
//@ props C23
//@ ret r
//@ spec
        ensures r == span_encloses(*self, span)
//@ end
}

impl PartialOrd for Span {
//@ lift crates/air-lib/air-parser/src/parser/span.rs :: impl PartialOrd for Span :: fn partial_cmp
//@ props C23
//@ name Span::partial_cmp
//@ no-canary
//@ end
}
impl Ord for Span {
//@ lift crates/air-lib/air-parser/src/parser/span.rs :: impl Ord for Span :: fn cmp
//@ props C23
//@ name Span::cmp
//@ no-canary
//@ end
}

// ---------------------------------------------------------------- shim: MultiMap (multimap 0.9.1; trusted)
#[verifier::external_body]
#[verifier::reject_recursive_types(K)]
#[verifier::accept_recursive_types(V)]
pub struct MultiMap<K, V> { inner: std::collections::HashMap<K, Vec<V>> }
impl<K, V> MultiMap<K, V> {
    pub uninterp spec fn view(&self) -> Map<K, Seq<V>>;
}
// the values stored under a key (none: the empty sequence)
pub open spec fn values_of<K, V>(m: Map<K, Seq<V>>, k: K) -> Seq<V> { if m.contains_key(k) { m[k] } else { Seq::empty() } }
impl<'i, V> MultiMap<&'i str, V> {
    #[verifier::external_body]
    pub fn new() -> (r: Self) ensures r@ == Map::<&'i str, Seq<V>>::empty() { unimplemented!() }
    // real: `match self.entry(k) { Occupied(e) => e.get_vec_mut().push(v), Vacant(e) => e.insert_vec(vec![v]) }`
    #[verifier::external_body]
    pub fn insert(&mut self, k: &'i str, v: V)
        ensures final(self)@ == old(self)@.insert(k, values_of(old(self)@, k).push(v))
    { unimplemented!() }
    // real: `self.inner.get(k)`
    #[verifier::external_body]
    pub fn get_vec(&self, k: &str) -> (r: Option<&Vec<V>>)
        ensures
            r is Some <==> self@.contains_key(k),
            r matches Some(v) ==> v@ == self@[k],
    { unimplemented!() }
}

// ---------------------------------------------------------------- shim: the after-next machine (opaque), instructions (opaque)
//@ lift crates/air-lib/air-parser/src/parser/validator.rs :: enum CheckInstructionKind
//@ derive Clone Copy
//@ end
pub struct AfterNextCheckMachine<'name> { pub _p: core::marker::PhantomData<&'name ()> }
impl<'name> AfterNextCheckMachine<'name> {
    #[verifier::external_body]
    pub fn met_instruction_kind(&mut self, instr_kind: CheckInstructionKind<'name>, span: Span) { unimplemented!() }
}
pub struct Instruction<'i> { pub _p: core::marker::PhantomData<&'i ()> }

// ---------------------------------------------------------------- shim: lambda AST (air-lambda-ast; same variants)
//@ lift crates/air-lib/lambda/ast/src/ast.rs :: enum ValueAccessor
//@ derive Clone Copy
//@ end
//@ lift crates/air-lib/lambda/ast/src/ast.rs :: enum Functor
//@ derive Clone Copy
//@ end
pub struct NonEmpty<T>(pub Vec<T>);
impl<T> NonEmpty<T> {
    // non_empty_vec: Deref<Target = [T]>
    pub fn iter(&self) -> (r: core::slice::Iter<'_, T>)
        ensures r.remaining().len() == self.0@.len(), forall|k: int| 0 <= k < self.0@.len() ==> *r.remaining()[k] == self.0@[k],
            r.obeys_prophetic_iter_laws(), r.decrease() is Some,
    { self.0.iter() }
}
//@ lift crates/air-lib/lambda/ast/src/ast.rs :: enum LambdaAST
//@ derive
//@ end
pub type JsonString = Rc<str>;

// ---------------------------------------------------------------- the AST the callbacks read (ast/values.rs, ast/instruction_arguments.rs, ast/instructions.rs; lifted)
//@ lift crates/air-lib/air-parser/src/ast/values.rs :: struct Scalar
//@ derive
//@ end
//@ lift crates/air-lib/air-parser/src/ast/values.rs :: struct ScalarWithLambda
//@ derive
//@ end
//@ lift crates/air-lib/air-parser/src/ast/values.rs :: struct Stream
//@ derive
//@ end
//@ lift crates/air-lib/air-parser/src/ast/values.rs :: struct CanonStream
//@ derive
//@ end
//@ lift crates/air-lib/air-parser/src/ast/values.rs :: struct CanonStreamMap
//@ derive
//@ end
//@ lift crates/air-lib/air-parser/src/ast/values.rs :: struct CanonStreamWithLambda
//@ derive
//@ end
//@ lift crates/air-lib/air-parser/src/ast/values.rs :: struct CanonStreamMapWithLambda
//@ derive
//@ end
//@ lift crates/air-lib/air-parser/src/ast/values.rs :: enum ImmutableVariable
//@ derive
//@ end
//@ lift crates/air-lib/air-parser/src/ast/values.rs :: enum ImmutableVariableWithLambda
//@ derive
//@ end
//@ lift crates/air-lib/air-parser/src/ast/values.rs :: struct StreamMap
//@ derive
//@ end
//@ lift crates/air-lib/air-parser/src/ast/values.rs :: struct InstructionErrorAST
//@ derive
//@ end
//@ lift crates/air-lib/air-parser/src/ast/instruction_arguments.rs :: enum ResolvableToPeerIdVariable
//@ derive
//@ end
//@ lift crates/air-lib/air-parser/src/ast/instruction_arguments.rs :: enum ResolvableToStringVariable
//@ derive
//@ end
//@ lift crates/air-lib/air-parser/src/ast/instruction_arguments.rs :: struct Triplet
//@ derive
//@ end
//@ lift crates/air-lib/air-parser/src/ast/instruction_arguments.rs :: enum Number
//@ derive
//@ end
//@ lift crates/air-lib/air-parser/src/ast/instruction_arguments.rs :: enum ImmutableValue
//@ derive
//@ end
//@ lift crates/air-lib/air-parser/src/ast/instruction_arguments.rs :: enum CallOutputValue
//@ derive
//@ end
//@ lift crates/air-lib/air-parser/src/ast/instruction_arguments.rs :: enum ApArgument
//@ derive
//@ end
//@ lift crates/air-lib/air-parser/src/ast/instruction_arguments.rs :: enum ApResult
//@ derive
//@ end
//@ lift crates/air-lib/air-parser/src/ast/instruction_arguments.rs :: enum StreamMapKeyClause
//@ derive
//@ end
//@ lift crates/air-lib/air-parser/src/ast/instruction_arguments.rs :: enum FoldScalarIterable
//@ derive
//@ end
//@ lift crates/air-lib/air-parser/src/ast/instruction_arguments.rs :: enum NewArgument
//@ derive
//@ end
//@ lift crates/air-lib/air-parser/src/ast/instructions.rs :: struct Call
//@ derive
//@ end
//@ lift crates/air-lib/air-parser/src/ast/instructions.rs :: struct Ap
//@ derive
//@ end
//@ lift crates/air-lib/air-parser/src/ast/instructions.rs :: struct ApMap
//@ derive
//@ end
//@ lift crates/air-lib/air-parser/src/ast/instructions.rs :: struct Canon
//@ derive
//@ end
//@ lift crates/air-lib/air-parser/src/ast/instructions.rs :: struct CanonMap
//@ derive
//@ end
//@ lift crates/air-lib/air-parser/src/ast/instructions.rs :: struct CanonStreamMapScalar
//@ derive
//@ end
//@ lift crates/air-lib/air-parser/src/ast/instructions.rs :: struct Match
//@ derive
//@ end
//@ lift crates/air-lib/air-parser/src/ast/instructions.rs :: struct MisMatch
//@ derive
//@ end
//@ lift crates/air-lib/air-parser/src/ast/instructions.rs :: enum Fail
//@ derive
//@ end
//@ lift crates/air-lib/air-parser/src/ast/instructions.rs :: struct FoldScalar
//@ derive
//@ end
//@ lift crates/air-lib/air-parser/src/ast/instructions.rs :: struct FoldStream
//@ derive
//@ end
//@ lift crates/air-lib/air-parser/src/ast/instructions.rs :: struct FoldStreamMap
//@ derive
//@ end
//@ lift crates/air-lib/air-parser/src/ast/instructions.rs :: struct Next
//@ derive
//@ end
//@ lift crates/air-lib/air-parser/src/ast/instructions.rs :: struct New
//@ derive
//@ end

// ---------------------------------------------------------------- the validator (validator.rs)
//@ lift crates/air-lib/air-parser/src/parser/validator.rs :: struct VariableValidator
//@ derive
//@ pub-fields
//@ end

// the derived Default (every field's Default); `new()` below is `<_>::default()`
impl<'i> Default for AfterNextCheckMachine<'i> {
    fn default() -> Self { AfterNextCheckMachine { _p: core::marker::PhantomData } }
}
impl<'i> Default for VariableValidator<'i> {
    fn default() -> (r: Self)
        ensures r.is_empty()
    {
        VariableValidator {
            met_variable_definitions: HashMap::new(),
            met_iterator_definitions: MultiMap::new(),
            unresolved_variables: MultiMap::new(),
            unresolved_iterables: MultiMap::new(),
            multiple_next_candidates: MultiMap::new(),
            not_iterators_candidates: Vec::new(),
            unsupported_map_keys: Vec::new(),
            unsupported_literal_errcodes: Vec::new(),
            after_next_machine: Default::default(),
        }
    }
}

// ---------------------------------------------------------------- vocabulary of the contracts
impl<'i> VariableValidator<'i> {
    // name -> span of its left-most defining instruction (call / ap / canon output, new)
    pub open spec fn defs(&self) -> Map<&'i str, Span> { self.met_variable_definitions@ }
    // iterator name -> spans of the folds that declare it
    pub open spec fn iter_defs(&self) -> Map<&'i str, Seq<Span>> { self.met_iterator_definitions@ }
    // uses that were not resolved when met: name -> spans of the using instructions
    pub open spec fn unresolved(&self) -> Map<&'i str, Seq<Span>> { self.unresolved_variables@ }
    // next instructions: iterator name -> spans
    pub open spec fn nexts(&self) -> Map<&'i str, Seq<Span>> { self.unresolved_iterables@ }

    pub open spec fn is_empty(&self) -> bool {
        &&& self.defs() == Map::<&'i str, Span>::empty()
        &&& self.iter_defs() == Map::<&'i str, Seq<Span>>::empty()
        &&& self.unresolved() == Map::<&'i str, Seq<Span>>::empty()
        &&& self.nexts() == Map::<&'i str, Seq<Span>>::empty()
        &&& self.multiple_next_candidates@ == Map::<&'i str, Seq<Span>>::empty()
        &&& self.not_iterators_candidates@.len() == 0
    }

    // ---- the property's two ways of being in scope
    // "defined earlier in the text": some instruction that starts before `span` defines `name`
    pub open spec fn defined_before(&self, name: &str, span: Span) -> bool {
        self.defs().contains_key(name) && span_before(self.defs()[name], span)
    }
    // "is an enclosing fold iterator": some fold with iterator `name` encloses `span`
    pub open spec fn enclosing_iterator(&self, name: &str, span: Span) -> bool {
        self.iter_defs().contains_key(name)
            && exists|k: int| 0 <= k < self.iter_defs()[name].len() && span_encloses(#[trigger] self.iter_defs()[name][k], span)
    }
    pub open spec fn resolved(&self, name: &str, span: Span) -> bool {
        self.defined_before(name, span) || self.enclosing_iterator(name, span)
    }
    // the use (name, span) is on the list that finalize checks
    pub open spec fn recorded_use(&self, name: &str, span: Span) -> bool {
        self.unresolved().contains_key(name) && self.unresolved()[name].contains(span)
    }
    // what every callback owes for every variable operand of its instruction
    pub open spec fn use_covered(&self, name: &str, span: Span) -> bool {
        self.resolved(name, span) || self.recorded_use(name, span)
    }
    // `name` has a definition that starts no later than the instruction at `span`
    pub open spec fn def_recorded(&self, name: &str, span: Span) -> bool {
        self.defs().contains_key(name) && start(self.defs()[name]) <= start(span)
    }
    // the fold at `span` is a fold with iterator `name`
    pub open spec fn iterator_recorded(&self, name: &str, span: Span) -> bool {
        self.iter_defs().contains_key(name) && self.iter_defs()[name].contains(span)
    }
    // the next at `span` is on the list that finalize checks
    pub open spec fn next_recorded(&self, name: &str, span: Span) -> bool {
        self.nexts().contains_key(name) && self.nexts()[name].contains(span)
    }

    // `self` is a later state of `o`: definitions only move to the left, the three lists only grow
    #[verifier::opaque]
    pub open spec fn extends(&self, o: &VariableValidator<'i>) -> bool {
        &&& forall|n: &'i str| #[trigger] o.defs().contains_key(n) ==> self.defs().contains_key(n) && start(self.defs()[n]) <= start(o.defs()[n])
        &&& forall|n: &'i str, s: Span| #[trigger] o.iterator_recorded(n, s) ==> self.iterator_recorded(n, s)
        &&& forall|n: &'i str, s: Span| #[trigger] o.recorded_use(n, s) ==> self.recorded_use(n, s)
        &&& forall|n: &'i str, s: Span| #[trigger] o.next_recorded(n, s) ==> self.next_recorded(n, s)
    }
    // everything but the after-next machine is the same
    pub open spec fn same_scoping_state(&self, o: &VariableValidator<'i>) -> bool {
        &&& self.met_variable_definitions == o.met_variable_definitions
        &&& self.met_iterator_definitions == o.met_iterator_definitions
        &&& self.unresolved_variables == o.unresolved_variables
        &&& self.unresolved_iterables == o.unresolved_iterables
        &&& self.multiple_next_candidates == o.multiple_next_candidates
        &&& self.not_iterators_candidates == o.not_iterators_candidates
        &&& self.unsupported_map_keys == o.unsupported_map_keys
        &&& self.unsupported_literal_errcodes == o.unsupported_literal_errcodes
    }
}

// ---------------------------------------------------------------- lemmas (broadcast in module `callbacks`)
pub mod lemmas {
    use vstd::prelude::*;
    use super::*;

//@ lemma extends_is_reflexive props C23
    pub broadcast proof fn extends_is_reflexive<'i>(a: &VariableValidator<'i>)
        ensures #[trigger] a.extends(a)
    { reveal(VariableValidator::extends); }
//@ end

//@ lemma extends_is_transitive props C23
    pub broadcast proof fn extends_is_transitive<'i>(a: &VariableValidator<'i>, b: &VariableValidator<'i>, c: &VariableValidator<'i>)
        requires #[trigger] c.extends(b), #[trigger] b.extends(a)
        ensures c.extends(a)
    { reveal(VariableValidator::extends); }
//@ end

    // a change of the after-next machine alone is an extension
//@ lemma same_scoping_state_extends props C23
    pub broadcast proof fn same_scoping_state_extends<'i>(a: &VariableValidator<'i>, b: &VariableValidator<'i>)
        requires #[trigger] b.same_scoping_state(a)
        ensures b.extends(a)
    { reveal(VariableValidator::extends); }
//@ end

    // a use that is covered stays covered whatever is recorded later
//@ lemma use_covered_is_stable props C23
    pub broadcast proof fn use_covered_is_stable<'i>(old_v: &VariableValidator<'i>, new_v: &VariableValidator<'i>, name: &'i str, span: Span)
        requires #[trigger] new_v.extends(old_v), #[trigger] old_v.use_covered(name, span)
        ensures new_v.use_covered(name, span)
    {
        reveal(VariableValidator::extends);
        if old_v.defined_before(name, span) {
            assert(old_v.defs().contains_key(name));
        } else if old_v.enclosing_iterator(name, span) {
            let k = choose|k: int| 0 <= k < old_v.iter_defs()[name].len() && span_encloses(#[trigger] old_v.iter_defs()[name][k], span);
            let s = old_v.iter_defs()[name][k];
            assert(old_v.iterator_recorded(name, s));
            assert(new_v.iterator_recorded(name, s));
            let k2 = choose|k2: int| 0 <= k2 < new_v.iter_defs()[name].len() && new_v.iter_defs()[name][k2] == s;
            assert(span_encloses(new_v.iter_defs()[name][k2], span));
        } else {
            assert(old_v.recorded_use(name, span));
        }
    }
//@ end

    // so do a recorded definition, a recorded fold iterator and a recorded next
//@ lemma records_are_stable props C23
    pub broadcast proof fn def_recorded_is_stable<'i>(old_v: &VariableValidator<'i>, new_v: &VariableValidator<'i>, name: &'i str, span: Span)
        requires #[trigger] new_v.extends(old_v), #[trigger] old_v.def_recorded(name, span)
        ensures new_v.def_recorded(name, span)
    { reveal(VariableValidator::extends); }
//@ end
    pub broadcast proof fn iterator_recorded_is_stable<'i>(old_v: &VariableValidator<'i>, new_v: &VariableValidator<'i>, name: &'i str, span: Span)
        requires #[trigger] new_v.extends(old_v), #[trigger] old_v.iterator_recorded(name, span)
        ensures new_v.iterator_recorded(name, span)
    { reveal(VariableValidator::extends); }
    pub broadcast proof fn next_recorded_is_stable<'i>(old_v: &VariableValidator<'i>, new_v: &VariableValidator<'i>, name: &'i str, span: Span)
        requires #[trigger] new_v.extends(old_v), #[trigger] old_v.next_recorded(name, span)
        ensures new_v.next_recorded(name, span)
    { reveal(VariableValidator::extends); }
}

// ---------------------------------------------------------------- the callbacks (validator.rs, lifted)
pub mod callbacks {
    use vstd::prelude::*;
    use vstd::std_specs::iter::IteratorSpec;
    use std::collections::HashMap;
    use super::*;
    broadcast use {vstd::std_specs::hash::group_hash_axioms, super::key_model::axiom_str_ref_obeys_key_model, super::key_model::axiom_str_ref_borrows_str,
        super::key_model::axiom_str_ref_borrows_str_value, super::seq_lemmas::lemma_push_contains,
        super::lemmas::extends_is_reflexive, super::lemmas::extends_is_transitive, super::lemmas::same_scoping_state_extends,
        super::lemmas::use_covered_is_stable, super::lemmas::def_recorded_is_stable, super::lemmas::iterator_recorded_is_stable,
        super::lemmas::next_recorded_is_stable};

impl<'i> VariableValidator<'i> {
//@ lift crates/air-lib/air-parser/src/parser/validator.rs :: impl<'i> VariableValidator<'i> :: fn new
//@ props C23
//@ ret r
//@ spec
        ensures r.is_empty()
//@ end

// C23: a use counts as resolved only by a definition that starts earlier or by a fold with that iterator that ENCLOSES it
// rewrite: the closure gets its annotated form (result = what `<` on spans computes), and the receiver of `.any` is let-bound so that
// ghost code can name the iterator (`it.remaining()[k]` is the k-th element of the vector)
//@ lift crates/air-lib/air-parser/src/parser/validator.rs :: impl<'i> VariableValidator<'i> :: fn contains_variable
//@ props C23
//@ ret r
//@ rewrite 1 "found_spans.iter().any(|s| s < &key_span)" => "{ let mut it = found_spans.iter(); proof { assert(forall|k: int| 0 <= k < found_spans@.len() ==> *it.remaining()[k] == found_spans@[k]); } it.any(|s: &Span| -> (b: bool) ensures b == span_before(*s, key_span) { s < &key_span }) }"
//@ spec
        ensures
            // C23: whatever is taken for resolved is in scope in the property's sense
            r ==> self.resolved(key, key_span),
            // and nothing in scope is reported
            self.resolved(key, key_span) ==> r,
//@ end

//@ lift crates/air-lib/air-parser/src/parser/validator.rs :: impl<'i> VariableValidator<'i> :: fn met_variable_name
//@ props C23
//@ spec
        ensures
            final(self).use_covered(name, span),
            // exactly: nothing happens if the use is resolved already, else it is appended to the list of `name`
            old(self).resolved(name, span) ==> *final(self) == *old(self),
            !old(self).resolved(name, span) ==> final(self).unresolved() == old(self).unresolved().insert(name, values_of(old(self).unresolved(), name).push(span)),
            final(self).met_variable_definitions == old(self).met_variable_definitions,
            final(self).met_iterator_definitions == old(self).met_iterator_definitions,
            final(self).unresolved_iterables == old(self).unresolved_iterables,
            final(self).multiple_next_candidates == old(self).multiple_next_candidates,
            final(self).not_iterators_candidates == old(self).not_iterators_candidates,
            final(self).extends(old(self)),
//@ end

// keeps the LEFT-MOST definition
//@ lift crates/air-lib/air-parser/src/parser/validator.rs :: impl<'i> VariableValidator<'i> :: fn met_variable_name_definition
//@ props C23
//@ spec
        ensures
            final(self).def_recorded(name, span),
            final(self).defs() == (if old(self).defs().contains_key(name) && span_cmp(old(self).defs()[name], span) != Ordering::Greater { old(self).defs() } else { old(self).defs().insert(name, span) }),
            final(self).met_iterator_definitions == old(self).met_iterator_definitions,
            final(self).unresolved_variables == old(self).unresolved_variables,
            final(self).unresolved_iterables == old(self).unresolved_iterables,
            final(self).multiple_next_candidates == old(self).multiple_next_candidates,
            final(self).not_iterators_candidates == old(self).not_iterators_candidates,
            final(self).extends(old(self)),
//@ end

//@ lift crates/air-lib/air-parser/src/parser/validator.rs :: impl<'i> VariableValidator<'i> :: fn met_iterator_definition
//@ props C23
//@ spec
        ensures
            final(self).iterator_recorded(iterator.name, span),
            final(self).iter_defs() == old(self).iter_defs().insert(iterator.name, values_of(old(self).iter_defs(), iterator.name).push(span)),
            final(self).met_variable_definitions == old(self).met_variable_definitions,
            final(self).unresolved_variables == old(self).unresolved_variables,
            final(self).unresolved_iterables == old(self).unresolved_iterables,
            final(self).multiple_next_candidates == old(self).multiple_next_candidates,
            final(self).not_iterators_candidates == old(self).not_iterators_candidates,
            final(self).extends(old(self)),
//@ end
}

} // mod callbacks

} // verus!
fn main() {}
