//@ unit runner
// air/src/runner.rs (execute_air_impl), air/src/farewell_step/outcome.rs, air/src/preparation_step/
// {sizes_limits_check.rs, preparation.rs::prepare}.   Properties C02, C06, C14 (salt plumbing), C22.
//
// Trusted part: the opaque context types below, the error-code range facts on `to_error_code`
// (discharged natively by job C02.codes over every strum discriminant), the serializers.
use vstd::prelude::*;
use std::rc::Rc;
verus! {

// ---------------------------------------------------------------- strings with a provenance tag
// `Str` stands for `String` in RunParameters; `origin()` says which RunParameters field a value was
// read from, so that "the salt given to verify/sign is the particle id" becomes a callee precondition.
pub struct Str { pub s: String }
impl Str { pub uninterp spec fn origin(&self) -> int; }
impl Clone for Str {
    #[verifier::external_body]
    fn clone(&self) -> (r: Self) ensures r.origin() == self.origin(), r.s@ == self.s@ { Str { s: self.s.clone() } }
}
pub open spec fn ORIGIN_INIT_PEER() -> int { 1 }
pub open spec fn ORIGIN_CURRENT_PEER() -> int { 2 }
pub open spec fn ORIGIN_PARTICLE_ID() -> int { 3 }

//@ lift crates/air-lib/interpreter-interface/src/run_parameters.rs :: struct RunParameters
//@ derive
//@ rewrite 3 "String" => "Str"
//@ end
impl RunParameters {
    pub open spec fn wf(&self) -> bool {
        self.init_peer_id.origin() == ORIGIN_INIT_PEER() && self.current_peer_id.origin() == ORIGIN_CURRENT_PEER()
        && self.particle_id.origin() == ORIGIN_PARTICLE_ID()
    }
}

//@ lift crates/air-lib/interpreter-interface/src/interpreter_outcome.rs :: struct SoftLimitsTriggering
//@ derive Copy Clone
//@ end
impl Default for SoftLimitsTriggering {
    // #[derive(Default)] on three bools
    fn default() -> (r: Self) ensures !r.air_size_limit_exceeded, !r.particle_size_limit_exceeded, !r.call_result_size_limit_exceeded
    { SoftLimitsTriggering { air_size_limit_exceeded: false, particle_size_limit_exceeded: false, call_result_size_limit_exceeded: false } }
}
//@ lift crates/air-lib/interpreter-interface/src/interpreter_outcome.rs :: struct InterpreterOutcome
//@ derive
//@ end
pub struct SerializedCallRequests(pub Vec<u8>);
impl From<SerializedCallRequests> for Vec<u8> { fn from(v: SerializedCallRequests) -> Vec<u8> { v.0 } }
impl vstd::std_specs::convert::FromSpecImpl<SerializedCallRequests> for Vec<u8> {
    open spec fn obeys_from_spec() -> bool { true }
    open spec fn from_spec(v: SerializedCallRequests) -> Vec<u8> { v.0 }
}
impl Default for SerializedCallRequests {
    fn default() -> (r: Self) ensures r.0@.len() == 0 { SerializedCallRequests(Vec::new()) }
}
pub open spec fn flags_of(o: InterpreterOutcome) -> SoftLimitsTriggering {
    SoftLimitsTriggering { air_size_limit_exceeded: o.air_size_limit_exceeded,
        particle_size_limit_exceeded: o.particle_size_limit_exceeded,
        call_result_size_limit_exceeded: o.call_result_size_limit_exceeded }
}
impl InterpreterOutcome {
//@ lift crates/air-lib/interpreter-interface/src/interpreter_outcome.rs :: impl InterpreterOutcome :: fn new
//@ props C02 C22
//@ ret r
//@ spec
        ensures r.ret_code == ret_code, r.error_message == error_message, r.data == data,
            r.next_peer_pks == next_peer_pks, r.call_requests == call_requests.0,
            flags_of(r) == soft_limits_triggering,
//@ end
}

// ---------------------------------------------------------------- error codes (trusted ranges, job C02.codes)
pub const INTERPRETER_SUCCESS: i64 = 0;
pub open spec fn is_preparation_code(c: i64) -> bool { 1 <= c <= 9999 }
pub open spec fn is_catchable_code(c: i64) -> bool { 10000 <= c <= 19999 }
pub open spec fn is_uncatchable_code(c: i64) -> bool { 20000 <= c <= 29999 }
pub open spec fn FAREWELL_CODE() -> i64 { 30000 }
pub trait ToErrorCode {
    spec fn code(&self) -> i64;
    spec fn in_range(&self, c: i64) -> bool;
    fn to_error_code(&self) -> (r: i64) ensures r == self.code(), self.in_range(r);
}
pub struct PreparationError { pub x: u8 }
impl PreparationError {
    pub uninterp spec fn code_of(&self) -> i64;
    pub uninterp spec fn is_air_size(&self) -> bool;
    pub uninterp spec fn is_particle_size(&self) -> bool;
    pub uninterp spec fn is_call_result_size(&self) -> bool;
    #[verifier::external_body]
    pub fn air_size_limit(actual: usize, limit: u64) -> (r: Self) ensures r.is_air_size(), !r.is_particle_size(), !r.is_call_result_size() { unimplemented!() }
    #[verifier::external_body]
    pub fn particle_size_limit(actual: usize, limit: u64) -> (r: Self) ensures r.is_particle_size(), !r.is_air_size(), !r.is_call_result_size() { unimplemented!() }
    #[verifier::external_body]
    pub fn call_result_size_limit(limit: u64) -> (r: Self) ensures r.is_call_result_size(), !r.is_air_size(), !r.is_particle_size() { unimplemented!() }
    // the constructors used as `map_err(PreparationError::X)` in prepare
    #[verifier::external_body]
    pub fn air_parse_error(e: ParseErr) -> (r: Self) { unimplemented!() }
    #[verifier::external_body]
    pub fn from_key_error(e: KeyError) -> (r: Self) { unimplemented!() }
}
impl ToErrorCode for PreparationError {
    open spec fn code(&self) -> i64 { self.code_of() }
    open spec fn in_range(&self, c: i64) -> bool { is_preparation_code(c) }
    // generate_to_error_code!(self, PreparationError, PREPARATION_ERROR_START_ID): range checked by job C02.codes
    #[verifier::external_body]
    fn to_error_code(&self) -> (r: i64) { unimplemented!() }
}
pub struct ExecutionError { pub catchable: bool }
impl ExecutionError {
    pub uninterp spec fn code_of(&self) -> i64;
    // real: `matches!(self, ExecutionError::Catchable(_))` -- proved on the lifted text in unit `context`
    pub fn is_catchable(&self) -> (r: bool) ensures r == self.catchable { self.catchable }
}
impl ToErrorCode for ExecutionError {
    open spec fn code(&self) -> i64 { self.code_of() }
    open spec fn in_range(&self, c: i64) -> bool { if self.catchable { is_catchable_code(c) } else { is_uncatchable_code(c) } }
    // ExecutionError::{Catchable(e) => e.to_error_code(), Uncatchable(e) => e.to_error_code()}: ranges checked by job C02.codes
    #[verifier::external_body]
    fn to_error_code(&self) -> (r: i64) { unimplemented!() }
}
pub struct ParseErr { pub x: u8 }
pub struct KeyError { pub x: u8 }

pub fn opaque_string() -> String { String::new() }

// ---------------------------------------------------------------- C22: size limits
type PreparationResult<T> = Result<T, PreparationError>;

//@ lift air/src/preparation_step/sizes_limits_check.rs :: fn handle_limit_exceeding
//@ props C22
//@ ret r
//@ spec
    ensures *final(soft_limit_flag) == true,
        r is Err <==> run_parameters.hard_limit_enabled,
        r matches Err(e) ==> e == error,
//@ end

// `air.len()` / `raw_current_data.len()`: byte lengths of the script and of the current data
pub struct AirStr { pub s: String }
impl AirStr {
    pub uninterp spec fn byte_len(&self) -> usize;
    #[verifier::external_body]
    pub fn len(&self) -> (r: usize) ensures r == self.byte_len() { self.s.len() }
}

//@ lift air/src/preparation_step/sizes_limits_check.rs :: fn check_against_size_limits
//@ props C22
//@ ret r
//@ sig 1 "air: &str" => "air: &AirStr"
//@ spec
    ensures
        // from the property statement: ao/po = strictly larger than the configured limit
        ({
            let ao = air.byte_len() as u64 > run_parameters.air_size_limit;
            let po = raw_current_data@.len() as u64 > run_parameters.particle_size_limit;
            &&& (r is Err <==> (run_parameters.hard_limit_enabled && (ao || po)))
            &&& (r matches Err(e) ==> (if ao { e.is_air_size() } else { e.is_particle_size() }))
            &&& (r matches Ok(f) ==> f.air_size_limit_exceeded == ao && f.particle_size_limit_exceeded == po
                    && !f.call_result_size_limit_exceeded)
        }),
//@ end

// ---------------------------------------------------------------- opaque context types
pub struct CallResults { pub x: u8 }
impl CallResults {
    pub uninterp spec fn empty(&self) -> bool;
    #[verifier::external_body]
    pub fn is_empty(&self) -> (r: bool) ensures r == self.empty() { unimplemented!() }
}
impl Clone for CallResults { #[verifier::external_body] fn clone(&self) -> (r: Self) ensures r == *self { unimplemented!() } }
pub struct CallRequests { pub x: u8 }
impl CallRequests {
    pub uninterp spec fn is_empty_map(&self) -> bool;
    #[verifier::external_body]
    pub fn new() -> (r: Self) ensures r.is_empty_map() { unimplemented!() }
}
pub struct SerializeErr { pub x: u8 }
pub struct CallRequestsRepr;
pub uninterp spec fn ser_call_requests(c: CallRequests) -> Seq<u8>;
impl CallRequestsRepr {
    // trusted: "default serializer shouldn't fail" (rmp-serde of a map into a Vec); round trip is job C02.ser
    #[verifier::external_body]
    pub fn serialize(&self, c: &CallRequests) -> (r: Result<SerializedCallRequests, SerializeErr>)
        ensures r matches Ok(b) && b.0@ == ser_call_requests(*c)
    { unimplemented!() }
}
pub struct SignatureStore { pub x: u8 }
impl Default for SignatureStore { fn default() -> Self { SignatureStore { x: 0 } } }
pub struct CidState { pub x: u8 }
pub struct CidInfo { pub x: u8 }
impl From<CidState> for CidInfo { #[verifier::external_body] fn from(c: CidState) -> CidInfo { unimplemented!() } }
pub struct PeerCidTracker { pub x: u8 }
pub struct ExecRunParameters { pub salt: Str }
pub struct ExecutionCtx {
    pub call_results: CallResults,
    pub call_requests: CallRequests,
    pub next_peer_pks: Vec<String>,
    pub last_call_request_id: u32,
    pub cid_state: CidState,
    pub signature_store: SignatureStore,
    pub peer_cid_tracker: PeerCidTracker,
    pub run_parameters: ExecRunParameters,
}
pub struct ExecutionTrace { pub x: u8 }
pub struct TraceHandler { pub x: u8 }
impl TraceHandler {
    pub uninterp spec fn result_trace(&self) -> ExecutionTrace;
    #[verifier::external_body]
    pub fn into_result_trace(self) -> (r: ExecutionTrace) ensures r == self.result_trace() { unimplemented!() }
    #[verifier::external_body]
    pub fn from_trace(prev: ExecutionTrace, current: ExecutionTrace) -> Self { unimplemented!() }
}
pub struct KeyPair { pub x: u8 }
pub struct Version { pub x: u8 }
pub struct InterpreterDataEnvelope { pub x: u8 }
pub uninterp spec fn ser_envelope(e: InterpreterDataEnvelope) -> Seq<u8>;
impl InterpreterDataEnvelope {
    pub uninterp spec fn lcid(&self) -> u32;
    pub uninterp spec fn trace(&self) -> ExecutionTrace;
    // interpreter-data: struct literal InterpreterData { trace, last_call_request_id, cid_info, signatures } then rkyv
    #[verifier::external_body]
    pub fn from_execution_result(trace: ExecutionTrace, cid_info: CidInfo, signatures: SignatureStore,
        last_call_request_id: u32, interpreter_version: Version) -> (r: Self)
        ensures r.lcid() == last_call_request_id, r.trace() == trace
    { unimplemented!() }
    #[verifier::external_body]
    pub fn serialize(&self) -> (r: Result<Vec<u8>, SerializeErr>)
        ensures r matches Ok(b) && b@ == ser_envelope(*self)
    { unimplemented!() }
}
#[verifier::external_body]
pub fn current_interpreter_version() -> Version { unimplemented!() }

// ---------------------------------------------------------------- C02 / C06: farewell
// real: a thiserror enum with this single variant (job C02.codes enumerates it)
pub enum FarewellError { UnprocessedCallResult(CallResults) }
impl ToErrorCode for FarewellError {
    open spec fn code(&self) -> i64 { FAREWELL_CODE() }
    open spec fn in_range(&self, c: i64) -> bool { c == FAREWELL_CODE() }
    // generate_to_error_code!(self, FarewellError, FAREWELL_ERRORS_START_ID): single variant => 30000 (job C02.codes)
    #[verifier::external_body]
    fn to_error_code(&self) -> (r: i64) { unimplemented!() }
}

// internal failures of the farewell step itself (stream compactification, signing): the outcome carries
// the internal error's code and EMPTY data. C02 is claimed under the assumption that these do not happen
// (F11 in DESIGN.md); the contract below states exactly what is returned in either case.
pub uninterp spec fn compactify_ok(e: ExecutionCtx, t: TraceHandler) -> bool;
// marks the outcomes built by execution_error_into_outcome / signing_error_into_outcome; uninterpreted, so no
// other outcome can be shown to satisfy it
pub uninterp spec fn internal_failure_outcome(o: InterpreterOutcome) -> bool;
pub uninterp spec fn sign_ok(e: ExecutionCtx) -> bool;
#[verifier::external_body]
fn compactify_streams(exec_ctx: &mut ExecutionCtx, trace_ctx: &mut TraceHandler, soft_limits_triggering: SoftLimitsTriggering)
    -> (r: Result<(), InterpreterOutcome>)
    ensures r is Ok <==> compactify_ok(*old(exec_ctx), *old(trace_ctx)),
        r matches Err(o) ==> internal_failure_outcome(o) && o.data@.len() == 0 && o.next_peer_pks@.len() == 0 && flags_of(o) == soft_limits_triggering,
        final(exec_ctx).last_call_request_id == old(exec_ctx).last_call_request_id,
        final(exec_ctx).next_peer_pks == old(exec_ctx).next_peer_pks,
        final(exec_ctx).call_requests == old(exec_ctx).call_requests,
        sign_ok(*final(exec_ctx)) == sign_ok(*old(exec_ctx)),
{ unimplemented!() }
#[verifier::external_body]
fn sign_result(exec_ctx: &mut ExecutionCtx, keypair: &KeyPair, soft_limits_triggering: SoftLimitsTriggering)
    -> (r: Result<(), InterpreterOutcome>)
    ensures r is Ok <==> sign_ok(*old(exec_ctx)),
        r matches Err(o) ==> internal_failure_outcome(o) && o.data@.len() == 0 && o.next_peer_pks@.len() == 0 && flags_of(o) == soft_limits_triggering,
        final(exec_ctx).last_call_request_id == old(exec_ctx).last_call_request_id,
        final(exec_ctx).next_peer_pks == old(exec_ctx).next_peer_pks,
        final(exec_ctx).call_requests == old(exec_ctx).call_requests,
{ unimplemented!() }
// real: HashSet round trip. C19.K1 (job) checks: no duplicates, same element set.
pub uninterp spec fn dedup_spec(v: Seq<String>) -> Seq<String>;
#[verifier::external_body]
fn dedup(vec: Vec<String>) -> (r: Vec<String>) ensures r@ == dedup_spec(vec@) { unimplemented!() }

// "new data": what a populated outcome carries (from the C02/C06/C19 statements)
pub open spec fn populated(o: InterpreterOutcome, e: ExecutionCtx, t: TraceHandler, code: i64, soft: SoftLimitsTriggering) -> bool {
    &&& o.ret_code == code
    &&& flags_of(o) == soft
    &&& o.next_peer_pks@ == dedup_spec(e.next_peer_pks@)
    &&& o.call_requests@ == ser_call_requests(e.call_requests)
    &&& exists|env: InterpreterDataEnvelope| #[trigger] ser_envelope(env) == o.data@ && env.lcid() == e.last_call_request_id
}
pub open spec fn farewell_internal_failure(e: ExecutionCtx, t: TraceHandler) -> bool {
    !compactify_ok(e, t) || !sign_ok(e)
}

//@ lift air/src/farewell_step/outcome.rs :: fn populate_outcome_from_contexts
//@ props C02 C06 C19
//@ ret o
//@ sig 1 "ExecutionCtx<'_>" => "ExecutionCtx"
//@ rewrite 1 "semver::Version::parse(env!(\"CARGO_PKG_VERSION\")).expect(\"cargo version is valid\")" => "current_interpreter_version()"
//@ spec
    ensures
        !farewell_internal_failure(exec_ctx, trace_handler) ==> populated(o, exec_ctx, trace_handler, ret_code, soft_limits_triggering)
            && o.error_message == error_message,
        farewell_internal_failure(exec_ctx, trace_handler) ==> internal_failure_outcome(o) && o.data@.len() == 0 && o.next_peer_pks@.len() == 0,
        flags_of(o) == soft_limits_triggering,
//@ end

//@ lift air/src/farewell_step/outcome.rs :: fn from_success_result
//@ props C02 C06
//@ ret r
//@ sig 1 "ExecutionCtx<'_>" => "ExecutionCtx"
//@ spec
    ensures
        r matches Ok(o) && flags_of(o) == soft_limits_triggering,
        // C06: leftover call results are reported (30000), never silently dropped; none left => success (0)
        r matches Ok(o) && (!farewell_internal_failure(exec_ctx, trace_handler) ==>
            populated(o, exec_ctx, trace_handler, if exec_ctx.call_results.empty() { 0i64 } else { FAREWELL_CODE() }, soft_limits_triggering)),
        r matches Ok(o) && (farewell_internal_failure(exec_ctx, trace_handler) ==> internal_failure_outcome(o)),
//@ end

pub trait ErrToString { fn to_string(&self) -> String; }
impl ErrToString for PreparationError { #[verifier::external_body] fn to_string(&self) -> String { unimplemented!() } }
impl ErrToString for ExecutionError { #[verifier::external_body] fn to_string(&self) -> String { unimplemented!() } }
impl ErrToString for FarewellError { #[verifier::external_body] fn to_string(&self) -> String { unimplemented!() } }

//@ lift air/src/farewell_step/outcome.rs :: fn from_uncatchable_error
//@ props C02
//@ ret o
//@ sig 1 "from_uncatchable_error(" => "from_uncatchable_error<E: ToErrorCode + ErrToString>("
//@ sig 1 "data: impl Into<Vec<u8>> + Debug" => "data: Vec<u8>"
//@ sig 1 "error: impl ToErrorCode + ToString + Debug" => "error: E"
//@ rewrite 1 "let data = data.into();" => ""
//@ rewrite 1 ".expect(\"default serializer shouldn't fail\")" => ".unwrap()"
//@ spec
    ensures
        // C02: exactly the data handed in (the caller hands in the previous data), no next peers, no call requests
        o.data@ == data@, o.next_peer_pks@.len() == 0,
        exists|c: CallRequests| c.is_empty_map() && #[trigger] ser_call_requests(c) == o.call_requests@,
        o.ret_code == error.code(), error.in_range(o.ret_code), flags_of(o) == soft_limits_triggering,
//@ end

//@ lift air/src/farewell_step/outcome.rs :: fn from_execution_error
//@ props C02
//@ ret o
//@ sig 1 "ExecutionCtx<'_>" => "ExecutionCtx"
//@ sig 1 "error: impl ToErrorCode + ToString + Debug" => "error: ExecutionError"
//@ spec
    requires error.catchable          // C02/C18: only catchable failures may return new data
    ensures
        flags_of(o) == soft_limits_triggering,
        !farewell_internal_failure(exec_ctx, trace_handler) ==> populated(o, exec_ctx, trace_handler, error.code(), soft_limits_triggering)
            && is_catchable_code(o.ret_code),
        farewell_internal_failure(exec_ctx, trace_handler) ==> internal_failure_outcome(o),
//@ end

//@ lift air/src/farewell_step/outcome.rs :: fn execution_error_into_outcome
//@ props C02
//@ ret o
//@ sig 1 "error: ExecutionError" => "error: ExecutionError"
//@ spec
    ensures o.data@.len() == 0, o.next_peer_pks@.len() == 0, o.call_requests@.len() == 0,
        o.ret_code == error.code(), flags_of(o) == soft_limits_triggering,
//@ end

// ---------------------------------------------------------------- runner
pub struct InterpreterData { pub trace: ExecutionTrace, pub last_call_request_id: u32, pub cid_info: CidInfo }
pub struct SerializedCallResults { pub x: u8 }
pub struct Instruction { pub x: u8 }
impl Instruction {
    #[verifier::external_body]
    pub fn execute(&self, e: &mut ExecutionCtx, t: &mut TraceHandler) -> Result<(), ExecutionError> { unimplemented!() }
}
//@ lift air/src/preparation_step/preparation.rs :: struct PreparationDescriptor
//@ rewrite 1 "<'ctx, 'i>" => ""
//@ rewrite 1 "ExecutionCtx<'ctx>" => "ExecutionCtx"
//@ rewrite 1 "Instruction<'i>" => "Instruction"
//@ end
//@ lift air/src/preparation_step/preparation.rs :: struct ParsedDataPair
//@ end

#[verifier::external_body]
pub fn parse_data(prev_data: &Vec<u8>, current_data: &Vec<u8>) -> PreparationResult<ParsedDataPair> { unimplemented!() }

// ---------------------------------------------------------------- verification_step::verify, signing_step::sign_produced_cids
// (C14.V4: the salt is the particle id; C15: incompatible result sets of one peer reject the run in the preparation step)
pub struct CidStoreVerificationError { pub x: u8 }
pub struct DataVerifierError { pub x: u8 }
impl From<CidStoreVerificationError> for PreparationError { #[verifier::external_body] fn from(e: CidStoreVerificationError) -> Self { unimplemented!() } }
impl From<DataVerifierError> for PreparationError { #[verifier::external_body] fn from(e: DataVerifierError) -> Self { unimplemented!() } }
impl CidInfo {
    #[verifier::external_body]
    pub fn verify(&self) -> Result<(), CidStoreVerificationError> { unimplemented!() }
}
pub mod air_interpreter_data { pub mod verification { pub use super::super::DataVerifier; } }
// interpreter-data DataVerifier: `merge` is Err(MergeMismatch) exactly when, for some peer, neither CID multiset contains the
// other (unit multisubset + native job C15.merge); here only "which data, which salt" matters
pub struct DataVerifier { pub data: Ghost<InterpreterData>, pub salt_origin: Ghost<int> }
pub uninterp spec fn multisets_incompatible(a: InterpreterData, b: InterpreterData) -> bool;
impl DataVerifier {
    #[verifier::external_body]
    pub fn new(data: &InterpreterData, salt: &Str) -> (r: Result<DataVerifier, DataVerifierError>)
        requires salt.origin() == ORIGIN_PARTICLE_ID()          // C14.V4: signatures are checked for THIS particle
        ensures r matches Ok(v) ==> v.data@ == *data
    { unimplemented!() }
    #[verifier::external_body]
    pub fn verify(&self) -> Result<(), DataVerifierError> { unimplemented!() }
    #[verifier::external_body]
    pub fn merge(self, other: DataVerifier) -> (r: Result<SignatureStore, DataVerifierError>)
        ensures multisets_incompatible(self.data@, other.data@) ==> r is Err
    { unimplemented!() }
}
pub struct Signature { pub x: u8 }
pub struct PublicKey { pub x: u8 }
pub struct SigningError { pub x: u8 }
impl PeerCidTracker {
    #[verifier::external_body]
    pub fn gen_signature(&self, salt: &Str, keypair: &KeyPair) -> Result<Signature, SigningError>
        requires salt.origin() == ORIGIN_PARTICLE_ID()          // C14.V4: own results are signed for THIS particle
    { unimplemented!() }
}
impl KeyPair { #[verifier::external_body] pub fn public(&self) -> PublicKey { unimplemented!() } }
impl SignatureStore { #[verifier::external_body] pub fn put(&mut self, k: PublicKey, s: Signature) { unimplemented!() } }
#[verifier::external_body]
pub fn signing_error(e: SigningError) -> (r: ExecutionError) ensures !r.catchable { unimplemented!() }

//@ lift air/src/verification_step.rs :: fn verify @ cfg(feature = "check_signatures")
//@ props C14 C15
//@ ret r
//@ sig 1 "salt: &str" => "salt: &Str"
//@ rewrite 1 "use air_interpreter_data::verification;" => "use air_interpreter_data::verification;"
//@ spec
    requires salt.origin() == ORIGIN_PARTICLE_ID()
    ensures
        // C15: previous and current data with incompatible result sets of one peer never pass the preparation step
        multisets_incompatible(*prev_data, *current_data) ==> r is Err,
//@ end

//@ lift air/src/signing_step.rs :: fn sign_produced_cids @ cfg(feature = "gen_signatures")
//@ props C14
//@ ret r
//@ sig 1 "salt: &str" => "salt: &Str"
//@ rewrite 1 "use crate::UncatchableError;" => ""
//@ rewrite 1 ".map_err(UncatchableError::SigningError)?" => ".map_err(|e: SigningError| -> (o: ExecutionError) ensures !o.catchable { signing_error(e) })?"
//@ spec
    requires salt.origin() == ORIGIN_PARTICLE_ID()
    ensures r matches Err(e) ==> !e.catchable      // the only error is UncatchableError::SigningError
//@ end

// ---------------------------------------------------------------- preparation_step::prepare / make_exec_ctx (C06.V3, C22)
//@ lift air/src/execution_step/execution_context/context.rs :: struct ExecCtxIngredients
//@ derive
//@ end
impl ExecutionCtx {
    // proved on the lifted text in unit `context` (ExecutionCtx::new): the request-id counter is the PREVIOUS data's
    #[verifier::external_body]
    pub fn new(prev_ingredients: ExecCtxIngredients, current_ingredients: ExecCtxIngredients, call_results: CallResults,
               signature_store: SignatureStore, run_parameters: &RunParameters) -> (r: Self)
        ensures r.last_call_request_id == prev_ingredients.last_call_request_id
    { unimplemented!() }
}
pub struct CallResultsRepr;
pub struct DeError { pub x: u8 }
impl CallResultsRepr {
    #[verifier::external_body]
    pub fn deserialize(&self, c: &SerializedCallResults) -> Result<CallResults, DeError> { unimplemented!() }
}
impl PreparationError {
    #[verifier::external_body]
    pub fn call_results_de_failed(e: DeError) -> (r: Self) ensures !r.is_call_result_size() { unimplemented!() }
}
// `call_results.values().any(|r| r.result.len() as u64 > limit)`: an iterator adapter chain Verus cannot take; the comparison
// itself is checked on the real make_exec_ctx by the native job C22.call_results
pub uninterp spec fn any_result_over(c: CallResults, limit: u64) -> bool;
#[verifier::external_body]
pub fn any_call_result_over(c: &CallResults, limit: u64) -> (r: bool) ensures r == any_result_over(*c, limit) { unimplemented!() }
pub mod air_parser { #[verifier::external_body] pub fn parse(raw_air: &super::AirStr) -> Result<super::Instruction, super::ParseErr> { unimplemented!() } }
pub struct KeyFormat { pub x: u8 }
impl KeyFormat { #[verifier::external_body] pub fn try_from_u8(v: u8) -> Result<KeyFormat, KeyError> { unimplemented!() } }
impl KeyPair { #[verifier::external_body] pub fn from_secret_key(k: Vec<u8>, f: KeyFormat) -> Result<KeyPair, KeyError> { unimplemented!() } }

//@ lift air/src/preparation_step/preparation.rs :: fn make_exec_ctx
//@ props C06 C22
//@ ret r
//@ sig 1 "PreparationResult<ExecutionCtx<'static>>" => "PreparationResult<ExecutionCtx>"
//@ rewrite 1 "use crate::preparation_step::sizes_limits_check::handle_limit_exceeding;" => ""
//@ rewrite 1 ".map_err(PreparationError::call_results_de_failed)?" => ".map_err(|e: DeError| -> (o: PreparationError) ensures !o.is_call_result_size() { PreparationError::call_results_de_failed(e) })?"
//@ rewrite 1 "if call_results\n        .values()\n        .any(|call_result| call_result.result.len() as u64 > run_parameters.call_result_size_limit)\n    {" => "if any_call_result_over(&call_results, run_parameters.call_result_size_limit) {"
//@ spec
    ensures
        // C06.V3: the counter of the new context is the one of the previous data
        r matches Ok(ctx) ==> ctx.last_call_request_id == prev_ingredients.last_call_request_id,
        // C22: only the call-result flag can change, and only upwards
        final(soft_limits_triggering).air_size_limit_exceeded == old(soft_limits_triggering).air_size_limit_exceeded,
        final(soft_limits_triggering).particle_size_limit_exceeded == old(soft_limits_triggering).particle_size_limit_exceeded,
        old(soft_limits_triggering).call_result_size_limit_exceeded ==> final(soft_limits_triggering).call_result_size_limit_exceeded,
        // hard mode: an oversized call result is an error of the matching kind
        (r matches Err(e) && e.is_call_result_size()) ==> run_parameters.hard_limit_enabled && final(soft_limits_triggering).call_result_size_limit_exceeded,
        (r is Ok && !run_parameters.hard_limit_enabled && !old(soft_limits_triggering).call_result_size_limit_exceeded)
            ==> exists|c: CallResults| final(soft_limits_triggering).call_result_size_limit_exceeded == #[trigger] any_result_over(c, run_parameters.call_result_size_limit),
//@ end

//@ lift air/src/preparation_step/preparation.rs :: fn prepare
//@ props C06 C22
//@ ret r
//@ sig 1 "pub(crate) fn prepare<'i>(" => "pub fn prepare("
//@ sig 1 "raw_air: &'i str" => "raw_air: &AirStr"
//@ sig 1 "PreparationResult<PreparationDescriptor<'static, 'i>>" => "PreparationResult<PreparationDescriptor>"
//@ rewrite 1 "let air: Instruction<'i> = air_parser::parse(raw_air).map_err(PreparationError::AIRParseError)?;" => "let air: Instruction = air_parser::parse(raw_air).map_err(|e: ParseErr| -> (o: PreparationError) { PreparationError::air_parse_error(e) })?;"
//@ rewrite 1 "KeyFormat::try_from(run_parameters.key_format).map_err(KeyError::from)?" => "KeyFormat::try_from_u8(run_parameters.key_format).map_err(|e: KeyError| -> (o: PreparationError) { PreparationError::from_key_error(e) })?"
//@ rewrite 1 "KeyPair::from_secret_key(run_parameters.secret_key_bytes, key_format)?" => "KeyPair::from_secret_key(run_parameters.secret_key_bytes, key_format).map_err(|e: KeyError| -> (o: PreparationError) { PreparationError::from_key_error(e) })?"
//@ spec
    ensures
        // C06.V3: the request-id counter handed to the execution is the PREVIOUS data's, whatever the current data says
        r matches Ok(d) ==> d.exec_ctx.last_call_request_id == prev_data.last_call_request_id,
        final(soft_limits_triggering).air_size_limit_exceeded == old(soft_limits_triggering).air_size_limit_exceeded,
        final(soft_limits_triggering).particle_size_limit_exceeded == old(soft_limits_triggering).particle_size_limit_exceeded,
//@ end

pub mod farewell {
    pub use super::from_uncatchable_error;
    pub use super::from_success_result;
    pub use super::from_execution_error;
}

// the outcome of a failed run (C02, first sentence)
pub open spec fn prev_data_outcome(o: InterpreterOutcome, raw_prev_data: Vec<u8>) -> bool {
    &&& o.data@ == raw_prev_data@
    &&& o.next_peer_pks@.len() == 0
    &&& exists|c: CallRequests| c.is_empty_map() && #[trigger] ser_call_requests(c) == o.call_requests@
    &&& (is_preparation_code(o.ret_code) || is_uncatchable_code(o.ret_code))
}
// "new, decodable data": the data is the serialization of an envelope
pub open spec fn has_new_data(o: InterpreterOutcome) -> bool {
    exists|env: InterpreterDataEnvelope| #[trigger] ser_envelope(env) == o.data@
}

//@ lift air/src/runner.rs :: fn execute_air_impl
//@ props C02 C14 C21 C22
//@ ret res
//@ expand farewell_if_fail crates/air-lib/utils/src/lib.rs
//@ sig 1 "air: String" => "air: AirStr"
//@ rewrite 1 "use crate::preparation_step::check_against_size_limits;" => ""
//@ spec
    requires params.wf()
    ensures
        // C02: a failed run (preparation / uncatchable) returns exactly the previous data, no next peers, no
        // call requests; everything else returns new data with code 0, 30000 or a catchable code.
        // (`internal_failure_outcome`: internal failure of the farewell step itself, see populate_outcome_from_contexts)
        res matches Err(o) ==> prev_data_outcome(o, raw_prev_data)
            || (is_catchable_code(o.ret_code) && has_new_data(o)) || internal_failure_outcome(o),
        res matches Ok(o) ==> ((o.ret_code == 0 || o.ret_code == FAREWELL_CODE()) && has_new_data(o)) || internal_failure_outcome(o),
        // C22.V3: the size flags of the check reach every outcome unchanged
        ({
            let ao = air.byte_len() as u64 > params.air_size_limit;
            let po = raw_current_data@.len() as u64 > params.particle_size_limit;
            let o = match res { Ok(o) => o, Err(o) => o };
            &&& (params.hard_limit_enabled && (ao || po)) ==> res is Err && prev_data_outcome(o, raw_prev_data) && is_preparation_code(o.ret_code)
                    && !o.air_size_limit_exceeded && !o.particle_size_limit_exceeded
            &&& !(params.hard_limit_enabled && (ao || po)) ==> o.air_size_limit_exceeded == ao && o.particle_size_limit_exceeded == po
        }),
//@ end

} // verus!
impl core::fmt::Debug for SerializeErr { fn fmt(&self, _f: &mut core::fmt::Formatter<'_>) -> core::fmt::Result { Ok(()) } }
fn main() {}
