//@ unit call_merger
// The per-state join of two call states (trace-handler/merger/call_merger.rs + call_merger/utils.rs),
// verified on the lifted text against a `join` written from the property statements (C05 C07 C08 C09).
//
// Trusted part of this file:
//  * CID<T> shim: the real `CID<T>(Rc<str>, PhantomData)` compares its string; here the string is an
//    abstract id and `==` is id equality.
//  * the `PartialEqSpecImpl`s for the lifted enums: the real `#[derive(PartialEq)]` is kept on the lifted
//    text, Verus gives a derived `eq` no specification, so its meaning (variant-wise, field-wise `==`,
//    which is what the language defines for the derive) is stated here.
//  * opaque payload types that only occur inside error values (ExecutedState, KeeperError, ApResult,
//    FoldResult, TracePos, CanonResultCidAggregate), ServiceResultCidAggregate / JValue (only type
//    parameters of CID).
use vstd::prelude::*;
verus! {

use std::rc::Rc;

// ---------------------------------------------------------------- shim: CID (trusted)
pub struct CID<T> { pub id: u64, pub ph: core::marker::PhantomData<T> }
impl<T> Clone for CID<T> {
    fn clone(&self) -> (r: Self) ensures r == *self { CID { id: self.id, ph: core::marker::PhantomData } }
}
impl<T> PartialEq for CID<T> { fn eq(&self, o: &Self) -> bool { self.id == o.id } }
impl<T> Eq for CID<T> {}
impl<T> vstd::std_specs::cmp::PartialEqSpecImpl<CID<T>> for CID<T> {
    open spec fn obeys_eq_spec() -> bool { true }
    open spec fn eq_spec(&self, o: &CID<T>) -> bool { self.id == o.id }
}

// ---------------------------------------------------------------- shim: opaque payloads (trusted)
pub struct ServiceResultCidAggregate { pub opaque: u8 }
pub struct JValue { pub opaque: u8 }
pub struct CanonResultCidAggregate { pub opaque: u8 }
pub struct ExecutedState { pub opaque: u8 }
pub struct KeeperError { pub opaque: u8 }
pub struct ApResult { pub opaque: u8 }
pub struct FoldResult { pub opaque: u8 }
pub struct TracePos { pub opaque: u32 }

// ---------------------------------------------------------------- lifted data types
//@ lift crates/air-lib/interpreter-data/src/generation_idx.rs :: type GenerationIdxType
//@ end
//@ lift crates/air-lib/interpreter-data/src/generation_idx.rs :: struct GenerationIdx
//@ derive Copy Clone PartialEq Eq
//@ end
//@ lift crates/air-lib/interpreter-data/src/executed_state.rs :: enum Sender
//@ derive Clone PartialEq Eq
//@ end
//@ lift crates/air-lib/interpreter-data/src/executed_state.rs :: enum ValueRef
//@ derive Clone PartialEq Eq
//@ end
//@ lift crates/air-lib/interpreter-data/src/executed_state.rs :: enum CallResult
//@ derive Clone PartialEq Eq
//@ end
//@ lift crates/air-lib/interpreter-data/src/executed_state.rs :: enum CanonResult
//@ derive Clone PartialEq Eq
//@ end
//@ lift crates/air-lib/trace-handler/src/merger/position_mapping.rs :: enum PreparationScheme
//@ derive Copy Clone
//@ end
//@ lift crates/air-lib/trace-handler/src/merger/errors.rs :: enum DataType
//@ derive Copy Clone
//@ end
//@ lift crates/air-lib/trace-handler/src/merger/errors.rs :: enum ApResultError
//@ end
//@ lift crates/air-lib/trace-handler/src/merger/errors.rs :: enum CallResultError
//@ end
//@ lift crates/air-lib/trace-handler/src/merger/errors.rs :: enum CanonResultError
//@ end
//@ lift crates/air-lib/trace-handler/src/merger/errors.rs :: enum FoldResultError
//@ end
//@ lift crates/air-lib/trace-handler/src/merger/errors.rs :: enum MergeError
//@ end
//@ lift crates/air-lib/trace-handler/src/merger/mod.rs :: type MergeResult
//@ end
//@ lift crates/air-lib/trace-handler/src/merger/mod.rs :: enum ValueSource
//@ derive Copy Clone
//@ end

// ---------------------------------------------------------------- meaning of the derived `==` (trusted)
pub open spec fn sender_eq(x: Sender, y: Sender) -> bool {
    match (x, y) {
        (Sender::PeerId(a), Sender::PeerId(b)) => a@ == b@,
        (Sender::PeerIdWithCallId { peer_id: a, call_id: c }, Sender::PeerIdWithCallId { peer_id: b, call_id: d }) =>
            a@ == b@ && c == d,
        _ => false,
    }
}
pub open spec fn vref_eq(x: ValueRef, y: ValueRef) -> bool {
    match (x, y) {
        (ValueRef::Scalar(a), ValueRef::Scalar(b)) => a.id == b.id,
        (ValueRef::Stream { cid: a, generation: g }, ValueRef::Stream { cid: b, generation: h }) => a.id == b.id && g == h,
        (ValueRef::Unused(a), ValueRef::Unused(b)) => a.id == b.id,
        _ => false,
    }
}
pub open spec fn call_eq(x: CallResult, y: CallResult) -> bool {
    match (x, y) {
        (CallResult::RequestSentBy(a), CallResult::RequestSentBy(b)) => sender_eq(a, b),
        (CallResult::Executed(a), CallResult::Executed(b)) => vref_eq(a, b),
        (CallResult::Failed(a), CallResult::Failed(b)) => a.id == b.id,
        _ => false,
    }
}
impl vstd::std_specs::cmp::PartialEqSpecImpl<GenerationIdx> for GenerationIdx {
    open spec fn obeys_eq_spec() -> bool { true }
    open spec fn eq_spec(&self, o: &GenerationIdx) -> bool { *self == *o }
}
impl vstd::std_specs::cmp::PartialEqSpecImpl<Sender> for Sender {
    open spec fn obeys_eq_spec() -> bool { true }
    open spec fn eq_spec(&self, o: &Sender) -> bool { sender_eq(*self, *o) }
}
impl vstd::std_specs::cmp::PartialEqSpecImpl<ValueRef> for ValueRef {
    open spec fn obeys_eq_spec() -> bool { true }
    open spec fn eq_spec(&self, o: &ValueRef) -> bool { vref_eq(*self, *o) }
}
impl vstd::std_specs::cmp::PartialEqSpecImpl<CallResult> for CallResult {
    open spec fn obeys_eq_spec() -> bool { true }
    open spec fn eq_spec(&self, o: &CallResult) -> bool { call_eq(*self, *o) }
}

// ---------------------------------------------------------------- the join, from the property statements
// Information order on call states: `sent ⊑ result`. A result is Executed or Failed. Two results are
// comparable only when they are the same result by content id: same kind, same CID; for values stored in a
// stream the generation number may differ (the exception C08 grants); the senders of two pending requests
// may differ (ditto).
pub open spec fn is_sent(c: CallResult) -> bool { c is RequestSentBy }
pub open spec fn is_result(c: CallResult) -> bool { !(c is RequestSentBy) }

pub open spec fn vref_eqv(a: ValueRef, b: ValueRef) -> bool {
    match (a, b) {
        (ValueRef::Scalar(x), ValueRef::Scalar(y)) => x.id == y.id,
        (ValueRef::Stream { cid: x, .. }, ValueRef::Stream { cid: y, .. }) => x.id == y.id,
        (ValueRef::Unused(x), ValueRef::Unused(y)) => x.id == y.id,
        _ => false,
    }
}
// the same result by content
pub open spec fn res_eqv(a: CallResult, b: CallResult) -> bool {
    match (a, b) {
        (CallResult::Executed(x), CallResult::Executed(y)) => vref_eqv(x, y),
        (CallResult::Failed(x), CallResult::Failed(y)) => x.id == y.id,
        _ => false,
    }
}
// equality of call states up to what C08 allows to differ: who sent a pending request, stream generations
pub open spec fn eqv(a: CallResult, b: CallResult) -> bool {
    (is_sent(a) && is_sent(b)) || res_eqv(a, b)
}
pub open spec fn opt_eqv(a: Option<CallResult>, b: Option<CallResult>) -> bool {
    match (a, b) {
        (Some(x), Some(y)) => eqv(x, y),
        (None, None) => true,
        _ => false,
    }
}
// content id of a result, with the kind of the result
pub enum ResultId { None, Scalar(u64), Stream(u64), Unused(u64), Failed(u64) }
pub open spec fn result_id(c: CallResult) -> ResultId {
    match c {
        CallResult::RequestSentBy(_) => ResultId::None,
        CallResult::Executed(ValueRef::Scalar(x)) => ResultId::Scalar(x.id),
        CallResult::Executed(ValueRef::Stream { cid: x, .. }) => ResultId::Stream(x.id),
        CallResult::Executed(ValueRef::Unused(x)) => ResultId::Unused(x.id),
        CallResult::Failed(x) => ResultId::Failed(x.id),
    }
}
// least upper bound of the previous (a) and the current (b) state; None = the data are inconsistent.
// Where the two states carry the same information the previous one is kept (C07: nothing changes).
pub open spec fn join(a: CallResult, b: CallResult) -> Option<CallResult> {
    if is_sent(b) {
        Some(a)
    } else if is_sent(a) {
        Some(b)
    } else if res_eqv(a, b) {
        Some(a)
    } else {
        None
    }
}
pub open spec fn join_opt(a: Option<CallResult>, b: Option<CallResult>) -> Option<CallResult> {
    match (a, b) {
        (Some(x), Some(y)) => join(x, y),
        _ => None,
    }
}

// ---------------------------------------------------------------- lifted code
impl CallResultError {
//@ lift crates/air-lib/trace-handler/src/merger/errors.rs :: impl CallResultError :: fn not_equal_values
//@ props C05 C07 C08 C09
//@ ret r
//@ spec
        ensures r is IncorrectCallResult
//@ end

//@ lift crates/air-lib/trace-handler/src/merger/errors.rs :: impl CallResultError :: fn incompatible_calls
//@ props C05 C07 C08 C09
//@ ret r
//@ spec
        ensures r is IncorrectCallResult
//@ end
}

//@ lift crates/air-lib/trace-handler/src/merger/call_merger/utils.rs :: fn are_scalars_equal
//@ props C05 C07 C08 C09
//@ ret r
//@ spec
    ensures r is Ok <==> vref_eq(*prev_value, *current_value), r matches Err(e) ==> e is IncorrectCallResult
//@ end

//@ lift crates/air-lib/trace-handler/src/merger/call_merger/utils.rs :: fn are_streams_equal
//@ props C05 C07 C08 C09
//@ ret r
//@ spec
    ensures r is Ok <==> prev_result_value.id == current_result_value.id, r matches Err(e) ==> e is IncorrectCallResult
//@ end

//@ lift crates/air-lib/trace-handler/src/merger/call_merger/utils.rs :: fn check_equal
//@ props C05 C07 C08 C09
//@ ret r
//@ spec
    ensures r is Ok <==> call_eq(*prev_call, *current_call), r matches Err(e) ==> e is IncorrectCallResult
//@ end

//@ lift crates/air-lib/trace-handler/src/merger/call_merger/utils.rs :: fn merge_executed
//@ props C05 C07 C08 C09 C12
//@ ret r
//@ spec
    ensures
        // two values merge iff they are the same value by content (stream generations may differ)
        r is Ok <==> vref_eqv(prev_value, current_value),
        r is Ok <==> join(CallResult::Executed(prev_value), CallResult::Executed(current_value)) is Some,
        // and the previous one is kept
        r matches Ok(c) ==> c == CallResult::Executed(prev_value),
        r matches Ok(c) ==> join(CallResult::Executed(prev_value), CallResult::Executed(current_value)) == Some(c),
        r matches Err(e) ==> e is IncorrectCallResult,
//@ end

//@ lift crates/air-lib/trace-handler/src/merger/call_merger.rs :: fn merge_call_results
//@ props C05 C06 C07 C08 C09 C12
//@ ret r
//@ spec
    ensures
        // the code computes the join
        r is Ok <==> join(prev_call, current_call) is Some,
        r matches Ok((m, _)) ==> join(prev_call, current_call) == Some(m),
        // spelled out (DESIGN.md App. B): the result is one of the inputs; a result beats a pending request;
        // two pending requests keep the previous one; two results merge iff they are the same result
        r matches Ok((m, _)) ==> (m == prev_call || m == current_call),
        r matches Ok((m, _)) ==> (is_result(prev_call) ==> m == prev_call),
        r matches Ok((m, _)) ==> (is_sent(prev_call) && is_result(current_call) ==> m == current_call),
        r matches Ok((m, _)) ==> (is_sent(prev_call) && is_sent(current_call) ==> m == prev_call),
        r is Err <==> (is_result(prev_call) && is_result(current_call) && !res_eqv(prev_call, current_call)),
        r matches Err(e) ==> e is IncorrectCallResult,
        // the scheme tells where the merged state was taken from: the current data iff only they had a result
        r matches Ok((_, s)) ==> (s is Current <==> (is_sent(prev_call) && is_result(current_call))),
        r matches Ok((_, s)) ==> (s is Both ==> (prev_call is Executed && current_call is Executed)),
//@ end

// where the instruction has to look the merged value up: in the current data iff it was taken from there.
// (`From` is an external trait: its contract is `r == from_spec(scheme)`, checked on the lifted body.)
impl vstd::std_specs::convert::FromSpecImpl<PreparationScheme> for ValueSource {
    open spec fn obeys_from_spec() -> bool { true }
    open spec fn from_spec(scheme: PreparationScheme) -> ValueSource {
        if scheme is Current { ValueSource::CurrentData } else { ValueSource::PreviousData }
    }
}
impl From<PreparationScheme> for ValueSource {
//@ lift crates/air-lib/trace-handler/src/merger/call_merger.rs :: impl From<PreparationScheme> for ValueSource :: fn from
//@ props C05 C09 C12 C13
//@ end
}

// ---------------------------------------------------------------- laws of the join (no code involved)
//@ lemma join_idempotent props C07
pub proof fn join_idempotent(x: CallResult)
    ensures join(x, x) == Some(x)
{
}
//@ end

//@ lemma join_absorbs props C07
// re-delivering either input to the merged state changes nothing
pub proof fn join_absorbs(a: CallResult, b: CallResult, c: CallResult)
    requires join(a, b) == Some(c)
    ensures join(c, b) == Some(c), join(c, a) == Some(c), join(c, c) == Some(c)
{
}
//@ end

//@ lemma eqv_is_equivalence props C08
pub proof fn eqv_is_equivalence(a: CallResult, b: CallResult, c: CallResult)
    ensures
        eqv(a, a),
        eqv(a, b) ==> eqv(b, a),
        eqv(a, b) && eqv(b, c) ==> eqv(a, c),
        // eqv never identifies different knowledge: same kind of state, same content id
        eqv(a, b) ==> result_id(a) == result_id(b),
        result_id(a) == result_id(b) ==> eqv(a, b),
{
}
//@ end

//@ lemma join_commutative props C08
// order of arrival: same knowledge, errors symmetric
pub proof fn join_commutative(a: CallResult, b: CallResult)
    ensures
        opt_eqv(join(a, b), join(b, a)),
        join(a, b) is None <==> join(b, a) is None,
{
}
//@ end

//@ lemma join_associative props C08
// grouping of arrival: same knowledge, errors at the same inputs
pub proof fn join_associative(a: CallResult, b: CallResult, c: CallResult)
    ensures
        opt_eqv(join_opt(join(a, b), Some(c)), join_opt(Some(a), join(b, c))),
        join_opt(join(a, b), Some(c)) is None <==> join_opt(Some(a), join(b, c)) is None,
{
}
//@ end

//@ lemma join_respects_eqv props C08
// join is a function on knowledge: equivalent inputs give equivalent outputs
pub proof fn join_respects_eqv(a: CallResult, a2: CallResult, b: CallResult, b2: CallResult)
    requires eqv(a, a2), eqv(b, b2)
    ensures opt_eqv(join(a, b), join(a2, b2))
{
}
//@ end

//@ lemma join_keeps_results props C09 C05
// a result present on either side is in the merged state, with its content id; the previous one is kept verbatim
pub proof fn join_keeps_results(a: CallResult, b: CallResult)
    ensures
        join(a, b) matches Some(m) ==> (is_result(a) || is_result(b) ==> is_result(m)),
        join(a, b) matches Some(m) ==> (is_result(a) ==> m == a),
        join(a, b) matches Some(m) ==> (is_result(b) ==> result_id(m) == result_id(b)),
        join(a, b) matches Some(m) ==> (is_result(b) && is_sent(a) ==> m == b),
        // a merge can only fail on two results with different content
        join(a, b) is None ==> is_result(a) && is_result(b) && result_id(a) != result_id(b),
{
}
//@ end

//@ lemma join_keeps_pending_request props C05 C06 C07
// a pending request (in particular the peer's own PeerIdWithCallId) survives merging with anybody's sent_by,
// so the call is not requested again
pub proof fn join_keeps_pending_request(s: Sender, t: Sender)
    ensures join(CallResult::RequestSentBy(s), CallResult::RequestSentBy(t)) == Some(CallResult::RequestSentBy(s))
{
}
//@ end

//@ lemma merge_call_results_is_join props C05 C07 C08 C09
// link: any function with the contract of the lifted `merge_call_results` is the join
pub proof fn merge_call_results_is_join(p: CallResult, c: CallResult, r: MergeResult<(CallResult, PreparationScheme)>)
    requires
        r matches Ok((m, _)) ==> (m == p || m == c),
        r matches Ok((m, _)) ==> (is_result(p) ==> m == p),
        r matches Ok((m, _)) ==> (is_sent(p) && is_result(c) ==> m == c),
        r matches Ok((m, _)) ==> (is_sent(p) && is_sent(c) ==> m == p),
        r is Err <==> (is_result(p) && is_result(c) && !res_eqv(p, c)),
    ensures
        r is Ok <==> join(p, c) is Some,
        r matches Ok((m, _)) ==> join(p, c) == Some(m),
{
}
//@ end

} // verus!
fn main() {}
