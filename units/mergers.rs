//@ unit mergers
//@ verus-flags --no-erasure-check
// (--no-erasure-check: see slider.rs -- the TracePos shim's AddAssignSpecImpl trips Verus' erasure pass after verification)
// The merger layer of crates/air-lib/trace-handler: merger/{call,ap,par,canon,fold}_merger.rs `try_merge_next_state_as_*`,
// merger/position_mapping.rs, merger/errors.rs `MergeError::incompatible_states`, data_keeper/keeper.rs.
// All states handed out by the two sliders are hostile (current data): no precondition on them.
//
// Trusted part of this file: the TracePos shim (verbatim from slider.rs, plus `Sub<u32>` from NewtypeSub!{(PosType)});
// the CID<T> shim (verbatim from call_merger.rs); ExecutionTrace as a newtype over Vec with the real method bodies'
// meaning stated on its view; `Clone for ExecutedState` = the derived clone returns an equal value; BiHashMap as an opaque
// type with a ghost set of pairs and bimap's documented `insert` (pairs sharing the left or the right value are evicted);
// the From impls thiserror's `#[from]` generates; `Default for MergerParResult/ResolvedFold/MergerFoldResult` = the derived one.
use vstd::prelude::*;
verus! {

use std::rc::Rc;

// ---------------------------------------------------------------- shim: TracePos (trusted, verbatim from slider.rs)
#[derive(Copy, Clone, Default)]
pub struct TracePos(pub u32);
impl core::ops::AddAssign<u32> for TracePos { fn add_assign(&mut self, rhs: u32) { self.0 = self.0 + rhs; } }
impl From<u32> for TracePos { fn from(v: u32) -> TracePos { TracePos(v) } }
impl PartialEq for TracePos { fn eq(&self, o: &Self) -> bool { self.0 == o.0 } }
impl PartialOrd for TracePos { fn partial_cmp(&self, o: &Self) -> Option<core::cmp::Ordering> { self.0.partial_cmp(&o.0) } }
impl vstd::std_specs::ops::AddAssignSpecImpl<u32> for TracePos {
    open spec fn obeys_add_assign_spec() -> bool { true }
    open spec fn add_assign_req(&self, rhs: u32) -> bool { self.0 + rhs <= u32::MAX }
    open spec fn add_assign_spec(&self, rhs: u32) -> TracePos { TracePos((self.0 + rhs) as u32) }
}
impl vstd::std_specs::convert::FromSpecImpl<u32> for TracePos {
    open spec fn obeys_from_spec() -> bool { true }
    open spec fn from_spec(v: u32) -> TracePos { TracePos(v) }
}
impl vstd::std_specs::cmp::PartialOrdSpecImpl<TracePos> for TracePos {
    open spec fn obeys_partial_cmp_spec() -> bool { true }
    open spec fn partial_cmp_spec(&self, o: &TracePos) -> Option<core::cmp::Ordering> { if self.0 < o.0 { Some(core::cmp::Ordering::Less) } else if self.0 == o.0 { Some(core::cmp::Ordering::Equal) } else { Some(core::cmp::Ordering::Greater) } }
}
impl vstd::std_specs::cmp::PartialEqSpecImpl<TracePos> for TracePos {
    open spec fn obeys_eq_spec() -> bool { true }
    open spec fn eq_spec(&self, o: &TracePos) -> bool { self.0 == o.0 }
}
// NewtypeSub! { (PosType) pub struct TracePos(PosType); }: `TracePos(self.0 - rhs)`, underflow is a panic
impl vstd::std_specs::ops::SubSpecImpl<u32> for TracePos {
    open spec fn obeys_sub_spec() -> bool { true }
    open spec fn sub_req(self, rhs: u32) -> bool { self.0 >= rhs }
    open spec fn sub_spec(self, rhs: u32) -> TracePos { TracePos((self.0 - rhs) as u32) }
}
impl core::ops::Sub<u32> for TracePos { type Output = TracePos; fn sub(self, rhs: u32) -> TracePos { TracePos(self.0 - rhs) } }

// ---------------------------------------------------------------- shim: CID (trusted, verbatim from call_merger.rs)
pub struct CID<T> { pub id: u64, pub ph: core::marker::PhantomData<T> }
impl<T> Clone for CID<T> {
    fn clone(&self) -> (r: Self) ensures r == *self { CID { id: self.id, ph: core::marker::PhantomData } }
}
impl<T> PartialEq for CID<T> { fn eq(&self, o: &Self) -> bool { self.id == o.id } }
impl<T> Eq for CID<T> {}
impl<T> vstd::std_specs::cmp::PartialEqSpecImpl<CID<T>> for CID<T> {
    open spec fn obeys_eq_spec() -> bool { true }
    open spec fn eq_spec(&self, o: &CID<T>) -> bool { self.id == o.id }
}
pub struct ServiceResultCidAggregate { pub opaque: u8 }
pub struct JValue { pub opaque: u8 }
pub struct CanonResultCidAggregate { pub opaque: u8 }

// ---------------------------------------------------------------- lifted data types (interpreter-data)
pub type TraceLen = u32;
//@ lift crates/air-lib/interpreter-data/src/generation_idx.rs :: type GenerationIdxType
//@ end
//@ lift crates/air-lib/interpreter-data/src/generation_idx.rs :: struct GenerationIdx
//@ derive Copy Clone
//@ end
//@ lift crates/air-lib/interpreter-data/src/executed_state.rs :: enum Sender
//@ derive
//@ end
//@ lift crates/air-lib/interpreter-data/src/executed_state.rs :: enum ValueRef
//@ derive
//@ end
//@ lift crates/air-lib/interpreter-data/src/executed_state.rs :: enum CallResult
//@ derive
//@ end
//@ lift crates/air-lib/interpreter-data/src/executed_state.rs :: enum CanonResult
//@ derive
//@ end
//@ lift crates/air-lib/interpreter-data/src/executed_state.rs :: struct ParResult
//@ derive Clone Copy
//@ end
//@ lift crates/air-lib/interpreter-data/src/executed_state.rs :: struct SubTraceDesc
//@ derive Clone Copy
//@ end
//@ lift crates/air-lib/interpreter-data/src/executed_state.rs :: struct FoldSubTraceLore
//@ derive
//@ end
//@ lift crates/air-lib/interpreter-data/src/executed_state.rs :: type FoldLore
//@ end
//@ lift crates/air-lib/interpreter-data/src/executed_state.rs :: struct FoldResult
//@ derive
//@ end
//@ lift crates/air-lib/interpreter-data/src/executed_state.rs :: struct ApResult
//@ derive
//@ end
//@ lift crates/air-lib/interpreter-data/src/executed_state.rs :: enum ExecutedState
//@ derive
//@ end
// real: `#[derive(Clone)]` on ExecutedState and everything below it
impl Clone for ExecutedState { #[verifier::external_body] fn clone(&self) -> (r: Self) ensures r == *self { unimplemented!() } }

// ---------------------------------------------------------------- shim: ExecutionTrace (trusted; bodies as in interpreter-data/src/trace.rs)
#[derive(Default)]
pub struct ExecutionTrace(pub Vec<ExecutedState>);
impl ExecutionTrace {
    pub open spec fn tr(&self) -> Seq<ExecutedState> { self.0@ }
    // real: `self.0.len().try_into().expect(..)` -- panics above u32::MAX states
    pub fn trace_states_count(&self) -> (r: TraceLen)
        requires self.tr().len() <= u32::MAX
        ensures r == self.tr().len()
    { self.0.len() as u32 }
    // real: `self.0.get(usize::from(index))`
    pub fn get(&self, index: TracePos) -> (r: Option<&ExecutedState>)
        ensures r == (if index.0 < self.tr().len() { Some(&self.tr()[index.0 as int]) } else { None })
    { self.0.get(index.0 as usize) }
    // real: `impl Index<TracePos> for ExecutionTrace` = `&self.0[usize::from(index)]` (panics out of range)
    pub fn at(&self, index: TracePos) -> (r: &ExecutedState)
        requires index.0 < self.tr().len()
        ensures *r == self.tr()[index.0 as int]
    { &self.0[index.0 as usize] }
    // real: `Deref<Target = [ExecutedState]>` + slice `len`
    pub fn len(&self) -> (r: usize) ensures r == self.tr().len() { self.0.len() }
}

// ---------------------------------------------------------------- lifted: merger vocabulary, errors
//@ lift crates/air-lib/trace-handler/src/merger/position_mapping.rs :: enum PreparationScheme
//@ derive Copy Clone
//@ end
//@ lift crates/air-lib/trace-handler/src/merger/errors.rs :: enum DataType
//@ derive Copy Clone
//@ end
//@ lift crates/air-lib/trace-handler/src/data_keeper/errors.rs :: enum KeeperError
//@ derive
//@ end
//@ lift crates/air-lib/trace-handler/src/merger/errors.rs :: enum ApResultError
//@ end
//@ lift crates/air-lib/trace-handler/src/merger/errors.rs :: enum CallResultError
//@ end
//@ lift crates/air-lib/trace-handler/src/merger/errors.rs :: enum CanonResultError
//@ end
//@ lift crates/air-lib/trace-handler/src/merger/errors.rs :: enum FoldResultError
//@ end
//@ lift crates/air-lib/trace-handler/src/merger/errors.rs :: enum MergeError
//@ end
//@ lift crates/air-lib/trace-handler/src/merger/mod.rs :: type MergeResult
//@ end
//@ lift crates/air-lib/trace-handler/src/merger/mod.rs :: enum ValueSource
//@ derive Copy Clone
//@ end
//@ lift crates/air-lib/trace-handler/src/merger/mod.rs :: enum MergeCtxType
//@ derive Copy Clone
//@ end
type KeeperResult<T> = Result<T, KeeperError>;

// which error a kind mismatch must produce (merger/errors.rs doc comments): both states present -> IncompatibleExecutedStates
// with both of them; one present -> DifferentExecutedStateExpected with that state, the side it came from, the expected kind
pub open spec fn mismatch_error(p: Option<ExecutedState>, c: Option<ExecutedState>, expected: &'static str, e: MergeError) -> bool {
    match (p, c) {
        (Some(x), Some(y)) => e == MergeError::IncompatibleExecutedStates(x, y),
        (None, Some(y)) => e == MergeError::DifferentExecutedStateExpected(y, DataType::Current, expected),
        (Some(x), None) => e == MergeError::DifferentExecutedStateExpected(x, DataType::Previous, expected),
        (None, None) => false,
    }
}

impl MergeError {
//@ lift crates/air-lib/trace-handler/src/merger/errors.rs :: impl MergeError :: fn incompatible_states
//@ props C01 C09
//@ ret r
//@ rewrite 1 "unreachable!(\"shouldn't be called with both None\")" => "vstd::pervasive::unreached()"
//@ spec
        // `unreachable!` is a panic: every call site must exclude (None, None)
        requires prev_state is Some || current_state is Some
        ensures mismatch_error(prev_state, current_state, expected_state, r)
//@ end
}

// ---------------------------------------------------------------- slider (data_keeper/trace_slider.rs)
//@ lift crates/air-lib/trace-handler/src/data_keeper/trace_slider.rs :: type SeenElements
//@ end
//@ lift crates/air-lib/trace-handler/src/data_keeper/trace_slider.rs :: struct TraceSlider
//@ derive Default
//@ end

impl TraceSlider {
    // specs: verbatim from slider.rs (with slen() of the trace shim spelled tr().len())
    pub closed spec fn wf(&self) -> bool { self.trace.tr().len() <= u32::MAX && self.seen_elements <= self.subtrace_len }
    pub closed spec fn pos(&self) -> nat { self.position.0 as nat }
    pub closed spec fn slen(&self) -> nat { self.subtrace_len as nat }
    pub closed spec fn seen(&self) -> nat { self.seen_elements as nat }
    pub closed spec fn tlen(&self) -> nat { self.trace.tr().len() }
    pub open spec fn in_window(&self) -> bool { self.pos() + (self.slen() - self.seen()) <= self.tlen() }
    // new here: the content of the trace, and the state the slider hands out next (None: window or trace exhausted)
    pub closed spec fn states(&self) -> Seq<ExecutedState> { self.trace.tr() }
    pub open spec fn exhausted(&self) -> bool { !(self.seen() < self.slen() && self.pos() < self.tlen()) }
    pub open spec fn peek(&self) -> Option<ExecutedState> {
        if self.exhausted() { None } else { Some(self.states()[self.pos() as int]) }
    }
    // one step of the slider: exactly one state consumed iff it is not exhausted; the trace itself is never touched
    pub open spec fn stepped(&self, o: &TraceSlider) -> bool {
        &&& self.wf() && self.tlen() == o.tlen() && self.states() == o.states() && self.slen() == o.slen()
        &&& !o.exhausted() ==> self.pos() == o.pos() + 1 && self.seen() == o.seen() + 1
        &&& o.exhausted() ==> self.pos() == o.pos() && self.seen() == o.seen()
        &&& o.in_window() ==> self.in_window()
    }

// The slider unit proves next_state against a contract that is silent about WHICH state is returned (ExecutedState is an
// opaque tag there), so it cannot be imported with `//@ stub` for contracts that speak about the merged content. It is
// lifted again here: the first seven clauses are the slider unit's contract verbatim, the last three are new.
//@ lift crates/air-lib/trace-handler/src/data_keeper/trace_slider.rs :: impl TraceSlider :: fn next_state
//@ props C01 C09
//@ ret r
//@ rewrite 1 "self.trace[self.position]" => "self.trace.at(self.position)"
//@ spec
        requires old(self).wf()
        ensures final(self).wf(), final(self).tlen() == old(self).tlen(),
            r is Some <==> (old(self).seen() < old(self).slen() && old(self).pos() < old(self).tlen()),
            r is Some ==> final(self).pos() == old(self).pos() + 1 && final(self).seen() == old(self).seen() + 1
                && final(self).slen() == old(self).slen(),
            r is None ==> final(self).pos() == old(self).pos() && final(self).seen() == old(self).seen()
                && final(self).slen() == old(self).slen(),
            old(self).in_window() ==> final(self).in_window(),
            // content: the state handed out is the one at the old position; the trace is not modified
            r == old(self).peek(),
            final(self).states() == old(self).states(),
            final(self).stepped(old(self)),
//@ end

//@ lift crates/air-lib/trace-handler/src/data_keeper/trace_slider.rs :: impl TraceSlider :: fn position
//@ props C01 C09
//@ ret r
//@ spec
        ensures r.0 == self.pos()
//@ end
}

// ---------------------------------------------------------------- keeper (data_keeper/keeper.rs, merge_ctx.rs)
// bimap::BiHashMap: a set of pairs, injective both ways; `insert` evicts the pairs that share the left or the right value
#[verifier::external_body]
#[verifier::reject_recursive_types(K)]
#[verifier::reject_recursive_types(V)]
pub struct BiHashMap<K, V> { k: core::marker::PhantomData<(K, V)> }
pub open spec fn bimap_insert<K, V>(s: Set<(K, V)>, left: K, right: V) -> Set<(K, V)> {
    s.filter(|p: (K, V)| p.0 != left && p.1 != right).insert((left, right))
}
impl<K, V> BiHashMap<K, V> {
    pub uninterp spec fn pairs(&self) -> Set<(K, V)>;
    #[verifier::external_body]
    pub fn insert(&mut self, left: K, right: V)
        ensures final(self).pairs() == bimap_insert(old(self).pairs(), left, right)
    { unimplemented!() }
}
//@ lift crates/air-lib/trace-handler/src/data_keeper/merge_ctx.rs :: struct MergeCtx
//@ derive
//@ end
//@ lift crates/air-lib/trace-handler/src/data_keeper/keeper.rs :: struct DataKeeper
//@ derive
//@ end

impl DataKeeper {
    pub open spec fn rlen(&self) -> nat { self.result_trace.tr().len() }
    // type-level invariant: slider invariants (slider.rs) and a result trace that still has a u32 position
    pub open spec fn wf(&self) -> bool { self.prev_ctx.slider.wf() && self.current_ctx.slider.wf() && self.rlen() <= u32::MAX }

//@ lift crates/air-lib/trace-handler/src/data_keeper/keeper.rs :: impl DataKeeper :: fn result_states_count
//@ props C01
//@ ret r
//@ spec
        ensures r == self.rlen()
//@ end

//@ lift crates/air-lib/trace-handler/src/data_keeper/keeper.rs :: impl DataKeeper :: fn result_trace_next_pos
//@ props C01 C09
//@ ret r
//@ spec
        requires self.rlen() <= u32::MAX     // the real trace_states_count() `expect`s this
        ensures r.0 == self.rlen()
//@ end

//@ lift crates/air-lib/trace-handler/src/data_keeper/keeper.rs :: impl DataKeeper :: fn prev_slider
//@ props C01 C09
//@ ret r
//@ spec
        ensures *r == self.prev_ctx.slider
//@ end

//@ lift crates/air-lib/trace-handler/src/data_keeper/keeper.rs :: impl DataKeeper :: fn current_slider
//@ props C01 C09
//@ ret r
//@ spec
        ensures *r == self.current_ctx.slider
//@ end

// contracts as in fold_state.rs, plus the frame on the fields that exist here
//@ lift crates/air-lib/trace-handler/src/data_keeper/keeper.rs :: impl DataKeeper :: fn prev_slider_mut
//@ props C01 C09
//@ ret r
//@ spec
        ensures *r == old(self).prev_ctx.slider, final(self).prev_ctx.slider == *final(r),
            final(self).current_ctx == old(self).current_ctx,
            final(self).new_to_prev_pos == old(self).new_to_prev_pos, final(self).new_to_current_pos == old(self).new_to_current_pos,
            final(self).result_trace == old(self).result_trace,
//@ end

//@ lift crates/air-lib/trace-handler/src/data_keeper/keeper.rs :: impl DataKeeper :: fn current_slider_mut
//@ props C01 C09
//@ ret r
//@ spec
        ensures *r == old(self).current_ctx.slider, final(self).current_ctx.slider == *final(r),
            final(self).prev_ctx == old(self).prev_ctx,
            final(self).new_to_prev_pos == old(self).new_to_prev_pos, final(self).new_to_current_pos == old(self).new_to_current_pos,
            final(self).result_trace == old(self).result_trace,
//@ end
}

// ---------------------------------------------------------------- what every try_merge_next_state_as_* does to the keeper
// C09.K2: exactly one state is consumed from each slider that is not exhausted -- whatever the outcome (Ok, NotMet, Err) --
// the traces and the result trace are untouched
pub open spec fn both_stepped(o: &DataKeeper, a: &DataKeeper) -> bool {
    &&& a.prev_ctx.slider.stepped(&o.prev_ctx.slider)
    &&& a.current_ctx.slider.stepped(&o.current_ctx.slider)
    &&& a.result_trace == o.result_trace
}
pub open spec fn maps_kept(o: &DataKeeper, a: &DataKeeper) -> bool {
    a.new_to_prev_pos == o.new_to_prev_pos && a.new_to_current_pos == o.new_to_current_pos
}
// the new-position -> old-position bookkeeping (position_mapping.rs): the state that is about to be appended to the
// result trace (at rlen) came from the position the slider(s) just left
pub open spec fn mapped(before: BiHashMap<TracePos, TracePos>, after: BiHashMap<TracePos, TracePos>, new_pos: nat, old_pos: nat) -> bool {
    after.pairs() == bimap_insert(before.pairs(), TracePos(new_pos as u32), TracePos(old_pos as u32))
}
pub open spec fn maps_prepared(o: &DataKeeper, a: &DataKeeper, scheme: PreparationScheme) -> bool {
    &&& (scheme is Previous || scheme is Both) ==> mapped(o.new_to_prev_pos, a.new_to_prev_pos, o.rlen(), (a.prev_ctx.slider.pos() - 1) as nat)
    &&& scheme is Current ==> a.new_to_prev_pos == o.new_to_prev_pos
    &&& (scheme is Current || scheme is Both) ==> mapped(o.new_to_current_pos, a.new_to_current_pos, o.rlen(), (a.current_ctx.slider.pos() - 1) as nat)
    &&& scheme is Previous ==> a.new_to_current_pos == o.new_to_current_pos
}

//@ lift crates/air-lib/trace-handler/src/merger/position_mapping.rs :: fn prepare_positions_mapping
//@ props C01 C09
//@ spec
    requires
        old(data_keeper).rlen() <= u32::MAX,
        // call-site facts: a slider the scheme names has just handed out a state, so its position is >= 1
        // (else `position() - 1` is an overflow panic)
        (scheme is Previous || scheme is Both) ==> old(data_keeper).prev_ctx.slider.pos() >= 1,
        (scheme is Current || scheme is Both) ==> old(data_keeper).current_ctx.slider.pos() >= 1,
    ensures
        final(data_keeper).prev_ctx == old(data_keeper).prev_ctx, final(data_keeper).current_ctx == old(data_keeper).current_ctx,
        final(data_keeper).result_trace == old(data_keeper).result_trace,
        maps_prepared(old(data_keeper), final(data_keeper), scheme),
//@ end

// ================================================================ par (merger/par_merger.rs)
//@ lift crates/air-lib/trace-handler/src/merger/par_merger.rs :: struct MergerParResult
//@ derive Copy Clone
//@ end
// real: `#[derive(Default)]`
impl Default for MergerParResult {
    fn default() -> (r: Self) ensures r.prev_par is None && r.current_par is None { MergerParResult { prev_par: None, current_par: None } }
}
use ExecutedState::Par;

impl MergerParResult {
//@ lift crates/air-lib/trace-handler/src/merger/par_merger.rs :: impl MergerParResult :: fn from_pars
//@ props C01 C09
//@ ret r
//@ spec
        ensures r.prev_par == Some(prev_par), r.current_par == Some(current_par)
//@ end
//@ lift crates/air-lib/trace-handler/src/merger/par_merger.rs :: impl MergerParResult :: fn from_prev_par
//@ props C01 C09
//@ ret r
//@ spec
        ensures r.prev_par == Some(prev_par), r.current_par is None
//@ end
//@ lift crates/air-lib/trace-handler/src/merger/par_merger.rs :: impl MergerParResult :: fn from_current_par
//@ props C01 C09
//@ ret r
//@ spec
        ensures r.prev_par is None, r.current_par == Some(current_par)
//@ end
}

// a slider's next state, as a par: absent / a par / something else
pub open spec fn par_of(s: Option<ExecutedState>) -> Option<ParResult> {
    match s { Some(ExecutedState::Par(p)) => Some(p), _ => None }
}
pub open spec fn par_or_none(s: Option<ExecutedState>) -> bool { s is None || s->Some_0 is Par }

//@ lift crates/air-lib/trace-handler/src/merger/par_merger.rs :: fn try_merge_next_state_as_par
//@ props C01 C09
//@ ret r
//@ spec
    requires old(data_keeper).wf()        // nothing about the states the sliders hand out: they are hostile
    ensures
        final(data_keeper).wf(), both_stepped(old(data_keeper), final(data_keeper)), maps_kept(old(data_keeper), final(data_keeper)),
        // Ok iff every present state is a Par; each par is handed on verbatim, on its own side
        r is Ok <==> par_or_none(old(data_keeper).prev_ctx.slider.peek()) && par_or_none(old(data_keeper).current_ctx.slider.peek()),
        r matches Ok(m) ==> m.prev_par == par_of(old(data_keeper).prev_ctx.slider.peek())
            && m.current_par == par_of(old(data_keeper).current_ctx.slider.peek()),
        // a kind mismatch is an error naming the offending state(s), never a panic
        r matches Err(e) ==> mismatch_error(old(data_keeper).prev_ctx.slider.peek(), old(data_keeper).current_ctx.slider.peek(), "par", e),
//@ end

} // verus!
fn main() {}
